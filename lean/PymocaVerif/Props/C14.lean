/-! # C14 — property theorems (stub: not built yet) -/
