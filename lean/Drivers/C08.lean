import Drivers.Proto
import PymocaVerif.Model.FlattenJson
/-! Driver for C08: same front end as C07 (`flatten`), plus `respell` (the `toNested` / `toDotted`
    respellings the spelling-invariance theorems are about) and `desugar`. -/
def main : IO Unit := Drivers.serve PymocaVerif.Flatten.J.handle
