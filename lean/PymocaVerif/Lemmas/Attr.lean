import PymocaVerif.Model.Attr
import Mathlib.Tactic.Ring
import Mathlib.Tactic.Linarith
/-!
Helper lemmas for C13: expressions (constants, the affine rebuild `J(0)·p + f(0)`, linearity of
`J(0)·p`), coercion, and the layout of the metadata columns.
-/
namespace PymocaVerif.Attr

/-! ## Expressions -/
namespace E

/-- a parameter-free expression has the same value everywhere -/
theorem eval_const (e : E) (h : e.const = true) (p q : Nat → Rat) : e.eval p = e.eval q := by
  induction e with
  | num _ => rfl
  | par _ _ => simp [const] at h
  | neg a ih => simp only [const] at h; simp [eval, ih h]
  | abs a ih => simp only [const] at h; simp [eval, ih h]
  | add a b iha ihb => simp only [const, Bool.and_eq_true] at h; simp [eval, iha h.1, ihb h.2]
  | sub a b iha ihb => simp only [const, Bool.and_eq_true] at h; simp [eval, iha h.1, ihb h.2]
  | mul a b iha ihb => simp only [const, Bool.and_eq_true] at h; simp [eval, iha h.1, ihb h.2]
  | div a b iha ihb => simp only [const, Bool.and_eq_true] at h; simp [eval, iha h.1, ihb h.2]
  | max a b iha ihb => simp only [const, Bool.and_eq_true] at h; simp [eval, iha h.1, ihb h.2]
  | min a b iha ihb => simp only [const, Bool.and_eq_true] at h; simp [eval, iha h.1, ihb h.2]
  | ite _ _ _ _ _ => simp [const] at h

/-- the directional derivative of a parameter-free affine expression vanishes -/
theorem jvp0_const (e : E) (hc : e.const = true) (ha : e.affine = true) (p : Nat → Rat) : e.jvp0 p = 0 := by
  induction e with
  | num _ => rfl
  | par _ _ => simp [const] at hc
  | neg a ih => simp only [const] at hc; simp only [affine] at ha; simp [jvp0, ih hc ha]
  | abs a _ => rfl
  | add a b iha ihb =>
    simp only [const, Bool.and_eq_true] at hc; simp only [affine, Bool.and_eq_true] at ha
    simp [jvp0, iha hc.1 ha.1, ihb hc.2 ha.2]
  | sub a b iha ihb =>
    simp only [const, Bool.and_eq_true] at hc; simp only [affine, Bool.and_eq_true] at ha
    simp [jvp0, iha hc.1 ha.1, ihb hc.2 ha.2]
  | mul a b iha ihb =>
    simp only [const, Bool.and_eq_true] at hc; simp only [affine, Bool.and_eq_true] at ha
    simp [jvp0, iha hc.1 ha.1.1, ihb hc.2 ha.1.2]
  | div a b iha ihb =>
    simp only [const, Bool.and_eq_true] at hc; simp only [affine, Bool.and_eq_true] at ha
    simp [jvp0, iha hc.1 ha.1.1, ihb hc.2 ha.1.2]
  | max _ _ _ _ => rfl
  | min _ _ _ _ => rfl
  | ite _ _ _ _ _ => rfl

/-- **The rebuild is exact on affine expressions**: `J(0)·p + f(0) = f(p)` for every `p`. -/
theorem rebuild_eq_eval (e : E) (h : e.affine = true) (p : Nat → Rat) : e.rebuild p = e.eval p := by
  unfold rebuild
  induction e with
  | num _ => simp [jvp0, eval]
  | par _ _ => simp [jvp0, eval]
  | neg a ih =>
    simp only [affine] at h
    have := ih h
    simp only [jvp0, eval]; linarith
  | add a b iha ihb =>
    simp only [affine, Bool.and_eq_true] at h
    have := iha h.1; have := ihb h.2
    simp only [jvp0, eval]; linarith
  | sub a b iha ihb =>
    simp only [affine, Bool.and_eq_true] at h
    have := iha h.1; have := ihb h.2
    simp only [jvp0, eval]; linarith
  | mul a b iha ihb =>
    simp only [affine, Bool.and_eq_true, Bool.or_eq_true] at h
    have ha := iha h.1.1; have hb := ihb h.1.2
    simp only [jvp0, eval]
    rcases h.2 with hc | hc
    · rw [jvp0_const a hc h.1.1 p, eval_const a hc p (fun _ => 0), ← hb]; ring
    · rw [jvp0_const b hc h.1.2 p, eval_const b hc p (fun _ => 0), ← ha]; ring
  | div a b iha ihb =>
    simp only [affine, Bool.and_eq_true] at h
    have ha := iha h.1.1
    simp only [jvp0, eval]
    rw [jvp0_const b h.2 h.1.2 p, eval_const b h.2 p (fun _ => 0), ← ha]
    by_cases hd : b.eval (fun _ => 0) = 0
    · simp [hd]
    · rw [mul_zero, sub_zero, mul_div_mul_right _ _ hd, ← add_div]
  | abs _ _ => simp [affine] at h
  | max _ _ _ _ => simp [affine] at h
  | min _ _ _ _ => simp [affine] at h
  | ite _ _ _ _ _ => simp [affine] at h

/-- `J(0)·p` is additive in `p` … -/
theorem jvp0_add (e : E) (p q : Nat → Rat) :
    e.jvp0 (fun i => p i + q i) = e.jvp0 p + e.jvp0 q := by
  induction e with
  | num _ => simp [jvp0]
  | par _ _ => simp [jvp0]
  | neg a ih => simp only [jvp0, ih]; ring
  | add a b iha ihb => simp only [jvp0, iha, ihb]; ring
  | sub a b iha ihb => simp only [jvp0, iha, ihb]; ring
  | mul a b iha ihb => simp only [jvp0, iha, ihb]; ring
  | div a b iha ihb => simp only [jvp0, iha, ihb]; ring
  | abs _ _ => simp [jvp0]
  | max _ _ _ _ => simp [jvp0]
  | min _ _ _ _ => simp [jvp0]
  | ite _ _ _ _ _ => simp [jvp0]

/-- … and homogeneous: it is a linear map of `p`, i.e. multiplication by a constant matrix. -/
theorem jvp0_smul (e : E) (c : Rat) (p : Nat → Rat) :
    e.jvp0 (fun i => c * p i) = c * e.jvp0 p := by
  induction e with
  | num _ => simp [jvp0]
  | par _ _ => simp [jvp0]
  | neg a ih => simp only [jvp0, ih]; ring
  | add a b iha ihb => simp only [jvp0, iha, ihb]; ring
  | sub a b iha ihb => simp only [jvp0, iha, ihb]; ring
  | mul a b iha ihb => simp only [jvp0, iha, ihb]; ring
  | div a b iha ihb => simp only [jvp0, iha, ihb]; ring
  | abs _ _ => simp [jvp0]
  | max _ _ _ _ => simp [jvp0]
  | min _ _ _ _ => simp [jvp0]
  | ite _ _ _ _ _ => simp [jvp0]

end E

theorem Entry.rebuilt_eq_eval (e : Entry) (h : e.affine = true) (p : Nat → Rat) : e.rebuilt p = e.eval p := by
  cases e with
  | const x => rfl
  | ex e => simp only [Entry.rebuilt, Entry.eval]; rw [E.rebuild_eq_eval e h p]

/-! ## Layout of a concatenation of blocks -/

/-- number of entries before block `i` -/
def offsetOf {α : Type} (len : α → Nat) (vs : List α) (i : Nat) : Nat := ((vs.take i).map len).sum

theorem flatMap_length_of {α β : Type} (f : α → List β) (len : α → Nat) (vs : List α)
    (h : ∀ v ∈ vs, (f v).length = len v) : (vs.flatMap f).length = (vs.map len).sum := by
  induction vs with
  | nil => rfl
  | cons v vs ih =>
    simp only [List.flatMap_cons, List.length_append, List.map_cons, List.sum_cons]
    rw [h v (by simp), ih (fun w hw => h w (by simp [hw]))]

/-- element `k` of block `i` sits at position `offset i + k` of the concatenation -/
theorem flatMap_getElem_of {α β : Type} (f : α → List β) (len : α → Nat) (vs : List α)
    (h : ∀ v ∈ vs, (f v).length = len v) (i k : Nat) (v : α) (hv : vs[i]? = some v) (hk : k < len v) :
    (vs.flatMap f)[offsetOf len vs i + k]? = (f v)[k]? := by
  induction vs generalizing i with
  | nil => simp at hv
  | cons w ws ih =>
    cases i with
    | zero =>
      simp only [List.getElem?_cons_zero, Option.some.injEq] at hv
      subst hv
      simp only [offsetOf, List.take_zero, List.map_nil, List.sum_nil, Nat.zero_add, List.flatMap_cons]
      rw [List.getElem?_append_left (by rw [h w (by simp)]; exact hk)]
    | succ i =>
      simp only [List.getElem?_cons_succ] at hv
      have hw := h w (by simp)
      simp only [offsetOf, List.take_succ_cons, List.map_cons, List.sum_cons, List.flatMap_cons]
      rw [List.getElem?_append_right (by rw [hw]; omega)]
      have := ih (fun u hu => h u (by simp [hu])) i hv
      simp only [offsetOf] at this
      rw [hw, show len w + ((List.take i ws).map len).sum + k - len w = ((List.take i ws).map len).sum + k by omega]
      exact this

/-! ## Columns -/

theorem bcast_length (n : Nat) (xs : List Entry) (h : xs.length = 1 ∨ xs.length = n) :
    (bcast n xs).length = n := by
  match xs, h with
  | [x], _ => simp [bcast]
  | [], .inr h => simp [bcast] at h ⊢; exact h
  | _ :: _ :: _, .inr h => simpa [bcast] using h
  | [], .inl h => simp at h
  | _ :: _ :: _, .inl h => simp at h

/-- element `k` of a broadcast block -/
theorem bcast_getElem (n : Nat) (xs : List Entry) (k : Nat) (hk : k < n) :
    (bcast n xs)[k]? = if xs.length = 1 then xs[0]? else xs[k]? := by
  match xs with
  | [x] => simp [bcast, hk]
  | [] => simp [bcast]
  | _ :: _ :: _ => simp [bcast]

end PymocaVerif.Attr

namespace PymocaVerif.Attr

/-! ## Specification notions used by the property theorems -/

/-- every attribute of the variable has, once stored, one element or as many as the variable -/
def Var.wf (v : Var) : Prop :=
  ∀ a, ((store v a).entries a).length = 1 ∨ ((store v a).entries a).length = v.numel

/-- The declared attribute, element by element, *before* any coercion: the default object of
    `Variable.__init__` when nothing is declared, the literal's number, the array's elements in
    column-major order, the element expressions, the fill value. -/
def declEntries (v : Var) (a : AttrName) : List Entry :=
  if v.isDer then [.const (defaultNum a)] else
  match v.decl a with
  | none => [.const (defaultNum a)]
  | some (.lit l) => [.const l.toPy.num]
  | some (.arr rows) => (colMajor rows).map fun l => .const l.toPy.num
  | some (.expr e) => (List.range e.numel).map fun k => .ex (e.elem k)
  | some (.arrE rows) => (colMajor rows).map fun e => .ex (e.elem 0)
  | some (.dmat rows) => (colMajor rows).map fun x => .const (.fin x)
  | some (.dm x) => List.replicate (if v.dims.isEmpty then 1 else v.numel) (.const (.fin x))

/-- `python_type(v)` does not change the number `v` stands for: no truncation of a non-integral
    float to `int`, no collapse of a number other than 0/1 to `bool` -/
def Py.fits (t : PType) : Py → Prop
  | .int i => t = .bool → (i = 0 ∨ i = 1)
  | .bool _ => True
  | .float (.fin q) => (t = .int → ((truncRat q : Int) : Rat) = q) ∧ (t = .bool → (q = 0 ∨ q = 1))
  | .float _ => t ≠ .bool

/-- the declaration of attribute `a` of `v` is compatible with the variable's type -/
def Var.fits (v : Var) (a : AttrName) : Prop :=
  match v.decl a with
  | some (.lit l) => l.toPy.fits v.ptype
  | some (.expr e) => match e.walk with
    | .py q => (Py.float (.fin q)).fits v.ptype
    | .dm q => v.dims.isEmpty = true → (Py.float (.fin q)).fits v.ptype
    | .mx => True
  | some (.dm x) => v.dims.isEmpty = true → (Py.float (.fin x)).fits v.ptype
  | _ => True

theorem pyCast_num (t : PType) (v : Py) (h : v.fits t) : ((pyCast t v).getD v).num = v.num := by
  cases v with
  | int i =>
    cases t with
    | float => rfl
    | int => rfl
    | bool =>
      have := h rfl
      rcases this with rfl | rfl <;> rfl
  | bool b => cases t <;> cases b <;> rfl
  | float x =>
    cases x with
    | fin q =>
      cases t with
      | float => rfl
      | int =>
        have := h.1 rfl
        show Num.fin ((truncRat q : Int) : Rat) = Num.fin q
        rw [this]
      | bool =>
        have := h.2 rfl
        rcases this with rfl | rfl <;> rfl
    | nan => cases t with
      | float => rfl
      | int => rfl
      | bool => exact absurd rfl h
    | ninf => cases t with
      | float => rfl
      | int => rfl
      | bool => exact absurd rfl h
    | pinf => cases t with
      | float => rfl
      | int => rfl
      | bool => exact absurd rfl h

theorem coerce_num (t : PType) (v : Py) (h : v.fits t) : (coerce t v).num = v.num := by
  unfold coerce
  split
  · rfl
  · exact pyCast_num t v h

/-- a numeral of the walk has one element, the same at every parameter vector -/
theorem E.walk_value (e : E) (q : Rat) (h : e.walk = .py q ∨ e.walk = .dm q) (k : Nat) (p : Nat → Rat) :
    e.numel = 1 ∧ (e.elem k).eval p = q := by
  induction e generalizing q with
  | num r => rcases h with h | h <;> simp [E.walk] at h; subst h; exact ⟨rfl, rfl⟩
  | neg a ih =>
    simp only [E.walk] at h
    cases ha : a.walk with
    | py r =>
      rw [ha] at h; simp at h; subst h
      have := ih r (.inl ha)
      exact ⟨this.1, by simp [E.elem, E.eval, this.2]⟩
    | dm r =>
      rw [ha] at h; simp at h; subst h
      have := ih r (.inr ha)
      exact ⟨this.1, by simp [E.elem, E.eval, this.2]⟩
    | mx => rw [ha] at h; simp at h
  | mul a b iha ihb =>
    simp only [E.walk] at h
    cases ha : a.walk <;> cases hb : b.walk <;> rw [ha, hb] at h <;> simp at h
    all_goals
      subst h
      first
      | (have h1 := iha _ (.inl ha); have h2 := ihb _ (.inl hb)
         exact ⟨by simp [E.numel, h1.1, h2.1], by simp [E.elem, E.eval, h1.2, h2.2]⟩)
      | (have h1 := iha _ (.inl ha); have h2 := ihb _ (.inr hb)
         exact ⟨by simp [E.numel, h1.1, h2.1], by simp [E.elem, E.eval, h1.2, h2.2]⟩)
      | (have h1 := iha _ (.inr ha); have h2 := ihb _ (.inl hb)
         exact ⟨by simp [E.numel, h1.1, h2.1], by simp [E.elem, E.eval, h1.2, h2.2]⟩)
      | (have h1 := iha _ (.inr ha); have h2 := ihb _ (.inr hb)
         exact ⟨by simp [E.numel, h1.1, h2.1], by simp [E.elem, E.eval, h1.2, h2.2]⟩)
  | par _ _ => rcases h with h | h <;> simp [E.walk] at h
  | add _ _ _ _ => rcases h with h | h <;> simp [E.walk] at h
  | sub _ _ _ _ => rcases h with h | h <;> simp [E.walk] at h
  | div _ _ _ _ => rcases h with h | h <;> simp [E.walk] at h
  | abs _ _ => rcases h with h | h <;> simp [E.walk] at h
  | max _ _ _ _ => rcases h with h | h <;> simp [E.walk] at h
  | min _ _ _ _ => rcases h with h | h <;> simp [E.walk] at h
  | ite _ _ _ _ _ => rcases h with h | h <;> simp [E.walk] at h

/-- the metadata function without the rebuild -/
def metadataDirect (lists : List (List Var)) (p : Nat → Rat) : Option (List (List (List Num))) :=
  lists.mapM fun vs =>
    let cols := casadiAttributes.map fun a => (column vs a).map fun e => e.eval p
    let n := (cols.head?.map List.length).getD 0
    if cols.all (fun c => c.length == n) then some cols else none

theorem mapM_option_congr {α β : Type} (f g : α → Option β) (l : List α) (h : ∀ x ∈ l, f x = g x) :
    l.mapM f = l.mapM g := by
  induction l with
  | nil => rfl
  | cons x xs ih =>
    simp only [List.mapM_cons]
    rw [h x (by simp), ih (fun y hy => h y (by simp [hy]))]

theorem mapM_option_some {α β : Type} (f : α → Option β) (g : α → β) (l : List α)
    (h : ∀ x ∈ l, f x = some (g x)) : l.mapM f = some (l.map g) := by
  induction l with
  | nil => rfl
  | cons x xs ih =>
    simp only [List.mapM_cons, List.map_cons]
    rw [h x (by simp), ih (fun y hy => h y (by simp [hy]))]
    rfl

theorem Var.column_length (v : Var) (h : v.wf) (a : AttrName) : (v.column a).length = v.numel :=
  bcast_length _ _ (h a)

theorem column_length (vs : List Var) (h : ∀ v ∈ vs, v.wf) (a : AttrName) :
    (column vs a).length = (vs.map Var.numel).sum :=
  flatMap_length_of _ _ vs (fun v hv => Var.column_length v (h v hv) a)

end PymocaVerif.Attr
