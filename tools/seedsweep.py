#!/venv/bin/python
"""Run tools/seedcheck.py over seeded/pending/* and seeded/* for the given properties (default: READY ones);
append one JSON line per seed to seeded/results.jsonl.  Usage: seedsweep.py [--jobs 3] [ids…]"""
import argparse, concurrent.futures as cf, glob, json, os, subprocess, sys
VERIF = os.path.dirname(os.path.dirname(os.path.abspath(__file__)))
ap = argparse.ArgumentParser(); ap.add_argument("ids", nargs="*"); ap.add_argument("--jobs", type=int, default=3)
ap.add_argument("--tests", action="store_true")
ap.add_argument("--seed", default="0", help="VERIF_SEED for the check; results for seeds other than 0 go to seeded/results_seed<N>.jsonl")
ap.add_argument("--new", action="store_true", help="only seeds without an entry in seeded/results.jsonl")
ap.add_argument("--missed", action="store_true", help="only seeds whose latest entry is not caught_with_input")
a = ap.parse_args()
man = json.load(open(os.path.join(VERIF, "MANIFEST.json")))
ready = {c["property_id"] for c in man["checks"]}
ids = set(a.ids) or ready
dirs = []
for d in sorted(glob.glob(os.path.join(VERIF, "seeded", "pending", "C*-*")) + glob.glob(os.path.join(VERIF, "seeded", "C*-*"))):
    pid = json.load(open(os.path.join(d, "meta.json")))["property"]
    if pid in ids:
        dirs.append(d)
latest = {}
rp = os.path.join(VERIF, "seeded", "results.jsonl" if a.seed == "0" else "results_seed%s.jsonl" % a.seed)
if os.path.exists(rp):
    for l in open(rp):
        try:
            o = json.loads(l); latest[os.path.basename(o.get("dir", ""))] = o
        except Exception:
            pass
if a.new:
    dirs = [d for d in dirs if os.path.basename(d) not in latest]
if a.missed:
    dirs = [d for d in dirs if os.path.basename(d) in latest and not latest[os.path.basename(d)].get("caught_with_input")]
def run(d):
    cmd = ["/venv/bin/python", os.path.join(VERIF, "tools", "seedcheck.py"), d, "--seed", a.seed] + (["--tests"] if a.tests else [])
    p = subprocess.run(cmd, stdout=subprocess.PIPE, stderr=subprocess.STDOUT, text=True)
    last = p.stdout.strip().splitlines()[-1] if p.stdout.strip() else "{}"
    try:
        return json.loads(last)
    except Exception:
        return {"dir": d, "error": p.stdout[-400:]}
with cf.ThreadPoolExecutor(a.jobs) as ex:
    for o in ex.map(run, dirs):
        with open(rp, "a") as f:
            f.write(json.dumps(o) + "\n")
        print(os.path.basename(o.get("dir", "?")), "clean", o.get("demo_clean_rc"), "apply", o.get("apply_rc"), "patched", o.get("demo_patched_rc"),
              "caught", o.get("caught"), "input", o.get("caught_with_input"), o.get("error", ""))
        sys.stdout.flush()
