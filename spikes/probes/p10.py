from pymoca import parser
from pymoca.backends.casadi import generator as gen
from pymoca.backends.casadi.api import transfer_model
def g(txt, name="M", opts=None):
    t = parser.parse(txt, bypass_cache=True)
    try:
        m = gen.generate(t, name, opts)
        return m
    except Exception as e:
        return "EXC %s: %s" % (type(e).__name__, str(e)[:120])
def cats(m):
    if isinstance(m,str): return m
    return {k: [str(v) for v in getattr(m,k)] for k in ["states","der_states","alg_states","inputs","parameters","constants","string_parameters","string_constants","outputs"]}
print(cats(g("""model Sub Real s; input Real u; output Real o; parameter input Real pi_; equation der(s) = u; o = s; end Sub;
model M
 constant Real c = 1; parameter Real p = 2; input Real u; output Real y; Real x; Real z; discrete Real d; parameter input Real pu; constant input Real cu;
 parameter String ps = "a"; constant String cs = "b"; input Integer ui; output Boolean yb; Sub sub; input Real unused_state;
equation
 der(x) = u; y = x; z = der(x) + 1; d = 1; yb = true; sub.u = 1; der(unused_state) = 1;
initial equation
 der(z) = 0;
end M;""")))
print(cats(g("model M Real x,y; equation der(x + y) = 1; y = 2*x; end M;")))
print(cats(g("model M Real x[2],y; equation der(x[1]) = 1; x[2] = 1; y=1; end M;")))
print(cats(g("model M output Real x; Real y; equation der(x) = y; y = 1; end M;")))
