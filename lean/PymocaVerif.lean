-- Root of the `PymocaVerif` library: models (core Lean only), lemmas and property theorems.
import PymocaVerif.Model.AliasRel
