"""Predicates of the open C27 findings (C27-F1 was fixed by commit 07f5409 = proposed_fixes/C27-1.diff)."""
from harness.common import known_predicate


@known_predicate
def c27_flatten_of_enclosing_class_sees_sibling_order(case, what):
    """The class whose flat model differs is one that contains nested classes, and one of the classes nested in it
    does not flatten on its own even in the unsplit library, so that tree.flatten succeeds or fails for the enclosing
    class depending on the dictionary order of the nested classes; no `within` file shadows a package here."""
    if what not in ("flattened model differs from the unsplit library's for this file order",
                    "flattened model differs between two file orders"):
        return False
    cls = case.get("cls")
    if not cls or case.get("shadowed"):
        return False
    if not any(c.startswith(cls + ".") for c in case.get("classes", [])):
        return False            # only classes that contain nested classes
    # a nested class does not flatten on its own (C07's inherited-component lookup); the second shape, through the
    # unqualified-import cache (C26-F5), was fixed by commit 68cd940 and is not excused any more
    return any(r.startswith(cls + ".") for r in case.get("ref_raises", []))
