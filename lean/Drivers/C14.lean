/-! Driver for C14 (stub: not built yet). -/
def main : IO Unit := pure ()
