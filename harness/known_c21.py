"""Predicates of the open findings of C21 (see known/C21.json)."""
from harness.common import known_predicate

_CONVERTED = ("UnpicklingError", "AttributeError", "EOFError", "ImportError", "IndexError", "ModuleNotFoundError")


@known_predicate
def c21_spliced_cache_uncaught_exception(case, what):
    """transfer_model raising on a cache file spliced from two different caches (two writers with different
    options overlapping): the unpickler raises a class outside the five that load_model converts."""
    if not isinstance(case, dict) or case.get("stream") != "torn-nonprefix" or case.get("kind") not in ("splice12", "splice21"):
        return False
    if not what.startswith("transfer_model raised ") or "on a torn cache file" not in what:
        return False
    cls = what.split()[2]
    return cls not in _CONVERTED and cls not in ("RuntimeError", "SimCrash")
