import PymocaVerif.Model.ExtRat
/-!
# Model of attribute extraction and of the variable-metadata function (C13)

* `generator.py`, `_ast_symbols_to_variables`: for every attribute of a (non-String, non-derivative)
  symbol the value delivered by the tree walk — a Python number for a literal, a (nested) Python
  list for an array literal, an `MX` for an expression, a `DM` for `zeros/ones/fill` — is coerced:
  a `DM` on a symbol without array dimensions becomes `python_type(v)`; a Python `int`/`float` that
  is not an instance of the variable's Python type becomes `python_type(v)` unless that raises
  `OverflowError`/`ValueError` (`int(inf)`); everything else is stored as it is.
* `model.py`, `Variable.__init__`: the defaults.
* `model.py`, `variable_metadata_function`: per variable list one matrix, one column per attribute
  in the order of `CASADI_ATTRIBUTES`; a column is the concatenation (`veccat`, column-major) over
  the variables of the attribute value, a value of one element being repeated (`repmat`) to the
  size of the symbol; if there are parameters and every entry passes the affinity test, every
  matrix is rebuilt as `J(0) * p + f(0)`.

Numbers: `Num` = exact rationals, the two infinities and NaN.  Core Lean only.
-/
namespace PymocaVerif.Attr

/-- an IEEE value at the points the check uses: NaN, an infinity, or an exact rational -/
inductive Num where
  | nan
  | ninf
  | pinf
  | fin (q : Rat)
deriving DecidableEq, Repr, Inhabited

/-- `Variable.python_type` (String variables are not modelled) -/
inductive PType where
  | float | int | bool
deriving DecidableEq, Repr, Inhabited

/-- the six attributes, in the order of `CASADI_ATTRIBUTES` -/
inductive AttrName where
  | value | min | max | start | fixed | nominal
deriving DecidableEq, Repr, Inhabited

/-- `CASADI_ATTRIBUTES = ("value", "min", "max", "start", "fixed", "nominal")` -/
def casadiAttributes : List AttrName := [.value, .min, .max, .start, .fixed, .nominal]

/-- a literal of the Modelica source -/
inductive Lit where
  | int (i : Int)
  | real (q : Rat)
  | bool (b : Bool)
  /-- `1e999` / `-1e999`: the parser's `float()` gives an infinity -/
  | inf (neg : Bool)
deriving DecidableEq, Repr, Inhabited

/-- a Python number as the tree walk delivers it (`exitPrimary`) -/
inductive Py where
  | int (i : Int)
  | float (x : Num)
  | bool (b : Bool)
deriving DecidableEq, Repr, Inhabited

def Lit.toPy : Lit → Py
  | .int i => .int i
  | .real q => .float (.fin q)
  | .bool b => .bool b
  | .inf neg => .float (if neg then .ninf else .pinf)

/-- the number a Python value stands for (`True` is 1) -/
def Py.num : Py → Num
  | .int i => .fin i
  | .float x => x
  | .bool b => .fin (if b then 1 else 0)

/-- Python's `int(q)` for a finite float: truncation towards zero -/
def truncRat (q : Rat) : Int := Int.tdiv q.num q.den

/-- `isinstance(v, python_type)` for a Python number (`bool` is a subclass of `int`) -/
def Py.isInstance : Py → PType → Bool
  | .int _, .int => true
  | .bool _, .int => true
  | .bool _, .bool => true
  | .float _, .float => true
  | _, _ => false

/-- `python_type(v)`; `none` when it raises `OverflowError` / `ValueError` (`int(inf)`, `int(nan)`) -/
def pyCast (t : PType) (v : Py) : Option Py :=
  match t, v with
  | .float, v => some (.float v.num)
  | .int, .int i => some (.int i)
  | .int, .bool b => some (.int (if b then 1 else 0))
  | .int, .float (.fin q) => some (.int (truncRat q))
  | .int, .float _ => none
  | .bool, .int i => some (.bool (i != 0))
  | .bool, .bool b => some (.bool b)
  | .bool, .float (.fin q) => some (.bool (q != 0))
  | .bool, .float _ => some (.bool true)

/-- the `elif isinstance(v, (float, int)) and not isinstance(v, python_type)` branch -/
def coerce (t : PType) (v : Py) : Py :=
  if v.isInstance t then v else (pyCast t v).getD v

/-! ## Expressions of the parameters -/

/-- An attribute expression.  `par off n` is a parameter symbol whose elements occupy positions
    `off … off+n-1` of the parameter vector (`n = 1`: a scalar or a selected element). -/
inductive E where
  | num (q : Rat)
  | par (off : Nat) (n : Nat)
  | neg (a : E)
  | add (a b : E)
  | sub (a b : E)
  | mul (a b : E)
  | div (a b : E)
  | abs (a : E)
  | max (a b : E)
  | min (a b : E)
  /-- `if c then a else b` with a Boolean parameter at position `c` -/
  | ite (c : Nat) (a b : E)
deriving Repr, Inhabited

namespace E

/-- number of elements of the value (scalars broadcast against vectors) -/
def numel : E → Nat
  | num _ => 1
  | par _ n => n
  | neg a => a.numel
  | abs a => a.numel
  | add a b => Nat.max a.numel b.numel
  | sub a b => Nat.max a.numel b.numel
  | mul a b => Nat.max a.numel b.numel
  | div a b => Nat.max a.numel b.numel
  | max a b => Nat.max a.numel b.numel
  | min a b => Nat.max a.numel b.numel
  | ite _ a b => Nat.max a.numel b.numel

/-- the scalar expression of element `k` -/
def elem (k : Nat) : E → E
  | num q => num q
  | par off n => par (if n = 1 then off else off + k) 1
  | neg a => neg (a.elem k)
  | abs a => abs (a.elem k)
  | add a b => add (a.elem k) (b.elem k)
  | sub a b => sub (a.elem k) (b.elem k)
  | mul a b => mul (a.elem k) (b.elem k)
  | div a b => div (a.elem k) (b.elem k)
  | max a b => max (a.elem k) (b.elem k)
  | min a b => min (a.elem k) (b.elem k)
  | ite c a b => ite c (a.elem k) (b.elem k)

/-- value of a scalar expression at the parameter vector `p` (`par off _` reads position `off`) -/
def eval (p : Nat → Rat) : E → Rat
  | num q => q
  | par off _ => p off
  | neg a => - a.eval p
  | abs a => if a.eval p < 0 then - a.eval p else a.eval p
  | add a b => a.eval p + b.eval p
  | sub a b => a.eval p - b.eval p
  | mul a b => a.eval p * b.eval p
  | div a b => a.eval p / b.eval p
  | max a b => if a.eval p ≤ b.eval p then b.eval p else a.eval p
  | min a b => if a.eval p ≤ b.eval p then a.eval p else b.eval p
  | ite c a b => if p c = 0 then b.eval p else a.eval p

/-- no parameter occurs -/
def const : E → Bool
  | num _ => true
  | par _ _ => false
  | neg a => a.const
  | abs a => a.const
  | add a b => a.const && b.const
  | sub a b => a.const && b.const
  | mul a b => a.const && b.const
  | div a b => a.const && b.const
  | max a b => a.const && b.const
  | min a b => a.const && b.const
  | ite _ _ _ => false

/-- The affinity test: only `+ - * / neg` (the allowed operations) and no product of two
    parameter-dependent factors, no parameter-dependent divisor (the zero Hessian). -/
def affine : E → Bool
  | num _ => true
  | par _ _ => true
  | neg a => a.affine
  | add a b => a.affine && b.affine
  | sub a b => a.affine && b.affine
  | mul a b => (a.affine && b.affine) && (a.const || b.const)
  | div a b => (a.affine && b.affine) && b.const
  | abs _ => false
  | max _ _ => false
  | min _ _ => false
  | ite _ _ _ => false

/-- `J(0) · p`: the directional derivative at the origin in direction `p` (forward mode);
    linear in `p` (lemmas), i.e. the product of the constant matrix `A = J(0)` with `p`. -/
def jvp0 (p : Nat → Rat) : E → Rat
  | num _ => 0
  | par off _ => p off
  | neg a => - a.jvp0 p
  | add a b => a.jvp0 p + b.jvp0 p
  | sub a b => a.jvp0 p - b.jvp0 p
  | mul a b => a.jvp0 p * b.eval (fun _ => 0) + a.eval (fun _ => 0) * b.jvp0 p
  | div a b => (a.jvp0 p * b.eval (fun _ => 0) - a.eval (fun _ => 0) * b.jvp0 p)
                 / (b.eval (fun _ => 0) * b.eval (fun _ => 0))
  | abs _ => 0
  | max _ _ => 0
  | min _ _ => 0
  | ite _ _ _ => 0

/-- the rebuilt entry `A·p + b` with `A = J(0)`, `b = f(0)` -/
def rebuild (p : Nat → Rat) (e : E) : Rat := e.jvp0 p + e.eval (fun _ => 0)

/-- What kind of Python object the tree walk (`exitExpression`) delivers for an expression. -/
inductive Walk where
  /-- a Python number: a literal, or unary minus applied to a Python number -/
  | py (q : Rat)
  /-- a 1×1 `DM`: `*` is translated to `ca.mtimes`, which turns two numbers into a `DM` -/
  | dm (q : Rat)
  /-- an `MX`: every other operator wraps its operands in `ca.MX(..)` -/
  | mx
deriving Repr, Inhabited, DecidableEq

/-- `exitExpression` on parameter-free numerals: `-x` keeps the kind of `x`; `ca.mtimes(x, y)` of two
    numbers / `DM`s is a `DM`; `+ - /`, functions and `if` build `MX`; anything containing an `MX` is `MX`. -/
def walk : E → Walk
  | num q => .py q
  | neg a => match a.walk with
    | .py q => .py (-q)
    | .dm q => .dm (-q)
    | .mx => .mx
  | mul a b => match a.walk, b.walk with
    | .py x, .py y => .dm (x * y)
    | .py x, .dm y => .dm (x * y)
    | .dm x, .py y => .dm (x * y)
    | .dm x, .dm y => .dm (x * y)
    | _, _ => .mx
  | _ => .mx

end E

/-! ## Declarations and stored values -/

/-- what the Modelica source declares for one attribute -/
inductive Decl where
  /-- a literal (also `-literal`: the walk negates the Python number) -/
  | lit (l : Lit)
  /-- an array literal, `rows` of equal length (a 1-D array has rows of one element) -/
  | arr (rows : List (List Lit))
  /-- an expression: an `MX` even when it is constant -/
  | expr (e : E)
  /-- an array literal with scalar expressions as elements (rows as in `arr`): a nested Python list
      of `MX`, which `variable_metadata_function` turns into a matrix (`_nested_list_to_mx`) -/
  | arrE (rows : List (List E))
  /-- `zeros(..)`, `ones(..)`, `fill(x, ..)` with the variable's dimensions: a `DM` -/
  | dm (x : Rat)
  /-- `identity(n)`, `diagonal({..})` on an array variable: a (sparse) `DM` matrix with these elements,
      structural zeros included (rows as in `arr`) -/
  | dmat (rows : List (List Rat))
deriving Repr, Inhabited

/-- what ends up on the `Variable` object -/
inductive Stored where
  /-- nothing was set: the object put there by `Variable.__init__` -/
  | dflt
  | py (v : Py)
  /-- Python list; elements in column-major order as `ca.DM(list)` lays them out -/
  | list (xs : List Py)
  | mx (e : E)
  /-- (nested) Python list of scalar `MX`; elements in column-major order -/
  | listE (es : List E)
  | dm (n : Nat) (x : Rat)
  /-- a `DM` matrix; elements in column-major order -/
  | dmat (xs : List Rat)
deriving Repr, Inhabited

structure Var where
  ptype : PType
  /-- Modelica array dimensions (`[]` for a scalar) -/
  dims : List Nat
  /-- `differentiate=True` (der_states): no attribute is read from the symbol -/
  isDer : Bool := false
  value : Option Decl := none
  min : Option Decl := none
  max : Option Decl := none
  start : Option Decl := none
  fixed : Option Decl := none
  nominal : Option Decl := none
deriving Repr, Inhabited

def Var.numel (v : Var) : Nat := v.dims.foldl (· * ·) 1

def Var.decl (v : Var) : AttrName → Option Decl
  | .value => v.value | .min => v.min | .max => v.max
  | .start => v.start | .fixed => v.fixed | .nominal => v.nominal

/-- column-major flattening of the rows of an array literal (`ca.DM(nested list)` then `vec`) -/
def colMajor {α : Type} (rows : List (List α)) : List α :=
  let ncol := (rows.head?.map List.length).getD 0
  (List.range ncol).flatMap fun j => rows.filterMap fun r => r[j]?

/-- `ast.Symbol.__init__`: every attribute is `Primary(None)` (nothing to set) except
    `fixed = Primary(False)`, which the generator does set. -/
def astDefault : AttrName → Option Decl
  | .fixed => some (.lit (.bool false))
  | _ => none

/-- the loop body of `_ast_symbols_to_variables` for one attribute -/
def store (v : Var) (a : AttrName) : Stored :=
  if v.isDer then .dflt else
  match (v.decl a).orElse (fun _ => astDefault a) with
  | none => .dflt
  | some (.lit l) => .py (coerce v.ptype l.toPy)
  | some (.arr rows) => .list ((colMajor rows).map Lit.toPy)
  | some (.expr e) =>
    match e.walk with
    | .py q => .py (coerce v.ptype (.float (.fin q)))
    | .dm q =>
      if v.dims.isEmpty then .py ((pyCast v.ptype (.float (.fin q))).getD (.float (.fin q)))
      else .dm 1 q
    | .mx => .mx e
  | some (.arrE rows) => .listE (colMajor rows)
  | some (.dmat rows) => .dmat (colMajor rows)
  | some (.dm x) =>
    if v.dims.isEmpty then .py ((pyCast v.ptype (.float (.fin x))).getD (.float (.fin x)))
    else .dm v.numel x

/-- the attribute objects of `Variable.__init__` -/
def defaultNum : AttrName → Num
  | .value => .nan
  | .min => .ninf
  | .max => .pinf
  | .start => .fin 0
  | .fixed => .fin 0
  | .nominal => .fin 0

/-- `type(attribute).__name__` -/
def Stored.tag (a : AttrName) : Stored → String
  | .dflt => match a with
    | .value => "float" | .min => "float" | .max => "float"
    | .start => "_DefaultValue" | .fixed => "bool" | .nominal => "int"
  | .py (.int _) => "int"
  | .py (.float _) => "float"
  | .py (.bool _) => "bool"
  | .list _ => "list"
  | .listE _ => "list"
  | .mx _ => "MX"
  | .dm _ _ => "DM"
  | .dmat _ => "DM"

/-- one entry of a metadata column before evaluation: a constant or a scalar expression -/
inductive Entry where
  | const (x : Num)
  | ex (e : E)
deriving Repr, Inhabited

/-- the elements of a stored value (what `ca.MX(ca.DM(value))` / `ca.MX(value)` holds, `vec`-ed) -/
def Stored.entries (a : AttrName) : Stored → List Entry
  | .dflt => [.const (defaultNum a)]
  | .py v => [.const v.num]
  | .list xs => xs.map fun x => .const x.num
  | .mx e => (List.range e.numel).map fun k => .ex (e.elem k)
  | .listE es => es.map fun e => .ex (e.elem 0)
  | .dm n x => List.replicate n (.const (.fin x))
  | .dmat xs => xs.map fun x => .const (.fin x)

/-- `value if value.numel() != 1 else repmat(value, *symbol.size())` -/
def bcast (n : Nat) (xs : List Entry) : List Entry :=
  match xs with
  | [x] => List.replicate n x
  | _ => xs

/-- the part of one metadata column that one variable contributes -/
def Var.column (v : Var) (a : AttrName) : List Entry := bcast v.numel ((store v a).entries a)

/-- one column of the metadata matrix of a variable list: `veccat(*attribute_list)` -/
def column (vs : List Var) (a : AttrName) : List Entry := vs.flatMap fun v => v.column a

def Entry.affine : Entry → Bool
  | .const _ => true
  | .ex e => e.affine

/-- direct evaluation of an entry -/
def Entry.eval (p : Nat → Rat) : Entry → Num
  | .const x => x
  | .ex e => .fin (e.eval p)

/-- evaluation of the rebuilt entry: a constant has a zero row in `A` and is its own `b` -/
def Entry.rebuilt (p : Nat → Rat) : Entry → Num
  | .const x => x
  | .ex e => .fin (e.rebuild p)

/-- `is_affine` of `variable_metadata_function`: every entry of every list -/
def allAffine (lists : List (List Var)) : Bool :=
  lists.all fun vs => casadiAttributes.all fun a => (column vs a).all Entry.affine

/-- The metadata function at `p`: per variable list the six columns (`horzcat` needs equal
    lengths: `none` otherwise), rebuilt when there are parameters and everything is affine. -/
def metadata (nParams : Nat) (lists : List (List Var)) (p : Nat → Rat) : Option (List (List (List Num))) :=
  let useRebuild := decide (0 < nParams) && allAffine lists
  lists.mapM fun vs =>
    let cols := casadiAttributes.map fun a =>
      (column vs a).map fun e => if useRebuild then e.rebuilt p else e.eval p
    let n := (cols.head?.map List.length).getD 0
    if cols.all (fun c => c.length == n) then some cols else none

/-- element values of a stored attribute at `p` (what evaluating the attribute object gives) -/
def Stored.values (a : AttrName) (s : Stored) (p : Nat → Rat) : List Num :=
  (s.entries a).map (Entry.eval p)

end PymocaVerif.Attr
