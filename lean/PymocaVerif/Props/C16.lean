import PymocaVerif.Lemmas.AliasMerge
/-!
# C16 — alias elimination merges variable metadata soundly

Property theorems about `AliasMerge.merge`, the fold of the merge loop of `Model._simplify_once`
(option `detect_aliases`) over the aliases of one canonical variable, in whatever order the Python
set yields them and for any number of them (any chain length).  The number type `α` is any
linear order with an involutive negation that reverses the order (`NegAnti`): every ordered field
(`negAnti_field`) and the extended rationals of the driver (`negAnti_extRat`).

An entry is *skipped* when the loop's `continue` fires ("handled in a previous pass"); in a
first pass nothing is skipped (`fresh_not_skipped`).
-/
namespace PymocaVerif.AliasMerge

section
variable {α : Type} [LinearOrder α] [InvolutiveNeg α]

omit [LinearOrder α] [InvolutiveNeg α] in
/-- In a first `detect_aliases` pass (empty old relation) no alias is skipped. -/
theorem fresh_not_skipped (neg : Bool) (a : Attrs α) : (fresh neg a).skipped = false := rfl

example : (fresh true (⟨0, 1, 1, false, none, .float⟩ : Attrs Int)).skipped = false := rfl

/-- **Bounds are the intersection.**  A value `x` of the canonical variable satisfies the merged
    bounds iff it satisfies the canonical's own bounds and, for every merged alias, the alias' own
    value `sign * x` satisfies the alias' bounds — for every number of aliases and every order. -/
theorem bounds_are_intersection (h : NegAnti α) (c : Attrs α) (es : List (Entry α)) (x : α) :
    inBox (merge c es) x ↔
      inBox c x ∧ ∀ e ∈ es, e.skipped = false → inBox e.attrs (sgn e.neg x) :=
  inBox_merge_iff h c es x

example : inBox (merge (⟨-1, 5, 2, false, none, .float⟩ : Attrs Int)
    [fresh true ⟨-3, 4, 10, true, some 7, .float⟩, fresh true ⟨0, 2, 0, false, none, .float⟩]) (-1) := by
  decide

/-- The merged lower bound is the largest of the sign-adjusted lower bounds, the merged upper
    bound the smallest of the sign-adjusted upper bounds (the two halves of the intersection). -/
theorem merged_bounds_extremal (c : Attrs α) (es : List (Entry α)) (x : α) :
    ((merge c es).min ≤ x ↔ c.min ≤ x ∧ ∀ e ∈ es, e.skipped = false → lo e.neg e.attrs ≤ x) ∧
    (x ≤ (merge c es).max ↔ x ≤ c.max ∧ ∀ e ∈ es, e.skipped = false → x ≤ hi e.neg e.attrs) :=
  ⟨merge_min_le_iff c es x, le_merge_max_iff c es x⟩

example : (merge (⟨-1, 5, 2, false, none, .float⟩ : Attrs Int)
    [fresh true ⟨-3, 4, 10, true, some 7, .float⟩]).min = -1 ∧
    (merge (⟨-1, 5, 2, false, none, .float⟩ : Attrs Int)
    [fresh true ⟨-3, 4, 10, true, some 7, .float⟩]).max = 3 := by decide

/-- **Negative aliases swap and negate.**  A negative alias contributes `[-max, -min]`, and `x`
    lies in that interval iff `-x` lies in the alias' own `[min, max]`. -/
theorem negation_swaps (h : NegAnti α) (a : Attrs α) (x : α) :
    lo true a = -a.max ∧ hi true a = -a.min ∧
      ((-a.max ≤ x ∧ x ≤ -a.min) ↔ (a.min ≤ -x ∧ -x ≤ a.max)) := by
  refine ⟨rfl, rfl, ?_⟩
  have := lo_hi_iff h true a x
  simpa [lo, hi, sgn, inBox] using this

example : lo true (⟨-3, 4, 10, true, some 7, .float⟩ : Attrs Int) = -4 := by decide

/-- **Order independence.**  Bounds, nominal and fixed of the merged canonical do not depend on
    the iteration order of the set of aliases. -/
theorem merge_perm_invariant (c : Attrs α) {es es' : List (Entry α)} (p : es.Perm es') :
    (merge c es).min = (merge c es').min ∧ (merge c es).max = (merge c es').max ∧
    (merge c es).nominal = (merge c es').nominal ∧ (merge c es).fixed = (merge c es').fixed := by
  refine ⟨?_, ?_, ?_, ?_⟩
  · apply le_antisymm
    · have := (merge_min_le_iff c es' (merge c es').min).1 le_rfl
      exact (merge_min_le_iff c es _).2 ⟨this.1, fun e he => this.2 e (p.mem_iff.1 he)⟩
    · have := (merge_min_le_iff c es (merge c es).min).1 le_rfl
      exact (merge_min_le_iff c es' _).2 ⟨this.1, fun e he => this.2 e (p.mem_iff.2 he)⟩
  · apply le_antisymm
    · have := (le_merge_max_iff c es (merge c es).max).1 le_rfl
      exact (le_merge_max_iff c es' _).2 ⟨this.1, fun e he => this.2 e (p.mem_iff.2 he)⟩
    · have := (le_merge_max_iff c es' (merge c es').max).1 le_rfl
      exact (le_merge_max_iff c es _).2 ⟨this.1, fun e he => this.2 e (p.mem_iff.1 he)⟩
  · apply le_antisymm
    · have := (merge_nominal_le_iff c es' (merge c es').nominal).1 le_rfl
      exact (merge_nominal_le_iff c es _).2 ⟨this.1, fun e he => this.2 e (p.mem_iff.1 he)⟩
    · have := (merge_nominal_le_iff c es (merge c es).nominal).1 le_rfl
      exact (merge_nominal_le_iff c es' _).2 ⟨this.1, fun e he => this.2 e (p.mem_iff.2 he)⟩
  · rw [merge_fixed_eq, merge_fixed_eq, p.any_eq]

example : ([fresh true (⟨-3, 4, 10, true, some 7, .float⟩ : Attrs Int), fresh false ⟨0, 2, 0, false, none, .float⟩]).Perm
    [fresh false ⟨0, 2, 0, false, none, .float⟩, fresh true ⟨-3, 4, 10, true, some 7, .float⟩] :=
  List.Perm.swap _ _ _

/-- **Nominal is the largest.**  The merged nominal bounds the canonical's and every merged
    alias' nominal from above and is one of them. -/
theorem nominal_is_max (c : Attrs α) (es : List (Entry α)) :
    c.nominal ≤ (merge c es).nominal ∧
    (∀ e ∈ es, e.skipped = false → e.attrs.nominal ≤ (merge c es).nominal) ∧
    ((merge c es).nominal = c.nominal ∨
      ∃ e ∈ es, e.skipped = false ∧ (merge c es).nominal = e.attrs.nominal) := by
  have := (merge_nominal_le_iff c es (merge c es).nominal).1 le_rfl
  exact ⟨this.1, this.2, merge_nominal_mem c es⟩

example : (merge (⟨-1, 5, 2, false, none, .float⟩ : Attrs Int)
    [fresh true ⟨-3, 4, 10, true, some 7, .float⟩, fresh false ⟨0, 2, 3, false, none, .float⟩]).nominal = 10 := by
  decide

/-- **Fixed if any is fixed.** -/
theorem fixed_is_any (c : Attrs α) (es : List (Entry α)) :
    (merge c es).fixed = true ↔
      c.fixed = true ∨ ∃ e ∈ es, e.skipped = false ∧ e.attrs.fixed = true := by
  rw [merge_fixed_eq]
  simp [List.any_eq_true]

example : (merge (⟨-1, 5, 2, false, none, .float⟩ : Attrs Int)
    [fresh false ⟨0, 2, 3, false, none, .float⟩, fresh true ⟨-3, 4, 10, true, some 7, .float⟩]).fixed = true := by
  decide

/-- **Start kept or adopted.**  An explicit start of the canonical is kept whatever the aliases
    say; without one the canonical takes the sign-adjusted explicit start of the first merged
    alias (in iteration order) that has one, and keeps the default marker if none has. -/
theorem start_kept_or_adopted (c : Attrs α) (es : List (Entry α)) :
    (∀ v, c.start = some v → (merge c es).start = some v) ∧
    (c.start = none → (merge c es).start = es.findSome? adopt) ∧
    (c.start = none → ∀ w, (merge c es).start = some w →
        ∃ e ∈ es, e.skipped = false ∧ ∃ v, e.attrs.start = some v ∧ w = sgn e.neg v) ∧
    (c.start = none → ((merge c es).start = none ↔
        ∀ e ∈ es, e.skipped = false → e.attrs.start = none)) := by
  have key := merge_start_eq c es
  refine ⟨fun v hv => by rw [key, hv], fun hn => by rw [key, hn], fun hn w hw => ?_, fun hn => ?_⟩
  · rw [key, hn] at hw
    obtain ⟨e, he, hw⟩ := List.exists_of_findSome?_eq_some hw
    cases hs : e.skipped
    · simp only [adopt, hs, Bool.false_eq_true, if_false, Option.map_eq_some_iff] at hw
      obtain ⟨v, hv, rfl⟩ := hw
      exact ⟨e, he, hs, v, hv, rfl⟩
    · simp [adopt, hs] at hw
  · rw [key, hn]
    simp only [List.findSome?_eq_none_iff]
    constructor
    · intro hall e he hs
      have := hall e he
      simpa [adopt, hs] using this
    · intro hall e he
      cases hs : e.skipped
      · simp [adopt, hs, hall e he hs]
      · simp [adopt, hs]

example : (merge (⟨-1, 5, 2, false, none, .float⟩ : Attrs Int)
    [fresh false ⟨0, 2, 3, false, none, .float⟩, fresh true ⟨-3, 4, 10, true, some 7, .float⟩]).start = some (-7) ∧
    (merge (⟨-1, 5, 2, false, some 1, .float⟩ : Attrs Int)
    [fresh true ⟨-3, 4, 10, true, some 7, .float⟩]).start = some 1 := by decide

/-- **Whatever the iteration order**, the start of the merged canonical is one of `startChoices`:
    its own explicit start, else an explicit (sign-adjusted) start of a merged alias, else the default
    marker.  (The Python set of aliases has no defined order; the property does not say which alias'
    start is adopted.) -/
theorem start_admissible_any_order (c : Attrs α) {es es' : List (Entry α)} (p : es'.Perm es) :
    (merge c es').start ∈ startChoices c es := by
  rw [merge_start_eq]
  unfold startChoices
  cases hc : c.start with
  | some v => simp
  | none =>
    simp only
    cases hf : es'.findSome? adopt with
    | none =>
      have hnone : es.filterMap adopt = [] := by
        rw [List.filterMap_eq_nil_iff]
        intro e he
        exact (List.findSome?_eq_none_iff.1 hf) e (p.mem_iff.2 he)
      simp [hnone]
    | some w =>
      obtain ⟨e, he, hw⟩ := List.exists_of_findSome?_eq_some hf
      have hmem : w ∈ es.filterMap adopt := List.mem_filterMap.2 ⟨e, p.mem_iff.1 he, hw⟩
      have hne : (es.filterMap adopt).isEmpty = false := by
        cases h : es.filterMap adopt with
        | nil => rw [h] at hmem; simp at hmem
        | cons _ _ => rfl
      simp only [hne, Bool.false_eq_true, if_false]
      exact List.mem_map.2 ⟨w, hmem, rfl⟩

example : startChoices (⟨-1, 5, 2, false, none, .float⟩ : Attrs Int)
    [fresh false ⟨0, 2, 3, false, some 4, .float⟩, fresh true ⟨-3, 4, 10, true, some 7, .float⟩] = [some 4, some (-7)] := by
  decide

/-- **Chains / nested classes, any sign.**  Absorbing, with sign `s`, an alias that already carries
    the merged attributes of its own aliases `ms` gives the same bounds as absorbing all of them
    directly with multiplied signs. -/
theorem nested_bounds (h : NegAnti α) (c g : Attrs α) (s : Bool) (ms : List (Entry α)) (x : α) :
    inBox (absorb c s (merge g ms)) x ↔
      inBox (merge c (fresh s g :: ms.map (compose s))) x := by
  rw [inBox_absorb_iff h, inBox_merge_iff h, inBox_merge_iff h]
  constructor
  · rintro ⟨hc, hg, hm⟩
    refine ⟨hc, fun e he hs => ?_⟩
    rcases List.mem_cons.1 he with rfl | he
    · exact hg
    · obtain ⟨m, hm', rfl⟩ := List.mem_map.1 he
      have := hm m hm' (by simpa [compose, Entry.skipped] using hs)
      rw [sgn_sgn] at this
      exact this
  · rintro ⟨hc, hall⟩
    refine ⟨hc, hall (fresh s g) (by simp) rfl, fun m hm hs => ?_⟩
    have := hall (compose s m) (List.mem_cons_of_mem _ (List.mem_map_of_mem hm))
      (by simpa [compose, Entry.skipped] using hs)
    rw [sgn_sgn]
    exact this

example : inBox (absorb (⟨-9, 9, 0, false, none, .float⟩ : Attrs Int) true
    (merge ⟨-3, 4, 0, false, none, .float⟩ [fresh true ⟨0, 2, 0, false, none, .float⟩])) 1 := by decide

/-- **Two passes equal one.**  In a later pass the former canonical `g` of an earlier class
    (carrying `merge g ms`, found by the lookup in the old canonical variables) is absorbed with its
    sign `s` and its old aliases are skipped; the resulting bounds, nominal and fixed are those of
    merging `g` and all of `ms` directly, signs multiplied. -/
theorem two_pass_equals_flat (h : NegAnti α) (c g : Attrs α) (s : Bool) (ms es₁ es₂ : List (Entry α)) (x : α) :
    let late : Entry α := ⟨s, true, true, merge g ms⟩
    let flat := es₁ ++ fresh s g :: (ms.map (compose s) ++ es₂)
    late.skipped = false ∧
    (inBox (merge c (es₁ ++ late :: es₂)) x ↔ inBox (merge c flat) x) ∧
    ((merge c (es₁ ++ late :: es₂)).nominal = (merge c flat).nominal) ∧
    ((merge c (es₁ ++ late :: es₂)).fixed = (merge c flat).fixed) := by
  intro late flat
  have hsk : ∀ m : Entry α, (compose s m).skipped = m.skipped := fun m => rfl
  refine ⟨rfl, ?_, ?_, ?_⟩
  · rw [inBox_merge_iff h, inBox_merge_iff h]
    constructor
    · rintro ⟨hc, hall⟩
      refine ⟨hc, fun e he hs => ?_⟩
      rcases List.mem_append.1 he with he | he
      · exact hall e (List.mem_append_left _ he) hs
      rcases List.mem_cons.1 he with rfl | he
      · have := hall late (by simp) rfl
        exact ((inBox_merge_iff h g ms _).1 this).1
      rcases List.mem_append.1 he with he | he
      · obtain ⟨m, hm, rfl⟩ := List.mem_map.1 he
        have := hall late (by simp) rfl
        have := ((inBox_merge_iff h g ms _).1 this).2 m hm (by rw [← hsk m]; exact hs)
        rw [sgn_sgn] at this
        exact this
      · exact hall e (by simp [he]) hs
    · rintro ⟨hc, hall⟩
      refine ⟨hc, fun e he hs => ?_⟩
      rcases List.mem_append.1 he with he | he
      · exact hall e (by simp [flat, he]) hs
      rcases List.mem_cons.1 he with rfl | he
      · refine (inBox_merge_iff h g ms _).2 ⟨hall (fresh s g) (by simp [flat]) rfl, fun m hm hs' => ?_⟩
        have := hall (compose s m) (List.mem_append_right _ (List.mem_cons_of_mem _ (List.mem_append_left _ (List.mem_map_of_mem hm)))) (by rw [hsk m]; exact hs')
        rw [sgn_sgn]
        exact this
      · exact hall e (by simp [flat, he]) hs
  · apply le_antisymm
    · rw [merge_nominal_le_iff]
      have := (merge_nominal_le_iff c flat _).1 le_rfl
      refine ⟨this.1, fun e he hs => ?_⟩
      rcases List.mem_append.1 he with he | he
      · exact this.2 e (by simp [flat, he]) hs
      rcases List.mem_cons.1 he with rfl | he
      · show (merge g ms).nominal ≤ _
        rw [merge_nominal_le_iff]
        refine ⟨this.2 (fresh s g) (by simp [flat]) rfl, fun m hm hs' => ?_⟩
        exact this.2 (compose s m) (List.mem_append_right _ (List.mem_cons_of_mem _ (List.mem_append_left _ (List.mem_map_of_mem hm)))) (by rw [hsk m]; exact hs')
      · exact this.2 e (by simp [flat, he]) hs
    · rw [merge_nominal_le_iff]
      have := (merge_nominal_le_iff c (es₁ ++ late :: es₂) _).1 le_rfl
      have hl := (merge_nominal_le_iff g ms _).1 (this.2 late (by simp) rfl)
      refine ⟨this.1, fun e he hs => ?_⟩
      rcases List.mem_append.1 he with he | he
      · exact this.2 e (List.mem_append_left _ he) hs
      rcases List.mem_cons.1 he with rfl | he
      · exact hl.1
      rcases List.mem_append.1 he with he | he
      · obtain ⟨m, hm, rfl⟩ := List.mem_map.1 he
        exact hl.2 m hm (by rw [← hsk m]; exact hs)
      · exact this.2 e (by simp [he]) hs
  · rw [merge_fixed_eq, merge_fixed_eq]
    have hl : late.skipped = false := rfl
    have : ((fun e : Entry α => !e.skipped && e.attrs.fixed) ∘ compose s) = (fun e : Entry α => !e.skipped && e.attrs.fixed) := by
      funext m; rfl
    simp only [flat, List.any_append, List.any_cons, hl, Bool.not_false, Bool.true_and, List.any_map, this]
    show (c.fixed || (_ || ((merge g ms).fixed || _))) = _
    rw [merge_fixed_eq]
    simp [fresh, Entry.skipped, Bool.or_assoc]

example : (merge (⟨-9, 9, 0, false, none, .float⟩ : Attrs Int)
    [⟨true, true, true, merge ⟨-3, 4, 2, false, none, .float⟩ [fresh true ⟨0, 2, 7, true, none, .float⟩]⟩,
     ⟨false, true, false, ⟨0, 2, 7, true, none, .float⟩⟩]).max = 2 := by decide

/-- **A former canonical the lookup does not find is ignored.**  If the test
    `alias in old_alias_relation.canonical_variables` fails for the canonical of an earlier class —
    as it does in the current code for every *negative* alias, whose signed name is looked up among
    unsigned names (finding C16-F2) — the entry is skipped like an already handled alias and whatever
    it carries is lost: `two_pass_equals_flat` cannot do without `inCanon = true`. -/
theorem former_canonical_not_found_is_ignored (c a : Attrs α) (s : Bool) (es : List (Entry α)) :
    merge c (⟨s, true, false, a⟩ :: es) = merge c es := rfl

example : (merge (⟨-9, 9, 0, false, none, .float⟩ : Attrs Int) [⟨true, true, false, ⟨-1, 1, 5, true, some 2, .float⟩⟩]).max = 9 := by
  decide

end

/-- The theorems hold for the numbers the driver computes with (extended rationals)… -/
theorem bounds_are_intersection_extRat (c : Attrs ExtRat) (es : List (Entry ExtRat)) (x : ExtRat) :
    inBox (merge c es) x ↔
      inBox c x ∧ ∀ e ∈ es, e.skipped = false → inBox e.attrs (sgn e.neg x) :=
  bounds_are_intersection negAnti_extRat c es x

example : inBox (merge (⟨.ninf, .pinf, .fin 0, false, none, .float⟩ : Attrs ExtRat)
    [fresh true ⟨.fin (-3), .pinf, .fin 1, false, none, .float⟩]) (.fin 3) := by decide

/-- …and over every ordered field. -/
theorem bounds_are_intersection_field {K : Type} [Field K] [LinearOrder K] [IsStrictOrderedRing K]
    (c : Attrs K) (es : List (Entry K)) (x : K) :
    inBox (merge c es) x ↔
      inBox c x ∧ ∀ e ∈ es, e.skipped = false → inBox e.attrs (sgn e.neg x) :=
  bounds_are_intersection negAnti_field c es x

example : inBox (merge (⟨-1, 5, 2, false, none, .float⟩ : Attrs ℚ)
    [fresh true ⟨-3, 4, 10, true, some 7, .float⟩]) (1/2) := by
  rw [bounds_are_intersection_field]
  simp [inBox, fresh, Entry.skipped, sgn]
  norm_num

end PymocaVerif.AliasMerge
