"""Shared plumbing of the checks: context, Lean driver process, build + audit of the Lean
side, evidence / replay / known-findings handling.  See CONVENTIONS.md."""
import collections
import hashlib
import json
import os
import random
import re
import shutil
import subprocess
import sys
import tempfile
import time
import traceback

VERIF = os.path.dirname(os.path.dirname(os.path.abspath(__file__)))
LEAN_DIR = os.path.join(VERIF, "lean")
REPO = os.environ.get("VERIF_REPO", "/repo")
ALLOWED_AXIOMS = {"propext", "Classical.choice", "Quot.sound"}
FORBIDDEN = re.compile(
    r"\b(sorry|admit|native_decide|bv_decide|implemented_by|unsafe)\b|^\s*axiom\s|maxHeartbeats\s+0\b",
    re.M,
)

TRUSTED_BASE_COMMON = [
    "Lean 4.33.0 kernel (thorough tier: re-checked by leanchecker)",
    "axioms: subset of {propext, Classical.choice, Quot.sound}; no sorry/admit/native_decide/bv_decide/own axioms (audited every run)",
    "the correspondence harness (generators, canonicalisers, direct oracles) under /verif/harness",
    "CPython 3.12, and the foreign engines pymoca calls (ANTLR runtime, SQLite, CasADi, pickle) behaving as documented",
    "everything in pymoca is modelled, not verified: theorems are about lean/PymocaVerif/Model/*.lean; the tie to /repo is the per-run correspondence",
]


class HarnessError(Exception):
    """A failure of the checking machinery itself (exit 2, never a verdict)."""


def strip_lean_comments(src):
    out, i, depth, n = [], 0, 0, len(src)
    while i < n:
        if src.startswith("/-", i):
            depth += 1
            i += 2
        elif depth and src.startswith("-/", i):
            depth -= 1
            i += 2
        elif depth:
            i += 1
        elif src.startswith("--", i):
            j = src.find("\n", i)
            i = n if j < 0 else j
        elif src[i] == '"':
            j = i + 1
            while j < n and src[j] != '"':
                j += 2 if src[j] == "\\" else 1
            out.append('""')
            i = j + 1
        else:
            out.append(src[i])
            i += 1
    return "".join(out)


def sh(cmd, cwd=None, timeout=None, env=None):
    p = subprocess.run(cmd, cwd=cwd, timeout=timeout, env=env, stdout=subprocess.PIPE,
                       stderr=subprocess.STDOUT, text=True)
    return p.returncode, p.stdout


class LeanDriver:
    """Long-lived compiled model driver speaking the JSON line protocol."""

    def __init__(self, exe):
        self.path = os.path.join(LEAN_DIR, ".lake", "build", "bin", exe)
        if not os.path.exists(self.path):
            raise HarnessError("driver not built: " + self.path)
        self.p = subprocess.Popen([self.path], stdin=subprocess.PIPE, stdout=subprocess.PIPE,
                                  text=True, bufsize=1)
        self.n = 0

    def ask(self, obj):
        self.n += 1
        obj = dict(obj)
        obj.setdefault("case", self.n)
        self.p.stdin.write(json.dumps(obj) + "\n")
        self.p.stdin.flush()
        line = self.p.stdout.readline()
        if not line:
            raise HarnessError("model driver died on " + json.dumps(obj)[:400])
        return json.loads(line)

    def close(self):
        try:
            self.p.stdin.close()
            self.p.wait(timeout=5)
        except Exception:
            self.p.kill()


class Ctx:
    def __init__(self, pid, tier, seed):
        self.pid, self.tier, self.seed = pid, tier, seed
        self.rng = random.Random(seed * 1000003 + int(pid[1:]))
        self.t0 = time.time()
        self.budget_s = float(os.environ.get("VERIF_BUDGET_S", 45 if tier == "quick" else 600))
        self.scratch = tempfile.mkdtemp(prefix="verif-%s-" % pid)
        self.stats = collections.Counter()
        self.samples = []
        self.evaluations = 0
        self._distinct = set()
        self.violations = []      # direct-oracle failures on the real code
        self.broken = []          # broken ties: disagreements / obligations that no longer check
        self.known_hits = collections.OrderedDict()
        self.known = load_known(pid)
        self.obligations = 0
        self.discharged = 0
        self.theorems = []
        self.partial = []
        self.driver_ok = True
        self.drivers = {}
        self.notes = []
        self.extra = {}
        self.assumptions = []

    # ---- time ---------------------------------------------------------------------------
    def elapsed(self):
        return time.time() - self.t0

    def time_left(self):
        return self.budget_s - (time.time() - self.t_run0)

    def start_run_clock(self):
        self.t_run0 = time.time()

    # ---- driver -------------------------------------------------------------------------
    def driver(self, exe):
        if not self.driver_ok:
            return None
        if exe not in self.drivers:
            self.drivers[exe] = LeanDriver(exe)
        return self.drivers[exe]

    # ---- bookkeeping --------------------------------------------------------------------
    def case(self, case, nontrivial=True, key=None):
        """Count one explored case; `nontrivial` by the module's stated rule."""
        self.evaluations += 1
        if nontrivial:
            h = hashlib.sha1(json.dumps(case if key is None else key, sort_keys=True,
                                        default=str).encode()).hexdigest()
            self._distinct.add(h)
        if len(self.samples) < 3:
            self.samples.append(case)

    def count(self, key, n=1):
        self.stats[key] += n

    def _known_match(self, case, what):
        for k in self.known:
            if k.get("status") != "open":
                continue
            pred = KNOWN_PREDICATES.get(k["predicate"])
            try:
                if pred and pred(case, what):
                    return k
            except Exception:
                pass
        return None

    def violation(self, what, case, expected=None, observed=None, kind="input"):
        """The direct oracle of the property failed on the real code for `case`."""
        k = self._known_match(case, what)
        if k:
            self.known_hits.setdefault(k["id"], k)
            self.count("known-finding:" + k["id"])
            return
        self.violations.append(dict(what=what, case=case, expected=expected, observed=observed, kind=kind))

    def disagreement(self, name, case, model=None, impl=None):
        """Model and implementation differ on `case` (a broken tie, not yet a violation)."""
        k = self._known_match(case, "disagreement:" + name)
        if k:
            self.known_hits.setdefault(k["id"], k)
            self.count("known-finding:" + k["id"])
            return
        self.broken.append(dict(broken="correspondence:" + name, case=case, model=model, impl=impl))

    def tie_broken(self, name, detail=None):
        self.broken.append(dict(broken=name, detail=detail))

    def cleanup(self):
        for d in self.drivers.values():
            d.close()
        shutil.rmtree(self.scratch, ignore_errors=True)


# ---- known findings ---------------------------------------------------------------------
KNOWN_PREDICATES = {}


def known_predicate(fn):
    KNOWN_PREDICATES[fn.__name__] = fn
    return fn


def load_known(pid):
    """known_findings.json (the committed, merged file) plus known/<pid>.json (per-property
    source the merge tool reads); predicates from harness/known.py and harness/known_<pid>.py."""
    import importlib
    allk = []
    for path in (os.path.join(VERIF, "known_findings.json"), os.path.join(VERIF, "known", pid + ".json")):
        if os.path.exists(path):
            with open(path) as f:
                for k in json.load(f):
                    if k["property"] == pid and k["id"] not in [x["id"] for x in allk]:
                        allk.append(k)
    from harness import known  # noqa: F401  (registers predicates)
    if os.path.exists(os.path.join(VERIF, "harness", "known_%s.py" % pid.lower())):
        importlib.import_module("harness.known_" + pid.lower())
    return allk


# ---- Lean build + audit -----------------------------------------------------------------
def lake_build(targets, timeout=1500):
    t = time.time()
    rc, out = sh(["lake", "build"] + targets, cwd=LEAN_DIR, timeout=timeout)
    return rc, out, time.time() - t


def prop_theorems(pid):
    """Names of the theorems stated in Props/<pid>.lean (the proof obligations)."""
    path = os.path.join(LEAN_DIR, "PymocaVerif", "Props", pid + ".lean")
    src = strip_lean_comments(open(path).read())
    ns = []
    names = []
    for m in re.finditer(r"^\s*(namespace\s+(\S+)|end\s+(\S+)|(?:protected\s+|private\s+)?theorem\s+(\S+))", src, re.M):
        if m.group(2):
            ns.append(m.group(2))
        elif m.group(3):
            if ns and ns[-1] == m.group(3):
                ns.pop()
        elif m.group(4):
            names.append(".".join(ns + [m.group(4)]))
    return names


def model_files_of(pid):
    """Every .lean file Props/<pid>.lean transitively imports inside the project."""
    seen, todo = set(), ["PymocaVerif.Props." + pid]
    while todo:
        m = todo.pop()
        if m in seen:
            continue
        path = os.path.join(LEAN_DIR, *m.split(".")) + ".lean"
        if not os.path.exists(path):
            continue
        seen.add(m)
        for mm in re.finditer(r"^\s*import\s+(PymocaVerif\.\S+|Drivers\.\S+)", open(path).read(), re.M):
            todo.append(mm.group(1))
    return sorted(seen)


def audit(ctx, pid, extra_modules=()):
    """Forbidden-token scan + `#print axioms` on every property theorem."""
    mods = set(model_files_of(pid)) | set(extra_modules)
    bad = []
    for m in sorted(mods):
        path = os.path.join(LEAN_DIR, *m.split(".")) + ".lean"
        src = strip_lean_comments(open(path).read())
        for mm in FORBIDDEN.finditer(src):
            bad.append("%s: %s" % (m, mm.group(0).strip()))
    names = prop_theorems(pid)
    ctx.theorems = names
    ctx.obligations = len(names)
    ctx.partial = [n for n in names if n.endswith("_partial")]
    if bad:
        ctx.tie_broken("audit:forbidden-token", bad[:10])
        return
    if not names:
        raise HarnessError("no theorems in Props/%s.lean" % pid)
    audit_src = "import PymocaVerif.Props.%s\n" % pid + "".join("#print axioms %s\n" % n for n in names)
    apath = os.path.join(ctx.scratch, "Audit%s.lean" % pid)
    with open(apath, "w") as f:
        f.write(audit_src)
    rc, out = sh(["lake", "env", "lean", apath], cwd=LEAN_DIR, timeout=900)
    if rc != 0:
        ctx.tie_broken("audit:print-axioms-failed", out[-2000:])
        return
    # output: "'name' depends on axioms: [a, b]" or "'name' does not depend on any axioms"
    flat = " ".join(out.split())
    ok = 0
    offenders = []
    for n in names:
        m = re.search(r"'%s' (does not depend on any axioms|depends on axioms: \[([^\]]*)\])" % re.escape(n), flat)
        if not m:
            offenders.append(n + ": no axiom report")
            continue
        axs = set(a.strip() for a in (m.group(2) or "").split(",") if a.strip())
        if axs <= ALLOWED_AXIOMS:
            ok += 1
        else:
            offenders.append("%s: %s" % (n, sorted(axs - ALLOWED_AXIOMS)))
    ctx.discharged = ok
    if offenders:
        ctx.tie_broken("audit:axioms", offenders)


# ---- evidence / replay ------------------------------------------------------------------
def write_replay(ctx, k, payload):
    d = os.path.join(VERIF, "replays", ctx.pid)
    os.makedirs(d, exist_ok=True)
    path = os.path.join(d, "%d-%d.json" % (ctx.seed, k))
    payload = dict(payload)
    payload.update(property=ctx.pid, seed=ctx.seed, tier=ctx.tier,
                   rerun="/venv/bin/python /verif/check.py %s --replay %s" % (ctx.pid, path))
    with open(path, "w") as f:
        json.dump(payload, f, indent=1, default=str)
    return path


def write_evidence(ctx, mod, nviol, wall):
    cov = dict(
        obligations=ctx.obligations,
        discharged=ctx.discharged,
        checker_cmd="cd /verif/lean && lake build PymocaVerif.Props.%s && lake env lean <#print axioms of every theorem in Props/%s.lean>%s"
        % (ctx.pid, ctx.pid, " && lake env leanchecker PymocaVerif.Props.%s" % ctx.pid if ctx.tier == "thorough" else ""),
        trusted_base=TRUSTED_BASE_COMMON + list(getattr(mod, "TRUSTED", [])),
        theorems=ctx.theorems,
        partial_theorems=ctx.partial,
        evaluations=ctx.evaluations,
        distinct_nontrivial=len(ctx._distinct),
        rule=getattr(mod, "RULE", ""),
        samples=ctx.samples or ["(no correspondence case was run)"],
        distribution=dict(ctx.stats),
        correspondence_disagreements=len([b for b in ctx.broken if str(b.get("broken", "")).startswith("correspondence:")]),
        broken_ties=[b.get("broken") for b in ctx.broken][:20],
        known_findings=list(ctx.known_hits.keys()),
        notes=ctx.notes,
    )
    cov.update(ctx.extra)
    # keep the keys the evidence schema types (exhaustive: boolean; counts: non-negative integers)
    if "exhaustive" in cov and not isinstance(cov["exhaustive"], bool):
        by = cov.pop("exhaustive")
        cov["exhaustive_by_stream"] = by
        cov["exhaustive"] = bool(by) and all(bool(v) for v in (by.values() if isinstance(by, dict) else [by]))
    for k in ("states", "transitions", "traces_validated_against_impl", "programs", "disagreements_checked"):
        if k in cov and not (isinstance(cov[k], int) and not isinstance(cov[k], bool) and cov[k] >= 0):
            cov[k + "_detail"] = cov.pop(k)
    if "explanation" in cov and not isinstance(cov["explanation"], str):
        cov["explanation"] = json.dumps(cov["explanation"], default=str)
    ev = dict(property_id=ctx.pid, tier=ctx.tier, seed=ctx.seed, level="proof", coverage=cov,
              assumptions=list(getattr(mod, "ASSUMPTIONS", [])) + ctx.assumptions,
              wall_s=round(wall, 2), violations=nviol)
    try:  # self-check against the evidence schema when it is available (never fatal)
        import jsonschema
        sp = "/root/.vp/EVIDENCE.schema.json"
        if os.path.exists(sp):
            jsonschema.validate(json.loads(json.dumps(ev, default=str)), json.load(open(sp)))
    except ImportError:
        pass
    except Exception as e:  # pragma: no cover
        print("EVIDENCE-SCHEMA-WARNING: %s" % str(e)[:300], file=sys.stderr)
    os.makedirs(os.path.join(VERIF, "evidence"), exist_ok=True)
    path = os.path.join(VERIF, "evidence", ctx.pid + ".json")
    tmp = path + ".tmp"
    with open(tmp, "w") as f:
        json.dump(ev, f, indent=1, default=str)
    os.replace(tmp, path)


def impl_frames(tb):
    """Does a traceback pass through the repository's code?"""
    return any(("/pymoca/" in fr.filename or "/tools/compiler" in fr.filename) and not fr.filename.startswith(VERIF)
               for fr in traceback.extract_tb(tb))
