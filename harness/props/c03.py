"""C03 — parsed expressions follow Modelica precedence and literal values.

Ties (every run):
 * translator: `Generated/ExprTable.lean` is rewritten from `generated/ModelicaParser.py` (method `expr`, Python `ast`)
   and from the deserialised ATN of the imported parser (precedence predicates / rule-call precedences of rule `expr`);
   obligations `table_ok`, `atn_ok` in Props/C03.lean compare them with the table the theorems are about.
 * correspondence: typed expression trees are printed with *this file's* Modelica printer (minimal parentheses by the
   Modelica specification's grammar, every `paren` node verbatim), the text is parsed by the real
   `pymoca.parser.parse(..., bypass_cache=True)` inside `model T Real r; equation r = <text>; end T;`, and the
   canonicalised AST of the right-hand side is compared with (a) the Lean model's parse of the same token list
   (table-driven ANTLR precedence climbing) and (b) the Lean model's `expected` tree of the source tree; the Lean
   printer's tokens are compared with this file's printer.  A malformed stream (random token soup around valid
   expressions) compares accept/reject and trees.
 * direct oracle: the text is read by `spec_parse`, a recursive-descent parser written straight from the Modelica
   specification's grammar B.2.7 (independent of printer, model and pymoca; it must return the source tree), and that
   reading and the pymoca AST are evaluated over `fractions.Fraction` / bool / str at six environments (three generic points, three with ties between variables); the values
   must agree.  In the malformed stream every text the specification derives is checked the same way.  Literals: exact value and Python
   type of integer / real (incl. exponent forms) / Boolean / escape-free string literals.
"""
import hashlib
import io
import json
import os
import sys
from fractions import Fraction

from harness.common import HarnessError

DRIVERS = ["drv_c03"]
RULE = ("a case is one (expression tree, parenthesisation) pair printed to Modelica text, or one literal lexeme, or one set "
        "of literals parsed together (strings spelled like the numbers / Booleans beside them), or one "
        "token string of the malformed stream; non-trivial = the tree has at least two operator nodes (binary, unary, "
        "power, if) and a defined value in at least one of the six environments, or (literals) the lexeme is not a "
        "single digit; distinct = distinct text")
TRUSTED = [
    "ANTLR's adaptive prediction follows the serialized ATN as the generated `expr` method's explicit precpred/expr(n) "
    "calls indicate (the translator extracts both and requires them equal; otherwise only the correspondence checks it)",
    "the lexer splits the generated text at the blanks this harness puts between tokens",
]
ASSUMPTIONS = [
    "texts outside B.2.7 that pymoca's grammar accepts are checked in one class only: a unary sign in front of a "
    "non-first factor / term (`a / -b / c`), read as belonging to that factor alone (`^` binding tighter), `* /` "
    "staying left associative; the Lean theorems do not cover this class (correspondence of model parser vs real "
    "parser and the value oracle do)",
    "expressions are the single-expression fragment: no `a:b:c` ranges, arrays, named arguments, multi-output "
    "parentheses; component references are opaque atoms (dotted names / integer subscripts)",
    "string literals: the value is the text between the delimiters, escape sequences kept verbatim (pymoca documents "
    "no unescaping; a backslash always takes the next character with it, so the content never ends in an odd run "
    "of backslashes)",
    "real literals are in double range; their exact value is the correctly rounded double of the decimal lexeme",
    "zero-argument calls `f()` / `initial()` are a separate stream (finding C03-F1, fixed in /repo by 3a63bdb; the "
    "stream stays as a regression check)",
]

BIN = {"*": "mul", "/": "div", ".*": "emul", "./": "ediv", "+": "add", "-": "sub", ".+": "eadd", ".-": "esub",
       "<": "lt", "<=": "le", ">": "gt", ">=": "ge", "==": "eq", "<>": "ne", "and": "and", "or": "or"}
MULOPS = ["*", "/", ".*", "./"]
ADDOPS = ["+", "-", ".+", ".-"]
RELOPS = ["<", "<=", ">", ">=", "==", "<>"]
POWOPS = ["^", ".^"]
PREOPS = ["+", "-", "not"]
KEYWORDS = ["(", ")", ",", "if", "then", "elseif", "else"]

# --------------------------------------------------------------------------------------------
# Modelica printer (specification grammar B.2.7): expression 0, logical_expression 1, logical_term 2,
# logical_factor 3, relation 4, arithmetic_expression 5, term 6, factor 7, primary 8.


def mlevel(t):
    k = t[0]
    if k == "bin":
        o = t[1]
        if o == "or":
            return 1
        if o == "and":
            return 2
        if o in RELOPS:
            return 4
        if o in ADDOPS:
            return 5
        return 6
    if k == "pre":
        return 3 if t[1] == "not" else 5
    if k == "pow":
        return 7
    if k == "if":
        return 0
    return 8


def atom_tok(t):
    return [t[0], t[1]]


def mprint(t, m=0, lenient=False):
    """Token list of tree `t` in a position that requires Modelica level >= m.

    `lenient`: a signed factor that is the RIGHT operand of `* / + -` (and their element-wise forms) is written
    without parentheses (`a / -b / c`): outside B.2.7, inside pymoca's grammar; `spec_parse(…, lenient=True)` reads
    it back."""
    def P(x, lv):
        return mprint(x, lv, lenient)

    def right(x, lv):
        if lenient and x[0] == "pre" and x[1] in ("+", "-") and mlevel(x[2]) >= 7:
            return [x[1]] + P(x[2], 7)
        return P(x, lv)

    k = t[0]
    if k in ("num", "str", "bool", "ref"):
        return [atom_tok(t)]
    if k == "paren":
        return ["("] + P(t[1], 0) + [")"]
    if k == "call":
        out = [["ref", t[1]], "("]
        for i, a in enumerate(t[2]):
            if i:
                out.append(",")
            out += P(a, 0)
        return out + [")"]
    if k == "bin":
        o = t[1]
        lv = mlevel(t)
        if o == "or":
            body = P(t[2], 1) + [o] + P(t[3], 2)
        elif o == "and":
            body = P(t[2], 2) + [o] + P(t[3], 3)
        elif o in RELOPS:
            body = P(t[2], 5) + [o] + P(t[3], 5)
        elif o in ADDOPS:
            body = P(t[2], 5) + [o] + right(t[3], 6)
        else:
            body = P(t[2], 6) + [o] + right(t[3], 7)
    elif k == "pre":
        lv = mlevel(t)
        body = [t[1]] + P(t[2], 4 if t[1] == "not" else 6)
    elif k == "pow":
        lv = 7
        body = P(t[2], 8) + [t[1]] + P(t[3], 8)
    elif k == "if":
        lv = 0
        body = []
        for i, (c, b) in enumerate(t[1]):
            body += ["if" if i == 0 else "elseif"] + P(c, 0) + ["then"] + P(b, 0)
        body += ["else"] + P(t[2], 0)
    else:
        raise HarnessError("bad tree node %r" % (t,))
    return body if m <= lv else ["("] + body + [")"]


def tok_text(tok):
    if isinstance(tok, str):
        return tok
    k, v = tok
    if k == "str":
        return '"' + v + '"'
    if k == "bool":
        return "true" if v else "false"
    return v


def text_of(tokens):
    return " ".join(tok_text(t) for t in tokens)


def strip_parens(t):
    k = t[0]
    if k == "paren":
        return strip_parens(t[1])
    if k == "bin":
        return ["bin", t[1], strip_parens(t[2]), strip_parens(t[3])]
    if k == "pre":
        return ["pre", t[1], strip_parens(t[2])]
    if k == "pow":
        return ["pow", t[1], strip_parens(t[2]), strip_parens(t[3])]
    if k == "if":
        return ["if", [[strip_parens(c), strip_parens(b)] for c, b in t[1]], strip_parens(t[2])]
    if k == "call":
        return ["call", t[1], [strip_parens(a) for a in t[2]]]
    return t


def add_parens(t, rng, prob):
    """Wrap random subtrees into explicit (redundant) `paren` nodes."""
    k = t[0]
    if k == "bin":
        r = ["bin", t[1], add_parens(t[2], rng, prob), add_parens(t[3], rng, prob)]
    elif k == "pre":
        r = ["pre", t[1], add_parens(t[2], rng, prob)]
    elif k == "pow":
        r = ["pow", t[1], add_parens(t[2], rng, prob), add_parens(t[3], rng, prob)]
    elif k == "if":
        r = ["if", [[add_parens(c, rng, prob), add_parens(b, rng, prob)] for c, b in t[1]], add_parens(t[2], rng, prob)]
    elif k == "call":
        r = ["call", t[1], [add_parens(a, rng, prob) for a in t[2]]]
    elif k == "paren":
        r = ["paren", add_parens(t[1], rng, prob)]
    else:
        r = t
    while rng.random() < prob:
        r = ["paren", r]
        prob *= 0.3
    return r


def n_ops(t):
    k = t[0]
    if k == "bin" or k == "pow":
        return 1 + n_ops(t[2]) + n_ops(t[3])
    if k == "pre":
        return 1 + n_ops(t[2])
    if k == "paren":
        return n_ops(t[1])
    if k == "if":
        return 1 + sum(n_ops(c) + n_ops(b) for c, b in t[1]) + n_ops(t[2])
    if k == "call":
        return sum(n_ops(a) for a in t[2])
    return 0


def depth(t):
    k = t[0]
    if k in ("bin", "pow"):
        return 1 + max(depth(t[2]), depth(t[3]))
    if k in ("pre",):
        return 1 + depth(t[2])
    if k == "paren":
        return 1 + depth(t[1])
    if k == "if":
        return 1 + max([depth(t[2])] + [max(depth(c), depth(b)) for c, b in t[1]])
    if k == "call":
        return 1 + max([0] + [depth(a) for a in t[2]])
    return 0


# --------------------------------------------------------------------------------------------
# Reference reader: recursive descent straight from the Modelica specification's grammar (B.2.7), one function per
# nonterminal.  It is independent of the printer above, of pymoca and of the Lean model; `None` = not derivable.

class _Reject(Exception):
    pass


class SpecParser:
    """`lenient`: the extension pymoca's grammar (like most Modelica tools) accepts on top of B.2.7 — a unary `+`/`-` in
    front of ANY factor, not only in front of the first term.  Its reading: the sign belongs to that factor alone
    (`^` still binds tighter), so `*` `/` stay left associative: `a / -b / c` is `(a / (-b)) / c`."""

    def __init__(self, toks, lenient=False):
        self.t, self.i, self.lenient = toks, 0, lenient

    def peek(self):
        return self.t[self.i] if self.i < len(self.t) else None

    def take(self, tok=None):
        cur = self.peek()
        if cur is None or (tok is not None and cur != tok):
            raise _Reject()
        self.i += 1
        return cur

    def expression(self):
        # expression : simple_expression | if expression then expression { elseif expression then expression } else expression
        if self.peek() == "if":
            self.take()
            branches = []
            c = self.expression()
            self.take("then")
            branches.append([c, self.expression()])
            while self.peek() == "elseif":
                self.take()
                c = self.expression()
                self.take("then")
                branches.append([c, self.expression()])
            self.take("else")
            return ["if", branches, self.expression()]
        return self.logical_expression()     # simple_expression without the `:` forms

    def logical_expression(self):
        # logical_term { or logical_term }
        e = self.logical_term()
        while self.peek() == "or":
            self.take()
            e = ["bin", "or", e, self.logical_term()]
        return e

    def logical_term(self):
        # logical_factor { and logical_factor }
        e = self.logical_factor()
        while self.peek() == "and":
            self.take()
            e = ["bin", "and", e, self.logical_factor()]
        return e

    def logical_factor(self):
        # [ not ] relation
        if self.peek() == "not":
            self.take()
            return ["pre", "not", self.relation()]
        return self.relation()

    def relation(self):
        # arithmetic_expression [ relational_operator arithmetic_expression ]
        e = self.arithmetic_expression()
        if isinstance(self.peek(), str) and self.peek() in RELOPS:
            o = self.take()
            e = ["bin", o, e, self.arithmetic_expression()]
        return e

    def arithmetic_expression(self):
        # [ add_operator ] term { add_operator term }
        if isinstance(self.peek(), str) and self.peek() in ADDOPS:
            o = self.take()
            if o not in ("+", "-"):
                raise _Reject()   # unary `.+` `.-` are outside the property's quantifier (and pymoca's grammar)
            e = ["pre", o, self.term()]
        else:
            e = self.term()
        while isinstance(self.peek(), str) and self.peek() in ADDOPS:
            o = self.take()
            e = ["bin", o, e, self.term()]
        return e

    def term(self):
        # factor { mul_operator factor }
        e = self.signed_factor()
        while isinstance(self.peek(), str) and self.peek() in MULOPS:
            o = self.take()
            e = ["bin", o, e, self.signed_factor()]
        return e

    def signed_factor(self):
        if self.lenient and self.peek() in ("+", "-"):
            o = self.take()
            return ["pre", o, self.signed_factor()]
        return self.factor()

    def factor(self):
        # primary [ ( "^" | ".^" ) primary ]
        e = self.primary()
        if isinstance(self.peek(), str) and self.peek() in POWOPS:
            o = self.take()
            e = ["pow", o, e, self.primary()]
        return e

    def primary(self):
        cur = self.peek()
        if isinstance(cur, list):
            self.take()
            if cur[0] == "ref" and self.peek() == "(":
                # ( component_reference | der | initial ) function_call_args ; positional arguments only
                self.take()
                args = []
                if self.peek() != ")":
                    args.append(self.expression())
                    while self.peek() == ",":
                        self.take()
                        args.append(self.expression())
                self.take(")")
                return ["call", cur[1], args]
            if cur[0] == "ref" and cur[1] in ("der", "initial"):
                raise _Reject()
            return [cur[0], cur[1]]
        if cur == "(":
            # "(" output_expression_list ")" with exactly one expression
            self.take()
            e = self.expression()
            self.take(")")
            return e
        raise _Reject()


def spec_parse(toks, lenient=False):
    """The tree the specification's grammar (or its signed-factor extension) derives for a token list, or None."""
    p = SpecParser(toks, lenient)
    try:
        e = p.expression()
    except _Reject:
        return None
    except RecursionError:
        return None
    return e if p.i == len(toks) else None


# --------------------------------------------------------------------------------------------
# values: Fraction | bool | str | BOT
BOT = ("undefined",)


def U(name, *args):
    """A fixed total function per uninterpreted symbol (any interpretation is as good as another for a precedence
    check; this one is injective enough to tell groupings apart)."""
    h = int(hashlib.sha1(repr((name,) + tuple((type(a).__name__, str(a)) for a in args)).encode()).hexdigest()[:12], 16)
    return Fraction(h % 397 - 198, 1 + (h // 397) % 5)


def isnum(v):
    return isinstance(v, Fraction)


def isbool(v):
    return isinstance(v, bool)


def ap_bin(o, a, b):
    if a is BOT or b is BOT:
        return BOT
    if o in ("+", ".+", "-", ".-", "*", ".*", "/", "./"):
        if not (isnum(a) and isnum(b)):
            return BOT
        if o in ("+", ".+"):
            return a + b
        if o in ("-", ".-"):
            return a - b
        if o in ("*", ".*"):
            return a * b
        return BOT if b == 0 else a / b
    if o in RELOPS:
        if not ((isnum(a) and isnum(b)) or (isbool(a) and isbool(b)) or (isinstance(a, str) and isinstance(b, str))):
            return BOT
        return {"<": a < b, "<=": a <= b, ">": a > b, ">=": a >= b, "==": a == b, "<>": a != b}[o]
    if o in ("and", "or"):
        if not (isbool(a) and isbool(b)):
            return BOT
        return (a and b) if o == "and" else (a or b)
    raise HarnessError("operator " + repr(o))


def ap_pre(o, a):
    if a is BOT:
        return BOT
    if o == "not":
        return (not a) if isbool(a) else BOT
    if not isnum(a):
        return BOT
    return a if o == "+" else -a


def ap_pow(o, a, b):
    if a is BOT or b is BOT or not (isnum(a) and isnum(b)):
        return BOT
    if b.denominator == 1 and abs(b.numerator) <= 4 and max(abs(a.numerator), a.denominator) < 10 ** 40:
        if a == 0 and b < 0:
            return BOT
        return a ** int(b.numerator)
    return U("pow", a, b)


def ap_call(f, args):
    if any(a is BOT for a in args):
        return BOT
    if f == "abs" and len(args) == 1 and isnum(args[0]):
        return abs(args[0])
    if f in ("min", "max") and len(args) == 2 and all(isnum(a) for a in args):
        return min(args) if f == "min" else max(args)
    if f == "sign" and len(args) == 1 and isnum(args[0]):
        return Fraction((args[0] > 0) - (args[0] < 0))
    if f == "noEvent" and len(args) == 1:
        return args[0]
    return U("call:" + f, *args)


def ap_if(conds, vals):
    """conds: evaluated conditions in order; vals: thunks (lazy branches)."""
    for c, v in zip(conds, vals):
        c = c()
        if c is BOT or not isbool(c):
            return BOT
        if c:
            return v()
    return vals[-1]()


def lit_exact(lex):
    """Exact rational of a decimal / scientific lexeme, and whether it has integer form."""
    is_int = lex.isdigit()
    return is_int, Fraction(lex)


def ev_src(t, env):
    k = t[0]
    if k == "num":
        is_int, q = lit_exact(t[1])
        return q if is_int else Fraction(float(q))
    if k == "str":
        return t[1]
    if k == "bool":
        return bool(t[1])
    if k == "ref":
        return env.get(t[1], BOT)
    if k == "paren":
        return ev_src(t[1], env)
    if k == "bin":
        return ap_bin(t[1], ev_src(t[2], env), ev_src(t[3], env))
    if k == "pre":
        return ap_pre(t[1], ev_src(t[2], env))
    if k == "pow":
        return ap_pow(t[1], ev_src(t[2], env), ev_src(t[3], env))
    if k == "call":
        return ap_call(t[1], [ev_src(a, env) for a in t[2]])
    if k == "if":
        return ap_if([lambda c=c: ev_src(c, env) for c, _ in t[1]],
                     [lambda b=b: ev_src(b, env) for _, b in t[1]] + [lambda: ev_src(t[2], env)])
    raise HarnessError("bad tree node %r" % (t,))


def ref_text(n):
    s = n.name
    if n.indices != [[None]]:
        parts = []
        for row in n.indices:
            for i in row:
                v = getattr(i, "value", None)
                parts.append(str(v) if isinstance(v, int) and not isinstance(v, bool) else "?")
        s += "[" + ",".join(parts) + "]"
    if n.child:
        s += "." + ref_text(n.child[0])
    return s


def ev_ast(n, env):
    """Value of a pymoca AST node (independent walk over pymoca's own node classes)."""
    from pymoca import ast
    if isinstance(n, ast.Primary):
        v = n.value
        if isinstance(v, bool) or isinstance(v, str):
            return v
        if isinstance(v, int):
            return Fraction(v)
        if isinstance(v, float):
            return Fraction(v) if v == v and v not in (float("inf"), float("-inf")) else BOT
        return BOT
    if isinstance(n, ast.ComponentRef):
        return env.get(ref_text(n), BOT)
    if isinstance(n, ast.IfExpression):
        if len(n.expressions) != len(n.conditions) + 1:
            return BOT
        return ap_if([lambda c=c: ev_ast(c, env) for c in n.conditions],
                     [lambda b=b: ev_ast(b, env) for b in n.expressions])
    if isinstance(n, ast.Expression):
        op = n.operator
        if isinstance(op, ast.ComponentRef):
            return ap_call(ref_text(op), [ev_ast(a, env) for a in n.operands])
        if op in ("der", "initial"):
            return ap_call(op, [ev_ast(a, env) for a in n.operands])
        vals = [ev_ast(a, env) for a in n.operands]
        if op in POWOPS and len(vals) == 2:
            return ap_pow(op, *vals)
        if op in PREOPS and len(vals) == 1:
            return ap_pre(op, vals[0])
        if op in BIN and len(vals) == 2:
            return ap_bin(op, *vals)
    return BOT


def canon(n):
    """pymoca AST -> the S-expression shape the model uses (numbers by Python type and exact value)."""
    from pymoca import ast
    if isinstance(n, ast.Primary):
        v = n.value
        if isinstance(v, bool):
            return ["bool", v]
        if isinstance(v, str):
            return ["str", v]
        if isinstance(v, int):
            return ["int", str(v)]
        if isinstance(v, float):
            if v != v or v in (float("inf"), float("-inf")):
                return ["real", repr(v)]
            q = Fraction(v)
            return ["real", "%d/%d" % (q.numerator, q.denominator)]
        return ["other", "Primary:" + type(v).__name__]
    if isinstance(n, ast.ComponentRef):
        return ["ref", ref_text(n)]
    if isinstance(n, ast.IfExpression):
        if len(n.expressions) != len(n.conditions) + 1:
            return ["other", "IfExpression:%d/%d" % (len(n.conditions), len(n.expressions))]
        return ["if", [[canon(c), canon(b)] for c, b in zip(n.conditions, n.expressions)], canon(n.expressions[-1])]
    if isinstance(n, ast.Expression):
        op = n.operator
        if isinstance(op, ast.ComponentRef):
            return ["call", ref_text(op), [canon(a) for a in n.operands]]
        if op in ("der", "initial"):
            return ["call", op, [canon(a) for a in n.operands]]
        if op in POWOPS and len(n.operands) == 2:
            return ["pow", op, canon(n.operands[0]), canon(n.operands[1])]
        if op in PREOPS and len(n.operands) == 1:
            return ["pre", op, canon(n.operands[0])]
        if op in BIN and len(n.operands) == 2:
            return ["bin", op, canon(n.operands[0]), canon(n.operands[1])]
        return ["other", "Expression:%r/%d" % (op, len(n.operands))]
    if isinstance(n, list):
        return ["other", "list/%d" % len(n)]
    return ["other", type(n).__name__]


def lit_canon(lex):
    """What a number lexeme must become: Python int for integer form, else the correctly rounded double."""
    is_int, q = lit_exact(lex)
    if is_int:
        return ["int", str(q.numerator)]
    d = Fraction(float(q))  # int/int true division is correctly rounded
    return ["real", "%d/%d" % (d.numerator, d.denominator)]


def canon_expected(t):
    """Model tree (atoms carry lexemes) -> comparable with `canon` of the pymoca AST."""
    k = t[0]
    if k == "num":
        return lit_canon(t[1])
    if k in ("str", "bool", "ref"):
        return [k, t[1]]
    if k == "bin" or k == "pow":
        return [k, t[1], canon_expected(t[2]), canon_expected(t[3])]
    if k == "pre":
        return [k, t[1], canon_expected(t[2])]
    if k == "paren":
        return ["paren", canon_expected(t[1])]
    if k == "if":
        return ["if", [[canon_expected(c), canon_expected(b)] for c, b in t[1]], canon_expected(t[2])]
    if k == "call":
        return ["call", t[1], [canon_expected(a) for a in t[2]]]
    raise HarnessError("bad model tree %r" % (t,))


# --------------------------------------------------------------------------------------------
# real code

class _Quiet:
    """ANTLR's ConsoleErrorListener writes syntax errors to stderr; keep expected ones out of the log."""

    def __enter__(self):
        self.old = sys.stderr
        sys.stderr = io.StringIO()

    def __exit__(self, *a):
        sys.stderr = self.old


def impl_parse(text):
    """('ok', rhs_node) | ('syntax', None) | ('raised', class name)"""
    from pymoca import parser
    src = "model T Real r; equation r = %s; end T;" % text
    try:
        with _Quiet():
            tree = parser.parse(src, bypass_cache=True)
    except Exception as e:  # noqa: BLE001 - classified as an outcome
        return "raised", type(e).__name__
    if tree is None:
        return "syntax", None
    try:
        eqs = tree.classes["T"].equations
        if len(eqs) != 1:
            return "syntax", None  # error recovery dropped / split the equation without flagging: treated as reject
        return "ok", eqs[0].right
    except Exception as e:  # noqa: BLE001
        return "raised", "shape:" + type(e).__name__


# --------------------------------------------------------------------------------------------
# generator

NUMVARS = ["x", "y", "z", "u", "v", "w", "a.b", "q[2]", "c.d[1].e"]
BOOLVARS = ["p", "b1", "b2", "s.on"]
STRVARS = ["name"]
ENVS = []


def make_envs():
    if ENVS:
        return ENVS
    vals = [
        [Fraction(3), Fraction(-2), Fraction(5, 2), Fraction(7), Fraction(-3, 4), Fraction(2), Fraction(11, 8), Fraction(-5), Fraction(9, 2)],
        [Fraction(-7, 2), Fraction(4), Fraction(-1, 4), Fraction(2), Fraction(6), Fraction(-3), Fraction(5), Fraction(3, 8), Fraction(-2)],
        [Fraction(2), Fraction(3), Fraction(-4), Fraction(-1, 2), Fraction(5, 4), Fraction(13), Fraction(-9, 4), Fraction(8), Fraction(3, 2)],
    ]
    bools = [[True, False, True, False], [False, False, True, True], [True, True, False, True]]
    strs = ["abc", "b", ""]
    for i in range(3):
        e = dict(zip(NUMVARS, vals[i]))
        e.update(zip(BOOLVARS, bools[i]))
        e["name"] = strs[i]
        e["time"] = Fraction(i + 1, 2)
        ENVS.append(e)
    # ties: points where the operands of relations evaluate equal (all variables equal; variables from a two-point
    # set), so that `<` / `<=` / `not <` / `>` are told apart at their boundary
    for val, b, nm in ((Fraction(2), True, "abc"), (Fraction(-3, 2), False, "")):
        e = {v: val for v in NUMVARS}
        e.update({v: b for v in BOOLVARS})
        e["name"] = nm
        e["time"] = val
        ENVS.append(e)
    e = dict(zip(NUMVARS, [Fraction(1), Fraction(1), Fraction(2), Fraction(2), Fraction(1), Fraction(2), Fraction(1),
                          Fraction(2), Fraction(1)]))
    e.update(zip(BOOLVARS, [True, True, False, False]))
    e["name"] = "s"
    e["time"] = Fraction(1)
    ENVS.append(e)
    return ENVS


def gen_int_lexeme(rng):
    r = rng.random()
    if r < 0.55:
        return str(rng.choice([0, 1, 2, 2, 3, 3, 4, 5, 7, 10, 12, 100]))
    if r < 0.8:
        return str(rng.randrange(10 ** rng.randint(1, 6)))
    if r < 0.9:
        return "0" * rng.randint(1, 3) + str(rng.randrange(1000))
    return str(rng.randrange(10 ** rng.randint(15, 30)))


def gen_real_lexeme(rng):
    ip = str(rng.randrange(10 ** rng.randint(1, 4)))
    if rng.random() < 0.15:
        ip = "0" * rng.randint(1, 2) + ip
    r = rng.random()
    if r < 0.4:
        fd = rng.randint(0, 3) if rng.random() < 0.8 else rng.randint(4, 20)
        return ip + "." + "".join(rng.choice("0123456789") for _ in range(fd))
    e = rng.choice("eE") + rng.choice(["", "+", "-"]) + (str(rng.randint(0, 5)) if rng.random() < 0.7 else
                                                         "0" * rng.randint(0, 2) + str(rng.randint(0, 30)))
    if r < 0.7:
        return ip + "." + "".join(rng.choice("0123456789") for _ in range(rng.randint(0, 6))) + e
    return ip + e


STR_ALPHABET = "abcXYZ 019_+-*/^<>=().,;:'{}[]!?#%&|~äé"


ESCAPES = ['\\"', "\\\\", "\\n", "\\t", "\\'", "\\?", "\\a"]


def gen_string(rng, tail_backslash_ok=False):
    """Content of a string literal: plain characters and escape sequences (kept verbatim by pymoca: no unescaping),
    escapes at the start, in the middle and at the END with good probability (a content ending in an escaped
    backslash included: finding C03-F2, fixed by ee937b8)."""
    if rng.random() < 0.15:
        # a content spelled like another literal (the unit string "1", "true", "2.5" …)
        return rng.choice(["1", "0", "2", "3", "1.0", "2.5", "true", "false", "1e3", "12", "7", "100", "0.5"])
    n = rng.randint(0, 6)
    pieces = []
    for _ in range(n):
        pieces.append(rng.choice(ESCAPES) if rng.random() < 0.3 else rng.choice(STR_ALPHABET))
    if rng.random() < 0.25:
        pieces.insert(0, rng.choice(ESCAPES))
    if rng.random() < 0.35:
        pieces.append(rng.choice(ESCAPES))
    return "".join(pieces)


FIXED_STRINGS = ['\\"', 'say \\"hi\\"', '\\"\\"', 'x\\"', '\\"x', 'x\\"y', "\\\\", "a\\\\", "\\\\\\\"", "\\n", "", " ",
                 "\\\\ \\\"", "a'b", "\\t\\\""]


class Gen:
    def __init__(self, rng, maxdepth):
        self.rng, self.maxdepth = rng, maxdepth

    def num_atom(self):
        r = self.rng.random()
        if r < 0.45:
            return ["ref", self.rng.choice(NUMVARS)]
        if r < 0.5:
            return ["ref", "time"]
        if r < 0.85:
            return ["num", gen_int_lexeme(self.rng)]
        return ["num", gen_real_lexeme(self.rng)]

    def bool_atom(self):
        r = self.rng.random()
        if r < 0.7:
            return ["ref", self.rng.choice(BOOLVARS)]
        return ["bool", self.rng.random() < 0.5]

    def str_atom(self):
        if self.rng.random() < 0.4:
            return ["ref", "name"]
        return ["str", gen_string(self.rng)]

    def num(self, d):
        rng = self.rng
        if d <= 0 or rng.random() < 0.12:
            return self.num_atom()
        r = rng.random()
        if r < 0.30:
            return ["bin", rng.choice(ADDOPS if rng.random() < 0.15 else ["+", "-", "-"]), self.num(d - 1), self.num(d - 1)]
        if r < 0.58:
            return ["bin", rng.choice(MULOPS if rng.random() < 0.15 else ["*", "/", "/"]), self.num(d - 1), self.num(d - 1)]
        if r < 0.72:
            return ["pre", "-" if rng.random() < 0.8 else "+", self.num(d - 1)]
        if r < 0.84:
            ex = ["num", str(rng.choice([0, 1, 2, 2, 3]))] if rng.random() < 0.6 else self.num(d - 2)
            return ["pow", "^" if rng.random() < 0.85 else ".^", self.num(d - 1), ex]
        if r < 0.92:
            n = 1 if rng.random() < 0.75 else rng.randint(2, 3)
            return ["if", [[self.boolean(d - 1), self.num(d - 1)] for _ in range(n)], self.num(d - 1)]
        f = rng.choice(["abs", "sign", "min", "max", "sin", "der", "noEvent", "f", "Lib.g"])
        if f == "der":
            return ["call", "der", [["ref", rng.choice(NUMVARS[:6])]]]
        n = 2 if f in ("min", "max") else (rng.randint(1, 3) if f in ("f", "Lib.g") else 1)
        return ["call", f, [self.num(d - 1) for _ in range(n)]]

    def boolean(self, d):
        rng = self.rng
        if d <= 0 or rng.random() < 0.1:
            return self.bool_atom()
        r = rng.random()
        if r < 0.30:
            if rng.random() < 0.08:
                return ["bin", rng.choice(RELOPS), self.str_atom(), self.str_atom()]
            if rng.random() < 0.1:
                return ["bin", rng.choice(["==", "<>", "<", ">="]), self.boolean(d - 1), self.boolean(d - 1)]
            left = self.num(d - 1)
            if rng.random() < 0.2:
                # forced tie: both operands of the relation have the same value in every environment
                right = left if rng.random() < 0.6 else ["bin", "+", left, ["num", "0"]]
                return ["bin", rng.choice(RELOPS), left, right]
            return ["bin", rng.choice(RELOPS), left, self.num(d - 1)]
        if r < 0.50:
            return ["bin", "and", self.boolean(d - 1), self.boolean(d - 1)]
        if r < 0.70:
            return ["bin", "or", self.boolean(d - 1), self.boolean(d - 1)]
        if r < 0.88:
            return ["pre", "not", self.boolean(d - 1)]
        if r < 0.96:
            n = 1 if rng.random() < 0.75 else 2
            return ["if", [[self.boolean(d - 1), self.boolean(d - 1)] for _ in range(n)], self.boolean(d - 1)]
        return ["call", "noEvent", [self.boolean(d - 1)]]

    def tree(self):
        d = self.rng.randint(2, self.maxdepth)
        return self.num(d) if self.rng.random() < 0.6 else self.boolean(d)


def soup(rng, g):
    """Malformed / non-Modelica stream: a valid token list with one random edit."""
    toks = mprint(add_parens(g.tree(), rng, 0.1), 0)
    pool = ["+", "-", "*", "/", "^", "<", "==", "not", "and", "or", "(", ")", ",", "if", "then", "else", "elseif",
            ["ref", "x"], ["num", "2"], ["bool", True], ".*", ".^", "<>"]
    r = rng.random()
    i = rng.randrange(len(toks) + 1)
    if r < 0.35:
        toks = toks[:i] + [rng.choice(pool)] + toks[i:]
    elif r < 0.6 and toks:
        i = min(i, len(toks) - 1)
        toks = toks[:i] + toks[i + 1:]
    elif r < 0.8 and toks:
        i = min(i, len(toks) - 1)
        toks = toks[:i] + [rng.choice(pool)] + toks[i + 1:]
    else:
        j = rng.randrange(len(toks) + 1)
        i, j = min(i, j), max(i, j)
        toks = toks[i:j] or [["ref", "x"]]
    return toks


def has_multi_paren(toks):
    """`( )` and `( a , b )` are output-expression lists (not single expressions): outside the modelled fragment."""
    stack = []
    prev = None
    for t in toks:
        if t == "(":
            stack.append(["call" if isinstance(prev, list) and prev[0] == "ref" else "paren", 0])
        elif t == ")":
            if stack:
                kind, commas = stack.pop()
                if kind == "paren" and (commas or prev == "("):
                    return True
        elif t == "," and stack:
            stack[-1][1] += 1
            if stack[-1][0] == "paren":
                return True
        prev = t
    return False


# --------------------------------------------------------------------------------------------
# the checker of one case

def oracle_verdict(tree):
    """Direct oracle on one source tree: None if the property holds, else (what, expected, observed)."""
    toks = mprint(tree, 0)
    text = text_of(toks)
    envs = make_envs()
    ref = spec_parse(toks)
    if ref != strip_parens(tree):
        # the printer of this harness and the reference reader of the specification's grammar disagree
        raise HarnessError("printer / specification reader mismatch on %r: %r" % (text, ref))
    want = [ev_src(ref, e) for e in envs]
    st, node = impl_parse(text)
    if st == "raised":
        return "parse raised %s on a valid expression" % node, "an AST", node, st, node, want
    if st == "syntax":
        return "valid Modelica expression rejected as a syntax error", "an AST", "None", st, node, want
    got = [ev_ast(node, e) for e in envs]
    for i, (w, g) in enumerate(zip(want, got)):
        if w is BOT and g is BOT:
            continue
        if type(w) is not type(g) or w != g:
            return ("parsed tree evaluates differently from the source text under Modelica precedence",
                    {"env": i, "value": str(w)}, {"env": i, "value": str(g), "ast": canon(node)}, st, node, want)
    return None, None, None, st, node, want


def subtrees(t):
    k = t[0]
    if k in ("bin", "pow"):
        return [t[2], t[3]]
    if k in ("pre",):
        return [t[2]]
    if k == "paren":
        return [t[1]]
    if k == "if":
        return [x for cb in t[1] for x in cb] + [t[2]]
    if k == "call":
        return list(t[2])
    return []


def with_subtree(t, i, new):
    k = t[0]
    if k in ("bin", "pow"):
        return [k, t[1], new, t[3]] if i == 0 else [k, t[1], t[2], new]
    if k == "pre":
        return [k, t[1], new]
    if k == "paren":
        return [k, new]
    if k == "if":
        flat = [x for cb in t[1] for x in cb] + [t[2]]
        flat[i] = new
        return ["if", [[flat[2 * j], flat[2 * j + 1]] for j in range(len(t[1]))], flat[-1]]
    if k == "call":
        a = list(t[2])
        a[i] = new
        return [k, t[1], a]
    return t


def _atom_like(t):
    """an atom of the value type of `t` (first environment)"""
    v = ev_src(t, make_envs()[0])
    if isinstance(v, bool):
        return ["bool", True]
    if isinstance(v, str):
        return ["str", "s"]
    return ["num", "2"]


def _smaller(t):
    """smaller variants of a tree, most drastic first"""
    subs = subtrees(t)
    for s in subs:
        if s[0] not in ("num", "str", "bool", "ref"):
            yield s
    if t[0] == "if" and len(t[1]) > 1:
        for j in range(len(t[1])):
            yield ["if", t[1][:j] + t[1][j + 1:], t[2]]
    if t[0] == "call" and len(t[2]) > 1 and t[1] in ("f", "Lib.g"):
        for j in range(len(t[2])):
            yield ["call", t[1], t[2][:j] + t[2][j + 1:]]
    for i, s in enumerate(subs):
        if s[0] in ("num", "str", "bool", "ref"):
            continue
        yield with_subtree(t, i, _atom_like(s))
    for i, s in enumerate(subs):
        if s[0] in ("num", "str", "bool", "ref"):
            continue
        for c in _smaller(s):
            yield with_subtree(t, i, c)


def shrink(tree, what, budget=150):
    """Greedy reduction of a failing tree while the same oracle message stays."""
    calls = 0
    cur = tree
    progress = True
    while progress and calls < budget:
        progress = False
        for c in _smaller(cur):
            calls += 1
            if calls > budget:
                break
            if oracle_verdict(c)[0] == what:
                cur, progress = c, True
                break
    return cur


def check_tree(ctx, drv, tree, stream="tree"):
    """One source tree (with its paren nodes): print, parse with the real code, oracle, model."""
    toks = mprint(tree, 0)
    text = text_of(toks)
    case = {"kind": stream, "tree": tree, "text": text}
    what, expected, observed, st, node, want = oracle_verdict(tree)
    nt = n_ops(tree) >= 2 and any(v is not BOT for v in want)
    ctx.case(case, nontrivial=nt, key=text)
    if what is not None:
        if n_ops(tree) > 2 and not any(v["what"] == what for v in ctx.violations):
            small = shrink(tree, what)
            if small is not tree:
                w2, e2, o2 = oracle_verdict(small)[:3]
                if w2 == what:
                    ctx.violation(what, {"kind": stream, "tree": small, "text": text_of(mprint(small, 0)),
                                         "shrunk_from": text}, expected=e2, observed=o2)
        ctx.violation(what, case, expected=expected, observed=observed)
    if drv is None:
        return
    ans = drv.ask({"op": "mprint", "tree": tree})
    if not ans.get("ok"):
        raise HarnessError("model driver rejected %s: %s" % (json.dumps(case)[:300], ans))
    if ans["tokens"] != toks:
        ctx.disagreement("printer", case, model=text_of(ans["tokens"]), impl=text)
        return
    if ans["parsed"] != ans["expected"]:
        # the theorem parse_mprint says this cannot happen; a difference is a bug of driver or fuel
        raise HarnessError("model: parse(mprint e) differs from expected e on %s" % text)
    if ans["spec"] != ans["stripped"] or ans["stripped"] != strip_parens(tree):
        # theorem spec_reads_source; and the Lean reference reader against this file's
        raise HarnessError("model: specParse(mprint e) differs from strip e on %s" % text)
    if st == "ok":
        exp = canon_expected(ans["expected"])
        got = canon(node)
        if exp != got:
            ctx.disagreement("ast", case, model=exp, impl=got)
    else:
        ctx.disagreement("ast", case, model=canon_expected(ans["expected"]), impl=[st, node])


def check_tokens(ctx, drv, toks, expect=None):
    """Malformed stream: accept/reject and tree of model parser vs real parser on an arbitrary token list."""
    text = text_of(toks)
    case = {"kind": "tokens", "tokens": toks, "text": text}
    ctx.case(case, nontrivial=len(toks) >= 3, key=text)
    st, node = impl_parse(text)
    if st == "raised":
        if not any(toks[i:i + 2] == ["(", ")"] for i in range(len(toks))):
            ctx.violation("parse raised %s" % node, case, expected="an AST or None", observed=node)
        return
    ref = spec_parse(toks)
    strict = ref
    if ref is None:
        ref = spec_parse(toks, lenient=True)
        if ref is not None:
            ctx.count("tokens-in-signed-factor-extension")
    if expect is not None and ref != expect:
        raise HarnessError("lenient printer / reader mismatch on %r: %r" % (text, ref))
    if ref is not None:
        ctx.count("tokens-in-specification-grammar" if strict is not None else "tokens-lenient-read")
        if st != "ok":
            ctx.violation("text derivable in the specification's expression grammar (or its signed-factor extension) "
                          "rejected as a syntax error", case,
                          expected=ref, observed="None")
        else:
            for i, e in enumerate(make_envs()):
                w, g = ev_src(ref, e), ev_ast(node, e)
                if not (w is BOT and g is BOT) and (type(w) is not type(g) or w != g):
                    ctx.violation("parsed tree evaluates differently from the source text under Modelica precedence",
                                  case, expected={"env": i, "value": str(w), "reading": ref},
                                  observed={"env": i, "value": str(g), "ast": canon(node)})
                    break
    if drv is None:
        return
    ans = drv.ask({"op": "parse", "tokens": toks})
    if not ans.get("ok"):
        raise HarnessError("model driver rejected %s: %s" % (json.dumps(case)[:300], ans))
    if ans["spec"] != strict:
        # two transcriptions of the specification's grammar (Lean `specParse`, `spec_parse` here) must agree
        raise HarnessError("reference readers differ on %r: Lean %r, Python %r" % (text, ans["spec"], ref))
    if ans["tree"] is None:
        ctx.count("tokens-model-reject")
        if st == "ok":
            ctx.disagreement("accept", case, model="syntax error", impl=canon(node))
    else:
        ctx.count("tokens-model-accept")
        if st != "ok":
            ctx.disagreement("accept", case, model=canon_expected(ans["tree"]), impl="syntax error")
        else:
            exp, got = canon_expected(ans["tree"]), canon(node)
            if exp != got:
                ctx.disagreement("ast", case, model=exp, impl=got)


def check_literal(ctx, drv, kind, lex):
    case = {"kind": "literal", "lit": kind, "lexeme": lex}
    text = tok_text([kind, lex])
    ctx.case(case, nontrivial=len(text) > 1, key="lit:" + text)
    st, node = impl_parse(text)
    from pymoca import ast
    if st != "ok" or not isinstance(node, ast.Primary):
        ctx.violation("literal not parsed to a Primary", case, expected="Primary", observed=[st, str(node)])
        return
    v = node.value
    if kind == "num":
        want = lit_canon(lex)
        got = canon(node)
        if want != got:
            ctx.violation("number literal not parsed to its exact value / type", case, expected=want, observed=got)
    elif kind == "str":
        if not (isinstance(v, str) and v == lex):
            ctx.violation("string literal not parsed to its exact value", case, expected=lex, observed=repr(v))
    else:
        if not (isinstance(v, bool) and v == lex):
            ctx.violation("Boolean literal not parsed to its exact value", case, expected=lex, observed=repr(v))
    if drv is not None and kind == "str":
        ans = drv.ask({"op": "strlit", "lexeme": text})
        if not ans.get("ok") or ans.get("value") != lex:
            raise HarnessError("model string literal value of %r is %r" % (text, ans))
        if not (isinstance(v, str) and v == ans["value"]):
            ctx.disagreement("literal", case, model=ans["value"], impl=repr(v))
    if drv is not None and kind == "num":
        ans = drv.ask({"op": "lit", "lexeme": lex})
        if not ans.get("ok"):
            raise HarnessError("model driver rejected literal %r: %s" % (lex, ans))
        is_int, q = lit_exact(lex)
        mine = {"int": is_int, "num": str(q.numerator), "den": str(q.denominator)}
        theirs = {"int": ans["int"], "num": ans["num"], "den": ans["den"]}
        if mine != theirs:
            raise HarnessError("model literal value differs from exact value of %r: %s vs %s" % (lex, theirs, mine))
        mv = ["int", ans["num"]] if ans["int"] else lit_canon(lex)
        if mv != canon(node):
            ctx.disagreement("literal", case, model=mv, impl=canon(node))


def check_empty_call(ctx, drv, tree):
    """Known-finding stream: trees containing a zero-argument call (kept apart from the main streams)."""
    toks = mprint(tree, 0)
    text = text_of(toks)
    case = {"kind": "emptycall", "tree": tree, "text": text}
    ctx.case(case, nontrivial=False, key=text)
    st, node = impl_parse(text)
    if st == "raised":
        ctx.violation("parse raised %s on a zero-argument call" % node, case, expected="an AST", observed=node)
    elif st == "syntax":
        ctx.violation("zero-argument call rejected as a syntax error", case, expected="an AST", observed="None")
    else:
        envs = make_envs()
        for i, e in enumerate(envs):
            w, g = ev_src(tree, e), ev_ast(node, e)
            if not (w is BOT and g is BOT) and (type(w) is not type(g) or w != g):
                ctx.violation("parsed tree evaluates differently from the source text under Modelica precedence",
                              case, expected={"env": i, "value": str(w)},
                              observed={"env": i, "value": str(g), "ast": canon(node)})
                break
        if drv is not None:
            ans = drv.ask({"op": "mprint", "tree": tree})
            if not ans.get("ok"):
                raise HarnessError("model driver rejected %s: %s" % (json.dumps(case)[:300], ans))
            if canon_expected(ans["expected"]) != canon(node):
                ctx.disagreement("ast", case, model=canon_expected(ans["expected"]), impl=canon(node))


def gen_litset(rng):
    """Several literals for ONE parse: numbers / Booleans together with string literals whose content is spelled like
    them (and like each other), duplicates included, in random order."""
    base = []
    for _ in range(rng.randint(1, 3)):
        r = rng.random()
        if r < 0.45:
            base.append(["num", gen_int_lexeme(rng)])
        elif r < 0.8:
            base.append(["num", gen_real_lexeme(rng)])
        else:
            base.append(["bool", rng.random() < 0.5])
    lits = list(base)
    for b in base:
        spelled = tok_text(b)
        if rng.random() < 0.8:
            lits.append(["str", spelled])
        if rng.random() < 0.3:
            lits.append(list(b))
        if b[0] == "num" and rng.random() < 0.3:
            lits.append(["num", spelled + ".0" if spelled.isdigit() else spelled.lower()])
    if rng.random() < 0.4:
        lits.append(["str", gen_string(rng)])
    rng.shuffle(lits)
    return lits[:7]


def lit_expected(lit):
    kind, lex = lit
    if kind == "num":
        return lit_canon(lex)
    return [kind, lex]


def check_litset(ctx, drv, lits):
    """Every literal OCCURRENCE of one parse keeps its own type and value, whatever other literals the text has."""
    tree = ["call", "f", [list(x) for x in lits]]
    text = text_of(mprint(tree, 0))
    case = {"kind": "litset", "tree": tree, "text": text}
    st, node = impl_parse(text)
    from pymoca import ast
    if st == "ok" and isinstance(node, ast.Expression) and len(node.operands) == len(lits):
        for i, (lit, op) in enumerate(zip(lits, node.operands)):
            want, got = lit_expected(lit), canon(op)
            if want != got:
                ctx.violation("literal occurrence not parsed to its own exact value / type", dict(case, position=i),
                              expected=want, observed=got)
                break
    check_tree(ctx, drv, tree, "litset")


def signed_trees():
    """A sign in front of a NON-first factor / term, followed by more operators of the same level, no parentheses:
    `a / -b / c`, `a * -b ^ 2 / c`, `a - +b - c`, `x - b / -c / d` …"""
    out = []
    a, b, c, d = (["ref", v] for v in ("x", "y", "z", "u"))
    for sg in ("-", "+"):
        for o1 in MULOPS:
            for o2 in MULOPS:
                out.append(["bin", o2, ["bin", o1, a, ["pre", sg, b]], c])
                out.append(["bin", "-", d, ["bin", o2, ["bin", o1, a, ["pre", sg, b]], c]])
            out.append(["bin", o1, ["bin", o1, a, ["pre", sg, ["pow", "^", b, ["num", "2"]]]], c])
            out.append(["bin", o1, ["bin", o1, ["bin", o1, a, ["pre", sg, b]], ["pre", sg, c]], d])
            out.append(["bin", o1, a, ["pre", sg, b]])
        for o1 in ADDOPS:
            for o2 in ADDOPS:
                out.append(["bin", o2, ["bin", o1, a, ["pre", sg, b]], c])
            out.append(["bin", o1, a, ["bin", "/", ["bin", "/", ["pre", sg, b], c], d]])
            out.append(["bin", "<", ["bin", o1, a, ["bin", "*", ["pre", sg, b], c]], d])
    return out


def sign_factors(t, rng, prob):
    """Put a unary sign on random right operands of `* / + -` (factor-level operands only)."""
    k = t[0]
    if k == "bin":
        l, r = sign_factors(t[2], rng, prob), sign_factors(t[3], rng, prob)
        if t[1] in MULOPS + ADDOPS and mlevel(r) >= 7 and rng.random() < prob:
            r = ["pre", "-" if rng.random() < 0.8 else "+", r]
        return ["bin", t[1], l, r]
    if k == "pre":
        return ["pre", t[1], sign_factors(t[2], rng, prob)]
    if k == "pow":
        return ["pow", t[1], sign_factors(t[2], rng, prob), sign_factors(t[3], rng, prob)]
    if k == "paren":
        return ["paren", sign_factors(t[1], rng, prob)]
    if k == "if":
        return ["if", [[sign_factors(c, rng, prob), sign_factors(b, rng, prob)] for c, b in t[1]], sign_factors(t[2], rng, prob)]
    if k == "call":
        return ["call", t[1], [sign_factors(x, rng, prob) for x in t[2]]]
    return t


def check_signed(ctx, drv, tree):
    """A tree printed with unparenthesised signed factors: text outside B.2.7 but inside pymoca's grammar."""
    toks = mprint(tree, 0, lenient=True)
    check_tokens(ctx, drv, toks, expect=strip_parens(tree))


def check_case(ctx, drv, c):
    k = c.get("kind")
    if k == "litset":
        check_litset(ctx, drv, c["tree"][2])
    elif k in ("tree", "pairs", "strtail"):
        check_tree(ctx, drv, c["tree"], k)
    elif k == "tokens":
        check_tokens(ctx, drv, c["tokens"])
    elif k == "literal":
        check_literal(ctx, drv, c["lit"], c["lexeme"])
    elif k == "emptycall":
        check_empty_call(ctx, drv, c["tree"])
    else:
        raise HarnessError("unknown case kind %r" % (k,))


# --------------------------------------------------------------------------------------------
# systematic small trees: every ordered pair of operators in both groupings

def typed_atoms(kind, i):
    if kind == "n":
        return ["ref", NUMVARS[i % 6]]
    return ["ref", BOOLVARS[i % 3]]


def op_sig(o):
    """(operand kind, result kind) of a binary operator in the typed sweep."""
    if o in ("and", "or"):
        return "b", "b"
    if o in RELOPS:
        return "n", "b"
    return "n", "n"


def pair_trees():
    """For operators o1, o2: (A o1 B) o2 C and A o1 (B o2 C) wherever that is well typed, plus prefix forms."""
    out = []
    bins = MULOPS + ADDOPS + RELOPS + ["and", "or"]

    def leaf(kind, i):
        return typed_atoms(kind, i)

    def conv(t, have, need, i):
        """adapt a subtree of result kind `have` to a position of kind `need`"""
        if have == need:
            return t
        if have == "n":
            return ["bin", ">", t, leaf("n", i + 3)]
        return None

    for o1 in bins:
        for o2 in bins:
            a1, r1 = op_sig(o1)
            a2, r2 = op_sig(o2)
            inner = ["bin", o1, leaf(a1, 0), leaf(a1, 1)]
            left = conv(inner, r1, a2, 0)
            if left is not None:
                out.append(["bin", o2, left, leaf(a2, 2)])
            inner = ["bin", o2, leaf(a2, 1), leaf(a2, 2)]
            right = conv(inner, r2, a1, 0)
            if right is not None:
                out.append(["bin", o1, leaf(a1, 0), right])
    for o in bins:
        a, r = op_sig(o)
        for q in PREOPS:
            qa = "b" if q == "not" else "n"
            # q (A o B) and (q A) o B
            if r == qa:
                out.append(["pre", q, ["bin", o, leaf(a, 0), leaf(a, 1)]])
            if qa == a:
                out.append(["bin", o, ["pre", q, leaf(a, 0)], leaf(a, 1)])
                out.append(["bin", o, leaf(a, 0), ["pre", q, leaf(a, 1)]])
    for w in POWOPS:
        two = ["num", "2"]
        out.append(["pre", "-", ["pow", w, leaf("n", 0), two]])
        out.append(["pow", w, ["pre", "-", leaf("n", 0)], two])
        out.append(["pow", w, ["pow", w, leaf("n", 1), two], ["num", "3"]])
        out.append(["pow", w, leaf("n", 1), ["pow", w, two, ["num", "3"]]])
        for o in MULOPS + ADDOPS:
            out.append(["bin", o, ["pow", w, leaf("n", 0), two], leaf("n", 2)])
            out.append(["bin", o, leaf("n", 0), ["pow", w, leaf("n", 1), two]])
            out.append(["pow", w, ["bin", o, leaf("n", 0), leaf("n", 1)], two])
            out.append(["pow", w, leaf("n", 0), ["bin", o, leaf("n", 1), two]])
    out.append(["pre", "not", ["pre", "not", leaf("b", 0)]])
    out.append(["pre", "-", ["pre", "-", leaf("n", 0)]])
    out.append(["pre", "-", ["pre", "+", leaf("n", 0)]])
    iff = ["if", [[leaf("b", 0), leaf("n", 0)]], leaf("n", 1)]
    out.append(["bin", "+", iff, leaf("n", 2)])
    out.append(["if", [[leaf("b", 0), leaf("n", 0)]], ["bin", "+", leaf("n", 1), leaf("n", 2)]])
    out.append(["if", [[leaf("b", 0), leaf("n", 0)], [leaf("b", 1), leaf("n", 1)]], leaf("n", 2)])
    out.append(["if", [[leaf("b", 0), leaf("n", 0)]], ["if", [[leaf("b", 1), leaf("n", 1)]], leaf("n", 2)]])
    out.append(["if", [[leaf("b", 0), ["if", [[leaf("b", 1), leaf("n", 1)]], leaf("n", 2)]]], leaf("n", 0)])
    out.append(["if", [[["if", [[leaf("b", 1), leaf("b", 0)]], leaf("b", 2)], leaf("n", 1)]], leaf("n", 0)])
    return out


# --------------------------------------------------------------------------------------------




SYM_NAMES = {"+": "plus", "-": "minus", "*": "star", "/": "slash", ".+": "dplus", ".-": "dminus", ".*": "dstar",
             "./": "dslash", "^": "caret", ".^": "dcaret", "<": "lt", "<=": "le", ">": "gt", ">=": "ge", "==": "eq",
             "<>": "ne", "not": "not", "and": "and", "or": "or"}


class _Shape(Exception):
    pass


def _alt_entries(items, loop):
    """items of one alternative -> table rows [(lexeme, kind, level, operand level)]"""
    kinds = [i[0] for i in items]
    if loop:
        if kinds != ["pred", "tok", "expr"]:
            raise _Shape("loop alternative %r" % (items,))
        return [(lx, "bin", items[0][1], items[2][1]) for lx in items[1][1]]
    if kinds == ["tok", "expr"]:
        return [(lx, "pre", 0, items[1][1]) for lx in items[0][1]]
    if kinds == ["primary", "tok", "primary"]:
        return [(lx, "pow", 0, 0) for lx in items[1][1]]
    if kinds == ["primary"]:
        return []
    raise _Shape("prefix alternative %r" % (items,))


def _source_table(path):
    """Rows from the Python source of ModelicaParser.expr (explicit precpred / self.expr(n) / token tests)."""
    import ast as pyast
    tree = pyast.parse(open(path).read())
    cls = [n for n in tree.body if isinstance(n, pyast.ClassDef) and n.name == "ModelicaParser"]
    if not cls:
        raise _Shape("class ModelicaParser not found")
    consts, literal = {}, None
    for n in cls[0].body:
        if isinstance(n, pyast.Assign) and len(n.targets) == 1 and isinstance(n.targets[0], pyast.Name):
            name = n.targets[0].id
            if isinstance(n.value, pyast.Constant) and isinstance(n.value.value, int):
                consts[name] = n.value.value
            elif name == "literalNames":
                literal = pyast.literal_eval(n.value)
    fns = [n for n in cls[0].body if isinstance(n, pyast.FunctionDef) and n.name == "expr"]
    if not fns or literal is None:
        raise _Shape("method expr / literalNames not found")

    def lexemes(types):
        out = []
        for t in sorted(types):
            if not (0 <= t < len(literal)) or not literal[t].startswith("'"):
                raise _Shape("token type %r has no literal name" % t)
            out.append(literal[t][1:-1])
        return out

    def ev(node, la):
        if isinstance(node, pyast.Constant):
            return node.value
        if isinstance(node, pyast.Name) and node.id == "_la":
            return la
        if isinstance(node, pyast.BoolOp):
            vals = [ev(v, la) for v in node.values]
            return all(vals) if isinstance(node.op, pyast.And) else any(vals)
        if isinstance(node, pyast.UnaryOp):
            v = ev(node.operand, la)
            if isinstance(node.op, pyast.Not):
                return not v
            if isinstance(node.op, pyast.Invert):
                return ~v
            if isinstance(node.op, pyast.USub):
                return -v
        if isinstance(node, pyast.BinOp):
            a, b = ev(node.left, la), ev(node.right, la)
            ops = {pyast.BitAnd: lambda: a & b, pyast.BitOr: lambda: a | b, pyast.LShift: lambda: a << b if 0 <= b < 4096 else 0,
                   pyast.RShift: lambda: a >> b, pyast.Sub: lambda: a - b, pyast.Add: lambda: a + b}
            if type(node.op) in ops:
                return ops[type(node.op)]()
        if isinstance(node, pyast.Compare) and len(node.ops) == 1:
            a, b = ev(node.left, la), ev(node.comparators[0], la)
            o = node.ops[0]
            if isinstance(o, pyast.Eq):
                return a == b
            if isinstance(o, pyast.NotEq):
                return a != b
        raise _Shape("token test not understood: " + pyast.dump(node)[:200])

    def is_self_call(node, name):
        return (isinstance(node, pyast.Call) and isinstance(node.func, pyast.Attribute) and node.func.attr == name
                and isinstance(node.func.value, pyast.Name) and node.func.value.id == "self")

    def uses(node, name):
        return any(isinstance(x, pyast.Name) and x.id == name for x in pyast.walk(node))

    def items_of(stmts):
        items = []
        for st in stmts:
            if isinstance(st, pyast.If):
                t = st.test
                if isinstance(t, pyast.UnaryOp) and isinstance(t.op, pyast.Not):
                    inner = t.operand
                    if is_self_call(inner, "precpred"):
                        items.append(("pred", pyast.literal_eval(inner.args[1])))
                        continue
                    if uses(inner, "_la"):
                        items.append(("tok", lexemes([la for la in range(0, 512) if ev(inner, la)])))
                        continue
                items += items_of(st.body) + items_of(st.orelse)
                continue
            for node in pyast.walk(st):
                if is_self_call(node, "expr"):
                    items.append(("expr", pyast.literal_eval(node.args[0])))
                elif is_self_call(node, "primary"):
                    items.append(("primary",))
                elif is_self_call(node, "match"):
                    a = node.args[0]
                    if not (isinstance(a, pyast.Attribute) and a.attr in consts):
                        raise _Shape("match argument not understood")
                    items.append(("tok", lexemes([consts[a.attr]])))
        return items

    def chain(ifnode):
        """branches of an if/elif chain on `la_ == k`"""
        out = []
        node = ifnode
        while True:
            t = node.test
            if not (isinstance(t, pyast.Compare) and isinstance(t.left, pyast.Name) and t.left.id == "la_"):
                raise _Shape("alternative chain not on la_")
            out.append(node.body)
            if len(node.orelse) == 1 and isinstance(node.orelse[0], pyast.If):
                node = node.orelse[0]
            elif not node.orelse:
                return out
            else:
                raise _Shape("alternative chain with else")

    def find_chains(stmts, in_loop, acc):
        for st in stmts:
            if isinstance(st, pyast.If) and isinstance(st.test, pyast.Compare) and isinstance(st.test.left, pyast.Name) \
                    and st.test.left.id == "la_":
                acc.append((in_loop, chain(st)))
            elif isinstance(st, pyast.While):
                find_chains(st.body, True, acc)
            elif isinstance(st, pyast.If):
                find_chains(st.body, in_loop, acc)
                find_chains(st.orelse, in_loop, acc)
            elif isinstance(st, pyast.Try):
                find_chains(st.body, in_loop, acc)
        return acc

    chains = find_chains(fns[0].body, False, [])
    if [c[0] for c in chains] != [False, True]:
        raise _Shape("expected one prefix chain and one loop chain, found %r" % [c[0] for c in chains])
    rows = []
    for in_loop, branches in chains:
        for b in branches:
            rows += _alt_entries(items_of(b), in_loop)
    return rows


def _atn_table():
    """Rows from the deserialised ATN of the imported parser (what adaptivePredict really follows)."""
    from antlr4.atn.Transition import Transition
    from pymoca.generated.ModelicaParser import ModelicaParser as P
    atn, ri, names = P.atn, P.RULE_expr, P.literalNames

    def lexemes(t):
        out = []
        for x in t.label:
            if not (0 <= x < len(names)) or not names[x].startswith("'"):
                raise _Shape("ATN token type %r has no literal name" % x)
            out.append(names[x][1:-1])
        return sorted(out)

    def walk_alt(state, stop_types):
        """linear path of one alternative: list of items until a block end / loop back state"""
        items = []
        seen = set()
        while type(state).__name__ not in stop_types:
            if state.stateNumber in seen or len(state.transitions) != 1:
                raise _Shape("ATN alternative is not a linear path at state %d" % state.stateNumber)
            seen.add(state.stateNumber)
            t = state.transitions[0]
            k = t.serializationType
            if k in (Transition.EPSILON, Transition.ACTION):
                state = t.target
            elif k == Transition.PRECEDENCE:
                items.append(("pred", t.precedence))
                state = t.target
            elif k in (Transition.ATOM, Transition.SET, Transition.RANGE):
                items.append(("tok", lexemes(t)))
                state = t.target
            elif k == Transition.RULE:
                rn = P.ruleNames[t.ruleIndex]
                if rn == "expr":
                    items.append(("expr", t.precedence))
                elif rn == "primary":
                    items.append(("primary",))
                else:
                    raise _Shape("ATN: unexpected rule %s inside expr" % rn)
                state = t.followState
            else:
                raise _Shape("ATN: unexpected transition type %d" % k)
        return items, state

    start = atn.ruleToStartState[ri]
    if len(start.transitions) != 1:
        raise _Shape("ATN: rule start")
    block = start.transitions[0].target
    rows = []
    end = None
    for t in block.transitions:
        items, end = walk_alt(t.target, ("BlockEndState",))
        rows += _alt_entries(items, False)
    # after the prefix block: star loop entry -> star block start -> alternatives
    loop_entry = end.transitions[0].target
    if type(loop_entry).__name__ != "StarLoopEntryState":
        raise _Shape("ATN: no star loop after the prefix block")
    sblock = [t.target for t in loop_entry.transitions if type(t.target).__name__ == "StarBlockStartState"]
    if len(sblock) != 1:
        raise _Shape("ATN: star block")
    for t in sblock[0].transitions:
        items, _ = walk_alt(t.target, ("BlockEndState",))
        rows += _alt_entries(items, True)
    return rows


def _lean_rows(rows):
    out = []
    for lx, kind, a, b in sorted(rows, key=lambda r: (r[1], r[0])):
        if lx not in SYM_NAMES:
            raise _Shape("operator lexeme %r unknown to the model" % lx)
        out.append("(.%s, .%s, %d, %d)" % (SYM_NAMES[lx], kind, a, b))
    return "[" + ",\n   ".join(out) + "]"


def translate(ctx):
    """Regenerates lean/PymocaVerif/Generated/ExprTable.lean from the imported pymoca's generated parser."""
    from harness.common import LEAN_DIR
    out_path = os.path.join(LEAN_DIR, "PymocaVerif", "Generated", "ExprTable.lean")
    try:
        import pymoca.generated.ModelicaParser as mp
        src = _source_table(mp.__file__)
        atn = _atn_table()
        text = (
            "import PymocaVerif.Model.ExprGrammar\n"
            "/-! GENERATED by harness/props/c03.py (`translate`) from `pymoca/generated/ModelicaParser.py` — do not edit.\n"
            "    Rows `(operator, kind, level, operand level)` sorted by kind, then lexeme. -/\n"
            "namespace PymocaVerif.Generated.ExprTable\nopen PymocaVerif.ExprGrammar\n\n"
            "/-- from the Python source of `ModelicaParser.expr`: token tests, `precpred(_, n)`, `self.expr(n)` -/\n"
            "def exprTable : TblData :=\n  " + _lean_rows(src) + "\n\n"
            "/-- from the deserialised ATN of rule `expr` (precedence predicates and rule-call precedences) -/\n"
            "def atnTable : TblData :=\n  " + _lean_rows(atn) + "\n\n"
            "end PymocaVerif.Generated.ExprTable\n")
    except _Shape as e:
        ctx.tie_broken("translator:ExprTable", str(e))
        return
    except Exception as e:  # noqa: BLE001 - the generated parser could not even be read / imported
        ctx.tie_broken("translator:ExprTable", "%s: %s" % (type(e).__name__, e))
        return
    old = open(out_path).read() if os.path.exists(out_path) else None
    if old != text:
        os.makedirs(os.path.dirname(out_path), exist_ok=True)
        with open(out_path, "w") as f:
            f.write(text)
        ctx.notes.append("Generated/ExprTable.lean rewritten")


def run(ctx):
    drv = ctx.driver("drv_c03")
    quick = ctx.tier == "quick"
    rng = ctx.rng
    from harness import corpus
    for c in corpus.load("C03"):
        ctx.count("corpus")
        check_case(ctx, drv, c)
    # zero-argument calls (finding C03-F1, fixed by 3a63bdb): kept apart from the main streams
    for t in (["call", "f", []], ["pre", "not", ["call", "initial", []]],
              ["bin", "*", ["num", "2"], ["call", "Lib.g", []]], ["call", "der", []],
              ["bin", "-", ["call", "max", [["call", "f", []], ["ref", "x"]]], ["num", "1"]]):
        ctx.count("stream-emptycall")
        check_empty_call(ctx, drv, t)
    # strings ending in an escaped backslash with a later quote in the text (finding C03-F2, fixed by ee937b8)
    for t in (["bin", "==", ["str", "a\\\\"], ["str", "b"]],
              ["bin", "or", ["bin", "==", ["ref", "name"], ["str", "C:\\\\dir\\\\"]], ["bin", "<>", ["ref", "name"], ["str", ""]]],
              ["call", "f", [["str", "\\\\"], ["str", "x\\\""]]]):
        ctx.count("stream-strtail")
        check_tree(ctx, drv, t, "tree")
    # systematic operator pairs, minimal parentheses and fully parenthesised
    for t in pair_trees():
        ctx.count("stream-pairs")
        check_tree(ctx, drv, t, "pairs")
        check_tree(ctx, drv, add_parens(t, rng, 0.5), "pairs")
    # literals
    nlit = 300 if quick else 6000
    for i in range(nlit):
        r = rng.random()
        if r < 0.35:
            kind, lex = "num", gen_int_lexeme(rng)
        elif r < 0.8:
            kind, lex = "num", gen_real_lexeme(rng)
        elif r < 0.95:
            kind, lex = "str", gen_string(rng, tail_backslash_ok=True)
        else:
            kind, lex = "bool", rng.random() < 0.5
        ctx.count("literal-" + (kind if kind != "num" else ("int" if lex.isdigit() else "real")))
        check_literal(ctx, drv, kind, lex)
    for lex in ["0", "00", "1.", "1.e2", "1.E+2", "0.1", "0.5", "1e0", "1E-0", "9007199254740993", "9007199254740993.0",
                "0.30000000000000004", "123456789012345678901234567890", "4.9e-324", "1.7976931348623157e308", "2.5e-1"]:
        ctx.count("literal-fixed")
        check_literal(ctx, drv, "num", lex)
    # signed factors without parentheses (pymoca's extension of the specification's grammar)
    for t in signed_trees():
        ctx.count("stream-signed")
        check_signed(ctx, drv, t)
    gs = Gen(rng, 4)
    for i in range(150 if quick else 4000):
        t = sign_factors(strip_parens(gs.num(rng.randint(2, 4))), rng, 0.5)
        ctx.count("stream-signed")
        check_signed(ctx, drv, t)
    # several literals in one parse: strings spelled like numbers / Booleans next to them, both orders
    for lits in ([["str", "1"], ["num", "1"]], [["num", "1"], ["str", "1"]], [["str", "true"], ["bool", True]],
                 [["bool", False], ["str", "false"]], [["num", "2.5"], ["str", "2.5"], ["num", "2.5"]],
                 [["str", "1e3"], ["num", "1e3"], ["num", "1E3"], ["num", "1000"]], [["num", "1"], ["num", "1.0"], ["str", "1.0"]]):
        ctx.count("stream-litset")
        check_litset(ctx, drv, lits)
    for i in range(120 if quick else 3000):
        ctx.count("stream-litset")
        check_litset(ctx, drv, gen_litset(rng))
    for lex in FIXED_STRINGS:
        ctx.count("literal-fixed-str")
        check_literal(ctx, drv, "str", lex)
    # random typed trees, two parenthesisations each
    ntree = 1100 if quick else 30000
    g = Gen(rng, 6)
    done = 0
    for i in range(ntree):
        if ctx.time_left() < (8 if quick else 60):
            ctx.notes.append("random trees stopped by time budget after %d of %d" % (i, ntree))
            break
        t = g.tree()
        base = strip_parens(t)
        ctx.count("tree-ops-%02d" % min(10 * (n_ops(base) // 10), 40))
        ctx.count("tree-depth-%d" % min(depth(base), 7))
        ctx.count("tree-root-" + (base[1] if base[0] in ("bin", "pre", "pow") else base[0]))
        check_tree(ctx, drv, base)
        check_tree(ctx, drv, add_parens(base, rng, 0.25))
        done += 1
    ctx.extra["random_trees"] = done
    # malformed / non-Modelica token strings: model parser vs real parser
    nsoup = 500 if quick else 12000
    for i in range(nsoup):
        if ctx.time_left() < 0:
            ctx.notes.append("token stream stopped by time budget after %d of %d" % (i, nsoup))
            break
        toks = soup(rng, g)
        if has_multi_paren(toks):
            ctx.count("tokens-skipped-output-list")
            continue
        if any(t == ["ref", "der"] and (i + 1 >= len(toks) or toks[i + 1] != "(") for i, t in enumerate(toks)):
            # `der` is a keyword: only `der ( … )` is in the fragment (the model carries it as a call name)
            ctx.count("tokens-skipped-der-keyword")
            continue
        if len(toks) > 1 and isinstance(toks[-1], list) and toks[-1][0] == "str":
            # `r = e "text";` — a trailing string is the equation's description string, not part of the expression
            ctx.count("tokens-skipped-trailing-string")
            continue
        ctx.count("stream-tokens")
        check_tokens(ctx, drv, toks)
    ctx.extra["exhaustive"] = False


def search(ctx):
    """A tie is broken and no violation was found: deeper direct-oracle search (no model needed)."""
    rng = ctx.rng
    g = Gen(rng, 5)
    n = 0
    for t in pair_trees():
        check_tree(ctx, None, t, "pairs")
    while ctx.time_left() > 0 and not ctx.violations and n < 200000:
        t = strip_parens(g.tree())
        check_tree(ctx, None, t)
        check_tree(ctx, None, add_parens(t, rng, 0.3))
        n += 1
    ctx.extra["search_trees"] = n


def replay(ctx, payload):
    check_case(ctx, ctx.driver("drv_c03"), payload["case"])


MANIFEST = dict(
    level_text="Lean 4 theorems about (a) an executable, table-driven model of ANTLR's rewritten left-recursive rule `expr` "
               "(precedence climbing with the precpred / right-hand levels of the generated parser) plus the listener's tree "
               "building, and (b) a recursive-descent reference reader transcribed from the Modelica specification's grammar "
               "B.2.7: for EVERY token string the specification's expression grammar derives (single-expression fragment, any "
               "depth, any redundant parentheses), pymoca's parser accepts it and its tree has the value of the specification's "
               "reading in every interpretation with (-a)*b = -(a*b), (-a)/b = -(a/b) (`every_text`; round trips `parse_mprint`, "
               "`spec_reads_source`; left associativity, ^ over unary minus, relations over not, not over and, and over or as "
               "corollaries); exact values of decimal/scientific literals. Tied to /repo every run by a translator of the "
               "generated parser's table (Python source and deserialised ATN, obligations table_ok/atn_ok) and a differential "
               "correspondence of model parser vs real parser on generated and malformed texts, plus a direct value oracle on "
               "the real parser against an independent Python transcription of the specification's grammar.",
    level_note="Trusted: Lean kernel + standard axioms; that `Model/ExprSpec.lean` transcribes B.2.7 (one case per nonterminal); "
               "the harness (its printer and its reference reader are cross-checked against the Lean ones on every case); "
               "ANTLR's prediction engine following the ATN. The model, not the Python, is what the theorems are about.",
    technique="Lean 4 proof (structural induction, fuel monotonicity, absorption lemma for precedence climbing, soundness of "
              "the reference reader by induction on fuel) + source translator with decidable obligations + "
              "model/implementation correspondence + exact-value oracle",
)
READY = True
