"""Predicates of the findings of C09 (see known/C09.json).  C09-F1 is fixed (2598ca8) and its entry has
`predicate: null`, so nothing here is active; the predicate is kept for a re-opened finding."""
from harness.common import known_predicate


@known_predicate
def c09_nested_outside_only(case, what):
    """C09-F1: the *only* deviation from the reference is a missing `f = 0` for flows of nested
    connectors that occur in connect clauses of their own class (as outside connectors) and in none
    of the enclosing class.  The checker uses this exact message only when every failed reference
    equation is of that kind; the case must really contain such a connector."""
    if not what.startswith("flow of a nested connector that is connected only as an outside connector"):
        return False
    from harness.gen import a06_connect as G
    c = {k: v for k, v in case.items() if k != "text"}
    return bool(G.open_nested(G.instantiate(c)))


@known_predicate
def c09_array_partly_connected(case, what):
    """C09-F2: the *only* deviation from the reference is a missing `f = 0` for flows of elements of an
    array of components that occur in no connect clause while the same connector of another element
    of that array does.  The checker uses this exact message only when every failed reference
    equation is of that kind; the case must really contain such a partly connected array."""
    if not what.startswith("flow of an unconnected element of an array of components is not set to zero"):
        return False
    from harness.gen import a06_connect as G
    c = {k: v for k, v in case.items() if k != "text"}
    return bool(G.partial_arrays(c))
