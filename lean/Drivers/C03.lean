/-! Driver for C03 (stub: not built yet). -/
def main : IO Unit := pure ()
