import PymocaVerif.Lemmas.ParseCache
import PymocaVerif.Generated.SqlProgram
/-!
# C01 — the parse cache is transparent over any cache history

Theorems about `Model/ParseCache.lean` (the state machine that follows `parser.parse` and
`_check_database_structure` statement by statement).  `pf` is the uncached parser, arbitrary.
Histories are arbitrary finite lists of operations: parses with any flags, module reload, version
change (clean or dirty), clock advance, damage to an entry / to a table layout / to the whole file,
rows written by another pymoca version.

Two findings came out of these proofs (see `known/C01.json`):

* **C01-F2** (fixed in /repo by 821b239, `proposed_fixes/C01-1.diff`): the file is deleted / overwritten /
  loses its `models` table *after* this process put it into `parse.initialized_dbs`; without the recovery
  handler the next `parse` raises.  Model flag `Cfg.recover`; counterexample `damaged_while_initialised_raises`.
* **C01-F3** (fixed in /repo by 921daaa, `proposed_fixes/C01-2.diff`): the `models` table is replaced, after initialisation, by one on
  which the lookup works but the insert does not (an additional NOT NULL column): the recovery handler only
  guards the lookup, `parse` raises `IntegrityError` at the cache write.  Model flag `Cfg.writeTolerant`;
  counterexample `write_damage_raises`.

Theorems that need a region excluded are named `…_partial`; `parse_transparent` / `history_transparent` are the
complete statement and hold for code with both flags.  `current_code_…` instantiate them with what the
translator reads off the current sources.
-/
namespace PymocaVerif.C01
open PymocaVerif.ParseCache

variable {pf : Ver → TextId → Option TreeId} {cfg : Cfg}

/-! ### The invariant holds after every operation, whatever it is -/

/-- **Every operation preserves the row invariant** (each stored row that unpickles to a tree holds the tree
    of the uncached parse of its own text under its own version) — including every corruption, from every
    state, and also when `parse` raises. -/
theorem inv_step (s : St) (op : Op) (hadm : Admissible pf op) (h : RowInv pf s) : RowInv pf (step cfg pf s op).1 :=
  rowInv_step s op hadm h

example : RowInv (fun _ x => if x = 1 then none else some (x + 10))
      ⟨.db (some ⟨.ok, [⟨0, 0, .good (some 10), 3⟩, ⟨2, 1, .bad .eof, 4⟩, ⟨1, 0, .good none, 4⟩]⟩) none, true, 9, 0, 0, false⟩ ∧
    Admissible (fun _ x => if x = 1 then none else some (x + 10)) (.corruptEntry 0 0 (.bad .eof)) := by
  refine ⟨?_, trivial⟩
  intro r hr t ht
  simp [rowsOf] at hr
  rcases hr with rfl | rfl | rfl <;> simp_all

/-! ### One parse -/

/-- **A parse returns exactly what the uncached parser returns** — a tree equal to the fresh one, `none`
    exactly for a syntax error, never an exception — from every state that satisfies the invariant, whatever
    damaged entries, metadata, `noPk` layout or file it contains; *partial* (any code): states in which the
    `models` table was made unusable after this process initialised it (`¬ Synced`) are excluded. -/
theorem parse_transparent_partial (hc : CaughtAll cfg) (s : St) (h : RowInv pf s) (hs : Synced s)
    (x : TextId) (days : Int) (upd bypass : Bool) :
    (step cfg pf s (.parse x days upd bypass)).2 = some (.value (pf s.ver x)) := by
  simp only [step]
  split
  · rfl
  · simp only [(parseCached_spec (x := x) (days := days) (upd := upd) hc h hs).1]

example : RowInv (fun _ _ => some 7) ⟨.db (some ⟨.noPk, [⟨0, 0, .bad .eof, 3⟩]⟩) (some .alien), false, 10, 1, 0, false⟩ ∧
    Synced ⟨.db (some ⟨.noPk, [⟨0, 0, .bad .eof, 3⟩]⟩) (some .alien), false, 10, 1, 0, false⟩ :=
  ⟨by intro r hr t ht; simp [rowsOf] at hr; subst hr; simp at ht, by intro h; cases h⟩

/-- In particular the result is `none` iff the text has a syntax error. -/
theorem none_iff_syntax_error_partial (hc : CaughtAll cfg) (s : St) (h : RowInv pf s) (hs : Synced s)
    (x : TextId) (days : Int) (upd bypass : Bool) :
    (step cfg pf s (.parse x days upd bypass)).2 = some (.value none) ↔ pf s.ver x = none := by
  rw [parse_transparent_partial hc s h hs]
  constructor
  · intro he; injection he with he; injection he
  · intro he; rw [he]

example : (step { caught := ["Exception"] } (fun _ _ => (none : Option TreeId)) (St.initial 0) (.parse 3 30 false false)).2
    = some (.value none) := by decide

/-- With the recovery handler (`cfg.recover`, the code since 821b239): also from states in which the file was
    deleted / overwritten / lost its `models` table after initialisation; *partial*: a table on which the lookup
    works and the insert does not (`extraCol`, finding C01-F3) installed after initialisation is excluded. -/
theorem parse_transparent_recover_partial (hc : CaughtAll cfg) (hr : cfg.recover = true) (s : St) (h : RowInv pf s)
    (hu : Usable s) (x : TextId) (days : Int) (upd bypass : Bool) :
    (step cfg pf s (.parse x days upd bypass)).2 = some (.value (pf s.ver x)) := by
  simp only [step]
  split
  · rfl
  · simp only [(parseCached_spec_recover (x := x) (days := days) (upd := upd) hc hr h hu).1]

example : Usable ⟨.garbage, true, 10, 1, 0, false⟩ ∧ ¬ Synced ⟨.garbage, true, 10, 1, 0, false⟩ :=
  ⟨fun _ => Or.inl rfl, by intro h; obtain ⟨m, hm, _⟩ := h rfl; simp [DbFile.queryable] at hm⟩

/-- **The complete statement for one parse** (code with the recovery handler *and* a cache write whose failure is
    not propagated, `cfg.writeTolerant`): from *every* state satisfying the row invariant — no hypothesis on what
    happened to the file or when — the parse returns the uncached result and raises nothing. -/
theorem parse_transparent (hc : CaughtAll cfg) (hr : cfg.recover = true) (hw : cfg.writeTolerant = true) (s : St)
    (h : RowInv pf s) (x : TextId) (days : Int) (upd bypass : Bool) :
    (step cfg pf s (.parse x days upd bypass)).2 = some (.value (pf s.ver x)) := by
  simp only [step]
  split
  · rfl
  · simp only [parseCached_spec_full (x := x) (days := days) (upd := upd) hc hr hw h]

example : RowInv (fun _ _ => some 7) ⟨.db (some ⟨.extraCol, []⟩) none, true, 10, 1, 0, false⟩ ∧
    ¬ Usable ⟨.db (some ⟨.extraCol, []⟩) none, true, 10, 1, 0, false⟩ := by
  refine ⟨by intro r hr; simp [rowsOf] at hr, ?_⟩
  intro h
  rcases h rfl with hq | ⟨m, hm, hl⟩
  · simp [DbFile.queryable] at hq
  · simp [DbFile.queryable] at hm; subst hm; exact hl rfl

/-! ### Whole histories -/

/-- no damaging operation (file deleted / overwritten, `models` dropped / alien / extraCol) happens while the
    process holds the database initialised -/
def Undamaged (cfg : Cfg) (pf : Ver → TextId → Option TreeId) : St → List Op → Prop
  | _, [] => True
  | s, op :: ops => (damaging op = true → s.init = false) ∧ Undamaged cfg pf (step cfg pf s op).1 ops

/-- no *write*-damage (`models` replaced by an `extraCol` table) happens while the process holds the database
    initialised; any other damage may happen at any time -/
def UndamagedWrite (cfg : Cfg) (pf : Ver → TextId → Option TreeId) : St → List Op → Prop
  | _, [] => True
  | s, op :: ops => (damagingWrite op = true → s.init = false) ∧ UndamagedWrite cfg pf (step cfg pf s op).1 ops

/-- every parse of the run returns the uncached result -/
def Transparent (cfg : Cfg) (pf : Ver → TextId → Option TreeId) : St → List Op → Prop
  | _, [] => True
  | s, op :: ops =>
    (∀ x d u b, op = .parse x d u b → (step cfg pf s op).2 = some (.value (pf s.ver x))) ∧
    Transparent cfg pf (step cfg pf s op).1 ops

/-- every parse of the run *from a synced state* returns the uncached result -/
def TransparentWhenSynced (cfg : Cfg) (pf : Ver → TextId → Option TreeId) : St → List Op → Prop
  | _, [] => True
  | s, op :: ops =>
    (∀ x d u b, op = .parse x d u b → Synced s → (step cfg pf s op).2 = some (.value (pf s.ver x))) ∧
    TransparentWhenSynced cfg pf (step cfg pf s op).1 ops

/-- **Every parse of every finite history returns the uncached result** (any code), from any state satisfying the
    invariant, for every sequence of parses with any flags, reloads, version changes, clock advances, damaged
    entries, damaged metadata, `noPk` layouts and foreign rows — *partial*: the damaging operations may only
    happen while the process does not hold the database initialised. -/
theorem history_transparent_partial (hc : CaughtAll cfg) (ops : List Op) :
    ∀ (s : St), RowInv pf s → Synced s → (∀ op ∈ ops, Admissible pf op) → Undamaged cfg pf s ops →
      Transparent cfg pf s ops := by
  induction ops with
  | nil => intros; trivial
  | cons op ops ih =>
    intro s h hs hadm hund
    refine ⟨?_, ih _ (inv_step s op (hadm op (by simp)) h) (synced_step hc s op h hs hund.1)
      (fun o ho => hadm o (by simp [ho])) hund.2⟩
    intro x d u b hop
    subst hop
    exact parse_transparent_partial hc s h hs x d u b

/-- The same without any restriction on the history: every parse that starts from a synced state is
    transparent; the invariant itself never breaks, so a reload always restores transparency. -/
theorem history_transparent_when_synced (hc : CaughtAll cfg) (ops : List Op) :
    ∀ (s : St), RowInv pf s → (∀ op ∈ ops, Admissible pf op) → TransparentWhenSynced cfg pf s ops := by
  induction ops with
  | nil => intros; trivial
  | cons op ops ih =>
    intro s h hadm
    refine ⟨?_, ih _ (inv_step s op (hadm op (by simp)) h) (fun o ho => hadm o (by simp [ho]))⟩
    intro x d u b hop hs
    subst hop
    exact parse_transparent_partial hc s h hs x d u b

/-- **Histories with the recovery handler** (`cfg.recover`): the file may be deleted, overwritten, stripped of its
    tables or given alien tables at *any* time; *partial*: only the `extraCol` replacement of `models` while
    initialised (finding C01-F3) is excluded. -/
theorem history_transparent_recover_partial (hc : CaughtAll cfg) (hr : cfg.recover = true) (ops : List Op) :
    ∀ (s : St), RowInv pf s → Usable s → (∀ op ∈ ops, Admissible pf op) → UndamagedWrite cfg pf s ops →
      Transparent cfg pf s ops := by
  induction ops with
  | nil => intros; trivial
  | cons op ops ih =>
    intro s h hu hadm hund
    refine ⟨?_, ih _ (inv_step s op (hadm op (by simp)) h) (usable_step hc hr s op h hu hund.1)
      (fun o ho => hadm o (by simp [ho])) hund.2⟩
    intro x d u b hop
    subst hop
    exact parse_transparent_recover_partial hc hr s h hu x d u b

/-- **The complete statement for histories** (`cfg.recover` and `cfg.writeTolerant`): every parse of every finite
    history — any interleaving of parses, reloads, version changes, clock advances and *any* damage to entries,
    layouts or the whole file at *any* time — returns the uncached result. -/
theorem history_transparent (hc : CaughtAll cfg) (hr : cfg.recover = true) (hw : cfg.writeTolerant = true)
    (ops : List Op) :
    ∀ (s : St), RowInv pf s → (∀ op ∈ ops, Admissible pf op) → Transparent cfg pf s ops := by
  induction ops with
  | nil => intros; trivial
  | cons op ops ih =>
    intro s h hadm
    refine ⟨?_, ih _ (inv_step s op (hadm op (by simp)) h) (fun o ho => hadm o (by simp [ho]))⟩
    intro x d u b hop
    subst hop
    exact parse_transparent hc hr hw s h x d u b

example : (run { caught := ["Exception"], recover := true, writeTolerant := true } (fun _ x => some (x + 5)) (St.initial 0)
      [.parse 0 30 false false, .corruptFile .delete, .parse 0 30 false false, .corruptLayout .models .alien,
       .parse 0 30 true false, .corruptFile .text, .parse 0 30 false false, .corruptLayout .models .extraCol,
       .parse 1 30 false false, .parse 0 30 false false, .parse 1 30 false false]).filterMap (·.2) =
      [.value (some 5), .value (some 5), .value (some 5), .value (some 5), .value (some 6), .value (some 5),
       .value (some 6)] := by decide +kernel

/-- a 17-operation history with a hit, a prune, an entry that does not unpickle, an entry that unpickles to
    `None`, a wrong layout, a corrupt file (before a reload), a foreign row and a version change -/
def demoOps : List Op :=
  [.parse 0 30 false false, .parse 0 30 true false, .corruptEntry 0 0 (.bad .eof), .parse 0 30 false false,
   .corruptEntry 0 0 (.good none), .parse 1 30 false false, .reload, .corruptFile .text, .tick 3000000000000,
   .parse 0 1 false false, .foreignWrite 0 7 0, .setVersion 1 false, .corruptLayout .metadata .alien, .reload,
   .corruptLayout .models .noPk, .parse 0 0 false false, .parse 0 30 false false]

def demoPf : Ver → TextId → Option TreeId := fun v x => if x = 1 then none else some (100 * v + x)

example : (∀ op ∈ demoOps, Admissible demoPf op) ∧ Undamaged { caught := ["Exception"] } demoPf (St.initial 1000) demoOps := by
  refine ⟨by decide, ?_⟩
  simp [demoOps, Undamaged, damaging, step]

example : (run { caught := ["Exception"] } demoPf (St.initial 1000) demoOps).filterMap (·.2) =
    [.value (some 0), .value (some 0), .value (some 0), .value none, .value (some 0), .value (some 100), .value (some 100)] := by
  decide +kernel

/-! ### A failed parse is never stored -/

/-- **A failed parse is never stored**: in every history in which the harness does not itself plant a blob that
    unpickles to `None`, no row of the database ever unpickles to `None` — whatever else happens (syntax
    errors, damaged entries, layouts, files, exceptions). -/
theorem none_never_stored (ops : List Op) :
    ∀ (s : St), NoNone s.file → (∀ op ∈ ops, plantsNone op = false) → NoNone (finalState cfg pf s ops).file := by
  induction ops with
  | nil => intro s h _; exact h
  | cons op ops ih =>
    intro s h hp
    exact ih _ (noNone_step s op (hp op (by simp)) h) (fun o ho => hp o (by simp [ho]))

example : NoNone (St.initial 0).file ∧ ∀ op ∈ [Op.parse 1 30 false false, .corruptEntry 1 0 (.bad .eof), .parse 0 30 false false],
    plantsNone op = false := ⟨by intro r hr; simp [St.initial, rowsOf] at hr, by decide⟩

/-- … and a planted one is never served: with a row that unpickles to `None` the parse still returns the
    fresh tree and replaces the row. -/
theorem planted_none_not_served :
    (run { caught := ["Exception"] } (fun _ _ => some 5) (St.initial 0)
      [.parse 0 30 false false, .corruptEntry 0 0 (.good none), .parse 0 30 false false]).map (·.2) =
      [some (.value (some 5)), none, some (.value (some 5))] ∧
    NoNone (finalState { caught := ["Exception"] } (fun _ _ => some 5) (St.initial 0)
      [.parse 0 30 false false, .corruptEntry 0 0 (.good none), .parse 0 30 false false]).file := by
  refine ⟨by decide +kernel, ?_⟩
  unfold NoNone
  decide +kernel

/-! ### Obligations over the current sources; the findings on the model -/

/-- what the translator read off the current `parse` -/
def currentCfg : Cfg :=
  { caught := Generated.SqlProgram.caughtUnpickle, recover := Generated.SqlProgram.recoversAfterDamage,
    writeTolerant := Generated.SqlProgram.toleratesWriteFailure }

/-- The `except` clause around `pickle.loads` in the current `parse` (extracted by the translator) catches
    every exception class a damaged blob was seen to raise. -/
theorem caught_classes_cover : CaughtAll currentCfg :=
  caughtAll_of_all (by decide)

/-- The current `parse` has the handler that re-validates a database it can no longer query (fix 821b239). -/
theorem current_parse_recovers : currentCfg.recover = true := by decide

/-- The current `parse` does not propagate a failure of the cache write (fix 921daaa). -/
theorem current_parse_tolerates_write_failure : currentCfg.writeTolerant = true := by decide

/-- **C01 for the code as it is now**: with the facts the translator reads off the current sources, every parse of
    every finite history — any interleaving of parses, reloads, version changes, clock advances and any damage to
    entries, layouts or the whole file at any time — returns the uncached result: `none` iff syntax error, never an
    exception. -/
theorem current_code_transparent (ops : List Op) (s : St) (h : RowInv pf s) (hadm : ∀ op ∈ ops, Admissible pf op) :
    Transparent currentCfg pf s ops :=
  history_transparent caught_classes_cover current_parse_recovers current_parse_tolerates_write_failure ops s h hadm

example : RowInv demoPf (St.initial 1000) ∧ (∀ op ∈ demoOps, Admissible demoPf op) :=
  ⟨(by intro r hr; simp [St.initial, rowsOf] at hr), (by decide)⟩

/-- With only `pickle.UnpicklingError` caught (the code before 9e3ac59) an empty blob escapes as `EOFError`. -/
theorem narrow_except_raises :
    (run { caught := ["pickle.UnpicklingError"] } (fun _ _ => some 5) (St.initial 0)
      [.parse 0 30 false false, .corruptEntry 0 0 (.bad .eof), .parse 0 30 false false]).map (·.2) =
      [some (.value (some 5)), none, some (.raised (.unpickle .eof))] := by decide +kernel

/-- **Finding C01-F2 on the model** (code without the recovery handler): parse, then the file is deleted while
    the process keeps it in `initialized_dbs`, then parse again: `DatabaseError`; after a reload it succeeds. -/
theorem damaged_while_initialised_raises :
    (run { caught := ["Exception"] } (fun _ _ => some 5) (St.initial 0)
      [.parse 0 30 false false, .corruptFile .delete, .parse 0 30 false false, .reload, .parse 0 30 false false]).map (·.2) =
      [some (.value (some 5)), none, some (.raised .db), none, some (.value (some 5))] := by decide +kernel

/-- **Finding C01-F3 on the model** (recovery handler, cache write not tolerated — the code as of 821b239): the
    `models` table is replaced by one with an additional NOT NULL column while the process holds the database
    initialised; a hit is still served, a miss raises at the insert; after a reload everything works. -/
theorem write_damage_raises :
    (run { caught := ["Exception"], recover := true } (fun _ x => some (x + 5)) (St.initial 0)
      [.parse 0 30 false false, .corruptLayout .models .extraCol, .parse 0 30 false false, .parse 1 30 false false,
       .reload, .parse 1 30 false false]).map (·.2) =
      [some (.value (some 5)), none, some (.value (some 5)), some (.raised .db), none, some (.value (some 6))] := by
  decide +kernel

end PymocaVerif.C01
