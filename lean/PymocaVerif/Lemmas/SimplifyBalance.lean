import PymocaVerif.Lemmas.SimplifyPipeline
/-!
# Simplify: equations and unknowns leave in pairs (C15, `balance_step`)
-/
set_option linter.unusedSectionVars false
set_option linter.unusedSimpArgs false
namespace PymocaVerif.Simplify
open PymocaVerif.AliasRel Lean.Grind

variable {K : Type} [Field K] [DecidableEq K]

/-! ## C15: equations and unknowns leave in pairs -/

/-- `#unknowns - #equations` is the same in both models (stated without subtraction) -/
def Balanced (m m' : Model K) : Prop := nUnknowns m' + m.eqs.length = nUnknowns m + m'.eqs.length

theorem Balanced.refl (m : Model K) : Balanced m m := rfl

theorem Balanced.trans {a b c : Model K} (h1 : Balanced a b) (h2 : Balanced b c) : Balanced a c := by
  unfold Balanced at *; omega

theorem substMeta_lengths (E : Engine K) (l : List (String × Ex K)) (m : Model K) :
    nUnknowns (substMeta E l m) = nUnknowns m ∧ (substMeta E l m).eqs = m.eqs := by
  simp [substMeta, nUnknowns]

theorem resolveLoop_balanced (E : Engine K) : ∀ (fuel : Nat) (cur : List String) (m : Model K),
    Balanced m (resolveLoop E fuel cur m)
  | 0, _, m => by simp [resolveLoop, Balanced]
  | f + 1, cur, m => by
    rw [resolveLoop_succ]
    split
    · exact Balanced.refl m
    · refine Balanced.trans ?_ (resolveLoop_balanced E f _ _)
      have := substMeta_lengths E (readyOf m cur) m
      unfold Balanced; rw [this.1, this.2]

theorem substEverywhere_balanced (E : Engine K) (l : List (String × Ex K)) (m : Model K) :
    Balanced m (substEverywhere E l m) := by
  simp [substEverywhere, substMeta, Balanced, nUnknowns]

theorem pexpr_balanced (E : Engine K) (m : Model K) : Balanced m (replaceParameterExpressions E m) := by
  unfold replaceParameterExpressions
  simp only
  split
  · simp [Balanced, nUnknowns]
  · simp [substEverywhere, substMeta, Balanced, nUnknowns]

theorem cexpr_balanced (E : Engine K) (m : Model K) : Balanced m (replaceConstantExpressions E m) := by
  unfold replaceConstantExpressions
  simp only
  split
  · simp [Balanced, nUnknowns]
  · simp [substEverywhere, substMeta, Balanced, nUnknowns]

theorem cassign_balanced (m : Model K) (hnd : (names m.algs).Nodup) : Balanced m (eliminateConstantAssignments m) := by
  have := constLoop_count m.eqs m.algs hnd
  simp only [eliminateConstantAssignments, Balanced, nUnknowns]
  omega

theorem pvalues_balanced {E : Engine K} {m m' : Model K} (h : replaceParameterValues E m = .ok m') : Balanced m m' := by
  unfold replaceParameterValues at h
  cases hr : removeAliased (m.params.filter hasConstValue) m.ar with
  | error err => simp [hr, bind, Except.bind] at h
  | ok ar =>
    simp [hr, bind, Except.bind, pure, Except.pure] at h
    subst h
    simp [substMeta, Balanced, nUnknowns]

theorem cvalues_balanced {E : Engine K} {m m' : Model K} (h : replaceConstantValues E m = .ok m') : Balanced m m' := by
  unfold replaceConstantValues at h
  cases hv : allValues (m.consts.filter Var.simple) with
  | error err => simp [hv, bind, Except.bind] at h
  | ok l =>
    cases hr : removeAliased (m.consts.filter Var.simple) m.ar with
    | error err => simp [hv, hr, bind, Except.bind] at h
    | ok ar =>
      simp [hv, hr, bind, Except.bind, pure, Except.pure] at h
      subst h
      simp [substMeta, Balanced, nUnknowns]

theorem factor_balanced (m : Model K) : Balanced m (factorAndSimplify m) := by
  simp [factorAndSimplify, Balanced, nUnknowns]

/-! eliminable variables -/

theorem extract_mem (cx : ElimCtx) (e : Ex K) : ∀ x v, extract cx e = some (x, v) →
    x ∈ cx.allSt ∨ x ∈ cx.algs ∨ x ∈ cx.states := by
  fun_induction extract cx e <;> intro x v h
  all_goals (try (simp at h))
  all_goals (try (obtain ⟨rfl, rfl⟩ := h))
  all_goals (try (simp_all; done))
  case case7 | case8 | case9 =>
    repeat' (split at h)
    all_goals (try (simp at h))
    all_goals (try (obtain ⟨rfl, rfl⟩ := h))
    all_goals simp_all
  case case11 => obtain ⟨h1, rfl, _⟩ := h; simp [h1.1]
  case case16 a b direct hd =>
    simp +zetaDelta only [] at hd
    repeat' (split at hd)
    all_goals (try (simp at hd))
    all_goals (try (obtain ⟨rfl, rfl⟩ := hd))
    all_goals simp_all

theorem elimLoop_count (states allSt matched : List String) :
    ∀ (es : List (Ex K)) (algs : List (Var K)) (done : List String)
      (r : List (Ex K) × List (String × Ex K) × List (Var K)),
      elimLoop states allSt matched es algs = .ok r → (names algs).Nodup →
      (∀ n ∈ allSt, n ∈ states ∨ n ∈ names algs ∨ n ∈ done) → (∀ x ∈ r.2.1.map (·.1), x ∉ done) →
      r.1.length + r.2.1.length = es.length ∧ r.2.2.length + r.2.1.length = algs.length
  | [], algs, done, r, h, _, _, _ => by simp [elimLoop] at h; subst h; simp
  | e :: es, algs, done, r, h, hnd, hall, hdone => by
    simp only [elimLoop] at h
    split at h
    · rename_i x v hext
      split at h
      · simp at h
      · rename_i hxs
        split at h
        · simp at h
        · rename_i r' hr'
          split at h
          · simp at h
          · rename_i hdup
            simp at h; subst h
            have hx_not_done : x ∉ done := hdone x (by simp)
            have hx_algs : x ∈ names algs := by
              rcases extract_mem _ e x v hext with h1 | h1 | h1
              · rcases hall x h1 with h2 | h2 | h2
                · exact absurd h2 hxs
                · exact h2
                · exact absurd h2 hx_not_done
              · exact h1
              · exact absurd h1 hxs
            have hc := filter_name_count hnd hx_algs
            have ih := elimLoop_count states allSt matched es (algs.filter (·.name != x)) (x :: done) r' hr'
              (filter_name_nodup _ hnd)
              (by
                intro n hn
                rcases hall n hn with h2 | h2 | h2
                · exact Or.inl h2
                · by_cases hnx : n = x
                  · exact Or.inr (Or.inr (by simp [hnx]))
                  · refine Or.inr (Or.inl ?_)
                    obtain ⟨w, hw, rfl⟩ := List.mem_map.1 h2
                    exact List.mem_map.2 ⟨w, List.mem_filter.2 ⟨hw, by simpa using hnx⟩, rfl⟩
                · exact Or.inr (Or.inr (List.mem_cons_of_mem _ h2)))
              (by
                intro y hy
                simp only [List.mem_cons, _root_.not_or]
                refine ⟨?_, hdone y (by simp at hy ⊢; exact Or.inr hy)⟩
                rintro rfl
                apply hdup
                simpa using hy)
            simp only [List.length_cons]
            omega
    · split at h
      · simp at h
      · rename_i r' hr'
        simp at h; subst h
        have ih := elimLoop_count states allSt matched es algs done r' hr' hnd hall hdone
        simp only [List.length_cons]
        omega

theorem elim_balanced {E : Engine K} {expandMx : Bool} {matched : List String} {m m' : Model K}
    (hnd : (names m.algs).Nodup) (h : eliminateVariables E expandMx matched m = .ok m') : Balanced m m' := by
  unfold eliminateVariables at h
  split at h
  · simp at h
  · split at h
    · simp at h
    · rename_i r hr
      have hc := elimLoop_count _ _ _ m.eqs m.algs [] r hr hnd
        (by intro n hn; rcases List.mem_append.1 hn with h1 | h1 <;> simp [h1]) (by simp)
      simp only at h
      split at h
      · simp at h; subst h
        simp only [Balanced, nUnknowns]; omega
      · simp at h; subst h
        simp only [Balanced, nUnknowns, List.length_map]; omega

end PymocaVerif.Simplify
