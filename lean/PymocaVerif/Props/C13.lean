/-! # C13 — property theorems (stub: not built yet) -/
