/-!
# ObjGraph — object-graph model of pymoca's AST copy discipline (C05, C06)

What is modelled (sources: `src/pymoca/ast.py`, `src/pymoca/tree.py`, CPython's `copy.deepcopy`):

* a heap of AST `Node` objects.  Every object has a kind (class / symbol /
  class-modification argument / other), a name, an opaque label (all non-reference data) and its
  reference-valued attributes **in `__dict__` order**, lists and dicts flattened: `own i` (any
  attribute that `deepcopy` follows), `par i` (`Class.parent`), `scp i`
  (`ClassModificationArgument.scope`), plus the per-instance attribute `__deepcopy__`
  (`hook = some t`: an instance attribute holding the bound method of object `t`; `none`: no
  instance attribute, the class's method bound to the object itself is found).
* `copy.deepcopy(x, memo)`: memo lookup by `id`, dispatch through `getattr(x, "__deepcopy__")`
  (instance attribute wins), `_reconstruct` (allocate, register in memo, copy the state in order,
  fill in), `memo[id(x)] = y` afterwards.
* `Class.__deepcopy__` (seed the memo with the parent — the membership test is a parameter:
  `byId` = `id(self.parent) not in memo`, `byObject` = `self.parent not in memo`, which is always
  true for an int-keyed memo) and `ClassModificationArgument.__deepcopy__` (scope shared, not
  copied), and what both leave in the instance attribute afterwards (`HookRebind`).
  While a hook runs, the instance attribute is `None`; the object is registered in the memo
  before anything else is copied, so that intermediate state is never consulted and is not
  represented.
* `find_class(ref, copy)` for a path from the root, `copy_including_children`.
* `tree.flatten` as a *write footprint*: the class it looks up (copied or not, `rootCopy`), the
  classes looked up on the way (extends, component types, redeclarations, functions: `innerCopy`),
  the symbols reached by class-path references (`find_constant_symbol`, `constCopy`), followed by
  arbitrary writes to every object reachable through `own` references from what it obtained.
* edits through the AST API as arbitrary writes/allocations confined to a region.

Everything is total; running out of fuel or touching a dangling reference is `none`.
-/
namespace PymocaVerif.ObjGraph

inductive Kind where
  | cls | sym | arg | other
  deriving DecidableEq, Repr, Inhabited

inductive Field where
  | own (i : Nat)
  | par (i : Nat)
  | scp (i : Nat)
  deriving DecidableEq, Repr, Inhabited

def Field.id : Field → Nat
  | .own i => i
  | .par i => i
  | .scp i => i

def Field.tag : Field → Nat
  | .own _ => 0
  | .par _ => 1
  | .scp _ => 2

structure Obj where
  kind : Kind
  name : String
  label : String
  fields : List Field
  hook : Option Nat
  deriving DecidableEq, Repr, Inhabited

abbrev Heap := List Obj
abbrev Memo := List (Nat × Nat)

inductive MemoTest where
  | byId | byObject
  deriving DecidableEq, Repr

inductive HookRebind where
  | removed | toOriginal
  deriving DecidableEq, Repr

/-- The copy discipline of the code (extracted from its behaviour, see `Generated/CopyFlags.lean`). -/
structure Cfg where
  memoTest : MemoTest
  hookRebind : HookRebind
  argRebind : HookRebind
  rootCopy : Bool
  innerCopy : Bool
  constCopy : Bool
  deriving DecidableEq, Repr

/-- `memo.get(id(x))`; the newest entry for a key wins (dict assignment). -/
def mget : Memo → Nat → Option Nat
  | [], _ => none
  | (a, b) :: r, x => if a = x then some b else mget r x

structure St where
  heap : Heap
  memo : Memo

def parentOfFields : List Field → Option Nat
  | [] => none
  | .par i :: _ => some i
  | _ :: r => parentOfFields r

/-- copy the state of an object, attribute by attribute, threading heap and memo -/
def copyFields (rec : St → Nat → Option (St × Nat)) : St → List Field → Option (St × List Field)
  | st, [] => some (st, [])
  | st, .scp i :: fs =>
    match copyFields rec st fs with
    | some (st', gs) => some (st', .scp i :: gs)
    | none => none
  | st, .own i :: fs =>
    match rec st i with
    | none => none
    | some (st1, j) =>
      match copyFields rec st1 fs with
      | some (st2, gs) => some (st2, .own j :: gs)
      | none => none
  | st, .par i :: fs =>
    match rec st i with
    | none => none
    | some (st1, j) =>
      match copyFields rec st1 fs with
      | some (st2, gs) => some (st2, .par j :: gs)
      | none => none

def blank (o : Obj) : Obj := { o with fields := [], hook := none }

/-- `copy._reconstruct`: new empty object, registered in the memo first, state copied, filled in. -/
def reconstruct (rec : St → Nat → Option (St × Nat)) (st : St) (x : Nat) (o : Obj) : Option (St × Nat) :=
  match copyFields rec { heap := st.heap ++ [blank o], memo := (x, st.heap.length) :: st.memo } o.fields with
  | none => none
  | some (st2, fs) =>
    some ({ st2 with heap := st2.heap.set st.heap.length { o with fields := fs, hook := none } }, st.heap.length)

/-- first statement of `Class.__deepcopy__` -/
def seed (cfg : Cfg) (st : St) (o : Obj) : St :=
  if o.kind = .cls then
    match parentOfFields o.fields with
    | some p =>
      match cfg.memoTest with
      | .byId => if (mget st.memo p).isSome then st else { st with memo := (p, p) :: st.memo }
      | .byObject => { st with memo := (p, p) :: st.memo }
    | none => st
  else st

def setHook (h : Heap) (i : Nat) (v : Option Nat) : Heap :=
  match h[i]? with
  | some o => h.set i { o with hook := v }
  | none => h

/-- last statements of both hooks: what the instance attribute of the original (`self`) and of the
    copy (`y`) is afterwards; `target` is the object the hook that ran was bound to. -/
def rebind (r : HookRebind) (h : Heap) (self y target : Nat) : Heap :=
  match r with
  | .removed => setHook (setHook h self none) y none
  | .toOriginal => setHook (setHook h self (some target)) y (some target)

/-- the `copy.deepcopy(self, memo)` inside a hook (the hook itself is shadowed): memo lookup, else
    `_reconstruct`; before it, the class hook seeds the memo -/
def hookInner (cfg : Cfg) (rec : St → Nat → Option (St × Nat)) (st : St) (self : Nat) (o : Obj) :
    Option (St × Nat) :=
  match mget (seed cfg st o).memo self with
  | some y => some (seed cfg st o, y)
  | none => reconstruct rec (seed cfg st o) self o

/-- `Class.__deepcopy__(self, memo)` / `ClassModificationArgument.__deepcopy__(self, memo)` -/
def viaHook (cfg : Cfg) (rec : St → Nat → Option (St × Nat)) (st : St) (self : Nat) : Option (St × Nat) :=
  match st.heap[self]? with
  | none => none
  | some o =>
    match hookInner cfg rec st self o with
    | none => none
    | some (st1, y) =>
      some ({ st1 with heap := rebind (if o.kind = .cls then cfg.hookRebind else cfg.argRebind) st1.heap self y
                                  (o.hook.getD self) }, y)

/-- `copy.deepcopy(x, memo)` with recursion depth bounded by the fuel -/
def copy (cfg : Cfg) : Nat → St → Nat → Option (St × Nat)
  | 0 => fun _ _ => none
  | f + 1 => fun st x =>
    match mget st.memo x with
    | some y => some (st, y)
    | none =>
      match st.heap[x]? with
      | none => none
      | some o =>
        if o.kind = .cls ∨ o.kind = .arg then
          match viaHook cfg (copy cfg f) st (o.hook.getD x) with
          | none => none
          | some (st1, y) =>
            some ((if y = x ∨ mget st1.memo x = some y then st1 else { st1 with memo := (x, y) :: st1.memo }), y)
        else reconstruct (copy cfg f) st x o

/-- `copy.deepcopy(x)` (fresh memo).  The fuel exceeds the number of objects. -/
def deepcopySt (cfg : Cfg) (h : Heap) (x : Nat) : Option (St × Nat) :=
  copy cfg (h.length + 1) { heap := h, memo := [] } x

def deepcopy (cfg : Cfg) (h : Heap) (x : Nat) : Option (Heap × Nat) :=
  match deepcopySt cfg h x with
  | some (st, y) => some (st.heap, y)
  | none => none

/-! ## lookup -/

def ownIds (o : Obj) : List Nat :=
  o.fields.filterMap fun f => match f with | .own i => some i | _ => none

def isClassNamed (h : Heap) (n : String) (i : Nat) : Bool :=
  match h[i]? with
  | some d => d.kind = .cls && d.name = n
  | none => false

def childClass (h : Heap) (c : Nat) (n : String) : Option Nat :=
  match h[c]? with
  | none => none
  | some o => (ownIds o).find? (isClassNamed h n)

def lookupPath (h : Heap) : Nat → List String → Option Nat
  | c, [] => some c
  | c, n :: r =>
    match childClass h c n with
    | some d => lookupPath h d r
    | none => none

/-- `root.find_class(path, copy=cp)` for a path of class names from the root -/
def findClass (cfg : Cfg) (h : Heap) (root : Nat) (path : List String) (cp : Bool) : Option (Heap × Nat) :=
  match lookupPath h root path with
  | none => none
  | some c => if cp then deepcopy cfg h c else some (h, c)

/-! ## flatten as a write footprint -/

def totalFields : Heap → Nat
  | [] => 0
  | o :: r => o.fields.length + totalFields r

/-- objects reachable through `own` references (depth first, `acc` = visited) -/
def ownReach (h : Heap) : Nat → List Nat → List Nat → List Nat
  | 0, _, acc => acc
  | _ + 1, [], acc => acc
  | f + 1, x :: stk, acc =>
    if acc.contains x then ownReach h f stk acc
    else
      match h[x]? with
      | none => ownReach h f stk acc
      | some o => ownReach h f (ownIds o ++ stk) (x :: acc)

def footprint (h : Heap) (starts : List Nat) : List Nat :=
  ownReach h (h.length + totalFields h + starts.length + 1) starts []

structure Req where
  path : List String
  inner : List Nat
  consts : List Nat
  deriving Repr

/-- look every object up with the given copy flag (each `find_class` is its own `deepcopy`) -/
def lookupAll (cfg : Cfg) (cp : Bool) : Heap → List Nat → Option (Heap × List Nat)
  | h, [] => some (h, [])
  | h, i :: r =>
    if cp then
      match deepcopy cfg h i with
      | none => none
      | some (h1, j) =>
        match lookupAll cfg cp h1 r with
        | some (h2, js) => some (h2, j :: js)
        | none => none
    else
      match lookupAll cfg cp h r with
      | some (h2, js) => some (h2, i :: js)
      | none => none

def rewrite (junk : Nat → Obj → Obj) : Heap → List Nat → Heap
  | h, [] => h
  | h, i :: r =>
    match h[i]? with
    | some o => rewrite junk (h.set i (junk i o)) r
    | none => rewrite junk h r

/-- what `tree.flatten` obtains: the requested class, the classes and symbols it looks up -/
def obtain (cfg : Cfg) (h : Heap) (root : Nat) (r : Req) : Option (Heap × List Nat) :=
  match lookupPath h root r.path with
  | none => none
  | some c =>
    match lookupAll cfg cfg.rootCopy h [c] with
    | none => none
    | some (h1, cs) =>
      match lookupAll cfg cfg.innerCopy h1 r.inner with
      | none => none
      | some (h2, is) =>
        match lookupAll cfg cfg.constCopy h2 r.consts with
        | none => none
        | some (h3, ks) => some (h3, cs ++ (is ++ ks))

/-- `tree.flatten` as far as the input tree is concerned: obtain, then write anything (`junk`)
    to every object reachable from what was obtained. -/
def flattenImpl (cfg : Cfg) (junk : Nat → Obj → Obj) (h : Heap) (root : Nat) (r : Req) : Option Heap :=
  match obtain cfg h root r with
  | none => none
  | some (h3, got) => some (rewrite junk h3 (footprint h3 got))

/-! ## observation -/

/-- unfolding of the graph below an object to a given depth: everything any computation that
    follows references at most `k` deep can depend on (identities erased) -/
inductive View where
  | cut
  | node (kind : Kind) (name label : String) (kids : List (Nat × View))

def view (h : Heap) : Nat → Nat → View
  | 0, _ => .cut
  | k + 1, x =>
    match h[x]? with
    | none => .cut
    | some o => .node o.kind o.name o.label (o.fields.map fun f => (f.tag, view h k f.id))

/-- what a request reads: the views (to depth `k`) of everything it obtained, before it writes -/
def flattenResult (cfg : Cfg) (k : Nat) (h : Heap) (root : Nat) (r : Req) : Option (List View) :=
  match obtain cfg h root r with
  | none => none
  | some (h3, got) => some (got.map (view h3 k))

/-- a history of requests on one tree: every request is answered from the heap the earlier ones
    left behind (a request that fails leaves the heap as it was) -/
def runSeq (cfg : Cfg) (k : Nat) (root : Nat) : Heap → List (Req × (Nat → Obj → Obj)) → List (Option (List View))
  | _, [] => []
  | h, (r, junk) :: rest =>
    flattenResult cfg k h root r ::
      (match flattenImpl cfg junk h root r with
       | some h' => runSeq cfg k root h' rest
       | none => runSeq cfg k root h rest)

/-! ## edits through the AST API -/

/-- an edit: new objects are allocated, then some objects are overwritten -/
structure Edit where
  allocs : List Obj
  writes : List (Nat × Obj)

def applyWrites : Heap → List (Nat × Obj) → Heap
  | h, [] => h
  | h, (i, o) :: r => applyWrites (h.set i o) r

def applyEdit (h : Heap) (e : Edit) : Heap := applyWrites (h ++ e.allocs) e.writes

/-- `c.parent = p` -/
def setPar (fs : List Field) (p : Nat) : List Field :=
  if fs.any (fun f => match f with | .par _ => true | _ => false) then
    fs.map fun f => match f with | .par _ => .par p | g => g
  else fs ++ [.par p]

/-- `holder.add_class(c)`: `holder.classes[c.name] = c; c.parent = holder` — a class of that name that
    `holder` already holds is replaced (it is dropped from `holder`, nothing of it is kept or written) -/
def addClassEdit (h : Heap) (holder c : Nat) : Edit :=
  match h[holder]?, h[c]? with
  | some oh, some oc =>
    { allocs := []
      writes := [(holder, { oh with fields := (oh.fields.filter fun f => match f with
                              | .own i => i == c || !(isClassNamed h oc.name i)
                              | _ => true) ++ [.own c] }),
                 (c, { oc with fields := setPar oc.fields holder })] }
  | _, _ => { allocs := [], writes := [] }

/-- `c.parent = None` -/
def dropPar (fs : List Field) : List Field :=
  fs.filter fun f => match f with | .par _ => false | _ => true

/-- `holder.remove_class(c)`: `del holder.classes[c.name]; c.parent = None` — the entry is found by the
    *name* of the argument.  `registered`: the argument is the object held by `holder` (then that object
    loses its parent); otherwise the argument is some copy of it (`find_class` copies by default) and
    the object that was held is only dropped from `holder`. -/
def removeClassEdit (h : Heap) (holder : Nat) (n : String) (registered : Bool) : Edit :=
  match h[holder]? with
  | none => { allocs := [], writes := [] }
  | some oh =>
    { allocs := []
      writes := (holder, { oh with fields := oh.fields.filter fun f => match f with
                              | .own i => !(isClassNamed h n i)
                              | _ => true }) ::
        (if registered then
          ((ownIds oh).filter (isClassNamed h n)).filterMap fun c =>
            match h[c]? with
            | some oc => some (c, { oc with fields := dropPar oc.fields })
            | none => none
         else []) }

/-- a variant with move semantics: the class is first popped, by name, from the `classes` of the
    parent it still has (for a copy made by `find_class`/`deepcopy` that is the original's parent) -/
def addClassMoveEdit (h : Heap) (holder c : Nat) : Edit :=
  match h[c]? with
  | none => addClassEdit h holder c
  | some oc =>
    match parentOfFields oc.fields with
    | none => addClassEdit h holder c
    | some p =>
      match h[p]? with
      | none => addClassEdit h holder c
      | some op =>
        { allocs := []
          writes := (p, { op with fields := op.fields.filter fun f => match f with
                            | .own i => !(isClassNamed h oc.name i)
                            | _ => true }) :: (addClassEdit h holder c).writes }

/-- labels in preorder: a decidable fingerprint of a view (used by the counterexamples) -/
def viewLabels (h : Heap) : Nat → Nat → List String
  | 0, _ => ["…"]
  | k + 1, x =>
    match h[x]? with
    | none => ["⊥"]
    | some o => o.label :: (o.fields.map fun f => viewLabels h k f.id).flatten

/-- ids of old objects (`< n`) that differ between two heaps -/
def writtenOld (h h' : Heap) : List Nat :=
  (List.range h.length).filter fun i => h[i]? != h'[i]?

/-! ## executable checks of the hypotheses the theorems make about a heap -/

def allIdx (H : Heap) (p : Nat → Obj → Bool) : Bool :=
  (List.range H.length).all fun i => match H[i]? with | some o => p i o | none => true

/-- references valid, no per-instance hooks, `par` only in classes and unique -/
def wfCheck (H : Heap) : Bool :=
  allIdx H fun _ o =>
    o.hook.isNone && o.fields.all (fun f => decide (f.id < H.length)) &&
      o.fields.all (fun f => match f with
        | .par i => decide (o.kind = .cls) && decide (parentOfFields o.fields = some i)
        | _ => true)

/-- every `own` reference to a class comes from its parent -/
def treeCheck (H : Heap) : Bool :=
  allIdx H fun a oa => oa.fields.all fun f => match f with
    | .own c => (match H[c]? with
      | some oc => !(decide (oc.kind = .cls)) || decide (parentOfFields oc.fields = some a)
      | none => true)
    | _ => true

/-- `d` is a depth function: `own` references go down, `par` references go up -/
def rankCheck (H : Heap) (d : List Nat) : Bool :=
  allIdx H fun a oa => oa.fields.all fun f => match f with
    | .own c => decide (d.getD a 0 < d.getD c 0)
    | .par p => decide (d.getD p 0 < d.getD a 0)
    | .scp _ => true

/-- no `scope` references (a tree as the parser leaves it) -/
def noScopeCheck (H : Heap) : Bool :=
  allIdx H fun _ o => o.fields.all fun f => match f with | .scp _ => false | _ => true

/-! ## canonical shape of the new objects below a result (for the correspondence) -/

def newOrder (h : Heap) (n : Nat) : Nat → List Nat → List Nat → List Nat
  | 0, _, acc => acc.reverse
  | _ + 1, [], acc => acc.reverse
  | f + 1, x :: stk, acc =>
    if x < n ∨ acc.contains x then newOrder h n f stk acc
    else
      match h[x]? with
      | none => newOrder h n f stk acc
      | some o => newOrder h n f (o.fields.map Field.id ++ stk) (x :: acc)

def shapeOrder (h : Heap) (n : Nat) (y : Nat) : List Nat :=
  newOrder h n (h.length + totalFields h + 2) [y] []

end PymocaVerif.ObjGraph
