/-! Driver for C08 (stub: not built yet). -/
def main : IO Unit := pure ()
