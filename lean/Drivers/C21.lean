/-! Driver for C21 (stub: not built yet). -/
def main : IO Unit := pure ()
