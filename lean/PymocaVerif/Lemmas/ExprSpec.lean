import PymocaVerif.Model.ExprSpec
import PymocaVerif.Lemmas.ExprGrammar
/-!
# The reference reader (specification grammar) inverts the Modelica printer (C03)

`spec_reads_mprint : ∃ f, specParse f (mprint e) = some (strip e)` — by structural induction on `e`; for every
expression the statement is first proved at the expression's own level and then carried to every other level
(`rall_of_level`).  Core Lean only.
-/
namespace PymocaVerif.ExprGrammar

/-! ### one-step unfoldings -/

theorem sPrimary_succ (f ts) : sPrimary (f+1) ts =
    (match ts with
    | Tok.atom a :: r =>
      match a, r with
      | Atom.ref n, Tok.lp :: Tok.rp :: r' => some (E.call n Args.nil, r')
      | Atom.ref n, Tok.lp :: r' =>
        match sArgs f r' with
        | some (as, r'') => some (E.call n as, r'')
        | none => none
      | _, _ => some (E.atom a, r)
    | Tok.lp :: r =>
      match sExpr f r with
      | some (e, Tok.rp :: r') => some (e, r')
      | _ => none
    | _ => none) := by
  rw [sPrimary.eq_def]; rfl

theorem sLevel_1 (f ts) : sLevel (f+1) 1 ts =
    (match sLevel f 2 ts with
      | some (l, r) => sLoop f 1 l r
      | none => none) := by
  rw [sLevel.eq_def]; rfl
theorem sLevel_2 (f ts) : sLevel (f+1) 2 ts =
    (match sLevel f 3 ts with
      | some (l, r) => sLoop f 2 l r
      | none => none) := by
  rw [sLevel.eq_def]; rfl
theorem sLevel_3 (f ts) : sLevel (f+1) 3 ts =
    (match ts with
      | Tok.op Sym.not :: r =>
        match sLevel f 4 r with
        | some (e, r') => some (E.pre POp.not e, r')
        | none => none
      | _ => sLevel f 4 ts) := by
  rw [sLevel.eq_def]; rfl
theorem sLevel_4 (f ts) : sLevel (f+1) 4 ts =
    (match sLevel f 5 ts with
      | some (a, Tok.op s :: r) =>
        match s.bin? with
        | some o =>
          if o.mlv.1 = 4 then
            match sLevel f 5 r with
            | some (b, r') => some (E.bin o a b, r')
            | none => none
          else some (a, Tok.op s :: r)
        | none => some (a, Tok.op s :: r)
      | some (a, r) => some (a, r)
      | none => none) := by
  rw [sLevel.eq_def]; rfl
theorem sLevel_5 (f ts) : sLevel (f+1) 5 ts =
    (match ts with
      | Tok.op Sym.plus :: r =>
        match sLevel f 6 r with
        | some (t, r') => sLoop f 5 (E.pre POp.pos t) r'
        | none => none
      | Tok.op Sym.minus :: r =>
        match sLevel f 6 r with
        | some (t, r') => sLoop f 5 (E.pre POp.neg t) r'
        | none => none
      | _ =>
        match sLevel f 6 ts with
        | some (l, r) => sLoop f 5 l r
        | none => none) := by
  rw [sLevel.eq_def]; rfl
theorem sLevel_6 (f ts) : sLevel (f+1) 6 ts =
    (match sLevel f 7 ts with
      | some (l, r) => sLoop f 6 l r
      | none => none) := by
  rw [sLevel.eq_def]; rfl
theorem sLevel_7 (f ts) : sLevel (f+1) 7 ts =
    (match sPrimary f ts with
      | some (a, Tok.op s :: r) =>
        match s.pow? with
        | some w =>
          match sPrimary f r with
          | some (b, r') => some (E.pow w a b, r')
          | none => none
        | none => some (a, Tok.op s :: r)
      | some (a, r) => some (a, r)
      | none => none) := by
  rw [sLevel.eq_def]; rfl
theorem sLevel_other (f m ts) (h : m = 0 ∨ 8 ≤ m) : sLevel (f+1) m ts = none := by
  rw [sLevel.eq_def]
  rcases h with h | h
  · subst h; rfl
  · match m, h with
    | m+8, _ => rfl

theorem sLoop_succ (f m l ts) : sLoop (f+1) m l ts =
    (match ts with
    | Tok.op s :: r =>
      match s.bin? with
      | some o =>
        if o.mlv.1 = m then
          match sLevel f (m+1) r with
          | some (b, r') => sLoop f m (E.bin o l b) r'
          | none => none
        else some (l, ts)
      | none => some (l, ts)
    | _ => some (l, ts)) := by
  rw [sLoop.eq_def]; rfl

theorem sExpr_succ (f ts) : sExpr (f+1) ts =
    (match ts with
    | Tok.kif :: r =>
      match sExpr f r with
      | some (c, Tok.kthen :: r1) =>
        match sExpr f r1 with
        | some (t, r2) =>
          match sEls f r2 with
          | some (el, r3) => some (E.ite c t el, r3)
          | none => none
        | none => none
      | _ => none
    | _ => sLevel f 1 ts) := by
  rw [sExpr.eq_def]; rfl

theorem sEls_succ (f ts) : sEls (f+1) ts =
    (match ts with
    | Tok.kelse :: r =>
      match sExpr f r with
      | some (e, r') => some (Els.els e, r')
      | none => none
    | Tok.kelseif :: r =>
      match sExpr f r with
      | some (c, Tok.kthen :: r1) =>
        match sExpr f r1 with
        | some (t, r2) =>
          match sEls f r2 with
          | some (el, r3) => some (Els.elif c t el, r3)
          | none => none
        | none => none
      | _ => none
    | _ => none) := by
  rw [sEls.eq_def]; rfl

theorem sArgs_succ (f ts) : sArgs (f+1) ts =
    (match sExpr f ts with
    | some (e, Tok.comma :: r) =>
      match sArgs f r with
      | some (as, r') => some (Args.cons e as, r')
      | none => none
    | some (e, Tok.rp :: r) => some (Args.cons e Args.nil, r)
    | _ => none) := by
  rw [sArgs.eq_def]; rfl


/-! ### fuel monotonicity of the reference reader -/

theorem smono_step : ∀ f,
    (∀ ts, (sPrimary f ts).isSome → sPrimary (f+1) ts = sPrimary f ts) ∧
    (∀ m ts, (sLevel f m ts).isSome → sLevel (f+1) m ts = sLevel f m ts) ∧
    (∀ m l ts, (sLoop f m l ts).isSome → sLoop (f+1) m l ts = sLoop f m l ts) ∧
    (∀ ts, (sExpr f ts).isSome → sExpr (f+1) ts = sExpr f ts) ∧
    (∀ ts, (sEls f ts).isSome → sEls (f+1) ts = sEls f ts) ∧
    (∀ ts, (sArgs f ts).isSome → sArgs (f+1) ts = sArgs f ts) := by
  intro f
  induction f with
  | zero =>
    refine ⟨?_, ?_, ?_, ?_, ?_, ?_⟩ <;> intros <;>
      simp_all [sPrimary, sLevel, sLoop, sExpr, sEls, sArgs]
  | succ f ih =>
    obtain ⟨ihP, ihV, ihL, ihX, ihS, ihA⟩ := ih
    refine ⟨?_, ?_, ?_, ?_, ?_, ?_⟩
    · intro ts h
      rw [sPrimary_succ] at h
      rw [sPrimary_succ (f+1), sPrimary_succ f]
      (repeat' split at h) <;> simp_all
    · intro m ts h
      match m with
      | 0 => rw [sLevel_other _ _ _ (Or.inl rfl)] at h; simp at h
      | 1 =>
        rw [sLevel_1] at h
        rw [sLevel_1 (f+1), sLevel_1 f]
        (repeat' split at h) <;> simp_all
      | 2 =>
        rw [sLevel_2] at h
        rw [sLevel_2 (f+1), sLevel_2 f]
        (repeat' split at h) <;> simp_all
      | 3 =>
        rw [sLevel_3] at h
        rw [sLevel_3 (f+1), sLevel_3 f]
        (repeat' split at h) <;> simp_all
      | 4 =>
        rw [sLevel_4] at h
        rw [sLevel_4 (f+1), sLevel_4 f]
        (repeat' split at h) <;> simp_all
      | 5 =>
        rw [sLevel_5] at h
        rw [sLevel_5 (f+1), sLevel_5 f]
        (repeat' split at h) <;> simp_all
      | 6 =>
        rw [sLevel_6] at h
        rw [sLevel_6 (f+1), sLevel_6 f]
        (repeat' split at h) <;> simp_all
      | 7 =>
        rw [sLevel_7] at h
        rw [sLevel_7 (f+1), sLevel_7 f]
        (repeat' split at h) <;> simp_all
      | m+8 => rw [sLevel_other _ _ _ (Or.inr (by omega))] at h; simp at h
    · intro m l ts h
      rw [sLoop_succ] at h
      rw [sLoop_succ (f+1), sLoop_succ f]
      (repeat' split at h) <;> simp_all
    · intro ts h
      rw [sExpr_succ] at h
      rw [sExpr_succ (f+1), sExpr_succ f]
      (repeat' split at h) <;> simp_all
    · intro ts h
      rw [sEls_succ] at h
      rw [sEls_succ (f+1), sEls_succ f]
      (repeat' split at h) <;> simp_all
    · intro ts h
      rw [sArgs_succ] at h
      rw [sArgs_succ (f+1), sArgs_succ f]
      (repeat' split at h) <;> simp_all

theorem smonoP {f f' ts r} (h : sPrimary f ts = some r) (hle : f ≤ f') : sPrimary f' ts = some r := by
  induction hle with
  | refl => exact h
  | step _ ih => rw [(smono_step _).1 _ (by simp [ih])]; exact ih
theorem smonoV {f f' m ts r} (h : sLevel f m ts = some r) (hle : f ≤ f') : sLevel f' m ts = some r := by
  induction hle with
  | refl => exact h
  | step _ ih => rw [(smono_step _).2.1 _ _ (by simp [ih])]; exact ih
theorem smonoL {f f' m l ts r} (h : sLoop f m l ts = some r) (hle : f ≤ f') : sLoop f' m l ts = some r := by
  induction hle with
  | refl => exact h
  | step _ ih => rw [(smono_step _).2.2.1 _ _ _ (by simp [ih])]; exact ih
theorem smonoX {f f' ts r} (h : sExpr f ts = some r) (hle : f ≤ f') : sExpr f' ts = some r := by
  induction hle with
  | refl => exact h
  | step _ ih => rw [(smono_step _).2.2.2.1 _ (by simp [ih])]; exact ih
theorem smonoS {f f' ts r} (h : sEls f ts = some r) (hle : f ≤ f') : sEls f' ts = some r := by
  induction hle with
  | refl => exact h
  | step _ ih => rw [(smono_step _).2.2.2.2.1 _ (by simp [ih])]; exact ih
theorem smonoA {f f' ts r} (h : sArgs f ts = some r) (hle : f ≤ f') : sArgs f' ts = some r := by
  induction hle with
  | refl => exact h
  | step _ ih => rw [(smono_step _).2.2.2.2.2 _ (by simp [ih])]; exact ih

theorem smonoTop {f f' ts e} (h : specParse f ts = some e) (hle : f ≤ f') : specParse f' ts = some e := by
  unfold specParse at h ⊢
  split at h
  · next e' heq => rw [smonoX heq hle]; exact h
  · simp at h


/-! ### what may follow a nonterminal of level `m` -/

/-- the next token closes the expression or is a binary operator of a level below `m` -/
def SStop (m : Nat) : List Tok → Prop
  | [] => True
  | Tok.op s :: _ => ∃ o, s.bin? = some o ∧ o.mlv.1 < m
  | t :: _ => isCloser t = true

theorem SStop.mono {m m' rest} (h : SStop m rest) (hle : m ≤ m') : SStop m' rest := by
  match rest with
  | [] => trivial
  | t :: ts =>
    cases t <;> simp_all [SStop]
    obtain ⟨o, h1, h2⟩ := h
    exact ⟨o, h1, by omega⟩

theorem Closer.sstop {m rest} (h : Closer rest) : SStop m rest := by
  match rest with
  | [] => trivial
  | t :: ts => cases t <;> simp_all [Closer, SStop, isCloser]

theorem SStop.nolp {m rest} (h : SStop m rest) : ∀ r, rest ≠ Tok.lp :: r := by
  intro r hr; subst hr; simp [SStop, isCloser] at h

theorem SStop.nopow {m rest} (h : SStop m rest) : ∀ s r, rest = Tok.op s :: r → s.pow? = none := by
  intro s r hr; subst hr
  obtain ⟨o, ho, _⟩ := h
  exact bin_not_pow ho

theorem sloop_stop {m l rest} (h : SStop m rest) : sLoop 1 m l rest = some (l, rest) := by
  rw [sLoop_succ]
  split
  · next s r =>
    obtain ⟨o, ho, hlt⟩ := h
    simp only [ho]
    rw [if_neg (by omega)]
  · rfl

/-- the first token is an atom or `(` -/
def PrimHead : List Tok → Prop
  | Tok.atom _ :: _ => True
  | Tok.lp :: _ => True
  | _ => False

theorem PrimHead.append {P rest} (h : PrimHead P) : PrimHead (P ++ rest) := by
  match P with
  | [] => simp [PrimHead] at h
  | t :: ts => cases t <;> simp_all [PrimHead]

/-! ### one level up: from the nonterminal of level `m+1` to the one of level `m` -/

theorem lvl7_of_primary {ts x rest} (hP : ∃ f, sPrimary f ts = some (x, rest))
    (hr : ∀ s r, rest = Tok.op s :: r → s.pow? = none) : ∃ f, sLevel f 7 ts = some (x, rest) := by
  obtain ⟨f, hf⟩ := hP
  refine ⟨f + 1, ?_⟩
  rw [sLevel_7, hf]
  split
  · next a s r heq =>
    simp only [Option.some.injEq, Prod.mk.injEq] at heq
    rw [hr s r heq.2, heq.1, heq.2]
  · next a r _ heq =>
    simp only [Option.some.injEq, Prod.mk.injEq] at heq
    rw [heq.1, heq.2]
  · next heq => simp at heq

/-- levels 1, 2, 6: `X { op X }` -/
theorem loop_level {m ts x rest res} (hm : m = 1 ∨ m = 2 ∨ m = 6)
    (hV : ∃ f, sLevel f (m+1) ts = some (x, rest)) (hL : ∃ f, sLoop f m x rest = some res) :
    ∃ f, sLevel f m ts = some res := by
  obtain ⟨f1, h1⟩ := hV
  obtain ⟨f2, h2⟩ := hL
  refine ⟨max f1 f2 + 1, ?_⟩
  have h1' := smonoV h1 (Nat.le_max_left f1 f2)
  have h2' := smonoL h2 (Nat.le_max_right f1 f2)
  rcases hm with h | h | h <;> subst h
  · rw [sLevel_1, h1']; exact h2'
  · rw [sLevel_2, h1']; exact h2'
  · rw [sLevel_6, h1']; exact h2'

/-- level 5 when the text does not start with a sign -/
theorem loop_level5 {ts x rest res} (hh : ∀ r, ts ≠ Tok.op Sym.plus :: r ∧ ts ≠ Tok.op Sym.minus :: r)
    (hV : ∃ f, sLevel f 6 ts = some (x, rest)) (hL : ∃ f, sLoop f 5 x rest = some res) :
    ∃ f, sLevel f 5 ts = some res := by
  obtain ⟨f1, h1⟩ := hV
  obtain ⟨f2, h2⟩ := hL
  refine ⟨max f1 f2 + 1, ?_⟩
  have h1' := smonoV h1 (Nat.le_max_left f1 f2)
  have h2' := smonoL h2 (Nat.le_max_right f1 f2)
  rw [sLevel_5]
  split
  · next r => exact absurd rfl (hh r).1
  · next r => exact absurd rfl (hh r).2
  · rw [h1']; exact h2'

/-- level 5 when the text starts with a sign -/
theorem sign_level5 {q : POp} (hq : q ≠ POp.not) {ts t rest res}
    (hV : ∃ f, sLevel f 6 ts = some (t, rest)) (hL : ∃ f, sLoop f 5 (E.pre q t) rest = some res) :
    ∃ f, sLevel f 5 (Tok.op q.sym :: ts) = some res := by
  obtain ⟨f1, h1⟩ := hV
  obtain ⟨f2, h2⟩ := hL
  refine ⟨max f1 f2 + 1, ?_⟩
  have h1' := smonoV h1 (Nat.le_max_left f1 f2)
  have h2' := smonoL h2 (Nat.le_max_right f1 f2)
  rw [sLevel_5]
  cases q with
  | not => exact absurd rfl hq
  | pos => simp only [POp.sym, h1']; exact h2'
  | neg => simp only [POp.sym, h1']; exact h2'

theorem level3_of_4 {ts x rest} (hh : ∀ r, ts ≠ Tok.op Sym.not :: r)
    (hV : ∃ f, sLevel f 4 ts = some (x, rest)) : ∃ f, sLevel f 3 ts = some (x, rest) := by
  obtain ⟨f1, h1⟩ := hV
  refine ⟨f1 + 1, ?_⟩
  rw [sLevel_3]
  split
  · next r => exact absurd rfl (hh r)
  · exact h1

theorem level4_of_5 {ts x rest} (hV : ∃ f, sLevel f 5 ts = some (x, rest)) (hs : SStop 4 rest) :
    ∃ f, sLevel f 4 ts = some (x, rest) := by
  obtain ⟨f1, h1⟩ := hV
  refine ⟨f1 + 1, ?_⟩
  rw [sLevel_4, h1]
  split
  · next a s r heq =>
    simp only [Option.some.injEq, Prod.mk.injEq] at heq
    obtain ⟨h1, h2⟩ := heq
    subst h1 h2
    obtain ⟨o, ho, hlt⟩ := hs
    simp only [ho]
    rw [if_neg (by omega)]
  · next a r _ heq =>
    simp only [Option.some.injEq, Prod.mk.injEq] at heq
    rw [heq.1, heq.2]
  · next heq => simp at heq

/-- head conditions for going from level `k` down to level `m`: no `not` in front when level 3 is crossed, no
sign in front when level 5 is crossed -/
def HeadOK (m k : Nat) (ts : List Tok) : Prop :=
  (m ≤ 3 → 3 < k → ∀ r, ts ≠ Tok.op Sym.not :: r) ∧
  (m ≤ 5 → 5 < k → ∀ r, ts ≠ Tok.op Sym.plus :: r ∧ ts ≠ Tok.op Sym.minus :: r)

/-- one level down when nothing of that level follows -/
theorem down_one {m ts x rest} (hm1 : 1 ≤ m) (hm6 : m ≤ 6) (hh : HeadOK m (m+1) ts)
    (hV : ∃ f, sLevel f (m+1) ts = some (x, rest)) (hs : SStop m rest) :
    ∃ f, sLevel f m ts = some (x, rest) := by
  have hm : m = 1 ∨ m = 2 ∨ m = 3 ∨ m = 4 ∨ m = 5 ∨ m = 6 := by omega
  rcases hm with h | h | h | h | h | h <;> subst h
  · exact loop_level (Or.inl rfl) hV ⟨1, sloop_stop hs⟩
  · exact loop_level (Or.inr (Or.inl rfl)) hV ⟨1, sloop_stop hs⟩
  · exact level3_of_4 (hh.1 (by omega) (by omega)) hV
  · exact level4_of_5 hV hs
  · exact loop_level5 (hh.2 (by omega) (by omega)) hV ⟨1, sloop_stop hs⟩
  · exact loop_level (Or.inr (Or.inr rfl)) hV ⟨1, sloop_stop hs⟩

/-- several levels down -/
theorem down_to {ts x rest} : ∀ (d m : Nat), 1 ≤ m → m + d ≤ 7 → HeadOK m (m+d) ts →
    (∃ f, sLevel f (m+d) ts = some (x, rest)) → SStop m rest → ∃ f, sLevel f m ts = some (x, rest)
  | 0, m, _, _, _, hV, _ => hV
  | d+1, m, hm1, hmk, hh, hV, hs => by
    have h1 : ∃ f, sLevel f (m+1) ts = some (x, rest) :=
      down_to d (m+1) (by omega) (by omega)
        ⟨fun a b => hh.1 (by omega) (by omega), fun a b => hh.2 (by omega) (by omega)⟩
        (by simpa [Nat.add_assoc, Nat.add_comm 1 d] using hV) (hs.mono (by omega))
    exact down_one hm1 (by omega)
      ⟨fun a b => hh.1 a (by omega), fun a b => hh.2 a (by omega)⟩ h1 hs

theorem PrimHead.headOK {m k ts} (h : PrimHead ts) : HeadOK m k ts := by
  match ts, h with
  | Tok.atom _ :: _, _ => exact ⟨fun _ _ r => by simp, fun _ _ r => by simp⟩
  | Tok.lp :: _, _ => exact ⟨fun _ _ r => by simp, fun _ _ r => by simp⟩

/-- a text that `primary` reads, at every level -/
theorem up_all {P : List Tok} {x : E} (hH : PrimHead P)
    (hP : ∀ rest, (∀ r, rest ≠ Tok.lp :: r) → ∃ f, sPrimary f (P ++ rest) = some (x, rest)) :
    (∀ m, 1 ≤ m → m ≤ 7 → ∀ rest, SStop m rest → ∃ f, sLevel f m (P ++ rest) = some (x, rest)) ∧
    (∀ m, (m = 1 ∨ m = 2 ∨ m = 5 ∨ m = 6) → ∀ rest res, SStop (m+1) rest →
      (∃ f, sLoop f m x rest = some res) → ∃ f, sLevel f m (P ++ rest) = some res) := by
  have h7 : ∀ rest, SStop 7 rest → ∃ f, sLevel f 7 (P ++ rest) = some (x, rest) :=
    fun rest hs => lvl7_of_primary (hP rest hs.nolp) hs.nopow
  have hall : ∀ m, 1 ≤ m → m ≤ 7 → ∀ rest, SStop m rest → ∃ f, sLevel f m (P ++ rest) = some (x, rest) := by
    intro m hm1 hm7 rest hs
    refine down_to (7 - m) m hm1 (by omega) hH.append.headOK ?_ hs
    have : m + (7 - m) = 7 := by omega
    rw [this]
    exact h7 rest (hs.mono hm7)
  refine ⟨hall, ?_⟩
  intro m hm rest res hs hL
  have hup := hall (m+1) (by omega) (by omega) rest hs
  rcases hm with h | h | h | h <;> subst h
  · exact loop_level (Or.inl rfl) hup hL
  · exact loop_level (Or.inr (Or.inl rfl)) hup hL
  · refine loop_level5 ?_ hup hL
    exact (hH.append.headOK (m := 5) (k := 6)).2 (by omega) (by omega)
  · exact loop_level (Or.inr (Or.inr rfl)) hup hL


/-! ### shape of the Modelica print -/

theorem mlevel_le (e : E) : e.mlevel ≤ 8 := by
  cases e with
  | bin o l r => cases o <;> simp [E.mlevel, BOp.mlv]
  | pre q e => cases q <;> simp [E.mlevel, POp.mlv]
  | _ => simp [E.mlevel]

/-- at or below its own level an expression is printed without parentheses of its own -/
theorem mpr_body (e : E) (m : Nat) (h : m ≤ e.mlevel) : mpr m e = mpr e.mlevel e := by
  cases e with
  | atom a => simp [mpr]
  | bin o l r => simp only [E.mlevel] at h; simp [mpr, E.mlevel, h]
  | pre q e => simp only [E.mlevel] at h; simp [mpr, E.mlevel, h]
  | pow w a b => simp only [E.mlevel] at h; simp [mpr, E.mlevel, h]
  | paren e => simp [mpr]
  | ite c t r => simp only [E.mlevel] at h; simp [mpr, E.mlevel, Nat.le_zero.mp h]
  | call f as => simp [mpr]

/-- above its own level it is printed in parentheses -/
theorem mpr_paren (e : E) (m : Nat) (h : e.mlevel < m) (h8 : m ≤ 8) :
    mpr m e = Tok.lp :: (mpr 0 e ++ [Tok.rp]) := by
  cases e with
  | atom a => simp only [E.mlevel] at h; omega
  | bin o l r =>
    simp only [E.mlevel] at h
    have : ¬ m ≤ o.mlv.1 := by omega
    simp [mpr, this]
  | pre q e =>
    simp only [E.mlevel] at h
    have : ¬ m ≤ q.mlv.1 := by omega
    simp [mpr, this]
  | pow w a b =>
    simp only [E.mlevel] at h
    have : ¬ m ≤ 7 := by omega
    simp [mpr, this]
  | paren e => simp only [E.mlevel] at h; omega
  | ite c t r =>
    have : m ≠ 0 := by omega
    simp [mpr, this]
  | call f as => simp only [E.mlevel] at h; omega

/-- first token of the Modelica print: never a closer; `if` only for a bare if-expression; `not` only at levels
≤ 3; a sign only at levels ≤ 5; no other operator -/
theorem mpr_head : ∀ (e : E) (m : Nat),
    ∃ t, (mpr m e).head? = some t ∧ isCloser t = false ∧ (t = Tok.kif → m = 0 ∧ e.isIte = true) ∧
      (∀ s, t = Tok.op s → (s = Sym.not ∧ m ≤ 3) ∨ ((s = Sym.plus ∨ s = Sym.minus) ∧ m ≤ 5))
  | .atom a, m => ⟨Tok.atom a, by simp [mpr], rfl, by simp, by simp⟩
  | .bin o l r, m => by
    obtain ⟨t, h1, h2, h3, h4⟩ := mpr_head l o.mlv.2.1
    by_cases hm : m ≤ o.mlv.1
    · refine ⟨t, by simp [mpr, hm, h1], h2, ?_, ?_⟩
      · intro ht
        have := (h3 ht).1
        cases o <;> simp [BOp.mlv] at this
      · intro s hs
        rcases h4 s hs with ⟨a, b⟩ | ⟨a, b⟩
        · left; refine ⟨a, ?_⟩; cases o <;> simp_all [BOp.mlv] <;> omega
        · right; refine ⟨a, ?_⟩; cases o <;> simp_all [BOp.mlv] <;> omega
    · exact ⟨Tok.lp, by simp [mpr, hm], rfl, by simp, by simp⟩
  | .pre q e, m => by
    by_cases hm : m ≤ q.mlv.1
    · refine ⟨Tok.op q.sym, by simp [mpr, hm], rfl, by simp, ?_⟩
      intro s hs
      cases q <;> simp_all [POp.sym, POp.mlv]
    · exact ⟨Tok.lp, by simp [mpr, hm], rfl, by simp, by simp⟩
  | .pow w a b, m => by
    by_cases hm : m ≤ 7
    · obtain ⟨t, h1, h2, h3, h4⟩ := mpr_head a 8
      refine ⟨t, by simp [mpr, hm, h1], h2, ?_, ?_⟩
      · intro ht; have := (h3 ht).1; omega
      · intro s hs
        rcases h4 s hs with ⟨_, b⟩ | ⟨_, b⟩ <;> omega
    · exact ⟨Tok.lp, by simp [mpr, hm], rfl, by simp, by simp⟩
  | .paren e, m => ⟨Tok.lp, by simp [mpr], rfl, by simp, by simp⟩
  | .ite c t r, m => by
    by_cases hm : m = 0
    · exact ⟨Tok.kif, by simp [mpr, hm], rfl, by simp [hm, E.isIte], by simp⟩
    · exact ⟨Tok.lp, by simp [mpr, hm], rfl, by simp, by simp⟩
  | .call f as, m => ⟨Tok.atom (Atom.ref f), by simp [mpr], rfl, by simp, by simp⟩

theorem mpr_headOK (e : E) (k m : Nat) (rest : List Tok) (hk : 1 ≤ k) :
    HeadOK m k (mpr k e ++ rest) ∧ (∀ r, mpr k e ++ rest ≠ Tok.kif :: r) := by
  obtain ⟨t, h1, _, h3, h4⟩ := mpr_head e k
  obtain ⟨tl, htl⟩ := List.head?_eq_some_iff.mp h1
  rw [htl]
  refine ⟨⟨?_, ?_⟩, ?_⟩
  · intro _ hk3 r heq
    simp only [List.cons_append, List.cons.injEq] at heq
    rcases h4 _ heq.1 with ⟨_, b⟩ | ⟨a, _⟩
    · omega
    · rcases a with a | a <;> simp at a
  · intro _ hk5 r
    constructor <;> intro heq <;> simp only [List.cons_append, List.cons.injEq] at heq
    · rcases h4 _ heq.1 with ⟨a, _⟩ | ⟨_, b⟩
      · simp at a
      · omega
    · rcases h4 _ heq.1 with ⟨a, _⟩ | ⟨_, b⟩
      · simp at a
      · omega
  · intro r heq
    simp only [List.cons_append, List.cons.injEq] at heq
    have := (h3 heq.1).1
    omega


/-! ### the reference reader inverts the Modelica printer -/

def LoopLvl (m : Nat) : Prop := m = 1 ∨ m = 2 ∨ m = 5 ∨ m = 6

/-- level `m` reads `mpr m e` back when nothing of level ≥ m follows -/
def RV (e : E) (m : Nat) : Prop :=
  ∀ rest, SStop m rest → ∃ f, sLevel f m (mpr m e ++ rest) = some (strip e, rest)
/-- loop level `m` reads `mpr m e` and goes on with the repetition -/
def RA (e : E) (m : Nat) : Prop :=
  ∀ rest res, SStop (m+1) rest → (∃ f, sLoop f m (strip e) rest = some res) →
    ∃ f, sLevel f m (mpr m e ++ rest) = some res
def RX (e : E) : Prop :=
  ∀ rest, Closer rest → ∃ f, sExpr f (mpr 0 e ++ rest) = some (strip e, rest)
def RP (e : E) : Prop :=
  ∀ rest, (∀ r, rest ≠ Tok.lp :: r) → ∃ f, sPrimary f (mpr 8 e ++ rest) = some (strip e, rest)
def RAll (e : E) : Prop :=
  (∀ m, 1 ≤ m → m ≤ 7 → RV e m) ∧ (∀ m, LoopLvl m → RA e m) ∧ RX e ∧ RP e

theorem sp_paren {inner x rest}
    (hX : ∃ f, sExpr f (inner ++ Tok.rp :: rest) = some (x, Tok.rp :: rest)) :
    ∃ f, sPrimary f (Tok.lp :: (inner ++ Tok.rp :: rest)) = some (x, rest) := by
  obtain ⟨f1, h1⟩ := hX
  refine ⟨f1 + 1, ?_⟩
  rw [sPrimary_succ]
  simp only [h1]

/-- an expression that is printed in parentheses wherever a level ≥ 1 is required (`if`), or everything about the
levels above its own -/
theorem rp_of_rx (e : E) (h8 : e.mlevel < 8) (hX : RX e) : RP e := by
  intro rest _
  rw [mpr_paren e 8 h8 (Nat.le_refl _)]
  have := sp_paren (inner := mpr 0 e) (rest := rest) (hX (Tok.rp :: rest) (by simp [Closer, isCloser]))
  simpa using this

theorem above_level (e : E) (hP : RP e) (h8 : e.mlevel < 8) :
    (∀ m, e.mlevel < m → m ≤ 7 → RV e m) ∧ (∀ m, LoopLvl m → e.mlevel < m → RA e m) := by
  have hup := up_all (P := mpr 8 e) (x := strip e)
    (by rw [mpr_paren e 8 h8 (Nat.le_refl _)]; simp [PrimHead]) hP
  constructor
  · intro m hm hm7 rest hs
    rw [mpr_paren e m hm (by omega), ← mpr_paren e 8 h8 (Nat.le_refl _)]
    exact hup.1 m (by omega) hm7 rest hs
  · intro m hl hm rest res hs hL
    have hm7 : m ≤ 7 := by rcases hl with h | h | h | h <;> omega
    rw [mpr_paren e m hm (by omega), ← mpr_paren e 8 h8 (Nat.le_refl _)]
    exact hup.2 m hl rest res hs hL

/-- everything follows from what happens at the expression's own level `k` (1 ≤ k ≤ 7) -/
theorem rall_of_level (e : E) (hk1 : 1 ≤ e.mlevel) (hk7 : e.mlevel ≤ 7) (hV : RV e e.mlevel)
    (hA : LoopLvl e.mlevel → RA e e.mlevel) : RAll e := by
  -- levels at or below k: go down
  have hlow : ∀ m, 1 ≤ m → m ≤ e.mlevel → RV e m := by
    intro m hm1 hmk rest hs
    rw [mpr_body e m hmk]
    have hd : m + (e.mlevel - m) = e.mlevel := by omega
    refine down_to (e.mlevel - m) m hm1 (by omega) ?_ ?_ hs
    · rw [hd]; exact (mpr_headOK e e.mlevel m rest hk1).1
    · rw [hd]; exact hV rest (hs.mono hmk)
  have hlowA : ∀ m, LoopLvl m → m < e.mlevel → RA e m := by
    intro m hl hmk rest res hs hL
    have hup : ∃ f, sLevel f (m+1) (mpr m e ++ rest) = some (strip e, rest) := by
      rw [mpr_body e m (by omega), ← mpr_body e (m+1) (by omega)]
      exact hlow (m+1) (by omega) (by omega) rest hs
    rcases hl with h | h | h | h <;> subst h
    · exact loop_level (Or.inl rfl) hup hL
    · exact loop_level (Or.inr (Or.inl rfl)) hup hL
    · refine loop_level5 ?_ hup hL
      rw [mpr_body e 5 (by omega)]
      exact (mpr_headOK e e.mlevel 5 rest hk1).1.2 (by omega) (by omega)
    · exact loop_level (Or.inr (Or.inr rfl)) hup hL
  have hX : RX e := by
    intro rest hc
    obtain ⟨f, hf⟩ := hlow 1 (by omega) hk1 rest hc.sstop
    refine ⟨f + 1, ?_⟩
    rw [mpr_body e 0 (by omega), ← mpr_body e 1 hk1] 
    rw [sExpr_succ]
    split
    · next r heq =>
      rw [mpr_body e 1 hk1] at heq
      exact absurd heq ((mpr_headOK e e.mlevel 0 rest hk1).2 r)
    · exact hf
  have hP : RP e := rp_of_rx e (by omega) hX
  obtain ⟨hab, habA⟩ := above_level e hP (by omega)
  refine ⟨?_, ?_, hX, hP⟩
  · intro m hm1 hm7
    by_cases h : m ≤ e.mlevel
    · exact hlow m hm1 h
    · exact hab m (by omega) hm7
  · intro m hl
    by_cases h : m < e.mlevel
    · exact hlowA m hl h
    · by_cases h' : m = e.mlevel
      · subst h'; exact hA hl
      · exact habA m hl (by omega)

/-- a primary (printed the same way at every level) -/
theorem rall_of_primary (e : E) (hp : e.isPrimary = true) (hP : RP e) : RAll e := by
  have hm : ∀ m, mpr m e = mpr 8 e := by intro m; cases e <;> simp_all [E.isPrimary, mpr]
  have hH : PrimHead (mpr 8 e) := by cases e <;> simp_all [E.isPrimary, mpr, PrimHead]
  have hup := up_all hH hP
  refine ⟨?_, ?_, ?_, hP⟩
  · intro m hm1 hm7 rest hs
    rw [hm m]; exact hup.1 m hm1 hm7 rest hs
  · intro m hl rest res hs hL
    rw [hm m]; exact hup.2 m hl rest res hs hL
  · intro rest hc
    obtain ⟨f, hf⟩ := hup.1 1 (by omega) (by omega) rest hc.sstop
    refine ⟨f + 1, ?_⟩
    rw [hm 0, sExpr_succ]
    split
    · next r heq =>
      have := hH.append (rest := rest)
      rw [heq] at this
      simp [PrimHead] at this
    · exact hf


theorem sprimary_atom {f a rest} (h : ∀ r, rest ≠ Tok.lp :: r) :
    sPrimary (f+1) (Tok.atom a :: rest) = some (E.atom a, rest) := by
  rw [sPrimary_succ]
  simp only
  split
  · next r' => exact absurd rfl (h _)
  · next r' _ => exact absurd rfl (h _)
  · rfl

theorem mprEls_closer (r : Els) (rest : List Tok) : Closer (mprEls r ++ rest) := by
  cases r <;> simp [mprEls, Closer, isCloser]

theorem mprArgs_head : ∀ (as : Args), as ≠ Args.nil → ∃ t, (mprArgs as).head? = some t ∧ t ≠ Tok.rp
  | .nil, h => absurd rfl h
  | .cons e .nil, _ => by
    obtain ⟨t, h1, h2, _⟩ := mpr_head e 0
    exact ⟨t, by simp [mprArgs, List.head?_append, h1], by intro h; simp [h, isCloser] at h2⟩
  | .cons e (.cons e' r), _ => by
    obtain ⟨t, h1, h2, _⟩ := mpr_head e 0
    exact ⟨t, by simp [mprArgs, List.head?_append, h1], by intro h; simp [h, isCloser] at h2⟩

/-- a left-associative level: `l op r` with `l` at the same level and `r` one level up -/
theorem bin_loop (o : BOp) (l r : E) (hk : LoopLvl o.mlv.1) (h1 : o.mlv.2.1 = o.mlv.1)
    (h2 : o.mlv.2.2 = o.mlv.1 + 1) (Hl : RAll l) (Hr : RAll r) : RA (.bin o l r) o.mlv.1 := by
  intro rest res hs hL
  have hk7 : o.mlv.1 + 1 ≤ 7 := by rcases hk with h | h | h | h <;> omega
  obtain ⟨f2, hf2⟩ := Hr.1 (o.mlv.1 + 1) (by omega) hk7 rest hs
  obtain ⟨f1, hf1⟩ := hL
  simp only [strip] at hf1
  have hloop : ∃ f, sLoop f o.mlv.1 (strip l) (Tok.op o.sym :: (mpr (o.mlv.1 + 1) r ++ rest)) = some res := by
    refine ⟨max f1 f2 + 1, ?_⟩
    rw [sLoop_succ]
    simp only [BOp.sym_bin, if_true, smonoV hf2 (Nat.le_max_right f1 f2)]
    exact smonoL hf1 (Nat.le_max_left _ _)
  have := Hl.2.1 o.mlv.1 hk (Tok.op o.sym :: (mpr (o.mlv.1 + 1) r ++ rest)) res
    ⟨o, by simp, Nat.lt_succ_self _⟩ hloop
  simpa [mpr, h1, h2, List.append_assoc] using this

/-- `relation`: `l rel r`, both operands arithmetic expressions -/
theorem bin_rel (o : BOp) (l r : E) (h : o.mlv = (4, 5, 5)) (Hl : RAll l) (Hr : RAll r) : RV (.bin o l r) 4 := by
  intro rest hs
  obtain ⟨f1, hf1⟩ := Hl.1 5 (by omega) (by omega) (Tok.op o.sym :: (mpr 5 r ++ rest))
    ⟨o, by simp, by rw [h]; decide⟩
  obtain ⟨f2, hf2⟩ := Hr.1 5 (by omega) (by omega) rest (hs.mono (by omega))
  refine ⟨max f1 f2 + 1, ?_⟩
  have h1' := smonoV hf1 (Nat.le_max_left f1 f2)
  have h2' := smonoV hf2 (Nat.le_max_right f1 f2)
  have h41 : o.mlv.1 = 4 := by rw [h]
  have h42 : o.mlv.2.1 = 5 := by rw [h]
  have h43 : o.mlv.2.2 = 5 := by rw [h]
  simp only [mpr, h41, h42, h43, Nat.le_refl, if_true, List.append_assoc, List.cons_append, strip]
  rw [sLevel_4, h1']
  simp only [BOp.sym_bin, h41, if_true, h2']

mutual
theorem spec_all : ∀ (e : E), RAll e
  | .atom a =>
    rall_of_primary _ rfl (fun rest hr => ⟨1, by simpa [mpr, strip] using sprimary_atom (f := 0) (a := a) hr⟩)
  | .paren e =>
    rall_of_primary _ rfl (fun rest _ => by
      have := sp_paren (inner := mpr 0 e) (rest := rest)
        ((spec_all e).2.2.1 (Tok.rp :: rest) (by simp [Closer, isCloser]))
      simpa [mpr, strip] using this)
  | .call fn as =>
    rall_of_primary _ rfl (fun rest _ => by
      match as with
      | .nil => exact ⟨1, by simp [mpr, mprArgs, strip, stripArgs, sPrimary_succ]⟩
      | .cons e as' =>
        obtain ⟨f, hf⟩ := spec_args (.cons e as') rest (by simp)
        obtain ⟨t, ht1, ht2⟩ := mprArgs_head (.cons e as') (by simp)
        obtain ⟨tl, htl⟩ := List.head?_eq_some_iff.mp ht1
        refine ⟨f + 1, ?_⟩
        rw [sPrimary_succ]
        simp only [mpr, strip, List.cons_append]
        rw [htl] at hf ⊢
        simp only [List.cons_append] at hf ⊢
        split
        · next heq => simp at heq; exact absurd heq.1 ht2
        · next r' _ hn heq =>
          simp only [List.cons.injEq, true_and] at heq
          cases hn
          rw [← heq, hf]
        · next h1 h2 => exact absurd rfl (h2 fn _ rfl))
  | .bin o l r => by
    have Hl := spec_all l
    have Hr := spec_all r
    have hlevels : (LoopLvl o.mlv.1 ∧ o.mlv.2.1 = o.mlv.1 ∧ o.mlv.2.2 = o.mlv.1 + 1) ∨ o.mlv = (4, 5, 5) := by
      cases o <;> simp [BOp.mlv, LoopLvl]
    rcases hlevels with ⟨hk, h1, h2⟩ | h
    · have hA := bin_loop o l r hk h1 h2 Hl Hr
      refine rall_of_level _ (by rcases hk with h | h | h | h <;> simp [E.mlevel, h])
        (by rcases hk with h | h | h | h <;> simp [E.mlevel, h]) ?_ (fun _ => hA)
      intro rest hs
      exact hA rest (strip (.bin o l r), rest) (hs.mono (Nat.le_succ _)) ⟨1, sloop_stop hs⟩
    · have h41 : o.mlv.1 = 4 := by rw [h]
      refine rall_of_level _ (by simp [E.mlevel, h41]) (by simp [E.mlevel, h41]) ?_ ?_
      · simp only [E.mlevel, h41]; exact bin_rel o l r h Hl Hr
      · intro hl; simp [E.mlevel, h41, LoopLvl] at hl
  | .pre .not e => by
    have He := spec_all e
    refine rall_of_level _ (by simp [E.mlevel, POp.mlv]) (by simp [E.mlevel, POp.mlv]) ?_ ?_
    · intro rest hs
      obtain ⟨f, hf⟩ := He.1 4 (by omega) (by omega) rest (hs.mono (by simp [E.mlevel, POp.mlv]))
      refine ⟨f + 1, ?_⟩
      simp only [E.mlevel, POp.mlv, mpr, Nat.le_refl, if_true, POp.sym, List.cons_append, strip]
      rw [sLevel_3]
      simp only [hf]
    · intro hl; simp [E.mlevel, POp.mlv, LoopLvl] at hl
  | .pre .neg e => by
    have He := spec_all e
    have hA : RA (.pre .neg e) 5 := by
      intro rest res hs hL
      have := sign_level5 (q := .neg) (by simp) (He.1 6 (by omega) (by omega) rest hs) (by simpa [strip] using hL)
      simpa [mpr, POp.mlv] using this
    refine rall_of_level _ (by simp [E.mlevel, POp.mlv]) (by simp [E.mlevel, POp.mlv]) ?_ (fun _ => hA)
    intro rest hs
    exact hA rest (strip (.pre .neg e), rest) (hs.mono (by simp [E.mlevel, POp.mlv])) ⟨1, sloop_stop hs⟩
  | .pre .pos e => by
    have He := spec_all e
    have hA : RA (.pre .pos e) 5 := by
      intro rest res hs hL
      have := sign_level5 (q := .pos) (by simp) (He.1 6 (by omega) (by omega) rest hs) (by simpa [strip] using hL)
      simpa [mpr, POp.mlv] using this
    refine rall_of_level _ (by simp [E.mlevel, POp.mlv]) (by simp [E.mlevel, POp.mlv]) ?_ (fun _ => hA)
    intro rest hs
    exact hA rest (strip (.pre .pos e), rest) (hs.mono (by simp [E.mlevel, POp.mlv])) ⟨1, sloop_stop hs⟩
  | .pow w a b => by
    have Ha := spec_all a
    have Hb := spec_all b
    refine rall_of_level _ (by simp [E.mlevel]) (by simp [E.mlevel]) ?_ ?_
    · intro rest hs
      obtain ⟨fb, hb⟩ := Hb.2.2.2 rest hs.nolp
      obtain ⟨fa, ha⟩ := Ha.2.2.2 (Tok.op w.sym :: (mpr 8 b ++ rest)) (by simp)
      refine ⟨max fa fb + 1, ?_⟩
      simp only [E.mlevel, mpr, Nat.le_refl, if_true, List.append_assoc, List.cons_append, strip]
      rw [sLevel_7, smonoP ha (Nat.le_max_left fa fb)]
      simp only [WOp.sym_pow, smonoP hb (Nat.le_max_right fa fb)]
    · intro hl; simp [E.mlevel, LoopLvl] at hl
  | .ite c t r => by
    have hX : RX (.ite c t r) := by
      intro rest hc
      obtain ⟨f1, h1⟩ := (spec_all c).2.2.1 (Tok.kthen :: (mpr 0 t ++ (mprEls r ++ rest))) (by simp [Closer, isCloser])
      obtain ⟨f2, h2⟩ := (spec_all t).2.2.1 (mprEls r ++ rest) (mprEls_closer r rest)
      obtain ⟨f3, h3⟩ := spec_els r rest hc
      refine ⟨max f1 (max f2 f3) + 1, ?_⟩
      rw [sExpr_succ]
      simp only [mpr, if_true, strip, List.cons_append, List.append_assoc,
        smonoX h1 (Nat.le_max_left f1 (max f2 f3)),
        smonoX h2 (Nat.le_trans (Nat.le_max_left f2 f3) (Nat.le_max_right f1 _)),
        smonoS h3 (Nat.le_trans (Nat.le_max_right f2 f3) (Nat.le_max_right f1 _))]
    have hP : RP (.ite c t r) := rp_of_rx _ (by simp [E.mlevel]) hX
    obtain ⟨hab, habA⟩ := above_level _ hP (by simp [E.mlevel])
    exact ⟨fun m hm1 hm7 => hab m (by simp [E.mlevel]; omega) hm7,
      fun m hl => habA m hl (by rcases hl with h | h | h | h <;> simp [E.mlevel, h]), hX, hP⟩
theorem spec_els : ∀ (r : Els) (rest : List Tok), Closer rest →
    ∃ f, sEls f (mprEls r ++ rest) = some (stripEls r, rest)
  | .els e, rest, hc => by
    obtain ⟨f, hf⟩ := (spec_all e).2.2.1 rest hc
    refine ⟨f + 1, ?_⟩
    rw [sEls_succ]
    simp only [mprEls, stripEls, List.cons_append, hf]
  | .elif c t r, rest, hc => by
    obtain ⟨f1, h1⟩ := (spec_all c).2.2.1 (Tok.kthen :: (mpr 0 t ++ (mprEls r ++ rest))) (by simp [Closer, isCloser])
    obtain ⟨f2, h2⟩ := (spec_all t).2.2.1 (mprEls r ++ rest) (mprEls_closer r rest)
    obtain ⟨f3, h3⟩ := spec_els r rest hc
    refine ⟨max f1 (max f2 f3) + 1, ?_⟩
    rw [sEls_succ]
    simp only [mprEls, stripEls, List.cons_append, List.append_assoc,
      smonoX h1 (Nat.le_max_left f1 (max f2 f3)),
      smonoX h2 (Nat.le_trans (Nat.le_max_left f2 f3) (Nat.le_max_right f1 _)),
      smonoS h3 (Nat.le_trans (Nat.le_max_right f2 f3) (Nat.le_max_right f1 _))]
theorem spec_args : ∀ (as : Args) (rest : List Tok), as ≠ Args.nil →
    ∃ f, sArgs f (mprArgs as ++ rest) = some (stripArgs as, rest)
  | .nil, _, h => absurd rfl h
  | .cons e .nil, rest, _ => by
    obtain ⟨f, hf⟩ := (spec_all e).2.2.1 (Tok.rp :: rest) (by simp [Closer, isCloser])
    refine ⟨f + 1, ?_⟩
    rw [sArgs_succ]
    simp only [mprArgs, stripArgs, List.append_assoc, List.singleton_append, hf]
  | .cons e (.cons e' r), rest, _ => by
    obtain ⟨f1, h1⟩ := (spec_all e).2.2.1 (Tok.comma :: (mprArgs (.cons e' r) ++ rest)) (by simp [Closer, isCloser])
    obtain ⟨f2, h2⟩ := spec_args (.cons e' r) rest (by simp)
    refine ⟨max f1 f2 + 1, ?_⟩
    rw [sArgs_succ]
    simp only [mprArgs, List.append_assoc, List.cons_append, smonoX h1 (Nat.le_max_left _ _),
      smonoA h2 (Nat.le_max_right _ _)]
    simp [stripArgs]
end

/-- **The specification's grammar reads the Modelica print of `e` as `e`** (up to the `paren` nodes). -/
theorem spec_reads_mprint (e : E) : ∃ f, specParse f (mprint e) = some (strip e) := by
  obtain ⟨f, hf⟩ := (spec_all e).2.2.1 [] trivial
  refine ⟨f, ?_⟩
  simp only [List.append_nil] at hf
  simp [specParse, mprint, hf]

end PymocaVerif.ExprGrammar
