/-!
# Modelica meaning of flat equations (`ExprSem`)

The *specification* side of C11/C12: what a flat Modelica equation means at a numeric point, over an
arbitrary carrier `K` whose primitive operations are parameters (`Prims K`).  Nothing here looks at
how pymoca translates anything; `Model/Gen.lean` holds the translation and its target language.

Conventions fixed by the property text (properties.jsonl, C11):
* Booleans are the numbers 0/1, `and` is the product, `or` is the sum, a condition is *true* when
  `Prims.truth` says so (non-zero), `not` maps true to 0 and false to 1;
* an if-expression / if-equation takes the first branch whose condition is true, else the last one;
* arrays are 1-based; `a:b` / `a:s:b` select the elements of the Modelica range; column-major storage;
* a for-equation stands for its body instantiated for every value of `start : step : stop`;
* a function call runs the algorithm section imperatively;
* `der(x)` is an independent input (the symbol named `der(x)`).

Values are flat lists of scalars (a scalar is a one-element list); an operation on a scalar and an
array broadcasts the scalar, on two arrays it needs equal lengths.  `none` means "no meaning in the
supported subset" (an undefined primitive such as division by zero, an unknown name, a subscript out
of range, a shape error).  Operands are evaluated strictly; an `if` evaluates its conditions in order and
only the branch it takes.
-/
namespace PymocaVerif.ExprSem

/-- Elementary functions known by name on both sides. -/
inductive Elem
  | sin | cos | tan | asin | acos | atan | sinh | cosh | tanh | exp | log | log10 | sqrt
  | sign | floor | ceil
  deriving DecidableEq, Repr, Inhabited

inductive Prim2
  | add | sub | mul | div | pow | lt | le | gt | ge | eq | ne | min | max
  deriving DecidableEq, Repr, Inhabited

inductive Prim1
  | neg | abs | elem (e : Elem)
  deriving DecidableEq, Repr, Inhabited

/-- The carrier and its primitives.  Every theorem of C11/C12 holds for every `Prims K`. -/
structure Prims (K : Type) where
  ofInt : Int → K
  truth : K → Bool
  zero : K
  one : K
  p2 : Prim2 → K → K → Option K
  p1 : Prim1 → K → Option K

/-- Modelica binary operators and two-argument built-ins as they appear in the flat AST.
    `mul` is `*` (scalar product / scaling), `emul` is `.*`, etc. -/
inductive BinOp
  | add | sub | mul | div | pow | eadd | esub | emul | ediv | epow
  | lt | le | gt | ge | eq | ne | and | or | min | max
  deriving DecidableEq, Repr, Inhabited

inductive UnOp
  | neg | pos | not | abs | sum | elem (e : Elem)
  deriving DecidableEq, Repr, Inhabited

/-! ## Subscripts -/

/-- Integer expressions allowed in subscripts and loop bounds. -/
inductive IdxE
  | lit (n : Int)
  | var (x : String)
  | add (a b : IdxE)
  | sub (a b : IdxE)
  | mul (a b : IdxE)
  | neg (a : IdxE)
  deriving Repr, Inhabited

def IdxE.eval (ienv : String → Option Int) : IdxE → Option Int
  | .lit n => some n
  | .var x => ienv x
  | .add a b => do let x ← a.eval ienv; let y ← b.eval ienv; pure (x + y)
  | .sub a b => do let x ← a.eval ienv; let y ← b.eval ienv; pure (x - y)
  | .mul a b => do let x ← a.eval ienv; let y ← b.eval ienv; pure (x * y)
  | .neg a => do let x ← a.eval ienv; pure (-x)

/-- One subscript: an index or a range `lo : step : hi` with optional bounds (`:` = both absent,
    step 1). -/
inductive Sub
  | at (e : IdxE)
  | range (lo hi : Option IdxE) (step : Int)
  deriving Repr, Inhabited

/-- 0-based positions selected by one subscript along a dimension of extent `d`. -/
def subPositions (ienv : String → Option Int) (d : Nat) : Sub → Option (List Nat)
  | .at e => do
    let v ← e.eval ienv
    if 1 ≤ v ∧ v ≤ d then some [(v - 1).toNat] else none
  | .range lo hi step => do
    let l ← match lo with | some e => e.eval ienv | none => some 1
    let h ← match hi with | some e => e.eval ienv | none => some (d : Int)
    if step ≤ 0 then none        -- only ascending ranges are range-checked by the generator
    else if h < l then some []   -- an empty range selects nothing, whatever its bounds
    else
      let n := ((h - l) / step).toNat       -- index of the last selected element
      if 1 ≤ l ∧ l + n * step ≤ d then
        some ((List.range (n + 1)).map (fun k => (l - 1).toNat + k * step.toNat))
      else none

/-- Column-major positions of `name[subs]` in a symbol of dimensions `dims`. -/
def positions (ienv : String → Option Int) (dims : List Nat) (subs : List Sub) : Option (List Nat) :=
  match dims, subs with
  | [d], [s] => subPositions ienv d s
  | [r, c], [s1, s2] => do
    let rows ← subPositions ienv r s1
    let cols ← subPositions ienv c s2
    some (cols.flatMap fun cc => rows.map fun rr => rr + cc * r)
  | _, _ => none

/-! ## Environments -/

/-- A numeric point.  `val` gives whole symbols (flat, column-major), `shape` their dimensions (used
    only when a symbol is subscripted), `idx` the integers visible to subscripts: loop indices and
    Integer parameters (their declared values).  Loop indices live in their own name space. -/
structure Env (K : Type) where
  val : String → Option (List K)
  shape : String → Option (List Nat)
  idx : String → Option Int

def Env.bind (ρ : Env K) (i : String) (v : Int) : Env K :=
  { ρ with idx := fun x => if x = i then some v else ρ.idx x }

/-- Value of a component reference. -/
def Env.lookup (ρ : Env K) (name : String) (subs : List Sub) : Option (List K) :=
  match subs with
  | [] => ρ.val name
  | _ => do
    let dims ← ρ.shape name
    let ps ← positions ρ.idx dims subs
    let v ← ρ.val name
    ps.mapM (fun p => v[p]?)

/-! ## Lifting primitives to flat arrays -/

def mapOpt (f : K → Option K) : List K → Option (List K)
  | [] => some []
  | x :: xs => do let y ← f x; let ys ← mapOpt f xs; some (y :: ys)

def zipOpt (f : K → K → Option K) : List K → List K → Option (List K)
  | [], [] => some []
  | x :: xs, y :: ys => do let z ← f x y; let zs ← zipOpt f xs ys; some (z :: zs)
  | _, _ => none

/-- Element-wise with scalar broadcasting. -/
def lift2 (f : K → K → Option K) (xs ys : List K) : Option (List K) :=
  match xs, ys with
  | [x], _ => mapOpt (f x) ys
  | _, [y] => mapOpt (fun x => f x y) xs
  | _, _ => zipOpt f xs ys

def sumList (P : Prims K) : List K → Option K
  | [] => some P.zero
  | x :: xs => do let s ← sumList P xs; P.p2 .add x s

/-- A condition must be a scalar. -/
def condOf (P : Prims K) : List K → Option Bool
  | [c] => some (P.truth c)
  | _ => none

/-- Which primitive a Modelica binary operator denotes (`and` = product, `or` = sum). -/
def BinOp.prim : BinOp → Prim2
  | .add | .eadd | .or => .add
  | .sub | .esub => .sub
  | .mul | .emul | .and => .mul
  | .div | .ediv => .div
  | .pow | .epow => .pow
  | .lt => .lt | .le => .le | .gt => .gt | .ge => .ge | .eq => .eq | .ne => .ne
  | .min => .min | .max => .max

/-- `*` on two proper arrays is a matrix/scalar product: outside the supported subset. -/
def semBin (P : Prims K) (op : BinOp) (x y : List K) : Option (List K) :=
  if op = .mul ∧ x.length ≠ 1 ∧ y.length ≠ 1 then none else lift2 (P.p2 op.prim) x y

def semUn (P : Prims K) (op : UnOp) (x : List K) : Option (List K) :=
  match op with
  | .neg => mapOpt (P.p1 .neg) x
  | .pos => some x
  | .not => do let t ← condOf P x; some [if t then P.zero else P.one]
  | .abs => mapOpt (P.p1 .abs) x
  | .sum => do let s ← sumList P x; some [s]
  | .elem e => mapOpt (P.p1 (.elem e)) x

/-! ## Expressions -/

mutual
/-- Flat-AST expressions (pymoca `ast.Primary`, `ComponentRef`, `Expression`, `IfExpression`). -/
inductive MExpr (K : Type) where
  | num (q : K)
  | ref (name : String) (subs : List Sub)
  | idx (i : String)                         -- a loop index used as a number
  | un (op : UnOp) (a : MExpr K)
  | bin (op : BinOp) (a b : MExpr K)
  | ife (branches : MBranches K)
  | call (f : String) (args : MExprs K)
  /-- `delay(e, d)`, the `k`-th delay operator of the model: its value is the independent input
      `_pymoca_delay_k`; the operands only feed the delay-argument function. -/
  | delay (k : Nat) (e d : MExpr K)
inductive MExprs (K : Type) where
  | nil
  | cons (e : MExpr K) (es : MExprs K)
/-- `if c₁ then e₁ elseif c₂ then e₂ … else e`: `IfExpression.conditions` zipped with `.expressions`. -/
inductive MBranches (K : Type) where
  | last (e : MExpr K)
  | cons (c e : MExpr K) (rest : MBranches K)
end

def delayName (k : Nat) : String := "_pymoca_delay_" ++ toString k

def MExprs.toList : MExprs K → List (MExpr K)
  | .nil => []
  | .cons e es => e :: es.toList

def MExprs.ofList : List (MExpr K) → MExprs K
  | [] => .nil
  | e :: es => .cons e (MExprs.ofList es)

/-- Meaning of the user functions in scope: argument values ↦ concatenated outputs. -/
abbrev FSem (K : Type) := String → Option (List (List K) → Option (List K))

mutual
def evalM (P : Prims K) (F : FSem K) (ρ : Env K) : MExpr K → Option (List K)
  | .num q => some [q]
  | .ref n s => ρ.lookup n s
  | .idx i => do let v ← ρ.idx i; some [P.ofInt v]
  | .un op a => do let x ← evalM P F ρ a; semUn P op x
  | .bin op a b => do let x ← evalM P F ρ a; let y ← evalM P F ρ b; semBin P op x y
  | .ife bs => evalIfe P F ρ bs
  | .call f args => do let vs ← evalMs P F ρ args; let g ← F f; g vs
  | .delay k _ _ => ρ.val (delayName k)
def evalMs (P : Prims K) (F : FSem K) (ρ : Env K) : MExprs K → Option (List (List K))
  | .nil => some []
  | .cons e es => do let v ← evalM P F ρ e; let vs ← evalMs P F ρ es; some (v :: vs)
/-- If-expression: the first branch whose condition is true, else the last expression. -/
def evalIfe (P : Prims K) (F : FSem K) (ρ : Env K) : MBranches K → Option (List K)
  | .last e => evalM P F ρ e
  | .cons c e rest => do
    let vc ← evalM P F ρ c
    let t ← condOf P vc
    if t then evalM P F ρ e else evalIfe P F ρ rest
end

def evalML (P : Prims K) (F : FSem K) (ρ : Env K) : List (MExpr K) → Option (List (List K))
  | [] => some []
  | e :: es => do let v ← evalM P F ρ e; let vs ← evalML P F ρ es; some (v :: vs)

/-! ## Ranges -/

/-- `n` values `start, start + step, …`. -/
def steps (start step : Int) (n : Nat) : List Int :=
  (List.range n).map (fun (k : Nat) => start + (k : Int) * step)

/-- Modelica `start : step : stop`. -/
def modelicaRange (start step stop : Int) : List Int :=
  if step > 0 then
    (if start ≤ stop then steps start step (((stop - start) / step).toNat + 1) else [])
  else if step < 0 then
    (if stop ≤ start then steps start step (((start - stop) / (-step)).toNat + 1) else [])
  else []

/-! ## Equations -/

/-- `lhs = rhs`; `ls` has several entries for a tuple on the left.  -/
structure SEq (K : Type) where
  ls : List (MExpr K)
  r : MExpr K

/-- A right-hand side that is a call of a known user function may return more than the left takes. -/
def rhsIsCall (known : String → Bool) : MExpr K → Bool
  | .call f _ => known f
  | _ => false

def truncTo (l r : List K) : List K := if l.length < r.length then r.take l.length else r

/-- `lhs - rhs`, element-wise. -/
def residualSEq (P : Prims K) (F : FSem K) (ρ : Env K) (e : SEq K) : Option (List K) := do
  let lv ← evalML P F ρ e.ls
  let l := lv.flatten
  let r ← evalM P F ρ e.r
  let r' := if rhsIsCall (fun f => (F f).isSome) e.r then truncTo l r else r
  lift2 (P.p2 .sub) l r'

def residualBlock (P : Prims K) (F : FSem K) (ρ : Env K) : List (SEq K) → Option (List K)
  | [] => some []
  | e :: es => do let v ← residualSEq P F ρ e; let vs ← residualBlock P F ρ es; some (v ++ vs)

def residualBlocks (P : Prims K) (F : FSem K) (ρ : Env K) : List (List (SEq K)) → Option (List (List K))
  | [] => some []
  | b :: bs => do let v ← residualBlock P F ρ b; let vs ← residualBlocks P F ρ bs; some (v :: vs)

/-- Layout of the residual entries of a for-equation in the generated function: all iterations of
    the first body entry, then all iterations of the second, … (`rows` = one list per iteration). -/
def bodyMajor (rows : List (List K)) : List K :=
  match rows with
  | [] => []
  | r :: _ => (List.range r.length).flatMap fun j => rows.filterMap fun row => row[j]?

def rowsOver (f : Int → Option (List K)) : List Int → Option (List (List K))
  | [] => some []
  | v :: vs => do let r ← f v; let rs ← rowsOver f vs; some (r :: rs)

inductive MEq (K : Type) where
  | simple (e : SEq K)
  /-- `conds` without the trailing else marker; `blocks` has one more entry (the else block). -/
  | ifeq (conds : List (MExpr K)) (blocks : List (List (SEq K)))
  | foreq (i : String) (start : Int) (stop : IdxE) (step : Int) (body : List (SEq K))

/-- If-equation: the block of the first true condition, else the last block. -/
def residualIf (P : Prims K) (F : FSem K) (ρ : Env K) : List (MExpr K) → List (List (SEq K)) → Option (List K)
  | [], [b] => residualBlock P F ρ b
  | c :: cs, b :: bs => do
    let vc ← evalM P F ρ c
    let t ← condOf P vc
    if t then residualBlock P F ρ b else residualIf P F ρ cs bs
  | _, _ => none

/-- Residual entries of one flat equation at a point (for-equations in `bodyMajor` layout). -/
def residualM (P : Prims K) (F : FSem K) (ρ : Env K) : MEq K → Option (List K)
  | .simple e => residualSEq P F ρ e
  | .ifeq cs bs => residualIf P F ρ cs bs
  | .foreq i start stop step body => do
    let hi ← stop.eval ρ.idx
    let rows ← rowsOver (fun v => residualBlock P F (ρ.bind i v) body) (modelicaRange start step hi)
    some (bodyMajor rows)

def residualsM (P : Prims K) (F : FSem K) (ρ : Env K) : List (MEq K) → Option (List (List K))
  | [] => some []
  | e :: es => do let v ← residualM P F ρ e; let vs ← residualsM P F ρ es; some (v :: vs)

/-! ## Functions with algorithm sections -/

inductive Stmt (K : Type) where
  | assign (x : String) (e : MExpr K)
  /-- `conds` without the else marker; `blocks` has one more entry; a block is a list of assignments. -/
  | ifs (conds : List (MExpr K)) (blocks : List (List (String × MExpr K)))
  | for (i : String) (start : Int) (stop : IdxE) (step : Int) (body : List (String × MExpr K))

structure MFunc (K : Type) where
  name : String
  inputs : List String
  outputs : List String
  locals : List String
  body : List (Stmt K)

/-- Local store of a running function: latest binding first. -/
abbrev Store (K : Type) := List (String × List K)

def Store.get (σ : Store K) (x : String) : Option (List K) :=
  match σ with
  | [] => none
  | (y, v) :: rest => if y = x then some v else Store.get rest x

/-- The environment a function body sees: its locals, no subscriptable shapes, loop indices `ix`. -/
def storeEnv (σ : Store K) (ix : String → Option Int) : Env K :=
  { val := fun x => Store.get σ x, shape := fun _ => none, idx := ix }

def execAssigns (P : Prims K) (F : FSem K) (ix : String → Option Int) :
    List (String × MExpr K) → Store K → Option (Store K)
  | [], σ => some σ
  | (x, e) :: rest, σ => do
    let v ← evalM P F (storeEnv σ ix) e
    execAssigns P F ix rest ((x, v) :: σ)

/-- If-statement: run the block of the first true condition, else the last block. -/
def execIf (P : Prims K) (F : FSem K) :
    List (MExpr K) → List (List (String × MExpr K)) → Store K → Option (Store K)
  | [], [b], σ => execAssigns P F (fun _ => none) b σ
  | c :: cs, b :: bs, σ => do
    let vc ← evalM P F (storeEnv σ (fun _ => none)) c
    let t ← condOf P vc
    if t then execAssigns P F (fun _ => none) b σ else execIf P F cs bs σ
  | _, _, _ => none

def execFor (P : Prims K) (F : FSem K) (i : String) (body : List (String × MExpr K)) :
    List Int → Store K → Option (Store K)
  | [], σ => some σ
  | v :: vs, σ => do
    let σ' ← execAssigns P F (fun x => if x = i then some v else none) body σ
    execFor P F i body vs σ'

def execStmt (P : Prims K) (F : FSem K) (σ : Store K) : Stmt K → Option (Store K)
  | .assign x e => execAssigns P F (fun _ => none) [(x, e)] σ
  | .ifs cs bs => execIf P F cs bs σ
  | .for i start stop step body => do
    let hi ← stop.eval (fun _ => none)
    execFor P F i body (modelicaRange start step hi) σ

def execBody (P : Prims K) (F : FSem K) : List (Stmt K) → Store K → Option (Store K)
  | [], σ => some σ
  | s :: ss, σ => do let σ' ← execStmt P F σ s; execBody P F ss σ'

def getAll (σ : Store K) : List String → Option (List (List K))
  | [] => some []
  | x :: xs => do let v ← Store.get σ x; let vs ← getAll σ xs; some (v :: vs)

/-- Meaning of a function: bind the inputs, run the body, read the outputs. -/
def funcSem (P : Prims K) (F : FSem K) (f : MFunc K) (args : List (List K)) : Option (List K) :=
  if args.length = f.inputs.length then do
    let σ ← execBody P F f.body (f.inputs.zip args)
    let outs ← getAll σ f.outputs
    some outs.flatten
  else none

/-- Functions are declared before use: each sees the meanings of the earlier ones. -/
def funcTable (P : Prims K) : List (MFunc K) → FSem K
  | [] => fun _ => none
  | f :: rest =>
    -- `rest` holds the functions declared *earlier* (the list is kept latest-first)
    let F := funcTable P rest
    fun n => if n = f.name then some (funcSem P F f) else F n

end PymocaVerif.ExprSem
