import PymocaVerif.Lemmas.GenTag2
import PymocaVerif.Lemmas.GenFuncMain
import PymocaVerif.Lemmas.GenDelay
import PymocaVerif.Model.RatPrims
/-!
# C12 — the representation options do not change the model's meaning

In the model of the generator (`Model/Gen.lean`) the options `unroll_loops`, `inline_functions`,
`expand_mx` are read in exactly three places: the mode of a `map` node (`Opts.mapMode`), the inline flag
of a `call` node, and the `expand` flag of the final function.  The theorems say that this is *all*
they do — under other options the generator builds the same terms with other tags (also inside called
functions), accepts and rejects the same models — and that evaluation never looks at a tag.  Hence
all 8 combinations give residual functions with identical values at every point, for every model
(any loops, any functions).  The variable lists and their metadata are built by
code that takes none of the three options (`exitClass`, `_ast_symbols_to_variables`); on the real code
that part is checked by the 8-way differential run (`harness/props/c12.py`).
-/
namespace PymocaVerif.Gen
open PymocaVerif.ExprSem PymocaVerif.RatPrims

/-- **Evaluation ignores the tags**: overwriting every map mode and inline flag of a generated term
    (recursively, also inside the bodies of called functions) does not change its value. -/
theorem eval_ignores_tags (P : Prims K) (o : Opts) (t : CTerm K) (ρ : Env K) :
    evalC P ρ (retag o t) = evalC P ρ t :=
  evalC_retag P o t ρ

example : evalC ratPrims ⟨fun _ => some [2], fun _ => none, fun _ => none⟩
      (retag ⟨false, false, true⟩ (.map .inline "i" [1, 2, 3] true (.op2 (.meth .mul_) (.idx "i") (.ref "x" [])))) =
    some [(2 : Rat), 4, 6] := by
  decide +kernel

/-- **The options only tag**: under options `o'` the generator produces, for every expression and every
    function table, exactly the `o'`-retagging of what it produces under `o` — and fails exactly when it
    fails under `o`, with the same error. -/
theorem options_only_tag_expressions (P : Prims K) (o o' : Opts) (T : FTab K) (e : MExpr K) :
    gen P o' (retagTab o' T) e = (gen P o T e).map (retag o') :=
  gen_retag P o o' T e

/-- The same for whole function tables (`get_function` for every declared function). -/
theorem options_only_tag_functions (P : Prims K) (o o' : Opts) (fs : List (MFunc K)) :
    genTable P o' fs = retagTab o' (genTable P o fs) :=
  genTable_retag P o o' fs

/-- The generated residual function under `o'` is the retagged residual function under `o`, with the
    `expand` flag of `o'`. -/
theorem options_only_tag_residual (P : Prims K) (o o' : Opts) (ienv : String → Option Int)
    (m : MModel K) (initial : Bool) :
    genResidual P o' ienv m initial =
      (genResidual P o ienv m initial).map (fun f => ⟨o'.expand, f.outs.map (retag o')⟩) := by
  unfold genResidual
  rw [genTable_retag P o o' m.funcs, genMEqs_retag P o o']
  cases genMEqs P o (genTable P o m.funcs) ienv (if initial then m.ieqs else m.eqs) with
  | error e => rfl
  | ok ts => rfl

/-- **Representation invariance**: for every model and any two option sets, the generator accepts under
    one iff it accepts under the other, and the two residual functions (DAE or initial) have the same
    value at every point — whatever the loops, functions, or carrier. -/
theorem repr_invariant (P : Prims K) (o o' : Opts) (ienv : String → Option Int) (m : MModel K)
    (initial : Bool) (fn : CFunction K) (h : genResidual P o ienv m initial = .ok fn) :
    ∃ fn', genResidual P o' ienv m initial = .ok fn' ∧ fn'.expand = o'.expand ∧
      ∀ ρ : Env K, evalFn P ρ fn' = evalFn P ρ fn := by
  refine ⟨⟨o'.expand, fn.outs.map (retag o')⟩, ?_, rfl, fun ρ => ?_⟩
  · rw [options_only_tag_residual P o o', h]; rfl
  · simp [evalFn, evalCL_retag]

/-- … and rejection is option-independent too. -/
theorem repr_invariant_rejection (P : Prims K) (o o' : Opts) (ienv : String → Option Int) (m : MModel K)
    (initial : Bool) (e : GenErr) (h : genResidual P o ienv m initial = .error e) :
    genResidual P o' ienv m initial = .error e := by
  rw [options_only_tag_residual P o o', h]; rfl

/-- The delay-argument function too: under other options the same terms with other tags, hence the same
    values at every point. -/
theorem repr_invariant_delay (P : Prims K) (o o' : Opts) (m : MModel K) (fn : CFunction K)
    (h : genDelayFunction P o m = .ok fn) :
    ∃ fn', genDelayFunction P o' m = .ok fn' ∧ fn'.expand = o'.expand ∧
      ∀ ρ : Env K, evalFn P ρ fn' = evalFn P ρ fn := by
  unfold genDelayFunction at h ⊢
  rw [genTable_retag P o o' m.funcs, genDelayArgs_retag P o o']
  generalize ((m.ieqs ++ m.eqs).flatMap delaysOfMEq) = ds at h ⊢
  cases hts : genDelayArgs P o (genTable P o m.funcs) ds with
  | error e => rw [hts] at h; cases h
  | ok ts =>
    rw [hts] at h
    simp only [bind, Except.bind, Except.ok.injEq] at h
    subst h
    refine ⟨_, rfl, rfl, fun ρ => ?_⟩
    simp only [evalFn, List.flatMap_map]
    have : (ts.flatMap fun p => [retag o' p.1, retag o' p.2]) = (ts.flatMap fun p => [p.1, p.2]).map (retag o') := by
      simp [List.map_flatMap]
    rw [this, evalCL_retag]

def exampleModel : MModel Rat :=
  { funcs := [{ name := "f", inputs := ["a"], outputs := ["r"], locals := [],
                body := [.assign "r" (.num 1),
                         .for "k" 1 (.lit 2) 1 [("r", .bin .add (.ref "r" []) (.bin .mul (.idx "k") (.ref "a" [])))]] }],
    eqs := [.foreq "i" 1 (.lit 3) 1
              [⟨[.ref "v" [.at (.var "i")]], .call "f" (.cons (.bin .mul (.idx "i") (.ref "p" [])) .nil)⟩]],
    ieqs := [] }

def examplePoint : Env Rat :=
  ⟨fun n => if n = "v" then some [1, 2, 3] else some [2], fun n => if n = "v" then some [3] else none,
   fun _ => none⟩

-- all 8 combinations on a model with a for-equation calling a function with a for-statement
example : ∀ u i x : Bool, ∃ fn, genResidual ratPrims ⟨u, i, x⟩ (fun _ => none) exampleModel false = .ok fn ∧
    fn.expand = x ∧ evalFn ratPrims examplePoint fn = some [[(-6 : Rat), -11, -16]] := by
  intro u i x
  obtain ⟨fn', h1, h2, h3⟩ := repr_invariant ratPrims {} ⟨u, i, x⟩ (fun _ => none) exampleModel false _ rfl
  refine ⟨fn', h1, h2, ?_⟩
  rw [h3]
  decide +kernel

/-- Link to C11: where the Modelica meaning of the equations is defined, *every* option combination
    returns that meaning (functions in the class of C11's `function_subst`). -/
theorem repr_invariant_meaning (P : Prims K) (o o' : Opts) (ienv : String → Option Int)
    (m : MModel K) (initial : Bool) (fn : CFunction K)
    (h : genResidual P o ienv m initial = .ok fn)
    (hsafe : ∀ f ∈ m.funcs, SafeFunc f) (hS : NoShadow (genTable P o m.funcs))
    (ρ : Env K) (hidx : ρ.idx = ienv) (v : List (List K))
    (hv : residualsOfModel P ρ m initial = some v) :
    ∃ fn', genResidual P o' ienv m initial = .ok fn' ∧ evalFn P ρ fn' = some v := by
  obtain ⟨fn', h1, _, h3⟩ := repr_invariant P o o' ienv m initial fn h
  refine ⟨fn', h1, ?_⟩
  rw [h3]
  unfold genResidual at h
  obtain ⟨ts, hts, hc⟩ := bind_ok.mp h
  cases hc
  -- `residual_function_correct` of C11, restated here to keep this file's imports minimal
  have hT : TabOK P (genTable P o m.funcs) (funcTable P m.funcs) := by
    have : ∀ (fs : List (MFunc K)), (∀ f ∈ fs, SafeFunc f) → NoShadow (genTable P o fs) →
        TabOK P (genTable P o fs) (funcTable P fs) := by
      intro fs
      induction fs with
      | nil => intro _ _; exact ⟨fun _ => rfl, fun f fn h => by simp [genTable] at h⟩
      | cons f rest ih =>
        intro hsafe hS
        have hS' : NoShadow (genTable P o rest) := by
          refine ⟨fun e => ?_, fun op => ?_⟩
          · have := hS.1 e; simp only [genTable] at this; split at this <;> simp_all
          · have := hS.2 op; simp only [genTable] at this; split at this <;> simp_all
        have ih' := ih (fun g hg => hsafe g (by simp [hg])) hS'
        refine ⟨fun n => ?_, fun n fn h => ?_⟩
        · simp only [genTable, funcTable]
          split
          · simp
          · exact ih'.dom n
        · simp only [genTable] at h
          simp only [funcTable]
          split at h
          · rename_i hn
            simp only [Option.some.injEq] at h
            exact ⟨funcSem P (funcTable P rest) f, by simp [hn], fun vs =>
              genFunc_refines P o (genTable P o rest) (funcTable P rest) ih' hS' f (hsafe f (by simp)) fn h vs⟩
          · rename_i hn
            simp only [hn, if_false]
            exact ih'.sem n fn h
    exact this m.funcs hsafe hS
  exact genMEqs_refines P o _ _ hT hS ienv _ ts hts ρ hidx v hv

end PymocaVerif.Gen
