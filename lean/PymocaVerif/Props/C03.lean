/-! # C03 — property theorems (stub: not built yet) -/
