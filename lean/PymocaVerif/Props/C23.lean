import PymocaVerif.Lemmas.Index
/-!
# C23 — out-of-range array subscripts are rejected, never reinterpreted

Property theorems only (helper lemmas: `Lemmas/Index.lean`; model and the specification-side definitions
`FSub.denote`, `InRange`, `pos`, `Safe`, `LoopSafe`: `Model/Index.lean`).

Every statement is for all dimension sizes `n`, all written integers and all loop value lists.
`Safe cfg s` / `LoopSafe cfg …` name the subscripts on which the checks present in the tree (`cfg`) suffice;
with the proposed checks (`Cfg.checked`) they hold for every subscript (`checked_is_safe`,
`checked_is_loop_safe`), on the tree as it is (`Cfg.asIs`) they exclude exactly the classes listed as
findings C23-F1..F3, and `asIs_reinterprets` shows that they cannot be dropped there.
-/
namespace PymocaVerif.Index

/-- An accepted subscript selects exactly the elements it denotes, all of them inside `1..n`. -/
theorem in_range_or_error (cfg : Cfg) (n : Nat) (s : FSub) (ps : List Nat) (hsafe : Safe cfg s)
    (h : fixedSel cfg n n s = some ps) :
    ∃ d, s.denote n = some d ∧ InRange n d ∧ ps = pos d :=
  fixedSel_sound cfg n s ps hsafe h

example : Safe Cfg.asIs (.range (.lit 2) (.lit 3)) ∧ fixedSel Cfg.asIs 4 4 (.range (.lit 2) (.lit 3)) = some [1, 2] := by
  refine ⟨Or.inr (by decide), by decide⟩

/-- A subscript that denotes an index outside `1..n` (or is ill-formed: step 0) makes generation raise. -/
theorem out_of_range_error (cfg : Cfg) (n : Nat) (s : FSub) (hsafe : Safe cfg s)
    (h : s.denote n = none ∨ ∃ d, s.denote n = some d ∧ ∃ i ∈ d, i < 1 ∨ (n : Int) < i) :
    fixedSel cfg n n s = none :=
  fixedSel_oob cfg n s hsafe h

example : ∃ d, (FSub.range (.lit 2) (.lit 5)).denote 4 = some d ∧ ∃ i ∈ d, i < 1 ∨ ((4 : Nat) : Int) < i :=
  ⟨[2, 3, 4, 5], by decide, 5, by decide, by decide⟩

/-- An accepted subscript selects nothing only if it denotes nothing. -/
theorem never_empty_silently (cfg : Cfg) (n : Nat) (s : FSub) (hsafe : Safe cfg s)
    (h : fixedSel cfg n n s = some []) : s.denote n = some [] := by
  obtain ⟨d, hd, _, hp⟩ := fixedSel_sound cfg n s [] hsafe h
  rw [hd, pos_eq_nil d hp.symm]

example : fixedSel Cfg.asIs 3 3 (.range (.lit 3) (.lit 2)) = some [] ∧ Safe Cfg.asIs (.range (.lit 3) (.lit 2)) :=
  ⟨by decide, Or.inr (by decide)⟩

/-- Integer subscripts are checked on every variant of the tree: outside `1..n` is an error. -/
theorem integer_subscript_error (cfg : Cfg) (n : Nat) (k : IntS) (h : k.val < 1 ∨ (n : Int) < k.val) :
    fixedSel cfg n n (.idx k) = none :=
  fixedSel_oob cfg n (.idx k) trivial (Or.inr ⟨[k.val], rfl, k.val, by simp, h⟩)

example : (IntS.lit 0).val < 1 ∨ ((3 : Nat) : Int) < (IntS.lit 0).val := Or.inl (by decide)

/-- A non-empty slice whose upper bound exceeds the dimension is an error on every variant of the tree. -/
theorem slice_upper_bound_error (cfg : Cfg) (n : Nat) (lo hi : IntS) (hne : lo.val ≤ hi.val)
    (h : (n : Int) < hi.val) : fixedSel cfg n n (.range lo hi) = none := by
  cases hlo : lo.eval with
  | none => simp only [fixedSel, hlo]
  | some a =>
    cases hhi : hi.eval with
    | none => simp only [fixedSel, hlo, hhi]
    | some b =>
      have ha := IntS.eval_val lo a hlo
      have hb := IntS.eval_val hi b hhi
      simp only [fixedSel, hlo, hhi, sliceSel]
      by_cases hc : cfg.sliceCheck = true ∧ 0 < 1
      · have hab : a ≤ b := by omega
        have hbad : a < 1 ∨ a + (b - a) / ((1 : Nat) : Int) * ((1 : Nat) : Int) > (n : Int) := by
          right; simp; omega
        rw [if_pos hc, if_pos hab, if_pos hbad]
      · rw [if_neg hc]
        exact slice_stop_beyond n _ b 1 (by omega)

example : (IntS.lit 1).val ≤ (IntS.lit 4).val ∧ ((3 : Nat) : Int) < (IntS.lit 4).val := by decide

/-- With the proposed checks every subscript is `Safe`: the three theorems above hold without hypothesis. -/
theorem checked_is_safe (s : FSub) : Safe Cfg.checked s := by
  cases s with
  | idx k => trivial
  | all => trivial
  | range lo hi => exact Or.inl rfl
  | range3 a b c => exact ⟨rfl, Or.inl rfl⟩

/-- A loop-dependent subscript `mul*i + off` that is accepted reads, at every loop value, the element it
    denotes, and every such element exists. -/
theorem loop_in_range_or_error (cfg : Cfg) (n : Nat) (vals : List Int) (mul off : Int) (ps : List Nat)
    (hsafe : LoopSafe cfg vals mul off) (h : loopIdxSel cfg n n vals mul off = some ps) :
    InRange n (vals.map (fun v => mul * v + off)) ∧ ps = pos (vals.map (fun v => mul * v + off)) :=
  loopIdxSel_sound cfg n vals mul off ps hsafe h

example : LoopSafe Cfg.asIs [1, 2] 1 1 ∧ loopIdxSel Cfg.asIs 3 3 [1, 2] 1 1 = some [1, 2] :=
  ⟨Or.inr (by decide), by decide⟩

/-- A loop-dependent subscript that leaves `1..n` at some loop value makes generation raise. -/
theorem loop_out_of_range_error (cfg : Cfg) (n : Nat) (vals : List Int) (mul off : Int)
    (hsafe : LoopSafe cfg vals mul off)
    (h : ∃ v ∈ vals, mul * v + off < 1 ∨ (n : Int) < mul * v + off) :
    loopIdxSel cfg n n vals mul off = none :=
  loopIdxSel_oob cfg n vals mul off hsafe h

example : LoopSafe Cfg.asIs [1, 2, 3] 1 1 ∧ ∃ v ∈ [1, 2, 3], (1 : Int) * v + 1 < 1 ∨ ((3 : Nat) : Int) < 1 * v + 1 :=
  ⟨Or.inr (by decide), 3, by decide, by decide⟩

theorem checked_is_loop_safe (vals : List Int) (mul off : Int) : LoopSafe Cfg.checked vals mul off :=
  Or.inl rfl

/-- A subscript on a scalar always makes generation raise. -/
theorem scalar_subscript_error (cfg : Cfg) (s : Subs) (l : Option LoopRange) :
    outcome cfg ⟨.scalar, s, l⟩ = none := by
  cases l with
  | none => simp [outcome, outcomeEq]
  | some r =>
    simp only [outcome]
    cases loopValues cfg r <;> simp [outcomeLoop]

/-- More subscripts than dimensions always make generation raise. -/
theorem too_many_subscripts_error (cfg : Cfg) (n m : Nat) (a b : FSub) (mul off : Int) (l : Option LoopRange) :
    outcome cfg ⟨.d1 n, .ff a b, l⟩ = none ∧ outcome cfg ⟨.d1 n, .lf mul off b, l⟩ = none ∧
    outcome cfg ⟨.d1 n, .fl a mul off, l⟩ = none ∧ outcome cfg ⟨.d1 n, .more, l⟩ = none ∧
    outcome cfg ⟨.d2 n m, .more, l⟩ = none := by
  cases l with
  | none => simp [outcome, outcomeEq]
  | some r =>
    simp only [outcome]
    cases loopValues cfg r <;> simp [outcomeLoop]

/-- The hypotheses `Safe` / `LoopSafe` cannot be dropped on the tree as it is (findings C23-F1, F2, F3):
    `x[0:2]` on `Real x[3]` selects nothing, `x[0:3]` selects `x[3]`, `x[2:p]` with `p = -1` selects `x[2]`,
    `x[i-1]` over `i = 1, 2, 3` reads `x[3], x[1], x[2]`, `x[1:2:3]` on `Real x[4]` selects `x[1]` only. -/
theorem asIs_reinterprets :
    fixedSel Cfg.asIs 3 3 (.range (.lit 0) (.lit 2)) = some [] ∧
    fixedSel Cfg.asIs 3 3 (.range (.lit 0) (.lit 3)) = some [2] ∧
    fixedSel Cfg.asIs 3 3 (.range (.lit 2) (.par (-1))) = some [1] ∧
    loopIdxSel Cfg.asIs 3 3 [1, 2, 3] 1 (-1) = some [2, 0, 1] ∧
    fixedSel Cfg.asIs 4 4 (.range3 (.lit 1) (.lit 2) (.lit 3)) = some [0] ∧
    (FSub.range3 (.lit 1) (.lit 2) (.lit 3)).denote 4 = some [1, 3] := by
  decide

/-- …and the same inputs are rejected, respectively read as Modelica says, once the proposed checks are in. -/
theorem checked_rejects_them :
    fixedSel Cfg.checked 3 3 (.range (.lit 0) (.lit 2)) = none ∧
    fixedSel Cfg.checked 3 3 (.range (.lit 0) (.lit 3)) = none ∧
    fixedSel Cfg.checked 3 3 (.range (.lit 2) (.par (-1))) = some [] ∧
    loopIdxSel Cfg.checked 3 3 [1, 2, 3] 1 (-1) = none ∧
    fixedSel Cfg.checked 4 4 (.range3 (.lit 1) (.lit 2) (.lit 3)) = some [0, 2] := by
  decide

end PymocaVerif.Index
