"""Predicate of the open C26 finding (C26-F1..F4 were fixed by commit c313463)."""
from harness.common import known_predicate


@known_predicate
def c26_unqualified_import_cache(case, what):
    """Flatten-only call with two or more models, all of them in the package that has two unqualified imports
    (`import A.*; import B.*;`): the first lookup of an imported class stores the wrong package in the import table,
    so every later model of the call that uses the imported class is counted as failing although it flattens alone."""
    if what not in ("exit status differs from the error count",
                    "status with several models differs from the sum of the statuses with each model alone",
                    "disagreement:cli.main"):
        return False
    il = (case.get("world") or {}).get("implib")
    names = [m["name"] for m in case.get("labels", [])]
    exp, obs = case.get("expected"), case.get("observed")
    return (bool(il) and case.get("target") == "none" and case.get("stage") == "models" and len(names) >= 2
            and all(n.startswith(il + ".") for n in names) and isinstance(obs, int) and obs > 0
            and obs <= len(names) - 1)
