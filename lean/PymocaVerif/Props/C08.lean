/-! # C08 — property theorems (stub: not built yet) -/
