/-! Driver for C12 (stub: not built yet). -/
def main : IO Unit := pure ()
