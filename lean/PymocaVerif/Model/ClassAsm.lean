/-!
# Model of `pymoca.parser.ASTListener` (class structure part) as a state machine

`ASTListener` (src/pymoca/parser.py) is driven by ANTLR's `ParseTreeWalker`: one `enterX`/`exitX`
callback per parse-tree node, in document order.  The model keeps the listener's fields

* `class_nodes` (deque of classes under construction)  → `LState.stack : List Frame`
* `comp_clause`                                          → `LState.clause`
* `symbol_node`                                          → `Ctr.node`
* `sym_count`                                            → `Ctr.symCount`
* `in_extends_clause`                                    → `LState.inExtends`

and runs over a list of `Event`s (`run`).  `events : ClassSrc → List Event` gives the callbacks the
walker fires for a class description; `specClass` is the structural ("big-step") specification the
machine is proved to refine (`Props/C04.lean`).

Representation choices (each is exercised by the per-run correspondence with the real parser):

* **Payloads.**  Expressions, equations, statements, modification arguments, comments and type
  specifiers are built by callbacks that never touch the fields above; the values they leave in
  `self.ast[ctx]` are carried by the exit events as opaque canonical texts.  The number of
  `enterElement_modification` callbacks inside a payload *is* modelled (`Event.enterElemMod`),
  because that callback allocates a `Symbol` and bumps `sym_count` when `symbol_node is None`.
* **Object identity.**  `Symbol.type`, `.dimensions`, `.prefixes` are mutable Python objects that the
  listener first shares between the clause and all its declarators and then copies in
  `exitComponent_clause`.  Every such object is a pair (identity tag, content); tags come from the
  allocator `Ctr.nextId`.  The only in-place mutation of such an object during the walk is
  `clause.type.__dict__.update(...)`; at that moment the holders of the clause's type object are
  exactly the clause and the symbols it declared, and the model updates all of them.
* **`self.ast` of the open composition.**  `exitComposition` reaches the symbols through
  `self.ast[element_list] → clause.symbol_list → Symbol`.  The model stores the inverse pointer:
  `Sym.sec` / `Ext.sec` is the index (within the class's composition) of the element list whose value
  contains the declaring clause; `Frame.closed` holds the labels (`epriv`: none, `'public'`,
  `'protected'`) of the element lists exited so far, which is what the loop over the children of the
  composition in `exitComposition` reads.
* **The symbols of the clause being walked** are in `class_node.symbols` from `enterDeclaration` on.
  The model keeps them in `ClauseSt.syms` and appends them to the frame in `exitClause`; the
  duplicate check looks at both lists.  (No other callback reads `class_node.symbols` in between.)
* `comp_clause` is cleared when a clause is exited (the listener leaves the stale object; nothing
  reads it before the next `enterComponent_clause(1)` overwrites it).

Errors the listener raises are explicit (`Err`): `IOError(name, "already defined")`,
`IOError(name, "already imported")`.  `Err.model` marks ill-formed event streams (never produced by
`events`; this is a consequence of the refinement theorem).
-/
namespace PymocaVerif.ClassAsm

abbrev Expr := String

inductive Vis | priv | prot | pub
  deriving DecidableEq, Repr, Inhabited

/-- `ComponentClause().dimensions` / `Symbol().dimensions` default `[[Primary(value=None)]]`. -/
def defaultDims : List (List Expr) := [["None"]]

structure Sym where
  name : String
  type : List String          -- `ComponentRef.to_tuple()` of `Symbol.type`; `[]` while not filled
  typeId : Nat
  prefixes : List String
  prefId : Nat
  dims : List (List Expr)
  dimsId : Nat
  comment : String
  order : Nat
  vis : Vis
  cmod : Option (List String) -- `class_modification.arguments` (canonical texts), `none` = `None`
  sec : Nat                   -- element list (index in the composition) holding the declaring clause
  deriving DecidableEq, Repr

structure Ext where
  path : List String
  args : List String
  vis : Vis
  sec : Nat
  deriving DecidableEq, Repr

inductive ImportVal
  | ref (path : List String)                                  -- `imports[name] = ComponentRef`
  | short (paths : List (List String)) (name : String)         -- `imports[short_name] = ImportClause`
  | star (paths : List (List String))                          -- `imports["*"] = ImportClause(unqualified)`
  deriving DecidableEq, Repr

structure ClassInfo where
  name : Option String
  kind : String
  partial_ : Bool
  encapsulated : Bool
  final : Bool
  comment : String
  symbols : List Sym
  extends_ : List Ext
  imports : List (String × ImportVal)
  equations : List String
  initialEquations : List String
  statements : List String
  initialStatements : List String
  annotation : Option (List String)
  deriving DecidableEq, Repr

inductive ClassAst
  | mk (info : ClassInfo) (classes : List ClassAst)

def ClassAst.info : ClassAst → ClassInfo | .mk i _ => i
def ClassAst.classes : ClassAst → List ClassAst | .mk _ cs => cs
def ClassAst.name (c : ClassAst) : Option String := c.info.name

/-- `OrderedDict.__setitem__` on `classes`: an existing key keeps its position. -/
def dictSet (l : List ClassAst) (c : ClassAst) : List ClassAst :=
  match l with
  | [] => [c]
  | x :: t => if x.name = c.name then c :: t else x :: dictSet t c

def dictSetKV {β} (l : List (String × β)) (k : String) (v : β) : List (String × β) :=
  match l with
  | [] => [(k, v)]
  | x :: t => if x.1 = k then (k, v) :: t else x :: dictSetKV t k v

/-! ## Source descriptions -/

inductive ModItem
  | cm (args : List String)     -- a `ClassModification` in `self.ast[modification]`
  | val (e : Expr)              -- an expression in `self.ast[modification]`
  deriving DecidableEq, Repr

structure Decl where
  name : String
  dims : Option (List Expr)
  mod : List ModItem
  modTicks : Nat                -- element_modification nodes inside the modification
  comment : String
  annTicks : Nat                -- element_modification nodes inside the comment's annotation
  deriving DecidableEq, Repr

structure Clause where
  prefixes : List String
  type : List String
  cdims : Option (List Expr)
  decls : List Decl
  deriving DecidableEq, Repr

/-- What stands inside an extends clause's modification, as far as the machine's fields go. -/
inductive ExtEv
  | m                                                              -- an element_modification node
  | d (prefixes : List String) (type : List String) (name : String) -- `redeclare T x` (component_clause1)
  deriving DecidableEq, Repr

structure ExtSrc where
  path : List String
  args : List String
  evs : List ExtEv
  deriving DecidableEq, Repr

inductive ImpSrc
  | qual (path : List String)
  | short (name : String) (path : List String)
  | star (path : List String)
  | list (path : List String) (names : List String)
  deriving DecidableEq, Repr

structure ShortSrc where
  kind : String
  name : String
  path : List String
  args : List String
  ticks : Nat
  comment : String
  deriving DecidableEq, Repr

structure ClassHdr where
  kind : String
  partial_ : Bool
  encapsulated : Bool
  name : String
  comment : String
  annotation : Option (List String)
  annTicks : Nat
  deriving DecidableEq, Repr

mutual
inductive ClassSrc
  | mk (hdr : ClassHdr) (first : Elems) (rest : Sections)
inductive Elems
  | nil
  | comp (c : Clause) (t : Elems)
  | ext (e : ExtSrc) (t : Elems)
  | imp (i : ImpSrc) (t : Elems)
  | cls (c : ClassSrc) (t : Elems)
  | short (s : ShortSrc) (t : Elems)
inductive Sections
  | nil
  | elems (vis : Vis) (es : Elems) (t : Sections)
  | eqs (initial : Bool) (items : List String) (t : Sections)
  | algs (initial : Bool) (items : List String) (t : Sections)
end

/-! ## Events -/

inductive Event
  | enterClassDef (kind : String) (partial_ encapsulated : Bool)   -- enterClass_definition
  | exitClassSpecComp (name comment : String)                      -- exitClass_spec_comp
  | exitClassSpecBase (name comment : String) (path args : List String) -- exitClass_spec_base
  | exitClassDef                                                   -- exitClass_definition
  | exitStoredClass (final : Bool)                                 -- exitStored_definition_class (+ its slot in exitStored_definition)
  | enterClause (prefixes : List String)                           -- enterComponent_clause / enterComponent_clause1
  | enterDecl (name : String)                                      -- enterComponent_declaration(1); enterDeclaration
  | enterElemMod                                                   -- enterElement_modification
  | exitDeclaration (dims : Option (List Expr)) (mod : List ModItem) -- exitDeclaration
  | exitCompDecl (comment : String)                                -- exitComponent_declaration(1)
  | exitClause (type : List String) (cdims : Option (List Expr))   -- exitComponent_clause (its value travels up through exitRegular_element / exitElement)
  | exitClause1 (type : List String)                               -- exitComponent_clause1
  | enterExtends                                                   -- enterExtends_clause
  | exitExtends (path args : List String)                          -- exitExtends_clause
  | exitImport (i : ImpSrc)                                        -- exitImport_clause
  | exitElementList (label : Option Vis)                           -- exitElement_list, with the label ANTLR gives it in `composition`
  | enterEqSection (initial : Bool)                                -- enterEquation_section
  | exitEqSection (items : List String)                            -- exitEquation_section (`self.ast[equation_block]`)
  | enterAlgSection (initial : Bool)                               -- enterAlgorithm_section
  | exitAlgSection (items : List String)                           -- exitAlgorithm_section
  | exitComposition (annotation : Option (List String))            -- exitComposition
  deriving DecidableEq, Repr

/-! ## Machine state -/

inductive Err
  | alreadyDefined (name : String)
  | alreadyImported (name : String)
  | noneSymbol                      -- AttributeError on `None` (exitDeclaration with `symbol_node is None`)
  | model (msg : String)
  deriving DecidableEq, Repr

/-- `symbol_node`: `None`, the symbol declared last in the clause being walked, or a symbol that is
    in no class (created by `enterElement_modification` outside a declaration, or declared inside an
    extends clause). -/
inductive Node | none | current | detached
  deriving DecidableEq, Repr

/-- The listener's counters: `sym_count`, `symbol_node`, and the identity allocator. -/
structure Ctr where
  symCount : Nat
  node : Node
  nextId : Nat
  deriving DecidableEq, Repr

structure ClauseSt where
  prefixes : List String
  prefId : Nat
  typeId : Nat
  dimsId : Nat
  syms : List Sym
  deriving DecidableEq, Repr

structure Frame where
  info : ClassInfo
  classes : List ClassAst
  lastChild : Option ClassAst       -- `self.ast[ctx]` of the class definition exited last inside this class
  closed : List (Option Vis)
  eqSecs : List (Bool × List String)
  algSecs : List (Bool × List String)

structure LState where
  stack : List Frame
  clause : Option ClauseSt
  ctr : Ctr
  inExtends : Bool
  fileClasses : List ClassAst

def ClassInfo.new (kind : String) (p e : Bool) : ClassInfo :=
  { name := none, kind := kind, partial_ := p, encapsulated := e, final := false, comment := "",
    symbols := [], extends_ := [], imports := [], equations := [], initialEquations := [],
    statements := [], initialStatements := [], annotation := none }

def Frame.new (kind : String) (p e : Bool) : Frame :=
  { info := ClassInfo.new kind p e, classes := [], lastChild := none, closed := [], eqSecs := [], algSecs := [] }

/-- `ASTListener.__init__`: `class_nodes = deque([ast.Class()])`. -/
def LState.init : LState :=
  { stack := [Frame.new "" false false], clause := none, ctr := ⟨0, .none, 0⟩, inExtends := false,
    fileClasses := [] }

/-! ## Pieces shared by the machine and the specification -/

/-- `enterElement_modification`. -/
def tick (k : Ctr) : Ctr :=
  match k.node with
  | .none => { k with symCount := k.symCount + 1, node := .detached }
  | _ => k

def ticks : Nat → Ctr → Ctr
  | 0, k => k
  | n + 1, k => ticks n (tick k)

/-- The loop over `self.ast[ctx.modification()]` in `exitDeclaration`. -/
def applyMod (cm : Option (List String)) : List ModItem → Option (List String)
  | [] => cm
  | .cm args :: t => applyMod (some args) t
  | .val e :: t => applyMod (some (cm.getD [] ++ ["value=" ++ e])) t

def updLast {α} (g : α → α) : List α → List α
  | [] => []
  | [x] => [g x]
  | x :: y :: t => x :: updLast g (y :: t)

/-- The symbol `enterComponent_declaration` + `enterDeclaration` create. -/
def newSym (cl : ClauseSt) (name : String) (order sec : Nat) : Sym :=
  { name := name, type := [], typeId := cl.typeId, prefixes := cl.prefixes, prefId := cl.prefId,
    dims := defaultDims, dimsId := cl.dimsId, comment := "", order := order, vis := .priv,
    cmod := none, sec := sec }

/-- `exitDeclaration` on the symbol. -/
def declExit (dims : Option (List Expr)) (mod : List ModItem) (nid : Nat) (y : Sym) : Sym :=
  let y := match dims with
    | some d => { y with dims := [d], dimsId := nid }
    | none => y
  { y with cmod := applyMod y.cmod mod }

def dimsAlloc (dims : Option (List Expr)) : Nat := match dims with | some _ => 1 | none => 0

/-- The copies `exitComponent_clause` makes for `symbol_list[1:]`:
    `list(s.dimensions)`, `list(s.prefixes)`, `copy.deepcopy(clause.type)`. -/
def copyTail (nid : Nat) : List Sym → List Sym
  | [] => []
  | y :: t => { y with dimsId := nid, prefId := nid + 1, typeId := nid + 2 } :: copyTail (nid + 3) t

/-- The loop of `exitComponent_clause` over all symbols of a clause that has array subscripts `d`
    (`clause.dimensions = [d]` is the new object `nid`): a symbol still holding the clause's default
    dimensions object (`cid`) gets `clause.dimensions` itself; a symbol with subscripts of its own gets
    the new list `s.dimensions + clause.dimensions` (tag `m`; one tag is reserved per symbol). -/
def joinDims (d : List Expr) (cid nid : Nat) : Nat → List Sym → List Sym
  | _, [] => []
  | m, y :: t =>
    (if y.dimsId = cid then { y with dims := [d], dimsId := nid }
     else { y with dims := y.dims ++ [d], dimsId := m }) :: joinDims d cid nid (m + 1) t

/-- Tags used by the clause-level subscripts: `clause.dimensions` and one per symbol. -/
def cdimsAlloc (cdims : Option (List Expr)) (n : Nat) : Nat := match cdims with | some _ => 1 + n | none => 0

/-- `exitComponent_clause` on the clause's symbols (`cid`: tag of the clause's default dimensions
    object, `nid`: first free tag). -/
def clauseExit (type : List String) (cdims : Option (List Expr)) (cid nid : Nat) (syms : List Sym) : List Sym :=
  -- `clause.type.__dict__.update(...)`: seen through every symbol of the clause
  let s1 := syms.map fun y => { y with type := type }
  let s2 := match cdims with
    | some d => joinDims d cid nid (nid + 1) s1
    | none => s1
  match s2 with
  | [] => []
  | y0 :: ys => y0 :: copyTail (nid + cdimsAlloc cdims syms.length) ys

def clauseExitAlloc (cdims : Option (List Expr)) (n : Nat) : Nat := cdimsAlloc cdims n + 3 * (n - 1)

def labelVis : Option Vis → Vis
  | none => .priv
  | some v => v

/-- The visibility `exitComposition` gives to the items of element list `k`: the loop over the
    children of the composition keeps the last `public` / `protected` keyword seen; every element
    list but the leading one directly follows its keyword, so the current visibility at list `k` is
    that of its own label (`PRIVATE` for the leading list). -/
def visOf (labels : List (Option Vis)) (k : Nat) : Vis := labelVis ((labels[k]?).getD none)

def secItems (secs : List (Bool × List String)) (initial : Bool) : List String :=
  (secs.filter (fun p => p.1 == initial)).flatMap (·.2)

/-- `exitComposition`. -/
def Frame.composition (f : Frame) (ann : Option (List String)) : Frame :=
  { f with info := { f.info with
      symbols := f.info.symbols.map (fun y => { y with vis := visOf f.closed y.sec }),
      extends_ := f.info.extends_.map (fun e => { e with vis := visOf f.closed e.sec }),
      equations := f.info.equations ++ secItems f.eqSecs false,
      initialEquations := f.info.initialEquations ++ secItems f.eqSecs true,
      statements := f.info.statements ++ secItems f.algSecs false,
      initialStatements := f.info.initialStatements ++ secItems f.algSecs true,
      annotation := match ann with | some a => some a | none => f.info.annotation } }

def hasKey {β} (l : List (String × β)) (k : String) : Bool := l.any (fun p => p.1 == k)

/-- The "simple case" loop of `exitImport_clause`. -/
def addRefs (imps : List (String × ImportVal)) (path : List String) : List String → Except Err (List (String × ImportVal))
  | [] => .ok imps
  | n :: t => if hasKey imps n then .error (.alreadyImported n) else addRefs (imps ++ [(n, .ref (path ++ [n]))]) path t

def addStar (imps : List (String × ImportVal)) (path : List String) : List (String × ImportVal) :=
  if hasKey imps "*" then
    imps.map fun p => if p.1 == "*" then
      (p.1, match p.2 with | .star ps => .star (ps ++ [path]) | .short ps n => .short (ps ++ [path]) n | v => v) else p
  else imps ++ [("*", .star [path])]

/-- `exitImport_clause`. -/
def addImport (imps : List (String × ImportVal)) : ImpSrc → Except Err (List (String × ImportVal))
  | .qual path => addRefs imps path.dropLast (match path.getLast? with | some n => [n] | none => [])
  | .short name path => .ok (dictSetKV imps name (.short [path] name))
  | .star path => .ok (addStar imps path)
  | .list path names => addRefs imps path names

def Frame.addExt (f : Frame) (path args : List String) : Frame :=
  { f with info := { f.info with extends_ := f.info.extends_ ++ [⟨path, args, .priv, f.closed.length⟩] } }

def Frame.finish (f : Frame) : ClassAst := .mk f.info f.classes

/-- `exitClass_definition`: `self.class_node.classes[class_node.name] = class_node`. -/
def Frame.attach (p : Frame) (c : ClassAst) : Frame :=
  { p with classes := dictSet p.classes c, lastChild := some c }

def setFinal (fin : Bool) : ClassAst → ClassAst
  | .mk i cs => .mk { i with final := fin } cs

/-! ## The machine -/

def step (s : LState) : Event → Except Err LState
  | .enterClassDef kind p e => .ok { s with stack := Frame.new kind p e :: s.stack }
  | .exitClassSpecComp name comment =>
    match s.stack with
    | f :: rest => .ok { s with stack := { f with info := { f.info with name := some name, comment := comment } } :: rest }
    | [] => .error (.model "exitClassSpecComp: empty stack")
  | .exitClassSpecBase name comment path args =>
    match s.stack with
    | f :: rest =>
      let f := f.addExt path args
      .ok { s with stack := { f with info := { f.info with name := some name, comment := comment } } :: rest }
    | [] => .error (.model "exitClassSpecBase: empty stack")
  | .exitClassDef =>
    match s.stack with
    | f :: p :: rest =>
      .ok { s with stack := p.attach f.finish :: rest }
    | _ => .error (.model "exitClassDef: no enclosing class")
  | .exitStoredClass fin =>
    match s.stack with
    | [root] =>
      match root.lastChild with
      | some c => .ok { s with fileClasses := dictSet s.fileClasses (setFinal fin c) }
      | none => .error (.model "exitStoredClass: no class")
    | _ => .error (.model "exitStoredClass: not at top level")
  | .enterClause prefixes =>
    .ok { s with clause := some { prefixes := prefixes, prefId := s.ctr.nextId, typeId := s.ctr.nextId + 1,
                                   dimsId := s.ctr.nextId + 2, syms := [] },
                 ctr := { s.ctr with nextId := s.ctr.nextId + 3 } }
  | .enterDecl name =>
    match s.clause, s.stack with
    | some cl, f :: _ =>
      if s.inExtends then
        .ok { s with ctr := { s.ctr with symCount := s.ctr.symCount + 1, node := .detached } }
      else if name ∈ (f.info.symbols ++ cl.syms).map (·.name) then .error (.alreadyDefined name)
      else
        .ok { s with clause := some { cl with syms := cl.syms ++ [newSym cl name s.ctr.symCount f.closed.length] },
                     ctr := { s.ctr with symCount := s.ctr.symCount + 1, node := .current } }
    | _, _ => .error (.model "enterDecl: no clause or no class")
  | .enterElemMod => .ok { s with ctr := tick s.ctr }
  | .exitDeclaration dims mod =>
    match s.ctr.node, s.clause with
    | .current, some cl =>
      .ok { s with clause := some { cl with syms := updLast (declExit dims mod s.ctr.nextId) cl.syms },
                   ctr := { s.ctr with nextId := s.ctr.nextId + dimsAlloc dims } }
    | .detached, _ => .ok s
    | .none, _ => if dims.isNone && mod.isEmpty then .ok s else .error .noneSymbol
    | .current, none => .error (.model "exitDeclaration: no clause")
  | .exitCompDecl comment =>
    match s.ctr.node, s.clause with
    | .current, some cl =>
      .ok { s with clause := some { cl with syms := updLast (fun y => { y with comment := comment }) cl.syms },
                   ctr := { s.ctr with node := .none } }
    | .detached, _ => .ok { s with ctr := { s.ctr with node := .none } }
    | _, _ => .error (.model "exitCompDecl: no symbol")
  | .exitClause type cdims =>
    match s.clause, s.stack with
    | some cl, f :: rest =>
      .ok { s with stack := { f with info := { f.info with
                                symbols := f.info.symbols ++ clauseExit type cdims cl.dimsId s.ctr.nextId cl.syms } } :: rest,
                   clause := none,
                   ctr := { s.ctr with nextId := s.ctr.nextId + clauseExitAlloc cdims cl.syms.length } }
    | _, _ => .error (.model "exitClause: no clause or no class")
  | .exitClause1 _ => .ok { s with clause := none }
  | .enterExtends => .ok { s with inExtends := true }
  | .exitExtends path args =>
    match s.stack with
    | f :: rest => .ok { s with stack := f.addExt path args :: rest, inExtends := false }
    | [] => .error (.model "exitExtends: empty stack")
  | .exitImport i =>
    match s.stack with
    | f :: rest =>
      match addImport f.info.imports i with
      | .ok imps => .ok { s with stack := { f with info := { f.info with imports := imps } } :: rest }
      | .error e => .error e
    | [] => .error (.model "exitImport: empty stack")
  | .exitElementList label =>
    match s.stack with
    | f :: rest => .ok { s with stack := { f with closed := f.closed ++ [label] } :: rest }
    | [] => .error (.model "exitElementList: empty stack")
  | .enterEqSection initial =>
    match s.stack with
    | f :: rest => .ok { s with stack := { f with eqSecs := f.eqSecs ++ [(initial, [])] } :: rest }
    | [] => .error (.model "enterEqSection: empty stack")
  | .exitEqSection items =>
    match s.stack with
    | f :: rest => .ok { s with stack := { f with eqSecs := updLast (fun p => (p.1, p.2 ++ items)) f.eqSecs } :: rest }
    | [] => .error (.model "exitEqSection: empty stack")
  | .enterAlgSection initial =>
    match s.stack with
    | f :: rest => .ok { s with stack := { f with algSecs := f.algSecs ++ [(initial, [])] } :: rest }
    | [] => .error (.model "enterAlgSection: empty stack")
  | .exitAlgSection items =>
    match s.stack with
    | f :: rest => .ok { s with stack := { f with algSecs := updLast (fun p => (p.1, p.2 ++ items)) f.algSecs } :: rest }
    | [] => .error (.model "exitAlgSection: empty stack")
  | .exitComposition ann =>
    match s.stack with
    | f :: rest => .ok { s with stack := f.composition ann :: rest }
    | [] => .error (.model "exitComposition: empty stack")

def run (s : LState) : List Event → Except Err LState
  | [] => .ok s
  | e :: t => match step s e with
    | .ok s' => run s' t
    | .error err => .error err

/-! ## The callbacks the walker fires for a description -/

def declEvents (d : Decl) : List Event :=
  [.enterDecl d.name] ++ List.replicate d.modTicks .enterElemMod ++ [.exitDeclaration d.dims d.mod]
    ++ List.replicate d.annTicks .enterElemMod ++ [.exitCompDecl d.comment]

def declsEvents : List Decl → List Event
  | [] => []
  | d :: t => declEvents d ++ declsEvents t

def clauseEvents (c : Clause) : List Event :=
  [.enterClause c.prefixes] ++ declsEvents c.decls ++ [.exitClause c.type c.cdims]

def extEvEvents : ExtEv → List Event
  | .m => [.enterElemMod]
  | .d prefixes type name =>
    [.enterClause prefixes, .enterDecl name, .exitDeclaration none [], .exitCompDecl "", .exitClause1 type]

def extEvsEvents : List ExtEv → List Event
  | [] => []
  | e :: t => extEvEvents e ++ extEvsEvents t

def extEvents (e : ExtSrc) : List Event :=
  [.enterExtends] ++ extEvsEvents e.evs ++ [.exitExtends e.path e.args]

def shortEvents (s : ShortSrc) : List Event :=
  [.enterClassDef s.kind false false] ++ List.replicate s.ticks .enterElemMod
    ++ [.exitClassSpecBase s.name s.comment s.path s.args, .exitClassDef]

mutual
def classEvents : ClassSrc → List Event
  | .mk h first rest =>
    [.enterClassDef h.kind h.partial_ h.encapsulated] ++ elemsEvents first ++ [.exitElementList none]
      ++ sectionsEvents rest ++ List.replicate h.annTicks .enterElemMod
      ++ [.exitComposition h.annotation, .exitClassSpecComp h.name h.comment, .exitClassDef]
def elemsEvents : Elems → List Event
  | .nil => []
  | .comp c t => clauseEvents c ++ elemsEvents t
  | .ext e t => extEvents e ++ elemsEvents t
  | .imp i t => [.exitImport i] ++ elemsEvents t
  | .cls c t => classEvents c ++ elemsEvents t
  | .short s t => shortEvents s ++ elemsEvents t
def sectionsEvents : Sections → List Event
  | .nil => []
  | .elems vis es t => elemsEvents es ++ [.exitElementList (some vis)] ++ sectionsEvents t
  | .eqs initial items t => [.enterEqSection initial, .exitEqSection items] ++ sectionsEvents t
  | .algs initial items t => [.enterAlgSection initial, .exitAlgSection items] ++ sectionsEvents t
end

/-- A stored definition: top-level classes with their `final` flag. -/
def fileEvents : List (Bool × ClassSrc) → List Event
  | [] => []
  | (fin, c) :: t => classEvents c ++ [.exitStoredClass fin] ++ fileEvents t

/-- Walk a whole file with the listener; the result is `file_node.classes` (in dict order). -/
def runListener (file : List (Bool × ClassSrc)) : Except Err (List ClassAst) :=
  match run LState.init (fileEvents file) with
  | .ok s => .ok s.fileClasses
  | .error e => .error e

/-! ## Structural specification -/

/-- One declarator of a clause: `cl` is the clause as the listener holds it, `names` the component
    names the class has so far. -/
def specDecl (cl : ClauseSt) (names : List String) (sec : Nat) (k : Ctr) (d : Decl) : Except Err (Sym × Ctr) :=
  if d.name ∈ names then .error (.alreadyDefined d.name)
  else
    let y := newSym cl d.name k.symCount sec
    let y := declExit d.dims d.mod k.nextId y
    .ok ({ y with comment := d.comment },
         { symCount := k.symCount + 1, node := .none, nextId := k.nextId + dimsAlloc d.dims })

def specDecls (cl : ClauseSt) (names : List String) (sec : Nat) : List Decl → List Sym → Ctr → Except Err (List Sym × Ctr)
  | [], acc, k => .ok (acc, k)
  | d :: t, acc, k =>
    match specDecl cl (names ++ acc.map (·.name)) sec k d with
    | .ok (y, k') => specDecls cl names sec t (acc ++ [y]) k'
    | .error e => .error e

def specClause (c : Clause) (f : Frame) (k : Ctr) : Except Err (Frame × Ctr) :=
  let cl : ClauseSt := { prefixes := c.prefixes, prefId := k.nextId, typeId := k.nextId + 1, dimsId := k.nextId + 2, syms := [] }
  match specDecls cl (f.info.symbols.map (·.name)) f.closed.length c.decls [] { k with nextId := k.nextId + 3 } with
  | .ok (syms, k') =>
    .ok ({ f with info := { f.info with symbols := f.info.symbols ++ clauseExit c.type c.cdims cl.dimsId k'.nextId syms } },
         { k' with nextId := k'.nextId + clauseExitAlloc c.cdims syms.length })
  | .error e => .error e

def extEvCtr (k : Ctr) : ExtEv → Ctr
  | .m => tick k
  | .d _ _ _ => { symCount := k.symCount + 1, node := .none, nextId := k.nextId + 3 }

def extEvsCtr : List ExtEv → Ctr → Ctr
  | [], k => k
  | e :: t, k => extEvsCtr t (extEvCtr k e)

def specShort (s : ShortSrc) : ClassAst :=
  let f := (Frame.new s.kind false false).addExt s.path s.args
  .mk { f.info with name := some s.name, comment := s.comment } []

mutual
def specClass : ClassSrc → Ctr → Except Err (ClassAst × Ctr)
  | .mk h first rest, k =>
    match specElems first (Frame.new h.kind h.partial_ h.encapsulated) k with
    | .error e => .error e
    | .ok (f, k) =>
      match specSections rest { f with closed := f.closed ++ [none] } k with
      | .error e => .error e
      | .ok (f, k) =>
        let f := f.composition h.annotation
        .ok (.mk { f.info with name := some h.name, comment := h.comment } f.classes, ticks h.annTicks k)
def specElems : Elems → Frame → Ctr → Except Err (Frame × Ctr)
  | .nil, f, k => .ok (f, k)
  | .comp c t, f, k =>
    match specClause c f k with
    | .ok (f, k) => specElems t f k
    | .error e => .error e
  | .ext e t, f, k => specElems t (f.addExt e.path e.args) (extEvsCtr e.evs k)
  | .imp i t, f, k =>
    match addImport f.info.imports i with
    | .ok imps => specElems t { f with info := { f.info with imports := imps } } k
    | .error e => .error e
  | .cls c t, f, k =>
    match specClass c k with
    | .ok (a, k) => specElems t (f.attach a) k
    | .error e => .error e
  | .short s t, f, k => specElems t (f.attach (specShort s)) (ticks s.ticks k)
def specSections : Sections → Frame → Ctr → Except Err (Frame × Ctr)
  | .nil, f, k => .ok (f, k)
  | .elems vis es t, f, k =>
    match specElems es f k with
    | .ok (f, k) => specSections t { f with closed := f.closed ++ [some vis] } k
    | .error e => .error e
  | .eqs initial items t, f, k => specSections t { f with eqSecs := f.eqSecs ++ [(initial, items)] } k
  | .algs initial items t, f, k => specSections t { f with algSecs := f.algSecs ++ [(initial, items)] } k
end

def specFile : List (Bool × ClassSrc) → List ClassAst → Ctr → Except Err (List ClassAst)
  | [], acc, _ => .ok acc
  | (fin, c) :: t, acc, k =>
    match specClass c k with
    | .ok (a, k') => specFile t (dictSet acc (setFinal fin a)) k'
    | .error e => .error e

/-- The tree the description stands for (as the listener builds it). -/
def expected (file : List (Bool × ClassSrc)) : Except Err (List ClassAst) :=
  specFile file [] ⟨0, .none, 0⟩

/-! ## Readings of a description and of a tree (used to state the properties) -/

/-- The component clauses a list of elements holds itself (not those of nested classes). -/
def Elems.clauses : Elems → List Clause
  | .nil => []
  | .comp c t => c :: t.clauses
  | .ext _ t => t.clauses
  | .imp _ t => t.clauses
  | .cls _ t => t.clauses
  | .short _ t => t.clauses

def Sections.clauses : Sections → List Clause
  | .nil => []
  | .elems _ es t => es.clauses ++ t.clauses
  | .eqs _ _ t => t.clauses
  | .algs _ _ t => t.clauses

/-- The class's own component clauses, in source order. -/
def ClassSrc.clauses : ClassSrc → List Clause
  | .mk _ first ss => first.clauses ++ ss.clauses

/-- What the source says about one declared component. -/
structure SymView where
  name : String
  type : List String
  prefixes : List String
  dims : List (List Expr)
  comment : String
  cmod : Option (List String)
  deriving DecidableEq, Repr

def Sym.view (y : Sym) : SymView := ⟨y.name, y.type, y.prefixes, y.dims, y.comment, y.cmod⟩

/-- Dimensions of a declarator: its own subscripts first, then the clause's (`Real[3] b[2]` is a
    2 x 3 array), the default when there are none. -/
def dimsSpec (cdims own : Option (List Expr)) : List (List Expr) :=
  match cdims, own with
  | some c, some o => [o, c]
  | some c, none => [c]
  | none, some o => [o]
  | none, none => defaultDims

def Clause.views (c : Clause) : List SymView :=
  c.decls.map fun d => ⟨d.name, c.type, c.prefixes, dimsSpec c.cdims d.dims, d.comment, applyMod none d.mod⟩

def Clause.names (c : Clause) : List String := c.decls.map (·.name)

def ClassSrc.views (c : ClassSrc) : List SymView := c.clauses.flatMap Clause.views
def ClassSrc.names (c : ClassSrc) : List String := c.clauses.flatMap Clause.names

def Elems.exts : Elems → List ExtSrc
  | .nil => []
  | .comp _ t => t.exts
  | .ext e t => e :: t.exts
  | .imp _ t => t.exts
  | .cls _ t => t.exts
  | .short _ t => t.exts

def Elems.imps : Elems → List ImpSrc
  | .nil => []
  | .comp _ t => t.imps
  | .ext _ t => t.imps
  | .imp i t => i :: t.imps
  | .cls _ t => t.imps
  | .short _ t => t.imps

/-- Number of declarators an element list holds itself. -/
def Elems.declCount (es : Elems) : Nat := (es.clauses.map (·.decls.length)).sum

/-- Labels of the class's element lists: `none` for the leading one, then one per public/protected section. -/
def Sections.labels : Sections → List (Option Vis)
  | .nil => []
  | .elems v _ t => some v :: t.labels
  | .eqs _ _ t => t.labels
  | .algs _ _ t => t.labels

def ClassSrc.labels : ClassSrc → List (Option Vis)
  | .mk _ _ ss => none :: ss.labels

/-- For every declarator of the later sections, the index of the element list it stands in. -/
def Sections.secs : Sections → Nat → List Nat
  | .nil, _ => []
  | .elems _ es t, i => List.replicate es.declCount i ++ t.secs (i + 1)
  | .eqs _ _ t, i => t.secs i
  | .algs _ _ t, i => t.secs i

def ClassSrc.secs : ClassSrc → List Nat
  | .mk _ first ss => List.replicate first.declCount 0 ++ ss.secs 1

def Sections.exts : Sections → List ExtSrc
  | .nil => []
  | .elems _ es t => es.exts ++ t.exts
  | .eqs _ _ t => t.exts
  | .algs _ _ t => t.exts

def ClassSrc.exts : ClassSrc → List ExtSrc
  | .mk _ first ss => first.exts ++ ss.exts

def Sections.extSecs : Sections → Nat → List Nat
  | .nil, _ => []
  | .elems _ es t, i => List.replicate es.exts.length i ++ t.extSecs (i + 1)
  | .eqs _ _ t, i => t.extSecs i
  | .algs _ _ t, i => t.extSecs i

def ClassSrc.extSecs : ClassSrc → List Nat
  | .mk _ first ss => List.replicate first.exts.length 0 ++ ss.extSecs 1

def Sections.imps : Sections → List ImpSrc
  | .nil => []
  | .elems _ es t => es.imps ++ t.imps
  | .eqs _ _ t => t.imps
  | .algs _ _ t => t.imps

def ClassSrc.imps : ClassSrc → List ImpSrc
  | .mk _ first ss => first.imps ++ ss.imps

/-- `exitImport_clause` for a sequence of import clauses. -/
def importsFold : List ImpSrc → List (String × ImportVal) → Except Err (List (String × ImportVal))
  | [], imps => .ok imps
  | i :: t, imps =>
    match addImport imps i with
    | .ok imps' => importsFold t imps'
    | .error e => .error e

/-- For every declarator of the later sections, the visibility of the section it stands in. -/
def Sections.declVis : Sections → List Vis
  | .nil => []
  | .elems v es t => List.replicate es.declCount v ++ t.declVis
  | .eqs _ _ t => t.declVis
  | .algs _ _ t => t.declVis

/-- For every declarator of the class, the visibility its section gives it (`private` is pymoca's
    name for "the leading, unlabelled element list"). -/
def ClassSrc.declVis : ClassSrc → List Vis
  | .mk _ first ss => List.replicate first.declCount .priv ++ ss.declVis

def Sections.extVis : Sections → List Vis
  | .nil => []
  | .elems v es t => List.replicate es.exts.length v ++ t.extVis
  | .eqs _ _ t => t.extVis
  | .algs _ _ t => t.extVis

def ClassSrc.extVis : ClassSrc → List Vis
  | .mk _ first ss => List.replicate first.exts.length .priv ++ ss.extVis

/-- Equations (`alg = false`) or statements (`alg = true`) of the sections with the given `initial`
    flag, concatenated in source order. -/
def Sections.items (alg initial : Bool) : Sections → List String
  | .nil => []
  | .elems _ _ t => t.items alg initial
  | .eqs ini xs t => (if !alg && ini == initial then xs else []) ++ t.items alg initial
  | .algs ini xs t => (if alg && ini == initial then xs else []) ++ t.items alg initial

/-- Nested class definitions an element list holds itself: long (`inl`) or short (`inr`) form. -/
def Elems.nested : Elems → List (ClassSrc ⊕ ShortSrc)
  | .nil => []
  | .comp _ t => t.nested
  | .ext _ t => t.nested
  | .imp _ t => t.nested
  | .cls c t => .inl c :: t.nested
  | .short s t => .inr s :: t.nested

def Sections.nested : Sections → List (ClassSrc ⊕ ShortSrc)
  | .nil => []
  | .elems _ es t => es.nested ++ t.nested
  | .eqs _ _ t => t.nested
  | .algs _ _ t => t.nested

def ClassSrc.nested : ClassSrc → List (ClassSrc ⊕ ShortSrc)
  | .mk _ first ss => first.nested ++ ss.nested

mutual
/-- A class description and every class description nested in it (long form), in source order. -/
def ClassSrc.deep : ClassSrc → List ClassSrc
  | .mk h first ss => .mk h first ss :: (first.deep ++ ss.deep)
def Elems.deep : Elems → List ClassSrc
  | .nil => []
  | .comp _ t => t.deep
  | .ext _ t => t.deep
  | .imp _ t => t.deep
  | .cls c t => c.deep ++ t.deep
  | .short _ t => t.deep
def Sections.deep : Sections → List ClassSrc
  | .nil => []
  | .elems _ es t => es.deep ++ t.deep
  | .eqs _ _ t => t.deep
  | .algs _ _ t => t.deep
end

def ClassSrc.name : ClassSrc → String
  | .mk h _ _ => h.name

def nestedName : ClassSrc ⊕ ShortSrc → String
  | .inl c => c.name
  | .inr s => s.name

mutual
/-- Every symbol of a class and of the classes nested in it. -/
def deepSyms : ClassAst → List Sym
  | .mk i cs => deepSymsList cs ++ i.symbols
def deepSymsList : List ClassAst → List Sym
  | [] => []
  | c :: t => deepSyms c ++ deepSymsList t
end

/-- The Python objects `type`, `dimensions`, `prefixes` of two symbols are pairwise different objects. -/
def Sym.Distinct (y z : Sym) : Prop := y.typeId ≠ z.typeId ∧ y.dimsId ≠ z.dimsId ∧ y.prefId ≠ z.prefId

end PymocaVerif.ClassAsm
