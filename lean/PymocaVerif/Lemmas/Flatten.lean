import PymocaVerif.Model.FlattenSpec
/-! Lemmas relating the executable instantiation (`elemOf`, `membersF`, `memberEqsF`, `instF`)
    to the specification relations of `Model/FlattenSpec.lean`. -/
namespace PymocaVerif.Flatten

/-! ## `mapE`, `firstBad`, `dupName` -/

/-- pointwise relation of two lists of equal length -/
inductive All2 {α β : Type} (R : α → β → Prop) : List α → List β → Prop
  | nil : All2 R [] []
  | cons {a : α} {b : β} {as : List α} {bs : List β} : R a b → All2 R as bs → All2 R (a :: as) (b :: bs)

theorem mapE_forall2 {α β ε : Type} {f : α → Except ε β} {l : List α} {r : List β}
    (h : mapE f l = .ok r) : All2 (fun a b => f a = .ok b) l r := by
  induction l generalizing r with
  | nil => simp [mapE] at h; subst h; exact .nil
  | cons a as ih =>
    simp only [mapE] at h
    split at h
    · cases h
    · rename_i b hb
      split at h
      · cases h
      · rename_i bs hbs
        cases h
        exact .cons hb (ih hbs)

theorem All2.mem_right {α β : Type} {R : α → β → Prop} {l : List α} {r : List β} (h : All2 R l r)
    {b : β} (hb : b ∈ r) : ∃ a ∈ l, R a b := by
  induction h with
  | nil => cases hb
  | cons hab _ ih =>
    cases hb with
    | head => exact ⟨_, by simp, hab⟩
    | tail _ hb' =>
      obtain ⟨a, ha, hfa⟩ := ih hb'
      exact ⟨a, by simp [ha], hfa⟩

theorem All2.mem_left {α β : Type} {R : α → β → Prop} {l : List α} {r : List β} (h : All2 R l r)
    {a : α} (ha : a ∈ l) : ∃ b ∈ r, R a b := by
  induction h with
  | nil => cases ha
  | cons hab _ ih =>
    cases ha with
    | head => exact ⟨_, by simp, hab⟩
    | tail _ ha' =>
      obtain ⟨b, hb, hfa⟩ := ih ha'
      exact ⟨b, by simp [hb], hfa⟩

theorem mapE_mem_right {α β ε : Type} {f : α → Except ε β} {l : List α} {r : List β}
    (h : mapE f l = .ok r) {b : β} (hb : b ∈ r) : ∃ a ∈ l, f a = .ok b :=
  (mapE_forall2 h).mem_right hb

theorem mapE_mem_left {α β ε : Type} {f : α → Except ε β} {l : List α} {r : List β}
    (h : mapE f l = .ok r) {a : α} (ha : a ∈ l) : ∃ b ∈ r, f a = .ok b :=
  (mapE_forall2 h).mem_left ha

theorem firstBad_none {α : Type} {p : α → Bool} {l : List α} (h : firstBad p l = none) :
    ∀ a ∈ l, p a = false := by
  induction l with
  | nil => intro a ha; cases ha
  | cons x xs ih =>
    simp only [firstBad] at h
    split at h
    · cases h
    · intro a ha
      cases ha with
      | head => simpa using ‹¬ p x = true›
      | tail _ ha' => exact ih h a ha'

theorem dupName_none {l : List Name} (h : dupName l = none) : l.Nodup := by
  induction l with
  | nil => exact List.nodup_nil
  | cons x xs ih =>
    simp only [dupName] at h
    split at h
    · cases h
    · rename_i hx
      exact List.nodup_cons.mpr ⟨by simpa using hx, ih h⟩

/-! ## elementary types -/

theorem IsElem.det {lib : Lib} {t : Ty} {b b' : String} (h : IsElem lib t b) (h' : IsElem lib t b') : b = b' := by
  induction h generalizing b' with
  | builtin b => cases h'; rfl
  | short hf hs he _ ih =>
    cases h' with
    | short hf' hs' he' h'' =>
      rw [hf] at hf'; cases hf'
      rw [he] at he'; cases he'
      exact ih h''

theorem elemOf_some {f : Nat} {lib : Lib} {t : Ty} {b : String} {ms : List (List Mod)}
    (h : elemOf f lib t = .ok (some (b, ms))) : IsElem lib t b := by
  induction f generalizing t b ms with
  | zero =>
    cases t with
    | builtin b' => simp [elemOf] at h; rw [← h.1]; exact .builtin _
    | cls p => simp [elemOf] at h
  | succ f ih =>
    cases t with
    | builtin b' => simp [elemOf] at h; rw [← h.1]; exact .builtin _
    | cls p =>
      simp only [elemOf] at h
      split at h
      · cases h
      · rename_i d hd
        split at h
        · rename_i hs
          split at h
          · rename_i t' m hex
            split at h
            · cases h
            · cases h
            · rename_i b' ms' hrec
              cases h
              exact .short hd hs hex (ih hrec)
          · cases h
        · cases h

theorem elemOf_none {f : Nat} {lib : Lib} {t : Ty} (h : elemOf f lib t = .ok none) : ∀ b, ¬ IsElem lib t b := by
  induction f generalizing t with
  | zero =>
    cases t with
    | builtin b' => simp [elemOf] at h
    | cls p => simp [elemOf] at h
  | succ f ih =>
    cases t with
    | builtin b' => simp [elemOf] at h
    | cls p =>
      simp only [elemOf] at h
      split at h
      · cases h
      · rename_i d hd
        split at h
        · rename_i hs
          split at h
          · rename_i t' m hex
            split at h
            · cases h
            · rename_i hrec
              intro b hb
              cases hb with
              | short hf' hs' he' h'' =>
                rw [hd] at hf'; cases hf'
                rw [hex] at he'; cases he'
                exact ih hrec b h''
            · cases h
          · cases h
        · rename_i hs
          intro b hb
          cases hb with
          | short hf' hs' he' h'' =>
            rw [hd] at hf'; cases hf'
            exact hs hs'

/-! ## members -/

theorem inheritStep_ok {elem : Ty → Except Err (Option (String × List (List Mod)))}
    {rec : Path → Except Err (List Member)} {tm : Ty × List Mod} {l : List Member}
    (h : inheritStep elem rec tm = .ok l) :
    ∃ b ms, tm.1 = .cls b ∧ elem (.cls b) = .ok none ∧ rec b = .ok ms ∧
      (∀ m ∈ tm.2, Mod.headIn (ms.map (·.comp.name)) m = true) ∧
      l = ms.map (fun x => { x with ext := x.ext ++ [tm.2] }) := by
  unfold inheritStep at h
  split at h
  · cases h
  · rename_i b hb
    split at h
    · cases h
    · cases h
    · rename_i he
      split at h
      · cases h
      · rename_i ms hr
        split at h
        · cases h
        · rename_i hfb
          cases h
          refine ⟨b, ms, hb, he, hr, ?_, rfl⟩
          intro m hm
          have := firstBad_none hfb m hm
          simpa using this

theorem membersF_ok {f : Nat} {lib : Lib} {p : Path} {ms : List Member} (h : membersF f lib p = .ok ms) :
    ∃ f' d inh, f = f' + 1 ∧ lib.find p = some d ∧
      mapE (inheritStep (elemOf f' lib) (membersF f' lib)) d.exts = .ok inh ∧
      ms = inh.flatten ++ d.comps.map (fun k => { comp := k, ext := [] }) := by
  cases f with
  | zero => simp [membersF] at h
  | succ f' =>
    simp only [membersF] at h
    split at h
    · cases h
    · rename_i d hd
      split at h
      · cases h
      · rename_i inh hi
        cases h
        exact ⟨f', d, inh, rfl, hd, hi, rfl⟩

theorem members_sound {f : Nat} {lib : Lib} {p : Path} {ms : List Member} (h : membersF f lib p = .ok ms)
    {m : Member} (hm : m ∈ ms) : MemberOf lib p m.comp := by
  induction f generalizing p ms m with
  | zero => simp [membersF] at h
  | succ f ih =>
    obtain ⟨f', d, inh, hf, hd, hi, rfl⟩ := membersF_ok h
    cases hf
    rcases List.mem_append.mp hm with hm | hm
    · obtain ⟨l, hl, hml⟩ := List.mem_flatten.mp hm
      obtain ⟨tm, htm, hstep⟩ := mapE_mem_right hi hl
      obtain ⟨b, ms', htb, _, hrec, _, rfl⟩ := inheritStep_ok hstep
      obtain ⟨x, hx, rfl⟩ := List.mem_map.mp hml
      have : (tm.1, tm.2) ∈ d.exts := htm
      rw [htb] at this
      exact .inh hd this (ih (m := x) hrec hx)
    · obtain ⟨k, hk, rfl⟩ := List.mem_map.mp hm
      exact .own hd hk

theorem members_complete {lib : Lib} {p : Path} {k : Comp} (hk : MemberOf lib p k) :
    ∀ {f : Nat} {ms : List Member}, membersF f lib p = .ok ms → ∃ m ∈ ms, m.comp = k := by
  induction hk with
  | own hd hk =>
    intro f ms h
    obtain ⟨f', d', inh, _, hd', _, rfl⟩ := membersF_ok h
    rw [hd] at hd'; cases hd'
    exact ⟨{ comp := _, ext := [] }, List.mem_append_right _ (List.mem_map.mpr ⟨_, hk, rfl⟩), rfl⟩
  | inh hd he _ ih =>
    intro f ms h
    obtain ⟨f', d', inh, _, hd', hi, rfl⟩ := membersF_ok h
    rw [hd] at hd'; cases hd'
    obtain ⟨l, hl, hstep⟩ := mapE_mem_left hi he
    obtain ⟨b', ms', htb, _, hrec, _, rfl⟩ := inheritStep_ok hstep
    cases htb
    obtain ⟨x, hx, hxk⟩ := ih hrec
    exact ⟨{ x with ext := x.ext ++ [_] }, List.mem_append_left _
      (List.mem_flatten.mpr ⟨_, hl, List.mem_map.mpr ⟨x, hx, rfl⟩⟩), hxk⟩

/-- every extends-clause modification list attached to a member is one of the class or a base -/
theorem members_ext {f : Nat} {lib : Lib} {p : Path} {ms : List Member} (h : membersF f lib p = .ok ms)
    {m : Member} (hm : m ∈ ms) {l : List Mod} (hl : l ∈ m.ext) : ExtClauseOf lib p l := by
  induction f generalizing p ms m with
  | zero => simp [membersF] at h
  | succ f ih =>
    obtain ⟨f', d, inh, hf, hd, hi, rfl⟩ := membersF_ok h
    cases hf
    rcases List.mem_append.mp hm with hm | hm
    · obtain ⟨l', hl', hml⟩ := List.mem_flatten.mp hm
      obtain ⟨tm, htm, hstep⟩ := mapE_mem_right hi hl'
      obtain ⟨b, ms', htb, _, hrec, _, rfl⟩ := inheritStep_ok hstep
      obtain ⟨x, hx, rfl⟩ := List.mem_map.mp hml
      have htm' : (tm.1, tm.2) ∈ d.exts := htm
      rcases List.mem_append.mp hl with hl | hl
      · rw [htb] at htm'
        exact .inh hd htm' (ih hrec hx hl)
      · simp at hl; subst hl
        exact .own hd htm'
    · obtain ⟨k, hk, rfl⟩ := List.mem_map.mp hm
      cases hl

/-- modifications of an extends clause name members of the base (checked by `membersF`) -/
theorem members_ext_heads {f : Nat} {lib : Lib} {p : Path} {ms : List Member} (h : membersF f lib p = .ok ms)
    {m : Member} (hm : m ∈ ms) {l : List Mod} (hl : l ∈ m.ext) {x : Mod} (hx : x ∈ l) : x.path ≠ [] := by
  induction f generalizing p ms m with
  | zero => simp [membersF] at h
  | succ f ih =>
    obtain ⟨f', d, inh, hf, hd, hi, rfl⟩ := membersF_ok h
    cases hf
    rcases List.mem_append.mp hm with hm | hm
    · obtain ⟨l', hl', hml⟩ := List.mem_flatten.mp hm
      obtain ⟨tm, htm, hstep⟩ := mapE_mem_right hi hl'
      obtain ⟨b, ms', htb, _, hrec, hheads, rfl⟩ := inheritStep_ok hstep
      obtain ⟨y, hy, rfl⟩ := List.mem_map.mp hml
      rcases List.mem_append.mp hl with hl | hl
      · exact ih hrec hy hl
      · simp at hl; subst hl
        have := hheads x hx
        intro hnil
        simp [Mod.headIn, hnil] at this
    · obtain ⟨k, hk, rfl⟩ := List.mem_map.mp hm
      cases hl

/-! ## the instance tree: decomposition of a successful `instF` -/

/-- input/output are kept exactly on paths of length one -/
def keepIO (n : Nat) (prefixes : List String) : List String :=
  if n = 1 then prefixes else prefixes.filter fun x => x != "input" && x != "output"

theorem stripIO_eq (P : Path) (pre : List String) : stripIO P pre = keepIO (P.length + 1) pre := by
  cases P <;> simp [stripIO, keepIO]

theorem mkLeaf_ok {P : Path} {k : Comp} {b : String} {tms : List (List Mod)} {all : List MMod} {dims : List Nat}
    {r : List Var × List IEq} (h : mkLeaf P k b tms all dims = .ok r) :
    ∃ tm, typeMods P tms = .ok tm ∧ (∀ m ∈ tm ++ all, okLeafPath m.path = true) ∧
      r = ([{ path := P ++ [k.name], ty := b, prefixes := stripIO P k.prefixes, dims := dims ++ k.dims,
              binds := tm ++ all }], []) := by
  unfold mkLeaf at h
  split at h
  · cases h
  · rename_i tm htm
    split at h
    · cases h
    · rename_i hfb
      cases h
      refine ⟨tm, htm, ?_, rfl⟩
      intro m hm
      simpa using firstBad_none hfb m hm

theorem instStep_ok {elem : Ty → Except Err (Option (String × List (List Mod)))}
    {rec : Path → Path → List MMod → List Nat → Except Err (List Var × List IEq)}
    {P : Path} {outer : List MMod} {dims : List Nat} {m : Member} {r : List Var × List IEq}
    (h : instStep elem rec P outer dims m = .ok r) :
    (∃ b tms, elem m.comp.ty = .ok (some (b, tms)) ∧
        mkLeaf P m.comp b tms (allMods P m.comp m.ext outer) dims = .ok r) ∨
    (∃ c', elem m.comp.ty = .ok none ∧ m.comp.ty = .cls c' ∧
        rec c' (P ++ [m.comp.name]) (allMods P m.comp m.ext outer) (dims ++ m.comp.dims) = .ok r) := by
  unfold instStep at h
  split at h
  · cases h
  · rename_i b tms he
    exact .inl ⟨b, tms, he, h⟩
  · rename_i he
    split at h
    · cases h
    · rename_i c' hc
      exact .inr ⟨c', he, hc, h⟩

theorem instF_ok {f : Nat} {lib : Lib} {c P : Path} {outer : List MMod} {dims : List Nat}
    {r : List Var × List IEq} (h : instF f lib c P outer dims = .ok r) :
    ∃ f' ms eqs rs, f = f' + 1 ∧ membersF f' lib c = .ok ms ∧ (ms.map (·.comp.name)).Nodup ∧
      (∀ m ∈ outer, MMod.headIn (ms.map (·.comp.name)) m = true) ∧ memberEqsF f' lib c = .ok eqs ∧
      mapE (instStep (elemOf f' lib) (instF f' lib) P outer dims) ms = .ok rs ∧
      r = ((rs.map (·.1)).flatten,
           (rs.map (·.2)).flatten ++ eqs.map fun e => { scope := P, eq := e }) := by
  cases f with
  | zero => simp [instF] at h
  | succ f' =>
    simp only [instF] at h
    split at h
    · cases h
    · rename_i ms hms
      split at h
      · cases h
      · rename_i hdup
        split at h
        · cases h
        · rename_i hfb
          split at h
          · cases h
          · rename_i eqs heqs
            split at h
            · cases h
            · rename_i rs hrs
              cases h
              refine ⟨f', ms, eqs, rs, rfl, hms, dupName_none hdup, ?_, heqs, hrs, rfl⟩
              intro m hm
              simpa using firstBad_none hfb m hm

/-! ## flat variables are exactly the leaves -/

theorem Leaf.ne_nil {lib : Lib} {c q : Path} {k : Comp} {b : String} {ds : List Nat}
    (h : Leaf lib c q k b ds) : q ≠ [] := by
  cases h <;> simp

theorem inst_vars_sound {f : Nat} {lib : Lib} {c P : Path} {outer : List MMod} {dims : List Nat}
    {r : List Var × List IEq} (h : instF f lib c P outer dims = .ok r) {v : Var} (hv : v ∈ r.1) :
    ∃ q k b ds, v.path = P ++ q ∧ Leaf lib c q k b ds ∧ v.ty = b ∧ v.dims = dims ++ ds ∧
      v.prefixes = keepIO (P.length + q.length) k.prefixes := by
  induction f generalizing c P outer dims r v with
  | zero => simp [instF] at h
  | succ f ih =>
    obtain ⟨f', ms, eqs, rs, hf, hms, _, _, _, hrs, rfl⟩ := instF_ok h
    cases hf
    obtain ⟨l, hl, hvl⟩ := List.mem_flatten.mp hv
    obtain ⟨r', hr', rfl⟩ := List.mem_map.mp hl
    obtain ⟨m, hm, hstep⟩ := mapE_mem_right hrs hr'
    have hmem := members_sound hms hm
    rcases instStep_ok hstep with ⟨b, tms, he, hleaf⟩ | ⟨c', he, hc, hrec⟩
    · obtain ⟨tm, _, _, rfl⟩ := mkLeaf_ok hleaf
      simp at hvl
      subst hvl
      exact ⟨[m.comp.name], m.comp, b, m.comp.dims, rfl, .leaf hmem (elemOf_some he), rfl, rfl,
        by simp [stripIO_eq]⟩
    · obtain ⟨q, k, b, ds, hp, hleaf, ht, hd, hpre⟩ := ih hrec hvl
      refine ⟨m.comp.name :: q, k, b, m.comp.dims ++ ds, by simp [hp], .sub hmem hc (elemOf_none he) hleaf, ht,
        by simp [hd], ?_⟩
      rw [hpre]
      congr 1
      simp
      omega

theorem inst_vars_complete {lib : Lib} {c q : Path} {k : Comp} {b : String} {ds : List Nat}
    (hl : Leaf lib c q k b ds) :
    ∀ {f : Nat} {P : Path} {outer : List MMod} {dims : List Nat} {r : List Var × List IEq},
      instF f lib c P outer dims = .ok r →
      ∃ v ∈ r.1, v.path = P ++ q ∧ v.ty = b ∧ v.dims = dims ++ ds ∧
        v.prefixes = keepIO (P.length + q.length) k.prefixes := by
  induction hl with
  | leaf hmem helem =>
    intro f P outer dims r h
    obtain ⟨f', ms, eqs, rs, hf, hms, _, _, _, hrs, rfl⟩ := instF_ok h
    obtain ⟨m, hm, rfl⟩ := members_complete hmem hms
    obtain ⟨r', hr', hstep⟩ := mapE_mem_left hrs hm
    rcases instStep_ok hstep with ⟨b', tms, he, hleaf⟩ | ⟨c', he, _, _⟩
    · obtain ⟨tm, _, _, rfl⟩ := mkLeaf_ok hleaf
      have hb : b' = _ := (elemOf_some he).det helem
      refine ⟨_, List.mem_flatten.mpr ⟨_, List.mem_map.mpr ⟨_, hr', rfl⟩, List.mem_singleton.mpr rfl⟩,
        rfl, hb, rfl, by simp [stripIO_eq]⟩
    · exact absurd helem (elemOf_none he _)
  | sub hmem hc hne _ ih =>
    intro f P outer dims r h
    obtain ⟨f', ms, eqs, rs, hf, hms, _, _, _, hrs, rfl⟩ := instF_ok h
    obtain ⟨m, hm, rfl⟩ := members_complete hmem hms
    obtain ⟨r', hr', hstep⟩ := mapE_mem_left hrs hm
    rcases instStep_ok hstep with ⟨b', tms, he, _⟩ | ⟨c'', he, hc', hrec⟩
    · exact absurd (elemOf_some he) (hne _)
    · rw [hc] at hc'; cases hc'
      obtain ⟨v, hv, hp, ht, hd, hpre⟩ := ih hrec
      refine ⟨v, List.mem_flatten.mpr ⟨_, List.mem_map.mpr ⟨_, hr', rfl⟩, hv⟩, by simp [hp], ht, by simp [hd], ?_⟩
      rw [hpre]
      congr 1
      simp
      omega

/-! ## no flat variable occurs twice -/

theorem All2.imp {α β : Type} {R S : α → β → Prop} {l : List α} {r : List β} (h : All2 R l r)
    (hi : ∀ a ∈ l, ∀ b, R a b → S a b) : All2 S l r := by
  induction h with
  | nil => exact .nil
  | cons hab _ ih =>
    exact .cons (hi _ (by simp) _ hab) (ih fun a ha b hr => hi a (by simp [ha]) b hr)

theorem nodup_blocks (P : Path) {ms : List Member} {rs : List (List Var × List IEq)}
    (hA : All2 (fun m r' => (r'.1.map (·.path)).Nodup ∧ ∀ v ∈ r'.1, ∃ q, v.path = P ++ m.comp.name :: q) ms rs)
    (hn : (ms.map (·.comp.name)).Nodup) : (((rs.map (·.1)).flatten).map (·.path)).Nodup := by
  induction hA with
  | nil => simp
  | @cons m r' ms' rs' hmr hrest ih =>
    simp only [List.map_cons, List.flatten_cons, List.map_append]
    have hn' := List.nodup_cons.mp hn
    refine List.nodup_append.mpr ⟨hmr.1, ih hn'.2, ?_⟩
    intro a ha b hb hab
    obtain ⟨v, hv, rfl⟩ := List.mem_map.mp ha
    obtain ⟨w, hw, rfl⟩ := List.mem_map.mp hb
    obtain ⟨q, hq⟩ := hmr.2 v hv
    obtain ⟨l, hl, hwl⟩ := List.mem_flatten.mp hw
    obtain ⟨r'', hr'', rfl⟩ := List.mem_map.mp hl
    obtain ⟨m', hm', hR⟩ := hrest.mem_right hr''
    obtain ⟨q', hq'⟩ := hR.2 w hwl
    rw [hq, hq'] at hab
    have := List.append_cancel_left hab
    simp at this
    exact hn'.1 (List.mem_map.mpr ⟨m', hm', this.1.symm⟩)

theorem inst_paths_below {f : Nat} {lib : Lib} {c P : Path} {outer : List MMod} {dims : List Nat}
    {r : List Var × List IEq} (h : instF f lib c P outer dims = .ok r) {v : Var} (hv : v ∈ r.1) :
    ∃ n q, v.path = P ++ n :: q := by
  obtain ⟨q, k, b, ds, hp, hl, _⟩ := inst_vars_sound h hv
  cases q with
  | nil => exact absurd rfl hl.ne_nil
  | cons n q => exact ⟨n, q, hp⟩

theorem inst_nodup {f : Nat} {lib : Lib} {c P : Path} {outer : List MMod} {dims : List Nat}
    {r : List Var × List IEq} (h : instF f lib c P outer dims = .ok r) : (r.1.map (·.path)).Nodup := by
  induction f generalizing c P outer dims r with
  | zero => simp [instF] at h
  | succ f ih =>
    obtain ⟨f', ms, eqs, rs, hf, hms, hn, _, _, hrs, rfl⟩ := instF_ok h
    cases hf
    refine nodup_blocks P ((mapE_forall2 hrs).imp ?_) hn
    intro m _ r' hstep
    rcases instStep_ok hstep with ⟨b, tms, he, hleaf⟩ | ⟨c', he, hc, hrec⟩
    · obtain ⟨tm, _, _, rfl⟩ := mkLeaf_ok hleaf
      refine ⟨by simp, ?_⟩
      intro v hv
      simp at hv
      subst hv
      exact ⟨[], rfl⟩
    · refine ⟨ih hrec, ?_⟩
      intro v hv
      obtain ⟨n, q, hp⟩ := inst_paths_below hrec hv
      exact ⟨n :: q, by simp [hp]⟩

/-! ## equations -/

theorem memberEqsF_ok {f : Nat} {lib : Lib} {p : Path} {es : List Eqn} (h : memberEqsF f lib p = .ok es) :
    ∃ f' d inh, f = f' + 1 ∧ lib.find p = some d ∧
      mapE (inheritEqStep (memberEqsF f' lib)) d.exts = .ok inh ∧ es = inh.flatten ++ d.eqs := by
  cases f with
  | zero => simp [memberEqsF] at h
  | succ f' =>
    simp only [memberEqsF] at h
    split at h
    · cases h
    · rename_i d hd
      split at h
      · cases h
      · rename_i inh hi
        cases h
        exact ⟨f', d, inh, rfl, hd, hi, rfl⟩

theorem inheritEqStep_ok {rec : Path → Except Err (List Eqn)} {tm : Ty × List Mod}
    {l : List Eqn} (h : inheritEqStep rec tm = .ok l) : ∃ b, tm.1 = .cls b ∧ rec b = .ok l := by
  unfold inheritEqStep at h
  split at h
  · cases h
  · rename_i b hb
    exact ⟨b, hb, h⟩

theorem memberEqs_sound {f : Nat} {lib : Lib} {p : Path} {es : List Eqn} (h : memberEqsF f lib p = .ok es)
    {e : Eqn} (he : e ∈ es) : MemberEq lib p e := by
  induction f generalizing p es e with
  | zero => simp [memberEqsF] at h
  | succ f ih =>
    obtain ⟨f', d, inh, hf, hd, hi, rfl⟩ := memberEqsF_ok h
    cases hf
    rcases List.mem_append.mp he with he | he
    · obtain ⟨l, hl, hel⟩ := List.mem_flatten.mp he
      obtain ⟨tm, htm, hstep⟩ := mapE_mem_right hi hl
      obtain ⟨b, htb, hrec⟩ := inheritEqStep_ok hstep
      have : (tm.1, tm.2) ∈ d.exts := htm
      rw [htb] at this
      exact .inh hd this (ih hrec hel)
    · exact .own hd he

theorem memberEqs_complete {lib : Lib} {p : Path} {e : Eqn} (he : MemberEq lib p e) :
    ∀ {f : Nat} {es : List Eqn}, memberEqsF f lib p = .ok es → e ∈ es := by
  induction he with
  | own hd he =>
    intro f es h
    obtain ⟨f', d', inh, _, hd', _, rfl⟩ := memberEqsF_ok h
    rw [hd] at hd'; cases hd'
    exact List.mem_append_right _ he
  | inh hd hx _ ih =>
    intro f es h
    obtain ⟨f', d', inh, _, hd', hi, rfl⟩ := memberEqsF_ok h
    rw [hd] at hd'; cases hd'
    obtain ⟨l, hl, hstep⟩ := mapE_mem_left hi hx
    obtain ⟨b', htb, hrec⟩ := inheritEqStep_ok hstep
    cases htb
    exact List.mem_append_left _ (List.mem_flatten.mpr ⟨l, hl, ih hrec⟩)

theorem inst_eqs_sound {f : Nat} {lib : Lib} {c P : Path} {outer : List MMod} {dims : List Nat}
    {r : List Var × List IEq} (h : instF f lib c P outer dims = .ok r) {e : IEq} (he : e ∈ r.2) :
    ∃ q c', e.scope = P ++ q ∧ InstAt lib c q c' ∧ MemberEq lib c' e.eq := by
  induction f generalizing c P outer dims r e with
  | zero => simp [instF] at h
  | succ f ih =>
    obtain ⟨f', ms, eqs, rs, hf, hms, _, _, heqs, hrs, rfl⟩ := instF_ok h
    cases hf
    rcases List.mem_append.mp he with he | he
    · obtain ⟨l, hl, hel⟩ := List.mem_flatten.mp he
      obtain ⟨r', hr', rfl⟩ := List.mem_map.mp hl
      obtain ⟨m, hm, hstep⟩ := mapE_mem_right hrs hr'
      have hmem := members_sound hms hm
      rcases instStep_ok hstep with ⟨b, tms, hel', hleaf⟩ | ⟨c', hel', hc, hrec⟩
      · obtain ⟨tm, _, _, rfl⟩ := mkLeaf_ok hleaf
        cases hel
      · obtain ⟨q, c'', hs, hi, hme⟩ := ih hrec hel
        exact ⟨m.comp.name :: q, c'', by simp [hs], .sub hmem hc (elemOf_none hel') hi, hme⟩
    · obtain ⟨x, hx, rfl⟩ := List.mem_map.mp he
      exact ⟨[], c, by simp, .here c, memberEqs_sound heqs hx⟩

theorem inst_eqs_complete {lib : Lib} {c q c' : Path} (hi : InstAt lib c q c') {x : Eqn}
    (hx : MemberEq lib c' x) :
    ∀ {f : Nat} {P : Path} {outer : List MMod} {dims : List Nat} {r : List Var × List IEq},
      instF f lib c P outer dims = .ok r → ({ scope := P ++ q, eq := x } : IEq) ∈ r.2 := by
  induction hi with
  | here c =>
    intro f P outer dims r h
    obtain ⟨f', ms, eqs, rs, hf, hms, _, _, heqs, hrs, rfl⟩ := instF_ok h
    refine List.mem_append_right _ (List.mem_map.mpr ⟨x, memberEqs_complete hx heqs, by simp⟩)
  | sub hmem hc hne _ ih =>
    intro f P outer dims r h
    obtain ⟨f', ms, eqs, rs, hf, hms, _, _, heqs, hrs, rfl⟩ := instF_ok h
    obtain ⟨m, hm, rfl⟩ := members_complete hmem hms
    obtain ⟨r', hr', hstep⟩ := mapE_mem_left hrs hm
    rcases instStep_ok hstep with ⟨b', tms, he, _⟩ | ⟨c'', he, hc', hrec⟩
    · exact absurd (elemOf_some he) (hne _)
    · rw [hc] at hc'; cases hc'
      have := ih hx hrec
      refine List.mem_append_left _ (List.mem_flatten.mpr ⟨_, List.mem_map.mpr ⟨_, hr', rfl⟩, ?_⟩)
      simpa using this

end PymocaVerif.Flatten
