#!/venv/bin/python
"""Regenerates MANIFEST.json from the metadata each harness/props/cXX.py declares
(`MANIFEST = dict(level_text=, level_note=, technique=, design_ref=)`) and from
tools/not_applicable.json.  Run after adding a property module."""
import importlib
import json
import os
import sys

VERIF = os.path.dirname(os.path.dirname(os.path.abspath(__file__)))
sys.path.insert(0, VERIF)
props = [json.loads(l)["id"] for l in open(os.path.join(VERIF, "properties.jsonl"))]
na_path = os.path.join(VERIF, "tools", "not_applicable.json")
na = json.load(open(na_path)) if os.path.exists(na_path) else {}
checks, not_app = [], []
for pid in props:
    path = os.path.join(VERIF, "harness", "props", pid.lower() + ".py")
    if not os.path.exists(path) or pid in na:
        not_app.append({"property_id": pid, "reason": na.get(pid, "check not built yet (work in progress, see DESIGN.md section 12)")})
        continue
    m = importlib.import_module("harness.props." + pid.lower())
    if not getattr(m, "READY", False):
        not_app.append({"property_id": pid, "reason": na.get(pid, "check under construction (module present but not marked READY)")})
        continue
    md = m.MANIFEST
    checks.append({
        "property_id": pid,
        "quick_cmd": "/venv/bin/python check.py %s --tier quick" % pid,
        "thorough_cmd": "/venv/bin/python check.py %s --tier thorough" % pid,
        "evidence_file": "/verif/evidence/%s.json" % pid,
        "replay_cmd_template": "/venv/bin/python check.py %s --replay {path}" % pid,
        "engine": "lean4-proof+correspondence",
        "level_claimed": {"category": "proof", "text": md["level_text"], "design_ref": md.get("design_ref", "DESIGN.md section 5, " + pid)},
        "level_note": md["level_note"],
        "technique": md["technique"],
    })
# merge known/<pid>.json into the single committed known_findings.json
import glob
kf_path = os.path.join(VERIF, "known_findings.json")
kf = json.load(open(kf_path)) if os.path.exists(kf_path) else []
ids = {k["id"]: n for n, k in enumerate(kf)}
for p in sorted(glob.glob(os.path.join(VERIF, "known", "C*.json"))):
    for k in json.load(open(p)):
        if k["id"] in ids:
            kf[ids[k["id"]]] = k
        else:
            ids[k["id"]] = len(kf)
            kf.append(k)
kf.sort(key=lambda k: k["id"])
with open(kf_path, "w") as f:
    json.dump(kf, f, indent=1)
hooks_path = os.path.join(VERIF, "tools", "hooks.json")
hooks = json.load(open(hooks_path))
man = {
    "version": 1,
    "setup_cmd": "bash setup.sh",
    "hooks": hooks,
    "engines": [{"name": "lean4-proof+correspondence", "path": "/verif/check.py",
                 "serves_properties": [c["property_id"] for c in checks],
                 "kind_free_text": "Lean 4 model + theorems (lean/PymocaVerif), tied to /repo on every run by a differential correspondence "
                                   "between the real code (in-process) and the compiled Lean model drivers, plus source translators where noted; "
                                   "failing-input search with a direct oracle when a tie breaks"}],
    "checks": checks,
    "notes": "See DESIGN.md. known_findings.json lists open/fixed genuine defects. Exit 2 = machinery failure, never a verdict.",
    "not_applicable": not_app,
}
with open(os.path.join(VERIF, "MANIFEST.json"), "w") as f:
    json.dump(man, f, indent=1)
print("checks:", [c["property_id"] for c in checks], "not claimed:", len(not_app))
