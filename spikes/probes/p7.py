import json
from pymoca import parser, tree, ast
def s(e):
    if isinstance(e, ast.ComponentRef):
        idx = [i for ia in e.indices for i in ia if i is not None]
        return e.name + ("[" + ",".join(s(i) for i in idx) + "]" if idx else "") + ("." + s(e.child[0]) if e.child else "")
    if isinstance(e, ast.Symbol): return "SYM:" + e.name
    if isinstance(e, ast.Primary): return str(e.value)
    if isinstance(e, ast.Expression):
        op = s(e.operator) if isinstance(e.operator, ast.ComponentRef) else e.operator
        if op in ("+","-","*","/","^") and len(e.operands)==2: return "(" + (" %s " % op).join(s(o) for o in e.operands) + ")"
        return "%s(%s)" % (op, ", ".join(s(o) for o in e.operands))
    return repr(e)
def flat(txt, name):
    t = parser.parse(txt, bypass_cache=True)
    try:
        f = tree.flatten(t, ast.ComponentRef.from_string(name))
        c = f.classes[name]
        for k, v in c.symbols.items():
            dims = [[s(d) for d in dl] for dl in v.dimensions]
            print("   ", k, str(v.type), v.prefixes, dims, "val", s(v.value), "start", s(v.start))
        for e in c.equations: print("    eq:", s(e.left), "=", s(e.right))
    except Exception as e:
        print("EXC %s: %s" % (type(e).__name__, str(e)[:200]))
txt = """
type Voltage = Real(unit="V", min=-10);
package Lib
  model Leaf parameter Real k = 1; input Real u; output Real y; Real w[2]; discrete Real dd; equation y = k*u; w[1] = u; w[2] = y; end Leaf;
  model Base Real b(start=1); Lib.Leaf lb(k=5); equation b = lb.y; end Base;
end Lib;
model Outer
  model Inner extends Lib.Base; Voltage vv; Lib.Leaf l2[3]; equation vv = b + l2[1].y; end Inner;
  Inner i1; Inner i2(lb.k = 7, b(start=3)); input Real top_in; output Real top_out; Lib.Leaf arr[2];
equation
  top_out = i1.vv + i2.lb.y + top_in; i1.lb.u = 1; arr[1].u = arr[2].y;
end Outer;
"""
flat(txt, "Outer")
