import PymocaVerif.Model.ParseCacheConc
import PymocaVerif.Lemmas.ParseCache
/-! Rely/guarantee lemmas for `parseCachedI`. -/
namespace PymocaVerif.ParseCache

variable {pf : Ver → TextId → Option TreeId}

/-- the `models` table exists with the expected layout -/
def ModelsOk : DbFile → Prop
  | .db (some m) _ => m.layout = .ok
  | _ => False

/-- the `metadata` table exists with the expected layout -/
def MetaOk : DbFile → Prop
  | .db _ (some (.ok _ _)) => True
  | _ => False

/-- What a call relies on from the other processes' commits: they keep the row invariant, do not turn the file
    into garbage, and do not destroy tables that have the expected layout. -/
structure Rely (pf : Ver → TextId → Option TreeId) (g : DbFile → DbFile) : Prop where
  inv : ∀ f, FileInv pf f → FileInv pf (g f)
  notGarbage : ∀ f, f ≠ .garbage → g f ≠ .garbage
  models : ∀ f, ModelsOk f → ModelsOk (g f)
  metaT : ∀ f, MetaOk f → MetaOk (g f)

/-- the facts a call has established about the shared file so far -/
structure Good (pf : Ver → TextId → Option TreeId) (s : St) (m t : Bool) : Prop where
  inv : RowInv pf s
  notGarbage : s.file ≠ .garbage
  models : m = true → ModelsOk s.file
  metaT : t = true → MetaOk s.file

theorem modelsOk_queryable {f : DbFile} (h : ModelsOk f) : ∃ m, f.queryable = some m ∧ m.layout = .ok := by
  cases f with
  | garbage => cases h
  | db m t =>
    cases m with
    | none => cases h
    | some mm =>
      refine ⟨mm, ?_, h⟩
      have : mm.layout = .ok := h
      simp [DbFile.queryable, this]

theorem shape_of_ok {f : DbFile} (hm : ModelsOk f) (ht : MetaOk f) :
    ∃ rows c p, f = .db (some ⟨.ok, rows⟩) (some (.ok c p)) := by
  cases f with
  | garbage => cases hm
  | db m t =>
    cases m with
    | none => cases hm
    | some mm =>
      cases t with
      | none => cases ht
      | some tt =>
        cases tt with
        | alien => cases ht
        | ok c p =>
          obtain ⟨lay, rows⟩ := mm
          have : lay = .ok := hm
          subst this
          exact ⟨rows, c, p, rfl⟩

theorem env_spec {s : St} {m t : Bool} {env : Interference} (henv : ∀ g ∈ env, Rely pf g) (h : Good pf s m t) :
    Good pf (s.env env).1 m t ∧ (∀ g ∈ (s.env env).2, Rely pf g) ∧ (s.env env).1.ver = s.ver ∧
    (s.env env).1.init = s.init := by
  cases env with
  | nil => exact ⟨h, henv, rfl, rfl⟩
  | cons g rest =>
    have hg := henv g (by simp)
    refine ⟨⟨hg.inv _ h.inv, hg.notGarbage _ h.notGarbage, fun hm => hg.models _ (h.models hm),
      fun ht => hg.metaT _ (h.metaT ht)⟩, fun g' hg' => henv g' (List.mem_cons_of_mem _ hg'), rfl, rfl⟩

/-! ### the transactions from a good file -/

theorem checkModels_good {f : DbFile} (hng : f ≠ .garbage) :
    ∃ f', txCheckModels f = .ok f' ∧ ModelsOk f' ∧ f' ≠ .garbage ∧ (MetaOk f → MetaOk f') ∧
      (∀ pf, FileInv pf f → FileInv pf f') := by
  cases f with
  | garbage => exact absurd rfl hng
  | db m t =>
    cases m with
    | none =>
      refine ⟨_, rfl, rfl, by simp, ?_, ?_⟩
      · intro h; cases t with
        | none => cases h
        | some tt => cases tt with
          | alien => cases h
          | ok c p => trivial
      · intro pf _ r hr; simp [rowsOf] at hr
    | some mm =>
      by_cases hl : mm.layout = .ok
      · refine ⟨.db (some mm) t, by simp [txCheckModels, hl], hl, by simp, fun h => h, fun _ h => h⟩
      · refine ⟨.db (some ⟨.ok, []⟩) t, by simp [txCheckModels, hl], rfl, by simp, ?_, ?_⟩
        · intro h; cases t with
          | none => cases h
          | some tt => cases tt with
            | alien => cases h
            | ok c p => trivial
        · intro pf _ r hr; simp [rowsOf] at hr

theorem checkMeta_good {f : DbFile} (hng : f ≠ .garbage) :
    ∃ f', txCheckMeta f = .ok f' ∧ MetaOk f' ∧ f' ≠ .garbage ∧ (ModelsOk f → ModelsOk f') ∧
      (∀ pf, FileInv pf f → FileInv pf f') := by
  cases f with
  | garbage => exact absurd rfl hng
  | db m t =>
    have key : ∀ t', (∀ pf, FileInv pf (.db m t) → FileInv pf (.db m t')) := by
      intro t' pf h r hr; rw [rowsOf_db m t' t] at hr; exact h r hr
    have km : ∀ t', ModelsOk (.db m t) → ModelsOk (.db m t') := by
      intro t' h; cases m <;> exact h
    cases t with
    | none => exact ⟨_, rfl, trivial, by simp, km _, key _⟩
    | some tt =>
      cases tt with
      | alien => exact ⟨_, rfl, trivial, by simp, km _, key _⟩
      | ok c p => exact ⟨_, rfl, trivial, by simp, km _, key _⟩

theorem metaDefaults_good {f : DbFile} {t1 t2 : Int} (ht : MetaOk f) :
    ∃ f', txMetaDefaults t1 t2 f = .ok f' ∧ MetaOk f' ∧ f' ≠ .garbage ∧ (ModelsOk f → ModelsOk f') ∧
      (∀ pf, FileInv pf f → FileInv pf f') := by
  cases f with
  | garbage => cases ht
  | db m t =>
    cases t with
    | none => cases ht
    | some tt =>
      cases tt with
      | alien => cases ht
      | ok c p =>
        refine ⟨_, rfl, trivial, by simp, ?_, ?_⟩
        · intro h; cases m <;> exact h
        · intro pf h r hr; rw [rowsOf_db m _ (some (.ok c p))] at hr; exact h r hr

theorem prune_good {f : DbFile} {c t : Int} (hm : ModelsOk f) (ht : MetaOk f) :
    ∃ f', txPrune c t f = .ok f' ∧ ModelsOk f' ∧ MetaOk f' ∧ f' ≠ .garbage ∧ (∀ pf, FileInv pf f → FileInv pf f') := by
  obtain ⟨rows, cc, p, rfl⟩ := shape_of_ok hm ht
  refine ⟨.db (some ⟨.ok, rows.filter fun r => !(decide (r.lastHit < c))⟩) (some (.ok cc (p.map fun v => max (v + 1) t))),
    by simp [txPrune], rfl, trivial, by simp, ?_⟩
  intro pf h r hr
  simp only [rowsOf, List.mem_filter] at hr
  exact h r (by simpa [rowsOf] using hr.1)

theorem setRows_modelsOk {f : DbFile} {rows : List Row} (hm : ModelsOk f) : ModelsOk (f.setRows rows) := by
  cases f with
  | garbage => cases hm
  | db m t => cases m with
    | none => cases hm
    | some mm => exact hm

theorem setRows_metaOk {f : DbFile} {rows : List Row} (ht : MetaOk f) : MetaOk (f.setRows rows) := by
  cases f with
  | garbage => cases ht
  | db m t =>
    cases m with
    | none => exact ht
    | some mm => cases t with
      | none => cases ht
      | some tt => cases tt with
        | alien => cases ht
        | ok c p => trivial

theorem setRows_notGarbage {f : DbFile} {rows : List Row} (h : f ≠ .garbage) : f.setRows rows ≠ .garbage := by
  cases f with
  | garbage => exact absurd rfl h
  | db m t => cases m <;> simp [DbFile.setRows]

theorem touch_good {f : DbFile} {x : TextId} {v : Ver} {t : Int} (hm : ModelsOk f) :
    ∃ f', txTouch x v t f = .ok f' ∧ ModelsOk f' ∧ f' ≠ .garbage ∧ (MetaOk f → MetaOk f') ∧
      (∀ pf, FileInv pf f → FileInv pf f') := by
  obtain ⟨m, hq, _⟩ := modelsOk_queryable hm
  have hng : f ≠ .garbage := by intro e; subst e; cases hm
  have he : txTouch x v t f = .ok (f.setRows (m.rows.map fun r =>
      if matches_ x v r then { r with lastHit := max (r.lastHit + 1) t } else r)) := by simp [txTouch, hq]
  refine ⟨_, he, setRows_modelsOk hm, setRows_notGarbage hng, setRows_metaOk, ?_⟩
  intro pf h
  exact fileInv_touch h he

theorem insert_good {f : DbFile} {x : TextId} {v : Ver} {tree : TreeId} {t : Int} (hm : ModelsOk f) :
    ∃ f', txInsert x v tree t f = .ok f' ∧ ModelsOk f' ∧ f' ≠ .garbage ∧ (MetaOk f → MetaOk f') ∧
      (∀ pf, pf v x = some tree → FileInv pf f → FileInv pf f') := by
  obtain ⟨m, hq, hl⟩ := modelsOk_queryable hm
  have hng : f ≠ .garbage := by intro e; subst e; cases hm
  have he : txInsert x v tree t f = .ok (f.setRows ((if m.layout = .ok then m.rows.filter (fun r => !matches_ x v r)
      else m.rows) ++ [⟨x, v, .good (some tree), t⟩])) := by simp [txInsert, hq, hl]
  refine ⟨_, he, setRows_modelsOk hm, setRows_notGarbage hng, setRows_metaOk, ?_⟩
  intro pf hpf h
  exact fileInv_insert h hpf he

/-! ### guarantee: every transaction of `parse` is an admissible interference for the others -/

theorem rely_of_cases {g : DbFile → DbFile}
    (h : ∀ f, g f = f ∨ (f ≠ .garbage ∧ g f ≠ .garbage ∧ (ModelsOk f → ModelsOk (g f)) ∧ (MetaOk f → MetaOk (g f)) ∧
      (FileInv pf f → FileInv pf (g f)))) : Rely pf g := by
  refine ⟨?_, ?_, ?_, ?_⟩ <;> intro f hf <;> rcases h f with he | ⟨_, h2, h3, h4, h5⟩
  · rw [he]; exact hf
  · exact h5 hf
  · rw [he]; exact hf
  · exact h2
  · rw [he]; exact hf
  · exact h3 hf
  · rw [he]; exact hf
  · exact h4 hf

theorem ownTx_rely {g : DbFile → DbFile} (h : OwnTx pf g) : Rely pf g := by
  induction h with
  | checkModels =>
    apply rely_of_cases; intro f
    by_cases hng : f = .garbage
    · left; subst hng; rfl
    · right
      obtain ⟨f', he, hm, hg, ht, hi⟩ := checkModels_good hng
      simp only [he]
      refine ⟨hng, hg, fun _ => hm, ht, hi pf⟩
  | checkMeta =>
    apply rely_of_cases; intro f
    by_cases hng : f = .garbage
    · left; subst hng; rfl
    · right
      obtain ⟨f', he, ht, hg, hm, hi⟩ := checkMeta_good hng
      simp only [he]
      exact ⟨hng, hg, hm, fun _ => ht, hi pf⟩
  | metaDefaults t1 t2 =>
    apply rely_of_cases; intro f
    by_cases ht : MetaOk f
    · right
      obtain ⟨f', he, ht', hg, hm, hi⟩ := metaDefaults_good (t1 := t1) (t2 := t2) ht
      simp only [he]
      exact ⟨(by intro e; subst e; cases ht), hg, hm, fun _ => ht', hi pf⟩
    · left
      cases f with
      | garbage => rfl
      | db m t =>
        cases t with
        | none => rfl
        | some tt => cases tt with
          | alien => rfl
          | ok c p => exact absurd trivial ht
  | prune c t =>
    apply rely_of_cases; intro f
    cases hp : txPrune c t f with
    | error e => left; rfl
    | ok f' =>
      right
      simp only []
      have hshape : ∃ m cc p, f = .db (some m) (some (.ok cc p)) ∧ m.layout ≠ .alien := by
        unfold txPrune at hp
        split at hp
        · rename_i m cc p
          split at hp
          · cases hp
          · rename_i hl; exact ⟨m, cc, p, rfl, hl⟩
        · cases hp
      obtain ⟨m, cc, p, rfl, hl⟩ := hshape
      simp [txPrune, hl] at hp
      subst hp
      refine ⟨by simp, by simp, fun h => h, fun _ => trivial, ?_⟩
      intro h r hr
      simp only [rowsOf, List.mem_filter] at hr
      exact h r (by simpa [rowsOf] using hr.1)
  | touch x v t =>
    apply rely_of_cases; intro f
    cases hq : f.queryable with
    | none => left; simp [txTouch, hq]
    | some m =>
      right
      have hng : f ≠ .garbage := by intro e; subst e; simp [DbFile.queryable] at hq
      have he : txTouch x v t f = .ok (f.setRows (m.rows.map fun r =>
          if matches_ x v r then { r with lastHit := max (r.lastHit + 1) t } else r)) := by simp [txTouch, hq]
      simp only [he]
      exact ⟨hng, setRows_notGarbage hng, setRows_modelsOk, setRows_metaOk, fun h => fileInv_touch h he⟩
  | insert x v tree t hpf =>
    apply rely_of_cases; intro f
    cases he : txInsert x v tree t f with
    | error e => left; rfl
    | ok f' =>
      right
      obtain ⟨m, hq, _, rfl⟩ := txInsert_ok he
      have hng : f ≠ .garbage := by intro e; subst e; simp [DbFile.queryable] at hq
      simp only []
      exact ⟨hng, setRows_notGarbage hng, setRows_modelsOk, setRows_metaOk, fun h => fileInv_insert h hpf he⟩
  | id => exact ⟨fun _ h => h, fun _ h => h, fun _ h => h, fun _ h => h⟩
  | comp _ _ ih1 ih2 =>
    exact ⟨fun f h => ih2.inv _ (ih1.inv f h), fun f h => ih2.notGarbage _ (ih1.notGarbage f h),
      fun f h => ih2.models _ (ih1.models f h), fun f h => ih2.metaT _ (ih1.metaT f h)⟩

/-! ### the call itself -/

theorem good_setFile {s : St} {f : DbFile} {m t : Bool} (hi : FileInv pf f) (hg : f ≠ .garbage)
    (hm : m = true → ModelsOk f) (ht : t = true → MetaOk f) : Good pf { s with file := f } m t :=
  ⟨hi, hg, hm, ht⟩

theorem good_read {s : St} {m t : Bool} (h : Good pf s m t) : Good pf s.read.2 m t :=
  ⟨h.inv, h.notGarbage, h.models, h.metaT⟩

theorem integrity_noop {f : DbFile} (h : f ≠ .garbage) : txIntegrity f = f := by
  cases f with
  | garbage => exact absurd rfl h
  | db m t => rfl

/-- what a stage leaves behind -/
structure After (pf : Ver → TextId → Option TreeId) (p p' : Pt) (m t : Bool) : Prop where
  good : Good pf p'.1 m t
  ver : p'.1.ver = p.1.ver
  rely : ∀ g ∈ p'.2, Rely pf g

theorem stIntegrity_spec {p : Pt} {m t : Bool} (henv : ∀ g ∈ p.2, Rely pf g) (h : Good pf p.1 m t) :
    After pf p (stIntegrity p) m t := by
  obtain ⟨g1, r1, v1, _⟩ := env_spec henv h
  unfold stIntegrity
  simp only []
  rw [integrity_noop g1.notGarbage]
  exact ⟨⟨g1.inv, g1.notGarbage, g1.models, g1.metaT⟩, v1, r1⟩

theorem stCheckModels_spec {p : Pt} {m t : Bool} (henv : ∀ g ∈ p.2, Rely pf g) (h : Good pf p.1 m t) :
    ∃ p', stCheckModels p = .ok p' ∧ After pf p p' true t := by
  obtain ⟨g1, r1, v1, _⟩ := env_spec henv h
  obtain ⟨f2, e2, m2, n2, t2, i2⟩ := checkModels_good g1.notGarbage
  unfold stCheckModels
  simp only [e2]
  exact ⟨_, rfl, ⟨i2 pf g1.inv, n2, fun _ => m2, fun ht => t2 (g1.metaT ht)⟩, v1, r1⟩

theorem stCheckMeta_spec {p : Pt} {m t : Bool} (henv : ∀ g ∈ p.2, Rely pf g) (h : Good pf p.1 m t) :
    ∃ p', stCheckMeta p = .ok p' ∧ After pf p p' m true := by
  obtain ⟨g1, r1, v1, _⟩ := env_spec henv h
  obtain ⟨f2, e2, t2, n2, m2, i2⟩ := checkMeta_good g1.notGarbage
  unfold stCheckMeta
  simp only [e2]
  exact ⟨_, rfl, ⟨i2 pf g1.inv, n2, fun hm => m2 (g1.models hm), fun _ => t2⟩, v1, r1⟩

theorem stDefaults_spec {p : Pt} {m : Bool} (henv : ∀ g ∈ p.2, Rely pf g) (h : Good pf p.1 m true) :
    ∃ p', stDefaults p = .ok p' ∧ After pf p p' m true := by
  obtain ⟨g1, r1, v1, _⟩ := env_spec henv h
  obtain ⟨f2, e2, t2, n2, m2, i2⟩ := metaDefaults_good (t1 := (p.1.env p.2).1.read.1)
    (t2 := (p.1.env p.2).1.read.2.read.1) (g1.metaT rfl)
  unfold stDefaults
  simp only [read_file, e2]
  exact ⟨_, rfl, ⟨i2 pf g1.inv, n2, fun hm => m2 (g1.models hm), fun _ => t2⟩, v1, r1⟩

theorem stPrune_spec {p : Pt} {days : Int} (henv : ∀ g ∈ p.2, Rely pf g) (h : Good pf p.1 true true) :
    ∃ p', stPrune days p = .ok p' ∧ After pf p p' true true ∧ p'.1.init = true := by
  obtain ⟨g1, r1, v1, _⟩ := env_spec henv h
  obtain ⟨f2, e2, m2, t2, n2, i2⟩ := prune_good (c := (p.1.env p.2).1.read.1 - days * day)
    (t := (p.1.env p.2).1.read.2.read.1) (g1.models rfl) (g1.metaT rfl)
  unfold stPrune
  simp only [read_file, e2]
  exact ⟨_, rfl, ⟨⟨i2 pf g1.inv, n2, fun _ => m2, fun _ => t2⟩, v1, r1⟩, rfl⟩

theorem initBlockI_spec {s : St} {days : Int} {env : Interference} {m t : Bool} (henv : ∀ g ∈ env, Rely pf g)
    (h : Good pf s m t) :
    ∃ p', initBlockI s days env = .ok p' ∧ Good pf p'.1 true true ∧ p'.1.init = true ∧ p'.1.ver = s.ver ∧
      (∀ g ∈ p'.2, Rely pf g) := by
  have a0 := stIntegrity_spec (p := (s, env)) henv h
  obtain ⟨p1, e1, a1⟩ := stCheckModels_spec a0.rely a0.good
  obtain ⟨p2, e2, a2⟩ := stCheckMeta_spec a1.rely a1.good
  obtain ⟨p3, e3, a3⟩ := stDefaults_spec a2.rely a2.good
  obtain ⟨p4, e4, a4, hi⟩ := stPrune_spec (days := days) a3.rely a3.good
  refine ⟨p4, ?_, a4.good, hi, ?_, a4.rely⟩
  · unfold initBlockI
    simp only [e1, e2, e3, e4]
  · rw [a4.ver, a3.ver, a2.ver, a1.ver, a0.ver]

theorem finishI_none_spec {s : St} {x : TextId} {env : Interference} {t : Bool} (henv : ∀ g ∈ env, Rely pf g)
    (h : Good pf s true t) : (finishI pf s x none env).2 = .value (pf s.ver x) := by
  unfold finishI
  simp only []
  cases hpf : pf s.ver x with
  | none => rfl
  | some tr =>
    simp only []
    obtain ⟨g1, _, v1, _⟩ := env_spec henv h
    obtain ⟨f2, e2, _⟩ := insert_good (x := x) (v := (s.env env).1.read.2.ver) (tree := tr)
      (t := (s.env env).1.read.1) (g1.models rfl)
    rw [read_file, e2]

theorem touchStepI_spec {s : St} {x : TextId} {upd : Bool} {lh : Int} {env : Interference} {t : Bool}
    (henv : ∀ g ∈ env, Rely pf g) (h : Good pf s true t) :
    ∃ p', touchStepI s x upd lh env = .ok p' ∧ Good pf p'.1 true t ∧ p'.1.ver = s.ver ∧ (∀ g ∈ p'.2, Rely pf g) := by
  unfold touchStepI
  simp only []
  by_cases hc : (upd || decide (lh < s.read.1 - day)) = true
  · simp only [hc, if_true]
    obtain ⟨g1, r1, v1, _⟩ := env_spec henv (good_read h)
    obtain ⟨f2, e2, m2, n2, t2, i2⟩ := touch_good (x := x) (v := (s.read.2.env env).1.read.2.ver)
      (t := (s.read.2.env env).1.read.1) (g1.models rfl)
    rw [read_file, e2]
    exact ⟨_, rfl, ⟨i2 pf g1.inv, n2, fun _ => m2, fun ht => t2 (g1.metaT ht)⟩, v1, r1⟩
  · simp only [hc]
    exact ⟨_, rfl, good_read h, rfl, henv⟩

theorem afterInitI_spec {cfg : Cfg} {s : St} {x : TextId} {upd : Bool} {env : Interference} {t : Bool}
    (hc : CaughtAll cfg) (henv : ∀ g ∈ env, Rely pf g) (h : Good pf s true t) :
    (afterInitI cfg pf s x upd env).2 = .value (pf s.ver x) := by
  unfold afterInitI
  simp only []
  obtain ⟨g1, r1, v1, _⟩ := env_spec henv h
  obtain ⟨m, hm, _⟩ := modelsOk_queryable (g1.models rfl)
  cases hl : txLookup x (s.env env).1.ver (s.env env).1.file with
  | error e => simp [txLookup, hm] at hl
  | ok o =>
    cases o with
    | none =>
      simp only []
      rw [finishI_none_spec r1 g1, v1]
    | some lb =>
      obtain ⟨lh, blob⟩ := lb
      obtain ⟨r, hr, hkey, hver, hblob⟩ := lookup_found hm hl
      obtain ⟨p', e2, g2, v2, r2⟩ := touchStepI_spec (x := x) (upd := upd) (lh := lh) r1 g1
      simp only [e2]
      cases blob with
      | good tr =>
        cases tr with
        | none =>
          simp only []
          rw [finishI_none_spec r2 g2, v2, v1]
        | some tr =>
          have hpf : pf s.ver x = some tr := by
            have := g1.inv r hr tr hblob
            rw [hver, hkey, v1] at this; exact this
          simp [finishI, hpf]
      | bad e =>
        simp only [hc e, if_true]
        rw [finishI_none_spec r2 g2, v2, v1]

/-- **One call under interference**: whatever the other processes commit in the gaps (as long as each commit
    satisfies `Rely`), a call that starts with a database file that is not garbage — and, if this process had
    initialised it before, still has its `models` table — returns the uncached result. -/
theorem parseCachedI_spec {cfg : Cfg} {s : St} {x : TextId} {days : Int} {upd : Bool} {env : Interference}
    (hc : CaughtAll cfg) (henv : ∀ g ∈ env, Rely pf g) (h : RowInv pf s) (hng : s.file ≠ .garbage)
    (hinit : s.init = true → ModelsOk s.file) :
    (parseCachedI cfg pf s x days upd env).2 = .value (pf s.ver x) := by
  unfold parseCachedI
  by_cases hi : s.init = true
  · simp only [hi, if_true]
    exact afterInitI_spec hc henv (t := false) ⟨h, hng, (fun _ => hinit hi), (fun e => by cases e)⟩
  · have hif : s.init = false := by simpa using hi
    simp only [hif, Bool.false_eq_true, if_false]
    obtain ⟨p', e1, g1, _, v1, r1⟩ := initBlockI_spec (days := days) (m := false) (t := false) henv
      ⟨h, hng, (fun e => by cases e), (fun e => by cases e)⟩
    simp only [e1]
    rw [afterInitI_spec hc r1 g1, v1]

end PymocaVerif.ParseCache
