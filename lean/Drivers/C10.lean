/-! Driver for C10 (stub: not built yet). -/
def main : IO Unit := pure ()
