import PymocaVerif.Lemmas.AliasRel
/-!
# C17 — the alias relation is a signed equivalence under any operation history

Property theorems only (helper lemmas live in `Lemmas/AliasRel.lean`).
-/
namespace PymocaVerif.AliasRel

/-- `add` never trips its `assert`, and keeps the class invariant, whenever the call is
    admissible (does not relate a variable to its own negation). -/
theorem add_keeps_class_invariant (s : AR) (h : ARInv s) (a b : SName)
    (hpre : b ∉ s.aliases (tog a)) : ∃ s', s.add a b = some s' ∧ ARInv s' := by
  by_cases hb : b ∈ s.aliases a
  · refine ⟨s, ?_, h⟩
    have : a ∈ s.aliases b := aliases_symm s h hb
    simp [AR.add, hb, this]
  · refine ⟨_, by simp only [AR.add, hb, if_false]; rfl, ?_⟩
    exact addAl_inv s _ h a b hpre rfl

/-- `aliases()` after an effective `add(a, b)`: the class of `a` and of `b` are united, the
    classes of their negations are united, every other class is unchanged. -/
theorem aliases_after_add (s s' : AR) (a b x y : SName) (hb : b ∉ s.aliases a)
    (hs : s.add a b = some s') :
    y ∈ s'.aliases x ↔
      (if x ∈ s.aliases a ++ s.aliases b then y ∈ s.aliases a ++ s.aliases b
       else if tog x ∈ s.aliases a ++ s.aliases b then y ∈ s.aliases (tog a) ++ s.aliases (tog b)
       else y ∈ s.aliases x) := by
  simp only [AR.add, hb, if_false, Option.some.injEq] at hs
  subst hs
  exact mem_aliases_add s _ a b x y rfl

-- non-vacuity: a ~ -b is admissible on the empty relation and gives the expected classes
example : ARInv AR.empty ∧ ((true, "b") : SName) ∉ AR.empty.aliases (tog (false, "a")) := by
  refine ⟨empty_inv, ?_⟩; decide

end PymocaVerif.AliasRel
