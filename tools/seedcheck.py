#!/venv/bin/python
"""Validate a seeded change and run the registered check against it.

    tools/seedcheck.py <dir with patch.diff, demo.py, meta.json> [--tests] [--tier quick]

1. scratch worktree of /repo HEAD under /tmp; demo.py must PASS there (exit 0);
2. apply patch.diff; demo.py must FAIL (exit != 0); with --tests the repository's test suite
   must keep the baseline's 131 stable-pass tests passing;
3. run `check.py <property>` with VERIF_PYMOCA_SRC pointing at the patched worktree
   (equivalent to `git -C /repo apply`, without disturbing other users of /repo);
4. remove the worktree; print one JSON line with the outcome.
"""
import argparse
import json
import os
import shutil
import subprocess
import sys
import tempfile

VERIF = os.path.dirname(os.path.dirname(os.path.abspath(__file__)))


def sh(cmd, cwd=None, env=None, timeout=3600):
    p = subprocess.run(cmd, cwd=cwd, env=env, stdout=subprocess.PIPE, stderr=subprocess.STDOUT, text=True,
                       timeout=timeout, shell=isinstance(cmd, str))
    return p.returncode, p.stdout


def main():
    ap = argparse.ArgumentParser()
    ap.add_argument("dir")
    ap.add_argument("--tests", action="store_true")
    ap.add_argument("--tier", default="quick")
    ap.add_argument("--props", default=None, help="comma list of properties to run (default: meta.json's)")
    ap.add_argument("--seed", default="0")
    ap.add_argument("--benign", action="store_true", help="a harmless change: no demo; any non-zero exit of the check is a false alarm")
    a = ap.parse_args()
    d = os.path.abspath(a.dir)
    meta = json.load(open(os.path.join(d, "meta.json")))
    pid = meta["property"]
    wt = tempfile.mkdtemp(prefix="seedchk-")
    os.rmdir(wt)
    out = dict(dir=d, property=pid)
    try:
        rc, o = sh(["git", "-C", "/repo", "worktree", "add", "--detach", wt, "HEAD"])
        assert rc == 0, o
        env = dict(os.environ, PYTHONPATH="%s/src:%s" % (wt, wt), XDG_CACHE_HOME=tempfile.mkdtemp(prefix="seedchk-xdg-"))
        if not a.benign:
            rc, o = sh(["/venv/bin/python", os.path.join(d, "demo.py")], cwd=wt, env=env, timeout=900)
            out["demo_clean_rc"] = rc
        rc, o = sh(["git", "apply", os.path.join(d, "patch.diff")], cwd=wt)
        out["apply_rc"] = rc
        if rc != 0:
            out["apply_err"] = o[-500:]
        else:
            if not a.benign:
                rc, o = sh(["/venv/bin/python", os.path.join(d, "demo.py")], cwd=wt, env=env, timeout=900)
                out["demo_patched_rc"] = rc
                out["demo_patched_tail"] = o[-300:]
            if a.tests:
                rc, o = sh("/venv/bin/python -m pytest -q -p no:cacheprovider --timeout=900 --continue-on-collection-errors "
                           "--junitxml=%s/junit.xml >/dev/null 2>&1" % wt, cwd=wt, env=env)
                import xml.etree.ElementTree as ET
                base = set(json.load(open("/root/.vp/BASELINE.json"))["stable_pass"])
                passed = set()
                for tc in ET.parse(wt + "/junit.xml").getroot().iter("testcase"):
                    if not any(ch.tag in ("failure", "error", "skipped") for ch in tc):
                        passed.add(tc.get("classname") + "::" + tc.get("name"))
                out["baseline_missing"] = sorted(base - passed)
            checks = {}
            for p in (a.props.split(",") if a.props else [pid]):
                env2 = dict(os.environ, VERIF_PYMOCA_SRC=wt + "/src", VERIF_SEED=a.seed)
                rc, o = sh(["/venv/bin/python", "check.py", p, "--tier", a.tier], cwd=VERIF, env=env2, timeout=3600)
                vl = [l for l in o.splitlines() if l.startswith("VIOLATION")]
                checks[p] = dict(rc=rc, violation_lines=vl[:3], tail=o.splitlines()[-1:] if o else [])
            out["checks"] = checks
            out["alarm"] = any(c["rc"] != 0 for c in checks.values())
            out["caught"] = any(c["rc"] == 1 and c["violation_lines"] for c in checks.values())
            out["caught_with_input"] = any(c["rc"] == 1 and any("no-failing-input-found" not in l for l in c["violation_lines"])
                                           for c in checks.values())
    finally:
        sh(["git", "-C", "/repo", "worktree", "remove", "--force", wt])
        shutil.rmtree(wt, ignore_errors=True)
        sh(["git", "-C", "/repo", "worktree", "prune"])
    print(json.dumps(out))


if __name__ == "__main__":
    main()
