import PymocaVerif.Lemmas.ObjGraph2
/-! The executable checks imply the hypotheses of the theorems (so that the hypotheses can be
    discharged by `decide` on concrete heaps, and checked by the driver on snapshots of real trees). -/
namespace PymocaVerif.ObjGraph

theorem allIdx_spec {H : Heap} {p : Nat → Obj → Bool} (h : allIdx H p = true) :
    ∀ i o, H[i]? = some o → p i o = true := by
  intro i o ho
  unfold allIdx at h
  rw [List.all_eq_true] at h
  have hlt : i < H.length := by
    rcases Nat.lt_or_ge i H.length with h' | h'
    · exact h'
    · rw [List.getElem?_eq_none h'] at ho; cases ho
  have := h i (List.mem_range.mpr hlt)
  rw [ho] at this
  exact this

theorem region_of_wfCheck {H : Heap} (h : wfCheck H = true) : Region H (fun a => a < H.length) := by
  have sp := allIdx_spec h
  refine { valid := ?_, hooks := ?_, closed := ?_, parU := ?_ }
  · intro a ha
    exact ⟨H[a], List.getElem?_eq_getElem ha⟩
  · intro a o _ ho
    have := sp a o ho
    simp only [Bool.and_eq_true] at this
    have h1 := this.1.1
    cases hh : o.hook with
    | none => rfl
    | some t => simp [hh] at h1
  · intro a o f _ ho hf
    have := sp a o ho
    simp only [Bool.and_eq_true, List.all_eq_true] at this
    simpa using this.1.2 f hf
  · intro a o i _ ho hi
    have := sp a o ho
    simp only [Bool.and_eq_true, List.all_eq_true] at this
    have := this.2 _ hi
    simpa using this

theorem treeShaped_of_check {H : Heap} (h : treeCheck H = true) : TreeShaped H (fun a => a < H.length) := by
  have sp := allIdx_spec h
  intro a c oa oc _ hoa hc hoc hk
  have := sp a oa hoa
  rw [List.all_eq_true] at this
  have := this _ hc
  simp only [hoc] at this
  simpa [hk] using this

theorem rank_mono {H : Heap} {d : List Nat} (h : rankCheck H d = true) {x a : Nat} (hr : OwnReach H x a) :
    d.getD x 0 ≤ d.getD a 0 := by
  have sp := allIdx_spec h
  induction hr with
  | refl => exact Nat.le_refl _
  | step _ e ih =>
    obtain ⟨o, ho, hc⟩ := e
    have := sp _ o ho
    rw [List.all_eq_true] at this
    have := this _ hc
    simp only [decide_eq_true_eq] at this
    omega

theorem detached_of_rank {H : Heap} {d : List Nat} (h : rankCheck H d = true) (x : Nat) : Detached H x := by
  have sp := allIdx_spec h
  intro o p ho hp
  have hpar := parentOfFields_mem hp
  have hlt : d.getD p 0 < d.getD x 0 := by
    have := sp x o ho
    rw [List.all_eq_true] at this
    have := this _ hpar
    simpa using this
  refine ⟨by intro hpx; rw [hpx] at hlt; omega, ?_⟩
  intro a ha hedge
  have h1 := rank_mono h ha
  obtain ⟨oa, hoa, hc⟩ := hedge
  have := sp a oa hoa
  rw [List.all_eq_true] at this
  have := this _ hc
  simp only [decide_eq_true_eq] at this
  omega

theorem reqOk_of_rank {H : Heap} {d : List Nat} (h : rankCheck H d = true) (root : Nat) (r : Req)
    (hin : ∀ i ∈ r.inner ++ r.consts, i < H.length) : ReqOk H (fun a => a < H.length) root r :=
  { target := fun c _ => detached_of_rank h c
    others := fun i hi => ⟨hin i hi, detached_of_rank h i⟩ }

end PymocaVerif.ObjGraph
