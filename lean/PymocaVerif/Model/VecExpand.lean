/-!
# Model of `pymoca.backends.casadi.model.Model._expand_vectors`

What is modelled (line numbers of `src/pymoca/backends/casadi/model.py`):

* 289-342 which variables are expanded, the component-name format built from the per-level
  Modelica shape (`a.b[{}].c[{},{}]`, `der(` … `)` wrapped outside), the iterator shape;
* 345-348 the enumeration of index tuples (`np.ndindex`, row-major) and the 1-based names;
* 350-386 the selection of the element of each attribute: `selList`, `selDM` select with the
  trailing indices (the code as it is since commit 5f5e413, `proposed_fixes/C18-1.diff`);
  `selListFull`, `selDMFull` apply the whole index tuple (the code before that commit, kept to
  state what the fix changed);
* 378-389 the substitution value `reshape(vertcat(elements), reversed(shape)).T` under CasADi's
  column-major storage (`Mat`, `vertcat`, `reshape`, `transpose`, `substValue`);
* 393-421 renaming of delay states and outputs (`spliceAll`);
* 427-431 substitution into the equations followed by `vertsplit(vec(eq))` (`Expr`, `expandE`,
  `residual`).

Names are `List Char` (converted from/to `String` in the driver only).  Errors the Python code
raises are explicit (`Except String`), the string being the Python exception class.
-/
namespace PymocaVerif.VecExpand

/-! ## Shapes and index enumeration -/

/-- one nesting level of `_modelica_shape`: `none` is `(None,)`, `some ds` an array level -/
abbrev Level := Option (List Nat)
abbrev MShape := List Level

/-- `tuple(d for var_shape in modelica_shape for d in var_shape if d is not None)` -/
def iterShape (ms : MShape) : List Nat := ms.flatMap fun l => l.getD []

/-- `set(modelica_shape) != {(None,)}` -/
def needsExpand (ms : MShape) : Bool := ms.isEmpty || ms.any (·.isSome)

def prod : List Nat → Nat
  | [] => 1
  | d :: ds => d * prod ds

/-- the `k`-th index tuple in row-major order -/
def unravel : List Nat → Nat → List Nat
  | [], _ => []
  | _ :: ds, k => (k / prod ds) :: unravel ds (k % prod ds)

/-- row-major position of an index tuple (`np.ravel_multi_index`) -/
def ravel : List Nat → List Nat → Nat
  | _ :: ds, i :: is => i * prod ds + ravel ds is
  | _, _ => 0

/-- `np.ndindex(shape)`: all index tuples, last index fastest. -/
def ndindex (ds : List Nat) : List (List Nat) := (List.range (prod ds)).map (unravel ds)

/-! ## Decimal numerals and names -/

def digitChar (d : Nat) : Char := Char.ofNat (48 + d)

def decAux : Nat → Nat → List Char
  | 0, _ => []
  | f + 1, n => if n < 10 then [digitChar n] else decAux f (n / 10) ++ [digitChar (n % 10)]

/-- `str(n)` for a natural number (the fuel `n + 1` always suffices) -/
def dec (n : Nat) : List Char := decAux (n + 1) n

def commaTail : List (List Char) → List Char
  | [] => []
  | y :: r => ',' :: (y ++ commaTail r)

/-- `",".join(xs)` -/
def commaSep : List (List Char) → List Char
  | [] => []
  | x :: r => x ++ commaTail r

/-- `"[" + ",".join(str(i + 1) for i in idx) + "]"` -/
def idxText (idx : List Nat) : List Char := '[' :: commaSep (idx.map fun i => dec (i + 1)) ++ [']']

/-- the formatted components: level `k` consumes as many indices as it has dimensions -/
def nameLevels : List (List Char × Level) → List Nat → List (List Char)
  | [], _ => []
  | (p, none) :: rest, idx => p :: nameLevels rest idx
  | (p, some ds) :: rest, idx =>
      (p ++ idxText (idx.take ds.length)) :: nameLevels rest (idx.drop ds.length)

def dotTail : List (List Char) → List Char
  | [] => []
  | y :: r => '.' :: (y ++ dotTail r)

/-- `".".join(xs)` -/
def dotJoin : List (List Char) → List Char
  | [] => []
  | x :: r => x ++ dotTail r

/-- `(?:der\()*` -/
def stripDer : List Char → List Char × List Char
  | 'd' :: 'e' :: 'r' :: '(' :: rest =>
      let (p, r) := stripDer rest
      ('d' :: 'e' :: 'r' :: '(' :: p, r)
  | s => ([], s)

/-- the regular expression `((?:der\()*|\b)(.*?)([\)]*|\b)$`: prefix, name, postfix -/
def splitName (s : List Char) : List Char × List Char × List Char :=
  let (pre, r) := stripDer s
  let rr := r.reverse
  (pre, (rr.dropWhile (· == ')')).reverse, rr.takeWhile (· == ')'))

/-- `str.split(".")` -/
def splitDots (s : List Char) : List (List Char) := s.splitOn '.'

/-- name of the scalar with index tuple `idx`, from the parsed name -/
def scalarNameP (pre post : List Char) (parts : List (List Char)) (ms : MShape) (idx : List Nat) : List Char :=
  pre ++ dotJoin (nameLevels (parts.zip ms) idx) ++ post

/-- name of the scalar with index tuple `idx` of a (non-delay) variable -/
def scalarName (name : List Char) (ms : MShape) (idx : List Nat) : List Char :=
  let (pre, core, post) := splitName name
  scalarNameP pre post (splitDots core) ms idx

/-- names of all scalars of a variable, in the order they are created.
    `AssertionError` is `assert len(symbol_names) == len(modelica_shape)`. -/
def expandNames (name : List Char) (ms : MShape) : Except String (List (List Char)) :=
  let (_, core, _) := splitName name
  if (splitDots core).length ≠ ms.length then .error "AssertionError"
  else .ok ((ndindex (iterShape ms)).map (scalarName name ms))

/-- delay states: the flat shape, every dimension indexed -/
def expandDelayNames (name : List Char) (shape : List Nat) : List (List Char) :=
  (ndindex shape).map fun idx => name ++ idxText idx

/-! ## Matrices in CasADi's storage order -/

structure Mat (α : Type) where
  rows : Nat
  cols : Nat
  data : List α          -- column-major: entry (i, j) at `i + j * rows`
deriving Repr, DecidableEq

def Mat.entry {α} [Inhabited α] (m : Mat α) (i j : Nat) : α := m.data.getD (i + j * m.rows) default

def vertcat {α} (xs : List α) : Mat α := ⟨xs.length, 1, xs⟩

/-- `ca.reshape(m, r, c)`: the storage is kept -/
def reshape {α} (m : Mat α) (r c : Nat) : Mat α := ⟨r, c, m.data⟩

/-- `m.T` -/
def transpose {α} [Inhabited α] (m : Mat α) : Mat α :=
  ⟨m.cols, m.rows, (List.range (m.rows * m.cols)).map fun k =>
      m.data.getD (k / m.cols + (k % m.cols) * m.rows) default⟩

/-- `ca.reshape(ca.vertcat(*elements), *reversed(s.shape)).T` for a symbol of shape `(r, c)` -/
def substValue {α} [Inhabited α] (r c : Nat) (elems : List α) : Mat α :=
  transpose (reshape (vertcat elems) c r)

/-- shape of the MX symbol of a variable with iterator shape `ds`
    (`_new_mx(name, *tensor_shape)`; 3-D and more: `_MTensor`, a raveled column) -/
def mxShape (ds : List Nat) : Nat × Nat :=
  match ds with
  | [] => (1, 1)
  | [n] => (n, 1)
  | [n, m] => (n, m)
  | _ => (prod ds, 1)

/-- column-major position, in the unexpanded symbol, of the element with index tuple `idx` -/
def elemPos (ds idx : List Nat) : Nat :=
  match ds, idx with
  | [_], [i] => i
  | [n, _], [i, j] => i + j * n
  | _, _ => ravel ds idx

/-! ## Attribute element selection -/

/-- a (nested) Python list of integers, Lisp style: `[a, b]` is `cons a (cons b nil)` -/
inductive NList where
  | leaf (v : Int)
  | nil
  | cons (h t : NList)

/-- `v[i]` -/
def NList.nth : NList → Nat → Except String NList
  | .leaf _, _ => .error "TypeError"       -- 'int' object is not subscriptable
  | .nil, _ => .error "IndexError"
  | .cons h _, 0 => .ok h
  | .cons _ t, n + 1 => t.nth n

/-- `val = value; for i in ind: val = val[i]` -/
def NList.sel : NList → List Nat → Except String NList
  | v, [] => .ok v
  | v, i :: is =>
    match v.nth i with
    | .ok x => x.sel is
    | .error e => .error e

/-- number of list levels, following first elements (`while isinstance(v, list) and v`) -/
def NList.depth : NList → Nat
  | .leaf _ => 0
  | .nil => 0
  | .cons h _ => h.depth + 1

/-- before commit 5f5e413: the whole index tuple is applied -/
def selListFull (v : NList) (idx : List Nat) : Except String NList := v.sel idx

/-- the code as it is: `for i in ind[len(ind) - n_dim:]: val = val[i]` — a list of depth `n_dim`
    is indexed by the last `n_dim` indices -/
def selList (v : NList) (idx : List Nat) : Except String NList :=
  v.sel (idx.drop (idx.length - v.depth))

/-- `value[ind]` on a `ca.DM` of shape `(r, c)` with the whole tuple: position in the column-major data -/
def selDMFull (r c : Nat) (idx : List Nat) : Except String Nat :=
  match idx with
  | [i] => if i < r * c then .ok i else .error "RuntimeError"
  | [i, j] => if i < r ∧ j < c then .ok (i + j * r) else .error "RuntimeError"
  | _ => .error "NotImplementedError"

/-- the code as it is for a `ca.DM`: two trailing indices when the last two iterator dimensions are
    the DM's shape (`iterator_shape[-2:] == value.shape`), else one (a column) -/
def selDM (ds : List Nat) (r c : Nat) (idx : List Nat) : Except String Nat :=
  let n := if ds.drop (ds.length - 2) = [r, c] then 2 else 1
  selDMFull r c (idx.drop (idx.length - n))

/-- an attribute that is a non-scalar `ca.MX` of shape `(r, c)` (an expression of array
    parameters): `value[ind]` with the whole index tuple; position in the column-major data.
    (`np.prod(value.shape) == 1` is the scalar case and is not indexed.) -/
def selMX (r c : Nat) (idx : List Nat) : Except String Nat :=
  match idx with
  | [i] => if i < r * c then .ok i else .error "RuntimeError"
  | [i, j] => if i < r ∧ j < c then .ok (i + j * r) else .error "RuntimeError"
  | _ => .error "NotImplementedError"

/-! ## Outputs and delay states -/

/-- `i = outputs.index(name); outputs.pop(i); for s in reversed(new): outputs.insert(i, s)`
    (only the first occurrence is replaced; nothing happens when the name is absent) -/
def splice (xs : List (List Char)) (name : List Char) (new : List (List Char)) : List (List Char) :=
  match xs with
  | [] => []
  | x :: r => if x = name then new ++ r else x :: splice r name new

/-- outputs after all variables (in processing order) were expanded -/
def spliceAll (xs : List (List Char)) (blocks : List (List Char × List (List Char))) : List (List Char) :=
  blocks.foldl (fun acc b => splice acc b.1 b.2) xs

/-- delay states: `pop(i)` then `append` of the new names (they move to the end) -/
def delayMove (xs : List (List Char)) (name : List Char) (new : List (List Char)) : List (List Char) :=
  if name ∈ xs then xs.erase name ++ new else xs

def delayMoveAll (xs : List (List Char)) (blocks : List (List Char × List (List Char))) : List (List Char) :=
  blocks.foldl (fun acc b => delayMove acc b.1 b.2) xs

/-- `DelayArgument(delay_argument.expr[ind], duration)` for the new delay states in creation
    (row-major) order: the storage position of the delayed expression each of them reads -/
def delayArgPositions (shape : List Nat) : List Nat := (ndindex shape).map (elemPos shape)

/-! ## Expressions, substitution, residual -/

abbrev IMat := Mat Int

inductive Expr where
  | var (name : List Char)                       -- a symbol of the model (any shape)
  | pack (r c : Nat) (names : List (List Char))  -- `reshape(vertcat(syms), c, r).T` of scalar symbols
  | el (e : Expr) (k : Nat)                      -- `e[k]`, `k` a column-major position
  | const (m : IMat)
  | add (a b : Expr)
  | sub (a b : Expr)
  | emul (a b : Expr)
  | smul (k : Int) (a : Expr)
  | neg (a : Expr)

abbrev Env := List Char → Option IMat

def zipBin (f : Int → Int → Int) (a b : IMat) : Option IMat :=
  if a.rows = b.rows ∧ a.cols = b.cols then some ⟨a.rows, a.cols, List.zipWith f a.data b.data⟩
  else if a.rows = 1 ∧ a.cols = 1 then some ⟨b.rows, b.cols, b.data.map (f (a.data.getD 0 0))⟩
  else if b.rows = 1 ∧ b.cols = 1 then some ⟨a.rows, a.cols, a.data.map (fun x => f x (b.data.getD 0 0))⟩
  else none

/-- values of scalar symbols, `none` when one is unbound or not 1x1 -/
def scalars (env : Env) : List (List Char) → Option (List Int)
  | [] => some []
  | n :: ns =>
    match env n, scalars env ns with
    | some m, some vs => if m.rows = 1 ∧ m.cols = 1 then some (m.data.getD 0 0 :: vs) else none
    | _, _ => none

def eval (env : Env) : Expr → Option IMat
  | .var n => env n
  | .pack r c names =>
    match scalars env names with
    | some vs => if vs.length = r * c then some (substValue r c vs) else none
    | none => none
  | .el e k =>
    match eval env e with
    | some m => if k < m.data.length then some ⟨1, 1, [m.data.getD k 0]⟩ else none
    | none => none
  | .const m => some m
  | .add a b => match eval env a, eval env b with
    | some x, some y => zipBin (· + ·) x y | _, _ => none
  | .sub a b => match eval env a, eval env b with
    | some x, some y => zipBin (· - ·) x y | _, _ => none
  | .emul a b => match eval env a, eval env b with
    | some x, some y => zipBin (· * ·) x y | _, _ => none
  | .smul k a => match eval env a with
    | some x => some ⟨x.rows, x.cols, x.data.map (k * ·)⟩ | none => none
  | .neg a => match eval env a with
    | some x => some ⟨x.rows, x.cols, x.data.map (- ·)⟩ | none => none

/-- the substitution table: symbol ↦ (rows, cols, scalar names in creation order) -/
abbrev Table := List Char → Option (Nat × Nat × List (List Char))

/-- `ca.substitute(eq, symbols, values)` -/
def expandE (tbl : Table) : Expr → Expr
  | .var n => match tbl n with
    | some (r, c, names) => .pack r c names
    | none => .var n
  | .pack r c names => .pack r c names
  | .el e k => .el (expandE tbl e) k
  | .const m => .const m
  | .add a b => .add (expandE tbl a) (expandE tbl b)
  | .sub a b => .sub (expandE tbl a) (expandE tbl b)
  | .emul a b => .emul (expandE tbl a) (expandE tbl b)
  | .smul k a => .smul k (expandE tbl a)
  | .neg a => .neg (expandE tbl a)

/-- `veccat(*equations)` resp. `chain(vertsplit(vec(eq)) for eq in equations)`: the entries of all
    residuals in column-major order -/
def residual (env : Env) : List Expr → Option (List Int)
  | [] => some []
  | e :: es =>
    match eval env e, residual env es with
    | some m, some r => some (m.data ++ r)
    | _, _ => none

/-! ## Declarations, the table and the renamed point (what the driver runs) -/

structure Decl where
  name : List Char                 -- the symbol's name, the key of the point
  pre : List Char                  -- the parsed name: `pre ++ dotJoin parts ++ post`
  parts : List (List Char)
  post : List Char
  ms : MShape

/-- what `_expand_vectors` computes from the symbol name -/
def Decl.ofName (name : List Char) (ms : MShape) : Decl :=
  let (pre, core, post) := splitName name
  ⟨name, pre, splitDots core, post, ms⟩

def Decl.dims (d : Decl) : List Nat := iterShape d.ms

def Decl.scalar (d : Decl) (idx : List Nat) : List Char := scalarNameP d.pre d.post d.parts d.ms idx

def Decl.names (d : Decl) : List (List Char) := (ndindex d.dims).map d.scalar

/-- table entry of a declaration, if it is expanded -/
def Decl.entry (d : Decl) : Option (Nat × Nat × List (List Char)) :=
  if d.dims = [] then none else some ((mxShape d.dims).1, (mxShape d.dims).2, d.names)

def tableOf (ds : List Decl) : Table := fun n =>
  match ds.find? (fun d => d.name = n) with
  | some d => d.entry
  | none => none

/-- the renamed point as an association list: scalar `k` (row-major) of `d` gets the element of
    `env d.name` it stands for; unexpanded symbols keep their value -/
def renameList (ds : List Decl) (env : Env) : List (List Char × IMat) :=
  ds.flatMap fun d =>
    match env d.name with
    | none => []
    | some m =>
      if d.dims = [] then [(d.name, m)]
      else (ndindex d.dims).map fun idx =>
        (d.scalar idx, (⟨1, 1, [m.data.getD (elemPos d.dims idx) 0]⟩ : IMat))

def renameEnv (ds : List Decl) (env : Env) : Env := fun n => (renameList ds env).lookup n

end PymocaVerif.VecExpand
