import Drivers.Proto
import PymocaVerif.Model.Index
/-! Driver for C23: `index.outcome` evaluates the `Index` model on one case
    (dimensions, subscripts as written, optional loop range, the checks the tree contains). -/
open Lean Drivers PymocaVerif.Index

def parseIntS (j : Json) : Except String IntS := do
  let a ← j.getArr?
  let kind ← (a[0]?.getD Json.null).getStr?
  let v ← (a[1]?.getD Json.null).getInt?
  match kind with
  | "lit" => if v < 0 then throw "lit<0" else pure (.lit v.toNat)
  | "neg" => if v < 0 then throw "neg<0" else pure (.neg v.toNat)
  | "par" => pure (.par v)
  | k => throw s!"bad-int {k}"

def parseNatS (j : Json) : Except String NatS := do
  match ← parseIntS j with
  | .lit k => pure (.lit k)
  | .neg k => pure (.neg k)
  | .par v => if v < 0 then throw "unmodelled: negative step through a parameter" else pure (.par v.toNat)

inductive AnySub where
  | fixed (f : FSub)
  | loop (mul off : Int)

def parseSub (j : Json) : Except String AnySub := do
  let a ← j.getArr?
  let kind ← (a[0]?.getD Json.null).getStr?
  match kind with
  | "idx" => pure (.fixed (.idx (← parseIntS (a[1]?.getD Json.null))))
  | "range" => pure (.fixed (.range (← parseIntS (a[1]?.getD Json.null)) (← parseIntS (a[2]?.getD Json.null))))
  | "range3" =>
    pure (.fixed (.range3 (← parseIntS (a[1]?.getD Json.null)) (← parseNatS (a[2]?.getD Json.null))
      (← parseNatS (a[3]?.getD Json.null))))
  | "all" => pure (.fixed .all)
  | "loop" => pure (.loop (← (a[1]?.getD Json.null).getInt?) (← (a[2]?.getD Json.null).getInt?))
  | k => throw s!"bad-sub {k}"

def toASub : AnySub → ASub
  | .fixed f => .fixed f
  | .loop m o => .loop m o

def parseLevel (j : Json) : Except String Level := do
  let dims ← (← getArr j "dims").toList.mapM (·.getNat?)
  let subs ← (← getArr j "subs").toList.mapM parseSub
  pure ⟨dims, subs.map toASub⟩

def toSubs : List AnySub → Except String Subs
  | [.fixed a] => pure (.f1 a)
  | [.loop m o] => pure (.l1 m o)
  | [.fixed a, .fixed b] => pure (.ff a b)
  | [.loop m o, .fixed b] => pure (.lf m o b)
  | [.fixed a, .loop m o] => pure (.fl a m o)
  | [.loop _ _, .loop _ _] => throw "unmodelled: two loop-dependent subscripts"
  | [] => throw "no subscript"
  | _ => pure .more

def toDims : List Nat → Except String Dims
  | [] => pure .scalar
  | [n] => pure (.d1 n)
  | [n, m] => pure (.d2 n m)
  | _ => throw "unmodelled: more than two dimensions"

def parseLoop (j : Json) : Except String (Option LoopRange) := do
  if j.isNull then return none
  let a ← j.getArr?
  match a.toList with
  | [x, y] => pure (some (.two (← parseIntS x) (← parseIntS y)))
  | [x, y, z] => pure (some (.three (← parseIntS x) (← parseNatS y) (← parseNatS z)))
  | _ => throw "bad-loop"

def posJson (p : Pos) : Json := Json.arr #[Json.num (p.1 : Int), Json.num (p.2 : Int)]

/-- sorted multiset of all entries in one row (the `sum` context keeps no order) -/
def sumRows (rows : List (List Pos)) : List (List Pos) :=
  let all := rows.flatten
  if all.isEmpty then [] else
  [(all.toArray.qsort (fun a b => a.1 < b.1 || (a.1 == b.1 && a.2 < b.2))).toList]

def handle (req : Json) : Except String Json := do
  let op ← getStr req "op"
  match op with
  | "index.outcome" => do
    let cj ← getObj req "cfg"
    let cfg : Cfg := ⟨← getBool cj "sliceCheck", ← getBool cj "loopCheck", ← getBool cj "stepOrder"⟩
    let loop ← parseLoop ((req.getObjVal? "loop").toOption.getD Json.null)
    let isSum := (req.getObjValAs? Bool "sum").toOption.getD false
    let pad := (cj.getObjValAs? Bool "padMissing").toOption.getD false
    let res ← match (req.getObjVal? "levels").toOption with
      | some lv => do
        let levels ← (← lv.getArr?).toList.mapM parseLevel
        pure (outcomeNested cfg levels loop)
      | none => do
        let dims ← toDims (← (← getArr req "dims").toList.mapM (·.getNat?))
        let subs ← toSubs (← (← getArr req "subs").toList.mapM parseSub)
        match (req.getObjVal? "subs2").toOption with
        | some s2 => do
          let subs2 ← toSubs (← (← s2.getArr?).toList.mapM parseSub)
          pure (outcomePair cfg ⟨dims, subs, loop⟩ ⟨dims, subs2, loop⟩)
        | none => pure (if pad then outcomePadded cfg ⟨dims, subs, loop⟩ else outcome cfg ⟨dims, subs, loop⟩)
    match res with
    | none => pure (Json.mkObj [("ok", true), ("outcome", "error")])
    | some rows =>
      let rows := if isSum then sumRows rows else rows
      pure (Json.mkObj [("ok", true), ("outcome", "sel"),
        ("rows", Json.arr (rows.map (fun r => Json.arr (r.map posJson).toArray)).toArray)])
  | o => throw s!"unknown-op {o}"

def main : IO Unit := serve handle
