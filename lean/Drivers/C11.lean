import Drivers.Proto
import PymocaVerif.Model.GenJson
/-! Driver for C11: the serialised real flat AST of a model + evaluation points ↦ residual values by
    the model of the generator (`evalC ∘ gen`) and by the Modelica meaning (`evalM`); the model's
    operator / method tables. -/
def main : IO Unit := Drivers.serve PymocaVerif.GenJson.handle
