import PymocaVerif.Model.Classify
/-!
# Model of the delay translation and the delay-duration check (C22)

Transcription of

* `Generator.exitExpression`, branch `op == "delay" and n_operands == 2` (generator.py): the two
  operands have already been translated (post-order walk); a fresh input `_pymoca_delay_<k>` is
  allocated (`delay_counter`), `DelayArgument(expr, duration)` is appended to
  `model.delay_arguments`, the symbol name to `model.delay_states`, and the call is replaced by
  the symbol.  Inside a for-loop whose registered indexed symbols occur in `expr`, the symbol is
  registered as loop-indexed; `exitForEquation` then replaces it by a vector symbol and the
  argument's expression by the vector of the expression over the loop values
  (`DelayArgument(res, delay_symbol.duration)` — the duration is *not* mapped), after asserting
  that every symbol of the expression is an argument of the loop-body function.
* the walk order of `GeneratorWalker` over `ast.Class.__dict__`: `initial_equations` before
  `equations`; in an `Equation` `left` before `right`.
* `Model._post_checks` (model.py): `ValueError` iff the durations depend on `time`, a state, a
  derivative state, an algebraic state or an input that is not `fixed` (the delay inputs are such
  inputs).
* `Model.delay_arguments_function`: outputs `[expr_0, duration_0, expr_1, duration_1, …]`; its
  construction fails when an output still has a free (loop-local) symbol.

Expressions are the arithmetic fragment the check generates: literals, `time`, scalar and
indexed references, `der` of a (possibly indexed) reference, unary minus / floor / ceil / sign / abs, `+ - * /`, comparisons, `if`-expressions, `delay`.  For-loops run from 1
with step 1 and contain plain equations (the generator does not support nested loops).
-/
namespace PymocaVerif.Delay
open PymocaVerif.Classify (Cat derName delayName)

inductive BinOp where
  | add | sub | mul | div
  /-- comparisons: 1 if true, 0 if false (as CasADi does) -/
  | gt | lt | ge | le
  deriving DecidableEq, Repr

inductive UnOp where
  | neg | floor | ceil | sign | abs
  deriving DecidableEq, Repr

inductive Expr where
  | lit (q : Rat)
  | time
  | ref (name : String)
  | idx (name : String) (i : Expr)
  /-- `der(x)` -/
  | der (name : String)
  /-- `der(x[i])` -/
  | derAt (name : String) (i : Expr)
  | un (f : UnOp) (e : Expr)
  /-- `if c then t else e` (`ca.if_else`) -/
  | ite (c t e : Expr)
  | bin (op : BinOp) (a b : Expr)
  /-- source only: `delay(a, d)`; `id` identifies the node in the source -/
  | delay (id : Nat) (a d : Expr)
  /-- translated only: the scalar input `_pymoca_delay_k` -/
  | dsym (k : Nat)
  /-- translated only: element of the vector input `_pymoca_delay_k` -/
  | dsymAt (k : Nat) (i : Expr)
  deriving Repr

inductive Equation where
  | eq (l r : Expr)
  /-- `for var in 1:n loop body end for` -/
  | forEq (var : String) (n : Nat) (body : List (Expr × Expr))

/-- One entry of `model.delay_arguments` (with the bookkeeping the model needs). -/
structure DArg where
  k : Nat
  id : Nat
  /-- the delayed expression: one entry, or one per loop value for a loop-indexed delay -/
  exprs : List Expr
  dur : Expr
  vec : Bool
  /-- loop variable of the enclosing for-loop -/
  lv : Option String
  /-- loop-indexed delay: the expression before it was mapped over the loop values -/
  raw : Expr

structure St where
  next : Nat
  args : List DArg
  /-- no `assert` of `exitForEquation` has failed so far -/
  ok : Bool

/-- Replace the loop variable by a literal (what mapping the loop-body function over the loop
    values does to an expression). -/
def substVar (v : String) (c : Nat) : Expr → Expr
  | .lit q => .lit q
  | .time => .time
  | .ref n => if n = v then .lit (c : Int) else .ref n
  | .idx n i => .idx n (substVar v c i)
  | .der n => .der n
  | .derAt n i => .derAt n (substVar v c i)
  | .un f e => .un f (substVar v c e)
  | .ite x t e => .ite (substVar v c x) (substVar v c t) (substVar v c e)
  | .bin o a b => .bin o (substVar v c a) (substVar v c b)
  | .delay id a d => .delay id (substVar v c a) (substVar v c d)
  | .dsym k => .dsym k
  | .dsymAt k i => .dsymAt k (substVar v c i)

/-- Does the loop variable occur anywhere in the expression? -/
def mentionsVar (v : String) : Expr → Bool
  | .lit _ => false
  | .time => false
  | .ref n => n = v
  | .idx _ i => mentionsVar v i
  | .der _ => false
  | .derAt _ i => mentionsVar v i
  | .un _ e => mentionsVar v e
  | .ite c t e => mentionsVar v c || mentionsVar v t || mentionsVar v e
  | .bin _ a b => mentionsVar v a || mentionsVar v b
  | .delay _ a d => mentionsVar v a || mentionsVar v d
  | .dsym _ => false
  | .dsymAt _ i => mentionsVar v i

/-- `set(ca.symvar(expr)) ∩ f.indexed_symbols ≠ ∅`: the expression contains a symbol registered as
    indexed by the loop (an `x[..i..]` placeholder or an already loop-indexed delay symbol). -/
def mentionsIndexed (v : String) : Expr → Bool
  | .lit _ => false
  | .time => false
  | .ref _ => false
  | .idx _ i => mentionsVar v i
  | .der _ => false
  | .derAt _ i => mentionsVar v i
  | .un _ e => mentionsIndexed v e
  | .ite c t e => mentionsIndexed v c || mentionsIndexed v t || mentionsIndexed v e
  | .bin _ a b => mentionsIndexed v a || mentionsIndexed v b
  | .delay _ a d => mentionsIndexed v a || mentionsIndexed v d
  | .dsym _ => false
  | .dsymAt _ i => mentionsVar v i

/-- The `DelayArgument` recorded for `delay(a, d)` with translated operands `a'`, `d'`:
    loop-indexed (mapped over the loop values by `exitForEquation`) iff `a'` contains a symbol
    registered as indexed by the enclosing loop. -/
def newArg (lp : Option (String × Nat)) (k id : Nat) (a' d' : Expr) : DArg :=
  match lp with
  | some (v, n) =>
    if mentionsIndexed v a' then
      ⟨k, id, (List.range n).map (fun j => substVar v (j + 1) a'), d', true, some v, a'⟩
    else ⟨k, id, [a'], d', false, some v, a'⟩
  | none => ⟨k, id, [a'], d', false, none, a'⟩

/-- The symbol that replaces the call. -/
def newSym (lp : Option (String × Nat)) (k : Nat) (a' : Expr) : Expr :=
  match lp with
  | some (v, _) => if mentionsIndexed v a' then .dsymAt k (.ref v) else .dsym k
  | none => .dsym k

/-- Translation of one expression (post-order; state = delay counter and argument list). -/
def tr (lp : Option (String × Nat)) : Expr → St → Expr × St
  | .lit q, s => (.lit q, s)
  | .time, s => (.time, s)
  | .ref n, s => (.ref n, s)
  | .idx n i, s => let r := tr lp i s; (.idx n r.1, r.2)
  | .der n, s => (.der n, s)
  | .derAt n i, s => let r := tr lp i s; (.derAt n r.1, r.2)
  | .un f e, s => let r := tr lp e s; (.un f r.1, r.2)
  | .ite c t e, s =>
    let rc := tr lp c s
    let rt := tr lp t rc.2
    let re := tr lp e rt.2
    (.ite rc.1 rt.1 re.1, re.2)
  | .bin o a b, s =>
    let ra := tr lp a s
    let rb := tr lp b ra.2
    (.bin o ra.1 rb.1, rb.2)
  | .delay id a d, s =>
    let ra := tr lp a s
    let rd := tr lp d ra.2
    let k := rd.2.next
    (newSym lp k ra.1, ⟨k + 1, rd.2.args ++ [newArg lp k id ra.1 rd.1], rd.2.ok⟩)
  | .dsym k, s => (.dsym k, s)
  | .dsymAt k i, s => let r := tr lp i s; (.dsymAt k r.1, r.2)

/-- Equations of a loop body / a plain equation: left then right. -/
def trPairs (lp : Option (String × Nat)) : List (Expr × Expr) → St → List (Expr × Expr) × St
  | [], s => ([], s)
  | (l, r) :: rest, s =>
    let rl := tr lp l s
    let rr := tr lp r rl.2
    let rs := trPairs lp rest rr.2
    ((rl.1, rr.1) :: rs.1, rs.2)

/-! Symbols an expression depends on -/

inductive Atom where
  | time
  | var (n : String)
  | der (n : String)
  | dly (k : Nat)
  /-- loop-local placeholder (`x[i]`, `der(x)[i]`, `_pymoca_delay_k[i]`) -/
  | loopIdx (n : String)
  | loopVar
  deriving DecidableEq, Repr

/-- `ca.symvar` of a translated expression; `lv` = loop variable of the context it was built in. -/
def atoms (lv : Option String) : Expr → List Atom
  | .lit _ => []
  | .time => [.time]
  | .ref n => if lv = some n then [.loopVar] else [.var n]
  | .idx n i =>
    let ai := atoms lv i
    if .loopVar ∈ ai then [.loopIdx n] else .var n :: ai
  | .der n => [.der n]
  | .derAt n i =>
    let ai := atoms lv i
    if .loopVar ∈ ai then [.loopIdx (derName n)] else .der n :: ai
  | .un _ e => atoms lv e
  | .ite c t e => atoms lv c ++ atoms lv t ++ atoms lv e
  | .bin _ a b => atoms lv a ++ atoms lv b
  | .delay _ a d => atoms lv a ++ atoms lv d
  | .dsym k => [.dly k]
  | .dsymAt k i =>
    let ai := atoms lv i
    if .loopVar ∈ ai then [.loopIdx (delayName k)] else .dly k :: ai

def isScalarAtom : Atom → Bool
  | .loopIdx _ => false
  | .loopVar => false
  | _ => true

def pairAtoms (lv : Option String) (body : List (Expr × Expr)) : List Atom :=
  body.flatMap (fun p => atoms lv p.1 ++ atoms lv p.2)

/-- The `assert` of `exitForEquation` for the loop-indexed delays `newArgs` created in this loop:
    every non-loop-local symbol of the delayed expression occurs in the translated loop body
    (is a free variable of the loop-body function). -/
def loopAssert (v : String) (body : List (Expr × Expr)) (newArgs : List DArg) : Bool :=
  newArgs.all fun a =>
    !a.vec || ((atoms (some v) a.raw).filter isScalarAtom).all (fun x => (pairAtoms (some v) body).contains x)

def trEq : Equation → St → Equation × St
  | .eq l r, s =>
    let rl := tr none l s
    let rr := tr none r rl.2
    (.eq rl.1 rr.1, rr.2)
  | .forEq v n body, s =>
    let p := trPairs (some (v, n)) body s
    (.forEq v n p.1, { p.2 with ok := p.2.ok && loopAssert v p.1 (p.2.args.drop s.args.length) })

def trEqs : List Equation → St → List Equation × St
  | [], s => ([], s)
  | q :: qs, s => let r := trEq q s; let rs := trEqs qs r.2; (r.1 :: rs.1, rs.2)

structure Translated where
  ieqs : List Equation
  eqs : List Equation
  args : List DArg
  assertOk : Bool

/-- The generator's walk: initial equations, then equations. -/
def translate (ieqs eqs : List Equation) : Translated :=
  let ri := trEqs ieqs ⟨0, [], true⟩
  let re := trEqs eqs ri.2
  ⟨ri.1, re.1, re.2.args, re.2.ok⟩

/-- Category information of the flat model (from the classification of C10). -/
structure Cats where
  cat : String → Option Cat
  fixed : String → Bool

/-- Is the atom one of `time`, states, der_states, alg_states, non-fixed inputs? -/
def disallowed (c : Cats) : Atom → Bool
  | .time => true
  | .var n =>
    match c.cat n with
    | some .state => true
    | some .alg => true
    | some .input => !c.fixed n
    | _ => false
  | .der n => c.cat n == some .state
  | .dly _ => true
  | .loopIdx _ => false
  | .loopVar => false

/-- `ca.depends_on(durations, disallowed_duration_symbols)`. -/
def postCheckFails (c : Cats) (args : List DArg) : Bool :=
  args.any (fun a => (atoms a.lv a.dur).any (disallowed c))

/-- An output of the delay-argument function has no loop-local symbol left. -/
def closedExpr (lv : Option String) (e : Expr) : Bool :=
  (atoms lv e).all (fun a => match a with | .loopIdx _ => false | .loopVar => false | _ => true)

def DArg.closed (a : DArg) : Bool :=
  (if a.vec then a.exprs.all (closedExpr none) else a.exprs.all (closedExpr a.lv)) && closedExpr a.lv a.dur

inductive Verdict where
  | assertionError   -- out of the generator (exitForEquation)
  | reject           -- ValueError of _post_checks
  | freeSymbol       -- accepted, but delay_arguments_function cannot be built
  | accept
  deriving DecidableEq, Repr

def verdict (c : Cats) (t : Translated) : Verdict :=
  if !t.assertOk then .assertionError
  else if postCheckFails c t.args then .reject
  else if !(t.args.all (·.closed)) then .freeSymbol
  else .accept

/-! ## Simplification passes that substitute symbols (`Model._substitute_delay_arguments`)

`detect_aliases`, `eliminable_variable_expression`, `replace_parameter_values`,
`replace_constant_values` (and the `*_expressions` variants) all end with
`self.delay_arguments = self._substitute_delay_arguments(self.delay_arguments, symbols, values)`,
which substitutes in the delayed expressions *and* in the durations; the substituted variables
leave the variable lists of the model. -/

/-- `ca.substitute(e, symbols, values)` for scalar symbols. -/
def substRef (σ : String → Option Expr) : Expr → Expr
  | .lit q => .lit q
  | .time => .time
  | .ref n => (σ n).getD (.ref n)
  | .idx n i => .idx n (substRef σ i)
  | .der n => .der n
  | .derAt n i => .derAt n (substRef σ i)
  | .un f e => .un f (substRef σ e)
  | .ite c t e => .ite (substRef σ c) (substRef σ t) (substRef σ e)
  | .bin o a b => .bin o (substRef σ a) (substRef σ b)
  | .delay id a d => .delay id (substRef σ a) (substRef σ d)
  | .dsym k => .dsym k
  | .dsymAt k i => .dsymAt k (substRef σ i)

def substArg (σ : String → Option Expr) (a : DArg) : DArg :=
  { a with exprs := a.exprs.map (substRef σ), dur := substRef σ a.dur, raw := substRef σ a.raw }

def substArgs (σ : String → Option Expr) (args : List DArg) : List DArg := args.map (substArg σ)

/-- The category table after the substituted variables were removed from the model's lists. -/
def Cats.remove (c : Cats) (gone : String → Bool) : Cats :=
  { cat := fun n => if gone n then none else c.cat n, fixed := c.fixed }

/-- A model after a substituting simplification pass. -/
def Translated.simplify (t : Translated) (σ : String → Option Expr) : Translated :=
  { t with args := substArgs σ t.args }

/-! ## `Model._expand_vectors`: array variables are replaced by their scalar elements

Every variable group (states, der_states, alg_states, inputs, parameters, constants) is expanded;
the symbol `x` with a literal subscript becomes the scalar symbol `x[k]`, the derivative
`der(x)` with subscript `k` becomes `der(x[k])`, and `_substitute_delay_arguments` applies this
to the delayed expressions and to the durations alike. -/

def toIndex (q : Rat) : Option Nat :=
  if q.den = 1 ∧ q.num > 0 then some q.num.toNat else none

def elemName (n : String) (k : Nat) : String := n ++ "[" ++ toString k ++ "]"

/-- A literal positive integer subscript. -/
def litIndex : Expr → Option Nat
  | .lit q => toIndex q
  | _ => none

/-- Renaming of literally subscripted references to the expanded scalar symbols. -/
def expandRef : Expr → Expr
  | .lit q => .lit q
  | .time => .time
  | .ref n => .ref n
  | .idx n i =>
    match litIndex i with
    | some k => .ref (elemName n k)
    | none => .idx n (expandRef i)
  | .der n => .der n
  | .derAt n i =>
    match litIndex i with
    | some k => .der (elemName n k)
    | none => .derAt n (expandRef i)
  | .un f e => .un f (expandRef e)
  | .ite c t e => .ite (expandRef c) (expandRef t) (expandRef e)
  | .bin o a b => .bin o (expandRef a) (expandRef b)
  | .delay id a d => .delay id (expandRef a) (expandRef d)
  | .dsym k => .dsym k
  | .dsymAt k i => .dsymAt k (expandRef i)

/-! ## `transfer_model` with `cache=True` as a state machine

`try: return load_model(...) except (FileNotFoundError, InvalidCacheError): model =
_compile_model(...) ; save_model(...) ; return model` — `_compile_model` ends with
`model._post_checks()`, so a rejected model never reaches `save_model`. -/

/-- Outcome of a call: the model is returned, or an exception leaves `transfer_model`. -/
inductive CallResult where
  | returned
  | raised
  deriving DecidableEq, Repr

/-- One call on a folder whose source compiles with outcome `compile`; state = "a valid cache
    file exists". -/
def transferCall (compile : CallResult) (cacheFile : Bool) : CallResult × Bool :=
  if cacheFile then (.returned, true)
  else match compile with
    | .returned => (.returned, true)
    | .raised => (.raised, false)

/-- Results of `n` successive calls. -/
def transferCalls (compile : CallResult) : Nat → Bool → List CallResult
  | 0, _ => []
  | n + 1, f => (transferCall compile f).1 :: transferCalls compile n (transferCall compile f).2

def compileResult : Verdict → CallResult
  | .assertionError => .raised
  | .reject => .raised
  | .freeSymbol => .returned
  | .accept => .returned

/-! ## Evaluation at exact points -/

structure Env where
  time : Rat
  val : String → Nat → Option Rat

def applyBin : BinOp → Rat → Rat → Option Rat
  | .add, x, y => some (x + y)
  | .sub, x, y => some (x - y)
  | .mul, x, y => some (x * y)
  | .div, x, y => if y = 0 then none else some (x / y)
  | .gt, x, y => some (if x > y then 1 else 0)
  | .lt, x, y => some (if x < y then 1 else 0)
  | .ge, x, y => some (if x ≥ y then 1 else 0)
  | .le, x, y => some (if x ≤ y then 1 else 0)

def applyUn : UnOp → Rat → Rat
  | .neg, x => -x
  | .floor, x => (x.floor : Int)
  | .ceil, x => (x.ceil : Int)
  | .sign, x => if x > 0 then 1 else if x < 0 then -1 else 0
  | .abs, x => if x < 0 then -x else x

/-- Value of a translated expression (`delay` nodes do not occur in it). -/
def eval (ρ : Env) : Expr → Option Rat
  | .lit q => some q
  | .time => some ρ.time
  | .ref n => ρ.val n 0
  | .idx n i => (eval ρ i).bind fun q => (toIndex q).bind fun j => ρ.val n j
  | .der n => ρ.val (derName n) 0
  | .derAt n i => (eval ρ i).bind fun q => (toIndex q).bind fun j => ρ.val (derName n) j
  | .un f e => (eval ρ e).map (applyUn f)
  | .ite c t e => (eval ρ c).bind fun x => if x = 0 then eval ρ e else eval ρ t
  | .bin o a b => (eval ρ a).bind fun x => (eval ρ b).bind fun y => applyBin o x y
  | .delay _ _ _ => none
  | .dsym k => ρ.val (delayName k) 0
  | .dsymAt k i => (eval ρ i).bind fun q => (toIndex q).bind fun j => ρ.val (delayName k) j

/-- Outputs of `delay_arguments_function` at a point: per argument the values of the expression
    (vector) and of the duration. -/
def evalArgs (ρ : Env) (args : List DArg) : List (List (Option Rat) × Option Rat) :=
  args.map fun a => (a.exprs.map (eval ρ), eval ρ a.dur)

end PymocaVerif.Delay
