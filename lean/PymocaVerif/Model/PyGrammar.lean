/-!
# Python expression grammar (table driven) and the expression printers of the SymPy backend

Model for C24.  Core Lean only.

* `Tok`, `E`: tokens and trees of the arithmetic fragment of Python the generated module uses
  (names, number literals, `+ - * / **`, prefix `+ -`, parentheses, calls `f(e)` and the postfix
  `(e).diff(self.t)`).
* `Tbl`: precedence table; `parsePrim / parseE / parseLoop`: precedence climbing (the shape of
  CPython's `sum / term / factor / power` rules when instantiated with `pyTbl`).  `rlvl` is the
  level at which the right operand of a binary operator is parsed: `lvl + 1` for the
  left-associative operators, `lvl` itself for `**`, whose right operand may also be a signed factor.
* printers: `prFix` — what `SympyGenerator.exitExpression` writes since fix C24-1 (/repo commit
  36439d5: operands that are operator expressions are parenthesised); `prCur` — the printer before
  that fix (operands pasted without parentheses; kept as the documented defect and regression
  reference); `prMin` — minimal parentheses for a table.
-/
namespace PymocaVerif.PyGrammar

abbrev Name := List Char

inductive Atom where
  | name (s : Name)      -- identifier (or `self.t`)
  | num (s : Name)       -- number literal, as written
deriving DecidableEq, Repr

inductive Tok where
  | atom (a : Atom)
  | bop (o : Nat)        -- 0 + | 1 - | 2 * | 3 / | 4 **
  | pop (q : Nat)        -- prefix 0 + | 1 -
  | lp | rp
  | fn (f : Name)        -- a function name directly followed by `(`
  | diff                 -- the postfix `.diff(self.t)`
deriving DecidableEq, Repr

inductive E where
  | atom (a : Atom)
  | bin (o : Nat) (l r : E)
  | pre (q : Nat) (e : E)
  | call (f : Name) (a : E)
  | der (e : E)
deriving DecidableEq, Repr

structure Tbl where
  lvl : Nat → Nat      -- the loop at level p takes operator o iff p ≤ lvl o
  llvl : Nat → Nat     -- context level in which the left operand is printed
  rlvl : Nat → Nat     -- level at which the right operand is parsed and printed
  flvl : Nat → Nat     -- operator o may directly follow only text printed at a level ≥ flvl o
  plvl : Nat → Nat     -- level at which a prefix operator parses its operand

section
variable (T : Tbl)

mutual
def parsePrim : Nat → List Tok → Option (E × List Tok)
  | 0, _ => none
  | _+1, Tok.atom a :: r => some (E.atom a, r)
  | f+1, Tok.lp :: r =>
      match parseE f 0 r with
      | some (e, Tok.rp :: Tok.diff :: r') => some (E.der e, r')
      | some (e, Tok.rp :: r') => some (e, r')
      | _ => none
  | f+1, Tok.fn g :: Tok.lp :: r =>
      match parseE f 0 r with
      | some (e, Tok.rp :: r') => some (E.call g e, r')
      | _ => none
  | f+1, Tok.pop q :: r =>
      match parseE f (T.plvl q) r with
      | some (e, r') => some (E.pre q e, r')
      | none => none
  | _+1, _ => none
def parseE : Nat → Nat → List Tok → Option (E × List Tok)
  | 0, _, _ => none
  | f+1, p, ts =>
      match parsePrim f ts with
      | some (l, r) => parseLoop f p l r
      | none => none
def parseLoop : Nat → Nat → E → List Tok → Option (E × List Tok)
  | 0, _, _, _ => none
  | f+1, p, l, Tok.bop o :: r =>
      if p ≤ T.lvl o then
        match parseE f (T.rlvl o) r with
        | some (rt, r') => parseLoop f p (E.bin o l rt) r'
        | none => none
      else some (l, Tok.bop o :: r)
  | _+1, _, l, ts => some (l, ts)
end

/-- Parse a whole token list (fuel `3 * length + 1` always suffices for printed text, see
    `Lemmas/PyGrammar.lean`). -/
def parseAll (ts : List Tok) : Option E :=
  match parseE T (3 * ts.length + 1) 0 ts with
  | some (e, []) => some e
  | _ => none

/-- Minimal parentheses for a table. -/
def prMin : Nat → E → List Tok
  | _, E.atom a => [Tok.atom a]
  | p, E.bin o l r =>
      if p ≤ T.lvl o then prMin (T.llvl o) l ++ Tok.bop o :: prMin (T.rlvl o) r
      else Tok.lp :: (prMin (T.llvl o) l ++ Tok.bop o :: prMin (T.rlvl o) r) ++ [Tok.rp]
  | p, E.pre q e =>
      if p ≤ T.plvl q then Tok.pop q :: prMin (T.plvl q) e
      else Tok.lp :: (Tok.pop q :: prMin (T.plvl q) e) ++ [Tok.rp]
  | _, E.call g e => Tok.fn g :: Tok.lp :: prMin 0 e ++ [Tok.rp]
  | _, E.der e => Tok.lp :: prMin 0 e ++ [Tok.rp, Tok.diff]

end

/-- Python: `+ -` < `* /` < prefix sign < `**`; `**` is right associative, its left operand
    is a primary, its right operand a (possibly signed) factor. -/
def pyTbl : Tbl where
  lvl o := if o ≤ 1 then 1 else if o ≤ 3 then 2 else 3
  llvl o := if o ≤ 1 then 1 else if o ≤ 3 then 2 else 4
  rlvl o := if o ≤ 1 then 2 else 3
  flvl o := if o ≤ 1 then 1 else if o ≤ 3 then 2 else 4
  plvl _ := 3

def pyParse (ts : List Tok) : Option E := parseAll pyTbl ts

/-- Is the node an arithmetic operator expression (binary or signed)? -/
def E.compound : E → Bool
  | E.bin .. => true
  | E.pre .. => true
  | _ => false

def wrapIf (b : Bool) (ts : List Tok) : List Tok := if b then Tok.lp :: ts ++ [Tok.rp] else ts

/-- `SympyGenerator.exitExpression` / `exitPrimary` / `exitComponentRef` before fix C24-1:
    `"{left} {op} {right}"`, `"{op} {expr}"`, `"{name}({arg})"`, `"({var}).diff(self.t)"`. -/
def prCur : E → List Tok
  | E.atom a => [Tok.atom a]
  | E.bin o l r => prCur l ++ Tok.bop o :: prCur r
  | E.pre q e => Tok.pop q :: prCur e
  | E.call g e => Tok.fn g :: Tok.lp :: prCur e ++ [Tok.rp]
  | E.der e => Tok.lp :: prCur e ++ [Tok.rp, Tok.diff]

/-- The printer of the current tree (fix C24-1, `operand_src`): an operand that is itself an
    arithmetic operator expression is parenthesised; calls, `der` and atoms are not. -/
def prFix : E → List Tok
  | E.atom a => [Tok.atom a]
  | E.bin o l r => wrapIf l.compound (prFix l) ++ Tok.bop o :: wrapIf r.compound (prFix r)
  | E.pre q e => Tok.pop q :: wrapIf e.compound (prFix e)
  | E.call g e => Tok.fn g :: Tok.lp :: prFix e ++ [Tok.rp]
  | E.der e => Tok.lp :: prFix e ++ [Tok.rp, Tok.diff]

/-- `exitEquation`: `"{left} - ({right})"`. -/
def prEq (pr : E → List Tok) (l r : E) : List Tok := pr l ++ Tok.bop 1 :: Tok.lp :: pr r ++ [Tok.rp]

/-- The tree an equation stands for: lhs − rhs. -/
def eqTree (l r : E) : E := E.bin 1 l r

/-- A printer that adds redundant parentheses pseudo-randomly (test utility for the grammar tie). -/
def prExtra (T : Tbl) : Nat → Nat → E → List Tok
  | s, p, e =>
    let body : List Tok := match e with
      | E.atom a => [Tok.atom a]
      | E.bin o l r => prExtra T (s * 3 + 1) (T.llvl o) l ++ Tok.bop o :: prExtra T (s * 5 + 2) (T.rlvl o) r
      | E.pre q e => Tok.pop q :: prExtra T (s * 7 + 3) (T.plvl q) e
      | E.call g e => Tok.fn g :: Tok.lp :: prExtra T (s * 11 + 1) 0 e ++ [Tok.rp]
      | E.der e => Tok.lp :: prExtra T (s * 13 + 5) 0 e ++ [Tok.rp, Tok.diff]
    let need : Bool := match e with
      | E.bin o _ _ => !(decide (p ≤ T.lvl o))
      | E.pre q _ => !(decide (p ≤ T.plvl q))
      | _ => false
    if need || (s % 7 == 3) then Tok.lp :: body ++ [Tok.rp] else body

/-- Natural precedence form: printing without any parentheses is a legal printing. -/
def NoParen (T : Tbl) : Nat → E → Prop
  | _, E.atom _ => True
  | p, E.bin o l r => p ≤ T.lvl o ∧ NoParen T (T.llvl o) l ∧ NoParen T (T.rlvl o) r
  | p, E.pre q e => p ≤ T.plvl q ∧ NoParen T (T.plvl q) e
  | _, E.call _ e => NoParen T 0 e
  | _, E.der e => NoParen T 0 e

def noParenB (T : Tbl) : Nat → E → Bool
  | _, E.atom _ => true
  | p, E.bin o l r => decide (p ≤ T.lvl o) && noParenB T (T.llvl o) l && noParenB T (T.rlvl o) r
  | p, E.pre q e => decide (p ≤ T.plvl q) && noParenB T (T.plvl q) e
  | _, E.call _ e => noParenB T 0 e
  | _, E.der e => noParenB T 0 e

end PymocaVerif.PyGrammar
