import PymocaVerif.Lemmas.Delay
/-!
# C22 — delay durations are validated and delay arguments preserved

Property theorems only (specification functions `delayNodes`, `allNodes`, `srcAtoms`, `evalS`,
`evalL` and helper lemmas live in `Lemmas/Delay.lean`).  All statements are about the executable
model `Model/Delay.lean`, for arbitrary expressions, equation lists and category tables.
-/
namespace PymocaVerif.Delay
open PymocaVerif.Classify (Cat derName delayName)

/-- **args_complete.** The translation records exactly one argument per `delay` call of the
    source, in the order of the generator's walk (initial equations first, operands before the
    call), and numbers the input symbols `_pymoca_delay_0 … _pymoca_delay_{n-1}` consecutively:
    fresh, distinct, one per call — for any nesting, inside and outside for-loops. -/
theorem args_complete (ieqs eqs : List Equation) :
    (translate ieqs eqs).args.map (·.k) = List.range (allNodes ieqs eqs).length ∧
    (translate ieqs eqs).args.map (·.id) = (allNodes ieqs eqs).map (·.1) ∧
    ((translate ieqs eqs).args.map (·.k)).Nodup :=
  ⟨(translate_step ieqs eqs).1, (translate_step ieqs eqs).2, by
    rw [(translate_step ieqs eqs).1]; exact List.nodup_range⟩

example : (allNodes [.eq (.ref "x") (.delay 7 (.ref "y") (.ref "p"))]
    [.forEq "i" 2 [(.idx "z" (.ref "i"), .delay 8 (.bin .add (.idx "x" (.ref "i")) (.delay 9 (.ref "y") (.lit 1))) (.ref "p"))]]).map
    (·.1) = [7, 9, 8] := by decide

/-- **disallowed_cases.** The duration check objects to exactly: `time`, a variable classified as
    state or algebraic, an input that is not fixed, the derivative of a state, and a delay input. -/
theorem disallowed_cases (c : Cats) (x : Atom) :
    disallowed c x = true ↔
      x = .time ∨ (∃ k, x = .dly k) ∨
      (∃ n, x = .var n ∧ (c.cat n = some .state ∨ c.cat n = some .alg ∨ (c.cat n = some .input ∧ c.fixed n = false))) ∨
      (∃ n, x = .der n ∧ c.cat n = some .state) := by
  cases x with
  | time => simp [disallowed]
  | dly k => simp [disallowed]
  | loopIdx n => simp [disallowed]
  | loopVar => simp [disallowed]
  | der n => simp [disallowed]
  | var n =>
    simp only [disallowed, reduceCtorEq, false_or, Atom.var.injEq, exists_eq_left']
    cases h : c.cat n with
    | none => simp
    | some k => cases k <;> simp

example : disallowed ⟨fun n => if n = "u" then some .input else none, fun _ => false⟩ (.var "u") = true ∧
    disallowed ⟨fun n => if n = "u" then some .input else none, fun _ => true⟩ (.var "u") = false := by
  constructor <;> decide

/-- **rejects_iff_partial.** When no duration inside a for-loop mentions that loop's variable, the
    model is rejected (`_post_checks` raises) iff some `delay` call of the source — at any
    nesting depth, in initial equations, equations or loop bodies — has a duration that mentions
    a disallowed symbol (a nested `delay` in a duration counts: it is a non-fixed input).
    Missing for the full property: durations that mention the loop variable; for those the
    implementation checks loop-local placeholder symbols instead of the variables (open finding
    C22-F1, see `loop_indexed_duration_escapes`). -/
theorem rejects_iff_partial (c : Cats) (ieqs eqs : List Equation)
    (hi : ∀ q ∈ ieqs, DursLoopFree q) (he : ∀ q ∈ eqs, DursLoopFree q) :
    postCheckFails c (translate ieqs eqs).args = true ↔
      ∃ nd ∈ allNodes ieqs eqs, ∃ x ∈ srcAtoms nd.2.2, disallowed c x = true := by
  have h := durs_translate c ieqs eqs hi he
  have e1 : postCheckFails c (translate ieqs eqs).args = ((translate ieqs eqs).args.map (durKey c)).any id := by
    simp [postCheckFails, List.any_map, durKey, Function.comp_def]
  have e2 : ((allNodes ieqs eqs).map (srcKey c)).any id = (allNodes ieqs eqs).any (srcKey c) := by
    simp [List.any_map, Function.comp_def]
  rw [e1, h, e2, List.any_eq_true]
  simp only [srcKey, List.any_eq_true]

example : DursLoopFree (.forEq "i" 3 [(.idx "z" (.ref "i"), .delay 0 (.idx "x" (.ref "i")) (.bin .mul (.lit 2) (.ref "p")))]) := by
  intro nd hnd
  simp [pairNodes, delayNodes] at hnd
  subst hnd
  decide

/-- **accepts_iff_partial.** Under the same hypothesis the duration check passes iff every
    duration of every `delay` call mentions only symbols that are not disallowed — by
    `disallowed_cases`: constants, parameters, fixed inputs (and literals). -/
theorem accepts_iff_partial (c : Cats) (ieqs eqs : List Equation)
    (hi : ∀ q ∈ ieqs, DursLoopFree q) (he : ∀ q ∈ eqs, DursLoopFree q) :
    postCheckFails c (translate ieqs eqs).args = false ↔
      ∀ nd ∈ allNodes ieqs eqs, ∀ x ∈ srcAtoms nd.2.2, disallowed c x = false := by
  have h := rejects_iff_partial c ieqs eqs hi he
  constructor
  · intro hf nd hnd x hx
    cases hd : disallowed c x with
    | false => rfl
    | true => rw [h.mpr ⟨nd, hnd, x, hx, hd⟩] at hf; exact absurd hf (by decide)
  · intro hall
    cases hp : postCheckFails c (translate ieqs eqs).args with
    | false => rfl
    | true =>
      obtain ⟨nd, hnd, x, hx, hd⟩ := h.mp hp
      rw [hall nd hnd x hx] at hd; exact absurd hd (by decide)

example : ∀ q ∈ [Equation.eq (.ref "z") (.delay 0 (.ref "x") (.ref "p"))], DursLoopFree q := by
  intro q hq; simp at hq; subst hq; trivial

/-- The defect behind C22-F1, proved on the model of the code as it is: inside a for-loop a
    duration on the loop-indexed algebraic variable `y[i]` is *not* rejected (the check sees a
    placeholder), and the delay-argument function cannot be built (`freeSymbol`). -/
theorem loop_indexed_duration_escapes :
    verdict ⟨fun n => if n = "y" then some .alg else if n = "x" then some .state else none, fun _ => false⟩
      (translate [] [.forEq "i" 2 [(.idx "z" (.ref "i"), .delay 0 (.idx "x" (.ref "i")) (.idx "y" (.ref "i")))]])
      = .freeSymbol := by decide

example : verdict ⟨fun n => if n = "y" then some .alg else none, fun _ => false⟩
    (translate [] [.eq (.ref "z") (.delay 0 (.ref "x") (.ref "y"))]) = .reject := by decide

/-- **args_preserved.** For equations outside for-loops: give every delayed quantity of the
    source a value `τ id`; if the input symbol of each recorded argument carries the value of
    its node, then every translated equation evaluates like its source equation (each `delay`
    call was replaced by *its own* input), and every recorded argument belongs to a source
    node whose delayed expression and duration it evaluates to — for arbitrarily nested delays,
    initial equations included. -/
theorem args_preserved (ρ : Env) (τ : Nat → Option Rat) (ieqs eqs : List Equation)
    (hi : ∀ q ∈ ieqs, Plain q) (he : ∀ q ∈ eqs, Plain q)
    (hc : ∀ a ∈ (translate ieqs eqs).args, ρ.val (delayName a.k) 0 = τ a.id) :
    (translate ieqs eqs).ieqs.map (evalEq ρ) = ieqs.map (evalSEq ρ τ) ∧
    (translate ieqs eqs).eqs.map (evalEq ρ) = eqs.map (evalSEq ρ τ) ∧
    ∀ a ∈ (translate ieqs eqs).args, ∃ nd ∈ allNodes ieqs eqs, Preserved ρ τ a nd := by
  rw [translate_args] at hc
  obtain ⟨i1, i2⟩ := eqs_sem ρ τ ieqs ⟨0, [], true⟩ hi (fun x hx => hc x (List.mem_append_left _ hx))
  obtain ⟨e1, e2⟩ := eqs_sem ρ τ eqs (trEqs ieqs ⟨0, [], true⟩).2 he (fun x hx => hc x (List.mem_append_right _ hx))
  refine ⟨by simpa [translate] using i1, by simpa [translate] using e1, ?_⟩
  intro a ha
  rw [translate_args] at ha
  rcases List.mem_append.mp ha with ha | ha
  · obtain ⟨nd, hnd, hp⟩ := i2 a ha
    exact ⟨nd, by simp [allNodes, hnd], hp⟩
  · obtain ⟨nd, hnd, hp⟩ := e2 a ha
    exact ⟨nd, by
      simp only [allNodes, List.mem_append]
      exact Or.inr hnd, hp⟩

example : (∀ q ∈ [Equation.eq (.ref "z") (.delay 0 (.bin .add (.ref "x") (.delay 1 (.ref "y") (.lit 1))) (.ref "p"))], Plain q) ∧
    (translate [] [.eq (.ref "z") (.delay 0 (.bin .add (.ref "x") (.delay 1 (.ref "y") (.lit 1))) (.ref "p"))]).args.map (·.id)
      = [1, 0] := by
  constructor
  · intro q hq; simp at hq; subst hq; trivial
  · decide

/-- **rejects_iff_as_implemented.** The full characterisation of the duration check of the code
    as it is, for *every* source (no hypothesis): the model is rejected iff some `delay` call has
    a duration in which — reading references through the loop variable (`y[i]`, `i`, a
    loop-indexed nested delay) as loop-local placeholders, as the generator does — a disallowed
    symbol remains.  Together with `rejects_iff_partial` this isolates the defect C22-F1: the two
    readings differ exactly on durations that mention the loop variable. -/
theorem rejects_iff_as_implemented (c : Cats) (ieqs eqs : List Equation) :
    postCheckFails c (translate ieqs eqs).args = true ↔
      ∃ p ∈ allNodesL ieqs eqs, ∃ x ∈ srcAtomsL p.1 p.2.2.2, disallowed c x = true := by
  have h := durs_translateL c ieqs eqs
  have e1 : postCheckFails c (translate ieqs eqs).args = ((translate ieqs eqs).args.map (durKey c)).any id := by
    simp [postCheckFails, List.any_map, durKey, Function.comp_def]
  have e2 : ((allNodesL ieqs eqs).map (srcKeyL c)).any id = (allNodesL ieqs eqs).any (srcKeyL c) := by
    simp [List.any_map, Function.comp_def]
  rw [e1, h, e2, List.any_eq_true]
  simp only [srcKeyL, List.any_eq_true]

example : srcAtomsL (some "i") (.bin .add (.idx "y" (.ref "i")) (.ref "x")) = [.loopIdx "y", .var "x"] ∧
    srcAtomsL none (.bin .add (.idx "y" (.lit 2)) (.ref "x")) = [.var "y", .var "x"] := by
  constructor <;> decide

-- a duration that depends on a disallowed symbol only through a condition, a comparison or a
-- rounding / sign function is rejected all the same: the check is about occurrence, not about derivatives
example : verdict ⟨fun n => if n = "p" then some .param else if n = "x" then some .state else none, fun _ => false⟩
    (translate [] [.eq (.ref "z") (.delay 0 (.ref "x")
        (.ite (.bin .gt (.ref "x") (.lit 0)) (.ref "p") (.bin .mul (.lit 2) (.ref "p"))))]) = .reject ∧
    verdict ⟨fun n => if n = "p" then some .param else none, fun _ => false⟩
    (translate [] [.eq (.ref "z") (.delay 0 (.ref "x") (.bin .add (.un .floor .time) (.lit 1)))]) = .reject ∧
    verdict ⟨fun n => if n = "p" then some .param else none, fun _ => false⟩
    (translate [] [.eq (.ref "z") (.delay 0 (.ref "x") (.un .ceil (.ref "p")))]) = .accept := by decide

/-- The defect behind C22-F2, proved on the model of the code as it is: a loop-indexed delayed
    expression that mentions a scalar (`u`) occurring nowhere else in the loop body trips the
    `assert` of `exitForEquation`, although its duration `p` is a parameter. -/
theorem lonely_symbol_assertion :
    verdict ⟨fun n => if n = "p" then some .param else if n = "x" then some .state else none, fun _ => false⟩
      (translate [] [.forEq "i" 2 [(.idx "z" (.ref "i"),
          .delay 0 (.bin .add (.idx "x" (.ref "i")) (.ref "u")) (.ref "p"))]])
      = .assertionError := by decide

example : verdict ⟨fun n => if n = "p" then some .param else none, fun _ => false⟩
    (translate [] [.forEq "i" 2 [(.idx "z" (.ref "i"),
        .bin .add (.delay 0 (.bin .add (.idx "x" (.ref "i")) (.ref "u")) (.ref "p")) (.ref "u"))]])
    = .accept := by decide

/-- **loop_args_preserved.** For the body of `for v in 1:n`, with arbitrarily nested delays: give
    every delayed quantity a value `τ id c` per iteration `c`; if the input of each recorded
    argument carries it (element `c` of the vector input of a loop-indexed delay, the scalar input
    otherwise), then in every iteration each translated equation evaluates like its source
    equation, and every recorded argument belongs to a source node such that: a loop-indexed
    argument is the vector of the node's delayed expression over the iterations, a scalar one
    evaluates to it, and the duration evaluates (in the iteration's context) to the node's
    duration.  (The delay-argument *function* evaluates the duration outside the loop: that is
    C22-F1 for durations mentioning the loop variable.) -/
theorem loop_args_preserved (ρ : Env) (τ : Nat → Nat → Option Rat) (v : String) (n : Nat)
    (body : List (Expr × Expr)) (s : St)
    (hc : ∀ a ∈ pairArgs (some (v, n)) body s, LoopCons ρ τ n a) :
    (∀ c, 1 ≤ c → c ≤ n →
      (trPairs (some (v, n)) body s).1.map (fun p => (evalL ρ v c p.1, evalL ρ v c p.2)) =
        body.map (fun p => (evalSL ρ τ v c p.1, evalSL ρ τ v c p.2))) ∧
    (∀ a ∈ pairArgs (some (v, n)) body s, ∃ nd ∈ pairNodes body, PreservedL ρ τ v n a nd) ∧
    (trPairs (some (v, n)) body s).2.args = s.args ++ pairArgs (some (v, n)) body s :=
  ⟨(pairs_semL ρ τ v n body s hc).1, (pairs_semL ρ τ v n body s hc).2, pairs_args _ body s⟩

example : (pairArgs (some ("i", 2)) [(.idx "z" (.ref "i"),
      .delay 0 (.bin .add (.idx "x" (.ref "i")) (.delay 1 (.idx "y" (.ref "i")) (.lit 1))) (.ref "p"))] ⟨0, [], true⟩).map
    (fun a => (a.id, a.vec, a.exprs.length)) = [(1, true, 2), (0, true, 2)] := by decide

/-- **postcheck_invariant_under_substitution.** A simplification pass that substitutes symbols
    (alias elimination, `eliminable_variable_expression`, replacing parameter/constant values) in
    the delayed expressions *and* the durations, and removes the substituted variables from the
    model's lists, does not change the verdict of the duration check — provided every
    replacement mentions a disallowed symbol exactly when the replaced variable was disallowed
    (an alias of an algebraic variable is replaced by an algebraic variable, a state or a
    non-fixed input; a parameter by its value), no state is eliminated and no eliminated name is
    used with a subscript.  So rejection does not depend on these compiler options. -/
theorem postcheck_invariant_under_substitution (c : Cats) (σ : String → Option Expr) (gone : String → Bool)
    (args : List DArg)
    (ok : ∀ a ∈ args, SubstOk c a.lv σ gone)
    (hidx : ∀ a ∈ args, ∀ n ∈ idxNames a.dur, gone n = false) :
    postCheckFails (c.remove gone) (substArgs σ args) = postCheckFails c args := by
  have key : ∀ (l : List DArg), (∀ a ∈ l, a ∈ args) →
      (l.map (substArg σ)).any (fun a => (atoms a.lv a.dur).any (disallowed (c.remove gone))) =
        l.any (fun a => (atoms a.lv a.dur).any (disallowed c)) := by
    intro l
    induction l with
    | nil => intro _; rfl
    | cons a t ih =>
      intro hl
      have ha : a ∈ args := hl a (by simp)
      have := (subst_atoms (ok a ha) a.dur (hidx a ha)).2
      simp only [List.map_cons, List.any_cons, substArg, this, ih (fun x hx => hl x (by simp [hx]))]
  exact key args (fun _ h => h)

example : SubstOk ⟨fun n => if n = "d" ∨ n = "w" then some .alg else none, fun _ => false⟩ none
    (fun n => if n = "d" then some (.un .neg (.ref "w")) else none) (fun n => n == "d") := by
  refine ⟨?_, ?_, ?_, ?_⟩
  · intro n; by_cases h : n = "d" <;> simp [h]
  · intro n e h
    by_cases hn : n = "d"
    · subst hn; simp at h; subst h; decide
    · simp [hn] at h
  · intro n e h
    by_cases hn : n = "d"
    · subst hn; simp at h; subst h; decide
    · simp [hn] at h
  · intro n h; simp at h; subst h; decide

/-- **postcheck_invariant_under_expansion.** `expand_vectors` replaces every literally
    subscripted reference `x[k]` / `der(x[k])` in the delayed expressions *and in the durations* by
    the scalar symbol of the element, for the arrays of every variable group; if the elements
    inherit the category and fixedness of their array, the duration check gives the same verdict
    before and after — a duration on an element of an array state, derivative or algebraic
    variable stays rejected. -/
theorem postcheck_invariant_under_expansion (c c' : Cats) (h : ExpandsTo c c') (args : List DArg)
    (hlv : ∀ a ∈ args, ∀ n k, a.lv ≠ some (elemName n k)) :
    postCheckFails c' (args.map (fun a => { a with dur := expandRef a.dur })) = postCheckFails c args := by
  have key : ∀ (l : List DArg), (∀ a ∈ l, a ∈ args) →
      (l.map (fun a => { a with dur := expandRef a.dur })).any (fun a => (atoms a.lv a.dur).any (disallowed c')) =
        l.any (fun a => (atoms a.lv a.dur).any (disallowed c)) := by
    intro l
    induction l with
    | nil => intro _; rfl
    | cons a t ih =>
      intro hl
      have ha : a ∈ args := hl a (by simp)
      have := (expand_atoms h a.lv (hlv a ha) a.dur).2
      simp only [List.map_cons, List.any_cons, this, ih (fun x hx => hl x (by simp [hx]))]
  exact key args (fun _ hx => hx)

example : atoms none (expandRef (.bin .add (.ref "p") (.idx "as" (.lit 3)))) = [.var "p", .var "as[3]"] ∧
    atoms none (expandRef (.derAt "xs" (.lit 2))) = [.der "xs[2]"] := by
  constructor <;> decide

/-- **cached_calls_agree.** With `cache=True`, any number of successive `transfer_model` calls
    on the same folder give the outcome of compiling the source — a rejected model is rejected
    by every call, because a cache file exists only after a compilation that passed
    `_post_checks`. -/
theorem cached_calls_agree (v : Verdict) (n : Nat) :
    ∀ r ∈ transferCalls (compileResult v) n false, r = compileResult v :=
  transferCalls_agree (compileResult v) n false (by simp)

example : transferCalls (compileResult .reject) 3 false = [.raised, .raised, .raised] ∧
    transferCalls (compileResult .accept) 2 false = [.returned, .returned] := by decide

end PymocaVerif.Delay
