import sys, os, tempfile, shutil, logging
sys.path.insert(0, "/repo")
from tools import compiler
d = tempfile.mkdtemp(); out = tempfile.mkdtemp()
open(os.path.join(d,"Good.mo"),"w").write("model Good Real x; equation der(x) = 1; end Good;")
open(os.path.join(d,"Bad.mo"),"w").write("model Bad Real x; equation x = ; end Bad;")
open(os.path.join(d,"Fail.mo"),"w").write("model Fail Missing m; end Fail;")
d2 = tempfile.mkdtemp()
shutil.copy(os.path.join(d,"Good.mo"), d2); shutil.copy(os.path.join(d,"Fail.mo"), d2)
def run(args):
    try:
        r = compiler.main(args)
    except SystemExit as e:
        r = "exit %s" % e.code
    except Exception as e:
        r = "EXC %s %s" % (type(e).__name__, str(e)[:60])
    print(args[-4:] if len(args)>4 else args, "->", r)
logging.disable(logging.CRITICAL)
run([d])
run([d2])
run([d2, "-m", "Good"])
run([d2, "-m", "Fail"])
run([d2, "-m", "Good", "-m", "Fail"])
run([d2, "-m", "Fail", "-m", "Good"])
run([d2, "-m", "Nope"])
run([d2, "-m", "Good", "-t", "sympy", "-o", out])
run([d2, "-m", "Fail", "-t", "sympy", "-o", out])
run([d2, "-m", "Nope", "-t", "sympy", "-o", out])
run([d2, "-m", "Good", "-t", "casadi"])
run([d2, "-m", "Fail", "-t", "casadi"])
run([d2, "-m", "Nope", "-t", "casadi"])
run([d2, "-m", "Good", "-m", "Good", "-t", "casadi"])
run([d2, "-m", "Good","-t","casadi","-O","bad"])
run([d2, "/nonexistent", "-o", "/nonexistent2"])
run([d2, "-t", "casadi"])
