import PymocaVerif.Model.Cli
/-! Helper lemmas for C26: every loop of `Cli.main` computes a count. -/
namespace PymocaVerif.Cli

theorem flattenLoop_eq (ms : List ModelReq) (e : Nat) :
    flattenLoop ms e = e + (ms.filter (fun m => !m.flattenOk)).length := by
  induction ms generalizing e with
  | nil => simp [flattenLoop]
  | cons m ms ih =>
    cases h : m.flattenOk <;> simp [flattenLoop, ih, h, List.filter_cons] <;> omega

theorem parseAll_fixed (fs : List FileInfo) :
    parseAll .fixed fs = some ((fs.filter (fun f => f.parse ≠ .ok)).length) := by
  induction fs with
  | nil => simp [parseAll]
  | cons f fs ih =>
    cases h : f.parse <;> simp [parseAll, ih, h, List.filter_cons]

/-- Old code: no exception escapes `parse_all` exactly when no file raises. -/
theorem parseAll_old (fs : List FileInfo) (h : ∀ f ∈ fs, f.parse ≠ .raise) :
    parseAll .old fs = some ((fs.filter (fun f => f.parse ≠ .ok)).length) := by
  induction fs with
  | nil => simp [parseAll]
  | cons f fs ih =>
    have h1 := h f (by simp)
    have ih' := ih (fun g hg => h g (by simp [hg]))
    cases hp : f.parse <;> simp_all [parseAll, List.filter_cons]

theorem parseAll_old_raise (fs : List FileInfo) (h : ∃ f ∈ fs, f.parse = .raise) :
    parseAll .old fs = none := by
  induction fs with
  | nil => simp at h
  | cons f fs ih =>
    cases hp : f.parse with
    | raise => simp [parseAll, hp]
    | ok =>
      have : ∃ g ∈ fs, g.parse = .raise := by
        obtain ⟨g, hg, hr⟩ := h
        rcases List.mem_cons.mp hg with rfl | hg
        · rw [hp] at hr; cases hr
        · exact ⟨g, hg, hr⟩
      simp [parseAll, hp, ih this]
    | error =>
      have : ∃ g ∈ fs, g.parse = .raise := by
        obtain ⟨g, hg, hr⟩ := h
        rcases List.mem_cons.mp hg with rfl | hg
        · rw [hp] at hr; cases hr
        · exact ⟨g, hg, hr⟩
      simp [parseAll, hp, ih this]

theorem sympyLoop_fixed (ms : List ModelReq) (e : Nat) (w : List String) :
    sympyLoop .fixed ms e w =
      .ret (e + (ms.filter (fun m => m.sympy != .ok)).length)
           (w ++ (ms.filter (fun m => m.sympy == .ok)).map (·.name)) := by
  induction ms generalizing e w with
  | nil => simp [sympyLoop]
  | cons m ms ih =>
    cases h : m.sympy <;> simp [sympyLoop, ih, h, List.filter_cons] <;> omega

/-- Old code: when no requested model makes `translate` raise, the loop returns the *initial*
    count (failures reported by `translate`'s `False` are dropped). -/
theorem sympyLoop_old (ms : List ModelReq) (e : Nat) (w : List String)
    (h : ∀ m ∈ ms, m.sympy ≠ .raise) :
    sympyLoop .old ms e w = .ret e (w ++ (ms.filter (fun m => m.sympy == .ok)).map (·.name)) := by
  induction ms generalizing e w with
  | nil => simp [sympyLoop]
  | cons m ms ih =>
    have h1 := h m (by simp)
    have ih' := fun e w => ih e w (fun g hg => h g (by simp [hg]))
    cases hs : m.sympy <;> simp_all [sympyLoop, List.filter_cons]

theorem sympyLoop_old_raise (ms : List ModelReq) (e : Nat) (w : List String)
    (h : ∃ m ∈ ms, m.sympy = .raise) : sympyLoop .old ms e w = .raised := by
  induction ms generalizing e w with
  | nil => simp at h
  | cons m ms ih =>
    cases hs : m.sympy with
    | raise => simp [sympyLoop, hs]
    | ok =>
      have : ∃ g ∈ ms, g.sympy = .raise := by
        obtain ⟨g, hg, hr⟩ := h
        rcases List.mem_cons.mp hg with rfl | hg
        · rw [hs] at hr; cases hr
        · exact ⟨g, hg, hr⟩
      simp [sympyLoop, hs, ih _ _ this]
    | retFalse =>
      have : ∃ g ∈ ms, g.sympy = .raise := by
        obtain ⟨g, hg, hr⟩ := h
        rcases List.mem_cons.mp hg with rfl | hg
        · rw [hs] at hr; cases hr
        · exact ⟨g, hg, hr⟩
      simp [sympyLoop, hs, ih _ _ this]

/-- The scan once a directory has been found: any further match is an ambiguity. -/
theorem inferDir_some (name : String) (fs : List FileInfo) (d : Nat) :
    inferDir name fs (some d) =
      if (fs.filter (fun f => f.stem = name)).isEmpty then (some d, false) else (none, true) := by
  induction fs with
  | nil => simp [inferDir]
  | cons f fs ih =>
    by_cases h : f.stem = name <;> simp [inferDir, h, ih, List.filter_cons]

/-- Verdict of the scan as a function of the listed files that carry the model's stem. -/
def verdict : List FileInfo → Option Nat × Bool
  | [] => (none, false)
  | [f] => (some f.dir, false)
  | _ => (none, true)

/-- The scan from the start is decided by the number of listed files with the model's stem. -/
theorem inferDir_none (name : String) (fs : List FileInfo) :
    inferDir name fs none = verdict (fs.filter (fun f => f.stem = name)) := by
  induction fs with
  | nil => simp [inferDir, verdict]
  | cons f fs ih =>
    by_cases h : f.stem = name
    · simp only [inferDir, h, if_true, List.filter_cons, decide_true, inferDir_some]
      cases hf : fs.filter (fun f => decide (f.stem = name)) <;> simp [verdict]
    · simp [inferDir, h, ih, List.filter_cons]

theorem casadiStep_fixed (m : ModelReq) (l : List FileInfo) (e : Nat) :
    casadiStep .fixed m (verdict l) e = e + (if casadiFails m l then 1 else 0) := by
  rcases l with _ | ⟨f, _ | ⟨g, r⟩⟩
  · simp [casadiStep, verdict, casadiFails]
  · cases hc : casadiOk m f.dir <;> simp [casadiStep, verdict, casadiFails, hc]
  · simp [casadiStep, verdict, casadiFails]

theorem casadiLoop_fixed (files : List FileInfo) (ms : List ModelReq) (e : Nat) :
    casadiLoop .fixed files ms e = e + (ms.filter (modelFails .casadi files)).length := by
  induction ms generalizing e with
  | nil => simp [casadiLoop]
  | cons m ms ih =>
    have hm : modelFails .casadi files m
        = casadiFails m (files.filter (fun f => f.stem = m.name)) := rfl
    simp only [casadiLoop, inferDir_none, casadiStep_fixed, ih, List.filter_cons]
    rw [hm]
    split <;> simp <;> omega

/-- Old code: only ambiguity and failures of `transfer_model` are counted. -/
def oldCasadiCounts (m : ModelReq) : List FileInfo → Bool
  | [] => false
  | [f] => !casadiOk m f.dir
  | _ => true

theorem casadiStep_old (m : ModelReq) (l : List FileInfo) (e : Nat) :
    casadiStep .old m (verdict l) e = e + (if oldCasadiCounts m l then 1 else 0) := by
  rcases l with _ | ⟨f, _ | ⟨g, r⟩⟩
  · simp [casadiStep, verdict, oldCasadiCounts]
  · cases hc : casadiOk m f.dir <;> simp [casadiStep, verdict, oldCasadiCounts, hc]
  · simp [casadiStep, verdict, oldCasadiCounts]

theorem casadiLoop_old (files : List FileInfo) (ms : List ModelReq) (e : Nat) :
    casadiLoop .old files ms e =
      e + (ms.filter (fun m => oldCasadiCounts m (files.filter (fun f => f.stem = m.name)))).length := by
  induction ms generalizing e with
  | nil => simp [casadiLoop]
  | cons m ms ih =>
    simp only [casadiLoop, inferDir_none, casadiStep_old, ih, List.filter_cons]
    split <;> simp <;> omega

/-- With at least one listed file per requested model the old count is the right one. -/
theorem oldCasadiCounts_eq (m : ModelReq) (l : List FileInfo) (h : l ≠ []) :
    oldCasadiCounts m l = casadiFails m l := by
  rcases l with _ | ⟨f, _ | ⟨g, r⟩⟩ <;> simp_all [oldCasadiCounts, casadiFails]

/-- The same invocation with another list of requested models. -/
def Inv.withModels (inv : Inv) (ms : List ModelReq) : Inv := { inv with models := ms }

theorem modelFails_none (fs : List FileInfo) : modelFails .none fs = fun m => !m.flattenOk := rfl
theorem modelFails_sympy (fs : List FileInfo) : modelFails .sympy fs = fun m => m.sympy != .ok := rfl

theorem count_eq_sum {α} (p : α → Bool) (l : List α) :
    (l.filter p).length = (l.map (fun a => if p a then 1 else 0)).sum := by
  induction l with
  | nil => rfl
  | cons a l ih => cases h : p a <;> simp [List.filter_cons, h, ih] <;> omega

end PymocaVerif.Cli
