/-! # C05 — property theorems (stub: not built yet) -/
