"""Predicates of the listed findings of C03 (see known/C03.json).  C03-F1 (3a63bdb) and C03-F2 (ee937b8) are fixed:
their predicates are kept for reference but no open entry names them any more."""
from harness.common import known_predicate


def _empty_calls(t):
    out = []
    if isinstance(t, list) and t and isinstance(t[0], str):
        if t[0] == "call" and len(t) == 3 and t[2] == []:
            out.append(t[1])
        for s in t[1:]:
            if isinstance(s, list):
                if s and isinstance(s[0], str):
                    out += _empty_calls(s)
                else:
                    for x in s:
                        if isinstance(x, list):
                            if x and isinstance(x[0], str):
                                out += _empty_calls(x)
                            else:
                                for y in x:
                                    out += _empty_calls(y)
    return out


@known_predicate
def c03_zero_argument_call(case, what):
    """C03-F1: exactly the inputs of the zero-argument-call stream, failing with the exception of that call site
    (`initial()` -> KeyError: no exitPrimary_initial; any other `f()` -> AttributeError in exitPrimary_function /
    exitPrimary_derivative), or the model/implementation disagreement those exceptions cause."""
    if not isinstance(case, dict) or case.get("kind") != "emptycall":
        return False
    names = _empty_calls(case.get("tree"))
    if not names:
        return False
    allowed = set()
    if "initial" in names:
        allowed.add("parse raised KeyError on a zero-argument call")
    if any(n != "initial" for n in names):
        allowed.add("parse raised AttributeError on a zero-argument call")
    return what in allowed


def _strings(t):
    out = []
    if isinstance(t, list):
        if len(t) == 2 and t[0] == "str" and isinstance(t[1], str):
            out.append(t[1])
        else:
            for x in t:
                out += _strings(x)
    return out


def _ends_in_escaped_backslash(s):
    n = len(s) - len(s.rstrip("\\"))
    return n > 0 and n % 2 == 0


@known_predicate
def c03_string_ending_in_escaped_backslash(case, what):
    """C03-F2: inputs of the `strtail` stream only — some string literal other than the last one in the text ends in an
    even run of backslashes (an escaped backslash right before its closing quote) — failing as a syntax error, a
    different value, or the model/implementation disagreement that causes."""
    if not isinstance(case, dict) or case.get("kind") != "strtail":
        return False
    strs = _strings(case.get("tree"))
    if len(strs) < 2 or not any(_ends_in_escaped_backslash(s) for s in strs[:-1]):
        return False
    return what in ("valid Modelica expression rejected as a syntax error",
                    "parsed tree evaluates differently from the source text under Modelica precedence",
                    "disagreement:ast")
