import PymocaVerif.Lemmas.ObjGraph4
import PymocaVerif.Generated.CopyFlags
/-!
# C06 — deep copies of a tree are independent of the original

Model: `PymocaVerif.Model.ObjGraph` — `copy.deepcopy` with the memo, `_reconstruct`, pymoca's
`Class.__deepcopy__` (seeds the memo with the parent; the membership test is a parameter) and
`ClassModificationArgument.__deepcopy__` (scope shared), and the per-instance `__deepcopy__`
attribute the hooks leave behind (a parameter).  Edits through the AST API are arbitrary
allocations and writes confined to the objects of the edited tree.  What flattening a class of a
tree can depend on is the view (unfolding to any depth, identities erased) of the objects it
reaches; two trees with equal views flatten alike, and an edit that leaves all views of a tree
unchanged is invisible to every flatten of that tree.

Hypotheses (`Region`, `TreeShaped`, `NoScope`, no parent at the root) describe a tree as the
parser and the API build it; the driver evaluates them on snapshots of the real trees.
-/
namespace PymocaVerif.C06
open PymocaVerif.ObjGraph

abbrev current : Cfg := PymocaVerif.Generated.CopyFlags.current

/-- Obligation over the flags extracted from the code under test: memo test by id; both hooks
    leave no per-instance `__deepcopy__` behind. -/
theorem flags_ok : current.Good := ⟨rfl, rfl, rfl⟩

theorem deepcopy_unfold {cfg : Cfg} {H H' : Heap} {x y : Nat} (h : deepcopy cfg H x = some (H', y)) :
    ∃ st', deepcopySt cfg H x = some (st', y) ∧ st'.heap = H' := by
  unfold deepcopy at h
  cases hs : deepcopySt cfg H x with
  | none => simp [hs] at h
  | some r =>
    obtain ⟨st', y'⟩ := r
    simp only [hs, Option.some.injEq, Prod.mk.injEq] at h
    exact ⟨st', by rw [h.2], h.1⟩

/-- **`deepcopy` terminates** (the recursion depth never exceeds the number of objects). -/
theorem copy_total (cfg : Cfg) (hg : cfg.Good) {H : Heap} {R : Nat → Prop} (hR : Region H R) {x : Nat}
    (hx : R x) : ∃ H' y, deepcopy cfg H x = some (H', y) := by
  obtain ⟨⟨st', y⟩, hs⟩ := deepcopySt_total hR hg hx
  exact ⟨st'.heap, y, by unfold deepcopy; rw [hs]⟩

/-- **The original is untouched**: a deep copy only allocates. -/
theorem copy_preserves_original (cfg : Cfg) (hg : cfg.Good) {H H' : Heap} {R : Nat → Prop}
    (hR : Region H R) {x y : Nat} (hx : R x) (h : deepcopy cfg H x = some (H', y)) :
    ∀ o, o < H.length → H'[o]? = H[o]? := by
  obtain ⟨st', hs, hh⟩ := deepcopy_unfold h
  obtain ⟨ex, hex⟩ := (deepcopySt_spec hR hg hx hs).frame
  intro o ho
  rw [← hh, hex, List.getElem?_append_left ho]

/-- **The copy is isomorphic to the original**: to every depth it unfolds to the same view, and
    so does every object of the original afterwards. -/
theorem copy_iso (cfg : Cfg) (hg : cfg.Good) {H H' : Heap} {R : Nat → Prop}
    (hR : Region H R) {x y : Nat} (hx : R x) (h : deepcopy cfg H x = some (H', y)) (k : Nat) :
    view H' k y = view H k x ∧ ∀ a, R a → view H' k a = view H k a := by
  obtain ⟨st', hs, hh⟩ := deepcopy_unfold h
  have out := deepcopySt_spec hR hg hx hs
  rw [← hh]
  exact ⟨view_copy hR out k x y hx (Or.inr out.res), fun a ha => view_copy hR out k a a ha (Or.inl rfl)⟩

/-- **The copy is closed**: nothing reachable from the copy of a tree — through `own` references,
    parents or scopes — existed before (so no class of the copy has a parent in the original). -/
theorem copy_closed (cfg : Cfg) (hg : cfg.Good) {H H' : Heap} {R : Nat → Prop}
    (hR : Region H R) (hts : TreeShaped H R) (hns : NoScope H R) {x y : Nat} (hx : R x)
    (hroot : ∀ o, H[x]? = some o → parentOfFields o.fields = none)
    (h : deepcopy cfg H x = some (H', y)) :
    ∀ i, Reach H' y i → H.length ≤ i ∧ i < H'.length := by
  obtain ⟨st', hs, hh⟩ := deepcopy_unfold h
  have tc := tree_copy hR hts hns hg hx hroot hs
  intro i hi
  rw [← hh] at hi ⊢
  obtain ⟨a, hab⟩ := reach_region tc.region tc.root i hi
  exact ⟨(tc.fresh a i hab).1, (tc.out.dom a i hab).2⟩

/-- **The copy is a tree again** — closed, hook free, tree shaped, scope free, root without parent,
    disjoint from all that existed — while the original still is one: every statement here applies
    to copies of copies. -/
theorem copy_is_tree (cfg : Cfg) (hg : cfg.Good) {H H' : Heap} {R : Nat → Prop}
    (hR : Region H R) (hts : TreeShaped H R) (hns : NoScope H R) {x y : Nat} (hx : R x)
    (hroot : ∀ o, H[x]? = some o → parentOfFields o.fields = none)
    (h : deepcopy cfg H x = some (H', y)) :
    ∃ R' : Nat → Prop, Region H' R' ∧ TreeShaped H' R' ∧ NoScope H' R' ∧ R' y ∧
      (∀ o, H'[y]? = some o → parentOfFields o.fields = none) ∧ (∀ b, R' b → H.length ≤ b) ∧
      Region H' R ∧ TreeShaped H' R ∧ NoScope H' R := by
  obtain ⟨st', hs, hh⟩ := deepcopy_unfold h
  have tc := tree_copy hR hts hns hg hx hroot hs
  obtain ⟨ex, hex⟩ := tc.out.frame
  rw [← hh]
  refine ⟨Copies st', tc.region, tc.tree, tc.noScope, tc.root, tc.rootParent,
    fun b ⟨a, hab⟩ => (tc.fresh a b hab).1, ?_, ?_, ?_⟩
  · rw [hex]; exact hR.append ex
  · rw [hex]; exact hts.append hR ex
  · intro a o i ha ho
    rw [hex, hR.get_append ex ha] at ho
    exact hns a o i ha ho

/-- **An edit of one tree is invisible in the other**: an edit that allocates, and writes only to
    objects of tree 1 or to what it allocated, leaves every view of tree 2 unchanged (and tree 2 a
    region disjoint from the grown tree 1, so the statement applies to the next edit). -/
theorem edit_independent {H : Heap} {R1 R2 : Nat → Prop} (hR2 : Region H R2)
    (hdis : ∀ a, R1 a → R2 a → False) {e : Edit} (hc : Confined H R1 e) :
    (∀ k a, R2 a → view (applyEdit H e) k a = view H k a) ∧ Region (applyEdit H e) R2 ∧
      (∀ a, grow H R1 e a → R2 a → False) :=
  ⟨edit_views hR2 hdis hc, edit_region hR2 hdis hc, grow_disjoint hR2 hdis e⟩

/-- a run of edits of tree 1, each confined to what tree 1 consists of at that moment -/
def ConfinedRun : Heap → (Nat → Prop) → List Edit → Prop
  | _, _, [] => True
  | H, R1, e :: es => Confined H R1 e ∧ ConfinedRun (applyEdit H e) (grow H R1 e) es

def applyEdits : Heap → List Edit → Heap
  | H, [] => H
  | H, e :: es => applyEdits (applyEdit H e) es

/-- **Any number of edits** of one tree (add/remove classes, symbols, equations, …) leave every
    view of the other tree unchanged (induction over the run). -/
theorem edits_independent : ∀ (es : List Edit) {H : Heap} {R1 R2 : Nat → Prop}, Region H R2 →
    (∀ a, R1 a → R2 a → False) → ConfinedRun H R1 es →
      ∀ k a, R2 a → view (applyEdits H es) k a = view H k a := by
  intro es
  induction es with
  | nil => intro H R1 R2 _ _ _ k a _; rfl
  | cons e es ih =>
    intro H R1 R2 hR2 hdis hrun k a ha
    obtain ⟨hc, hrest⟩ := hrun
    obtain ⟨hv, hR2', hdis'⟩ := edit_independent hR2 hdis hc
    simp only [applyEdits]
    rw [ih hR2' hdis' hrest k a ha, hv k a ha]

/-- **Adding to one tree a copy of a class of another tree** (`find_class(copy=True)` or
    `copy.deepcopy`, then `add_class`) leaves every view of the tree the class was taken from
    unchanged: the copy still names the original's parent, but `add_class` writes only the new
    holder and the copy. -/
theorem add_copy_independent (cfg : Cfg) (hg : cfg.Good) {H H1 : Heap} {RA : Nat → Prop}
    (hRA : Region H RA) (hts : TreeShaped H RA) {c y : Nat} (hc : RA c) (hd : Detached H c)
    (h1 : deepcopy cfg H c = some (H1, y)) (holder : Nat) (hh : ¬ RA holder) :
    ∀ k a, RA a → view (applyEdit H1 (addClassEdit H1 holder y)) k a = view H k a := by
  obtain ⟨st', hs, hheap⟩ := deepcopy_unfold h1
  have out := deepcopySt_spec hRA hg hc hs
  obtain ⟨ex, hex⟩ := out.frame
  have hfresh : H.length ≤ y := by
    have := (copy_ownReach_fresh out hts hd y (OwnReach.refl y)).1
    exact this
  have hRA1 : Region H1 RA := by rw [← hheap, hex]; exact hRA.append ex
  have hy : ¬ RA y := fun h => by have := hRA.lt h; omega
  have hconf : Confined H1 (fun i => ¬ RA i) (addClassEdit H1 holder y) := by
    unfold Confined addClassEdit
    cases H1[holder]? with
    | none => intro w hw; cases hw
    | some oh =>
      cases H1[y]? with
      | none => intro w hw; cases hw
      | some oc =>
        intro w hw
        simp only [List.mem_cons, List.mem_nil_iff, or_false] at hw
        rcases hw with hw | hw
        · subst hw; exact Or.inl hh
        · subst hw; exact Or.inl hy
  intro k a ha
  rw [edit_views hRA1 (fun a h1' h2 => h1' h2) hconf k a ha]
  exact (copy_iso cfg hg hRA hc h1 k).2 a ha

/-- **Removing a class** (by the name of the argument, whether the argument is the registered
    object or a copy of it) writes only the holder and the classes it held under that name: it is
    confined to any region that contains the holder and is closed, so it is invisible in every
    other tree. -/
theorem remove_class_confined {H : Heap} {R : Nat → Prop} (hR : Region H R) {holder : Nat} (hh : R holder)
    (n : String) (registered : Bool) : Confined H R (removeClassEdit H holder n registered) := by
  unfold Confined removeClassEdit
  cases ho : H[holder]? with
  | none => intro w hw; cases hw
  | some oh =>
    intro w hw
    simp only [List.mem_cons] at hw
    rcases hw with hw | hw
    · subst hw; exact Or.inl hh
    · cases registered with
      | false => simp at hw
      | true =>
        simp only [if_true, List.mem_filterMap, List.mem_filter] at hw
        obtain ⟨c, ⟨hc, _⟩, hw⟩ := hw
        cases hoc : H[c]? with
        | none => simp [hoc] at hw
        | some oc =>
          simp only [hoc, Option.some.injEq] at hw
          subst hw
          exact Or.inl (hR.closed holder oh _ hh ho (ownIds_mem hc))

/-- **Copies of copies.**  Copy a tree, edit the copy in any way that leaves it a tree, copy the
    copy: the second copy unfolds like the *edited copy*, and the original still unfolds as it did
    before anything happened. -/
theorem copies_of_copies (cfg : Cfg) (hg : cfg.Good) {H H1 : Heap} {R : Nat → Prop}
    (hR : Region H R) (hts : TreeShaped H R) (hns : NoScope H R) {x y : Nat} (hx : R x)
    (hroot : ∀ o, H[x]? = some o → parentOfFields o.fields = none)
    (h1 : deepcopy cfg H x = some (H1, y)) :
    ∃ R1 : Nat → Prop, R1 y ∧ (∀ a, R1 a → R a → False) ∧
      ∀ (e : Edit), Confined H1 R1 e → Region (applyEdit H1 e) (grow H1 R1 e) →
        ∀ H3 z, deepcopy cfg (applyEdit H1 e) y = some (H3, z) →
          ∀ k, view H3 k z = view (applyEdit H1 e) k y ∧ ∀ a, R a → view H3 k a = view H k a := by
  obtain ⟨R1, hR1, _, _, hy, _, hfresh, hRH1, _, _⟩ := copy_is_tree cfg hg hR hts hns hx hroot h1
  have hdis : ∀ a, R1 a → R a → False := fun a h1' h2 => by
    have := hfresh a h1'
    have := hR.lt h2
    omega
  refine ⟨R1, hy, hdis, ?_⟩
  intro e hc hRe H3 z h3 k
  have hy' : grow H1 R1 e y := Or.inl hy
  obtain ⟨hz, _⟩ := copy_iso cfg hg hRe hy' h3 k
  refine ⟨hz, ?_⟩
  intro a ha
  -- the original: untouched by the first copy, by the edit, and by the second copy
  obtain ⟨hv, hR2, _⟩ := edit_independent hRH1 hdis hc
  have hx2 : R x := hx
  obtain ⟨st3, hs3, hh3⟩ := deepcopy_unfold h3
  obtain ⟨ex, hex⟩ := (deepcopySt_spec hRe hg hy' hs3).frame
  have e3 : view H3 k a = view (applyEdit H1 e) k a := by
    rw [← hh3, hex]
    exact view_region_append hR2 ex k a ha
  rw [e3, hv k a ha]
  exact (copy_iso cfg hg hR hx h1 k).2 a ha

/-! ## a concrete tree: hypotheses satisfiable; the two defects the fix removed -/

/-- `Tree { class A { x; class B }, class C { c } }` -/
def demo : Heap :=
  [ { kind := .cls, name := "", label := "Tree", fields := [.own 1, .own 4], hook := none },
    { kind := .cls, name := "A", label := "A", fields := [.own 2, .own 3, .par 0], hook := none },
    { kind := .sym, name := "x", label := "x", fields := [], hook := none },
    { kind := .cls, name := "B", label := "B", fields := [.par 1], hook := none },
    { kind := .cls, name := "C", label := "C", fields := [.own 5, .par 0], hook := none },
    { kind := .sym, name := "c", label := "c", fields := [], hook := none } ]

theorem demo_region : Region demo (fun a => a < demo.length) := region_of_wfCheck (by decide +kernel)
theorem demo_tree : TreeShaped demo (fun a => a < demo.length) := treeShaped_of_check (by decide +kernel)
theorem demo_noScope : NoScope demo (fun a => a < demo.length) := by
  intro a o i _ ho
  have := allIdx_spec (show noScopeCheck demo = true by decide +kernel) a o ho
  intro hi
  rw [List.all_eq_true] at this
  have := this _ hi
  simp at this

example : ∃ H' y, deepcopy current demo 0 = some (H', y) ∧ (∀ k, view H' k y = view demo k 0) ∧
    ∀ i, Reach H' y i → demo.length ≤ i := by
  obtain ⟨H', y, h⟩ := copy_total current flags_ok demo_region (x := 0) (by decide)
  refine ⟨H', y, h, fun k => (copy_iso current flags_ok demo_region (by decide) h k).1, ?_⟩
  intro i hi
  exact (copy_closed current flags_ok demo_region demo_tree demo_noScope (by decide)
    (by intro o ho; simp [demo] at ho; subst ho; rfl) h i hi).1

/-- relabel the object at index `i` -/
def relabel (h : Heap) (i : Nat) (l : String) : Edit :=
  match h[i]? with
  | some o => { allocs := [], writes := [(i, { o with label := l })] }
  | none => { allocs := [], writes := [] }

theorem relabel_confined (h : Heap) (i : Nat) (l : String) (R1 : Nat → Prop) (hi : R1 i) :
    Confined h R1 (relabel h i l) := by
  unfold relabel Confined
  cases h[i]? with
  | none => intro w hw; cases hw
  | some o =>
    intro w hw
    simp only [List.mem_singleton] at hw
    subst hw
    exact Or.inl hi

/-- relabelling any objects of the copy, any number of times, is invisible in the original -/
example (H' : Heap) (y : Nat) (h : deepcopy current demo 0 = some (H', y)) (i j : Nat) (l : String)
    (hi : demo.length ≤ i) (hj : demo.length ≤ j) (k a : Nat) (ha : a < demo.length) :
    view (applyEdits H' [relabel H' i l, relabel (applyEdit H' (relabel H' i l)) j l]) k a = view demo k a := by
  obtain ⟨_, _, _, _, _, _, _, hRH', _, _⟩ :=
    copy_is_tree current flags_ok demo_region demo_tree demo_noScope (x := 0) (by decide)
      (by intro o ho; simp [demo] at ho; subst ho; rfl) h
  have hdis : ∀ b, (fun b => demo.length ≤ b) b → (fun b => b < demo.length) b → False := by
    intro b h1 h2; omega
  rw [edits_independent _ hRH' hdis ?_ k a ha]
  · exact (copy_iso current flags_ok demo_region (by decide) h k).2 a ha
  · exact ⟨relabel_confined _ _ _ _ hi, relabel_confined _ _ _ _ (Or.inl hj), trivial⟩

/-- copy the tree, edit class `A` of the copy, copy the copy; compare the second copy with the
    edited first copy (labels in preorder, depth 3) -/
def secondGeneration (cfg : Cfg) : Option (List String × List String) :=
  match deepcopy cfg demo 0 with
  | none => none
  | some (H1, y) =>
    match lookupPath H1 y ["A"] with
    | none => none
    | some a =>
      let H2 := applyEdit H1 (relabel H1 a "A-edited")
      match deepcopy cfg H2 y with
      | none => none
      | some (H3, z) => some (viewLabels H3 3 z, viewLabels H2 3 y)

example : (match secondGeneration current with | some (l3, l2) => decide (l3 = l2) | none => false) = true := by
  decide +kernel

/-- copy class `A` of the tree and add the copy to class `C`: class `A` is still in the tree -/
example : (match deepcopy current demo 1 with
    | some (H1, y) => decide (lookupPath (applyEdit H1 (addClassEdit H1 4 y)) 0 ["A"] = some 1) &&
        decide (lookupPath (applyEdit H1 (addClassEdit H1 4 y)) 0 ["C", "A"] = some y)
    | none => false) = true := by
  decide +kernel

/-- adding a class under a name that is already there replaces the old one: after adding a copy of
    `B` (nested in `A`) renamed … here: a copy of `C` to the root, the root holds the copy, not the old `C` -/
example : (match deepcopy current demo 4 with
    | some (H1, y) => decide (lookupPath (applyEdit H1 (addClassEdit H1 0 y)) 0 ["C"] = some y) &&
        decide (lookupPath (applyEdit H1 (addClassEdit H1 0 y)) 0 ["A"] = some 1)
    | none => false) = true := by
  decide +kernel

/-- **With move semantics in `add_class` the statement is false**: the copy still has the
    original's parent, so the *original* `A` is popped from the tree it was copied from. -/
theorem counterexample_add_class_moves :
    (match deepcopy current demo 1 with
     | some (H1, y) => decide (lookupPath (applyEdit H1 (addClassMoveEdit H1 4 y)) 0 ["A"] = none) &&
         decide (viewLabels (applyEdit H1 (addClassMoveEdit H1 4 y)) 3 0 ≠ viewLabels demo 3 0)
     | none => false) = true := by
  decide +kernel

/-- removing class `A` by name removes it, whether the registered object or a copy is passed -/
example : decide (lookupPath (applyEdit demo (removeClassEdit demo 0 "A" false)) 0 ["A"] = none) &&
    decide (lookupPath (applyEdit demo (removeClassEdit demo 0 "A" true)) 0 ["A"] = none) &&
    decide (lookupPath (applyEdit demo (removeClassEdit demo 0 "A" true)) 0 ["C"] = some 4) = true := by
  decide +kernel

/-- the hooks before the fix: the copy's instance attribute is the bound method of the original -/
def staleHook : Cfg := { current with hookRebind := .toOriginal }

/-- **With the stale hook a second-generation copy is a copy of the original**: the edit made to the
    first copy is missing from its copy. -/
theorem counterexample_stale_hook :
    (match secondGeneration staleHook with
     | some (l3, l2) => decide (l3 ≠ l2) && decide ("A-edited" ∈ l2) && decide ("A-edited" ∉ l3)
     | none => false) = true := by
  decide +kernel

/-- the memo test before the fix: `self.parent not in memo` (the memo is keyed by `id`) -/
def memoByObject : Cfg := { current with memoTest := .byObject }

/-- **With the memo test on the object the copy is not closed**: a class of the copy has its parent
    in the original tree. -/
theorem counterexample_parent_escape :
    (match deepcopy memoByObject demo 0 with
     | some (H', _) => (H'.drop demo.length).any fun o => o.fields.any fun f =>
         match f with | .par p => decide (p < demo.length) | _ => false
     | none => false) = true := by
  decide +kernel

end PymocaVerif.C06
