/-! Driver for C05 (stub: not built yet). -/
def main : IO Unit := pure ()
