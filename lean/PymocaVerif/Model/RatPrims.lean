import PymocaVerif.Model.ExprSem
/-!
# The exact instance of `Prims` used by the drivers: rational numbers

Arithmetic is exact; comparison results are 0/1; division by zero, non-integer exponents and
elementary functions away from the few points where their value is rational are `none` ("not an
exact point": the harness never compares there).
-/
namespace PymocaVerif.RatPrims
open PymocaVerif.ExprSem

def b2q (b : Bool) : Rat := if b then 1 else 0

def ratPow (x y : Rat) : Option Rat :=
  if y.den = 1 then
    (if 0 ≤ y.num then some (x ^ y.num.toNat)
     else if x = 0 then none else some (1 / (x ^ (-y.num).toNat)))
  else none

def exactSqrt (x : Rat) : Option Rat :=
  if x < 0 then none else
  let n := x.num.toNat
  let rn := Nat.sqrt n
  let rd := Nat.sqrt x.den
  if rn * rn = n ∧ rd * rd = x.den then some ((rn : Rat) / (rd : Rat)) else none

def elemQ (e : Elem) (x : Rat) : Option Rat :=
  match e with
  | .sin | .tan | .asin | .atan | .sinh | .tanh => if x = 0 then some 0 else none
  | .cos | .cosh | .exp => if x = 0 then some 1 else none
  | .acos | .log | .log10 => if x = 1 then some 0 else none
  | .sqrt => exactSqrt x
  | .sign => some (if x > 0 then 1 else if x < 0 then -1 else 0)
  | .floor => some (x.floor : Rat)
  | .ceil => some (x.ceil : Rat)

def p2Q (p : Prim2) (x y : Rat) : Option Rat :=
  match p with
  | .add => some (x + y) | .sub => some (x - y) | .mul => some (x * y)
  | .div => if y = 0 then none else some (x / y)
  | .pow => ratPow x y
  | .lt => some (b2q (x < y)) | .le => some (b2q (x ≤ y)) | .gt => some (b2q (x > y))
  | .ge => some (b2q (x ≥ y)) | .eq => some (b2q (x = y)) | .ne => some (b2q (x ≠ y))
  | .min => some (if x ≤ y then x else y) | .max => some (if x ≤ y then y else x)

def p1Q (p : Prim1) (x : Rat) : Option Rat :=
  match p with
  | .neg => some (-x)
  | .abs => some (if x < 0 then -x else x)
  | .elem e => elemQ e x

def ratPrims : Prims Rat :=
  { ofInt := fun n => (n : Rat), truth := fun x => x != 0, zero := 0, one := 1, p2 := p2Q, p1 := p1Q }

end PymocaVerif.RatPrims
