/-!
# Model of assembling a library tree from several files

`pymoca.parser.file_to_tree`, `ast.Tree.extend` / `ast.Class._extend`, and the loops of
`backends.casadi.api._compile_model` / `tools.compiler.parse_all` that merge the trees of the
files in the order the directory walk delivers them.

A class tree is a rose tree of named classes.  What a class *itself* holds (type, symbols,
equations, extends, imports, …: everything except its nested `classes`) is its **payload**,
an abstract value of type `α`.  The ordered dictionary `classes` (unique keys, insertion
order) is a `Forest`: the list of sibling classes in first-child / next-sibling form, so that
all functions below are structurally recursive.

`_extend` merges the nested classes and keeps the payload of the class that is already in the
tree — unless that class is still a `within` placeholder, which takes over the payload of the
class merged into it (commit 07f5409 = `proposed_fixes/C27-1.diff`).  The payload combination is
a parameter `mp` so that the same definitions describe the code before and after that commit:

* `fill ph`    — **the code as it is**: a `within` placeholder (`ph`) takes the payload of the
                 class merged into it, any other payload already in the tree survives;
* `keepFirst`  — the code before 07f5409: `self`'s payload always survives (finding C27-F1).
-/
namespace PymocaVerif.Merge

/-- Sibling classes in dictionary order: `cons name payload nestedClasses nextSiblings`. -/
inductive Forest (α : Type) where
  | nil : Forest α
  | cons (name : String) (pay : α) (kids : Forest α) (rest : Forest α) : Forest α
  deriving Repr

variable {α : Type}

/-- `classes[name]` : payload and nested classes of the sibling called `name`. -/
def find (n : String) : Forest α → Option (α × Forest α)
  | .nil => none
  | .cons m p ks r => if m = n then some (p, ks) else find n r

/-- The keys of the dictionary, in order. -/
def names : Forest α → List String
  | .nil => []
  | .cons n _ _ r => n :: names r

/-- Payload of the class at a path (`none`: no such class). -/
def get : Forest α → List String → Option α
  | _, [] => none
  | F, n :: p =>
    match find n F with
    | none => none
    | some (pay, ks) =>
      match p with
      | [] => some pay
      | _ :: _ => get ks p

/-- One iteration of the loop in `_extend` for the class `(n, p, ks)` of `other`:
    `if n in self.classes: self.classes[n]._extend(other.classes[n]) else: self.classes[n] = other.classes[n]`.
    `f` is `_extend` on the nested classes (`fun js => js._extend(ks)`). -/
def iom (mp : α → α → α) (f : Forest α → Forest α) (n : String) (p : α) (ks : Forest α) :
    Forest α → Forest α
  | .nil => .cons n p ks .nil
  | .cons m q js r =>
    if m = n then .cons m (mp q p) (f js) r else .cons m q js (iom mp f n p ks r)

/-- `_extend` with the argument order `other, self` (recursion is on `other`). -/
def extendBy (mp : α → α → α) : Forest α → Forest α → Forest α
  | .nil => fun self => self
  | .cons n p ks rest => fun self => extendBy mp rest (iom mp (extendBy mp ks) n p ks self)

/-- `self._extend(other)` / `Tree.extend`: the resulting `self.classes`. -/
def extend (mp : α → α → α) (self other : Forest α) : Forest α := extendBy mp other self

/-- The code before commit 07f5409: the payload already in the tree is always kept. -/
def keepFirst : α → α → α := fun a _ => a

/-- The code as it is: a placeholder takes the payload merged into it. -/
def fill [DecidableEq α] (ph : α) : α → α → α := fun a b => if a = ph then b else a

/-- `file_to_tree`: nest the file's classes inside one placeholder package per name of the
    `within` clause. -/
def fileToTree (ph : α) (within : List String) (classes : Forest α) : Forest α :=
  within.foldr (fun p acc => .cons p ph acc .nil) classes

/-- The loop of `api._compile_model`: the first file's tree, extended by the others in order. -/
def mergeAll (mp : α → α → α) : List (Forest α) → Forest α
  | [] => .nil
  | f :: fs => fs.foldl (extend mp) f

/-- The loop of `compiler.parse_all`: an empty tree extended by every file in order. -/
def mergeAllFromEmpty (mp : α → α → α) (fs : List (Forest α)) : Forest α :=
  fs.foldl (extend mp) .nil

/-- Dictionary invariant: sibling names are distinct, at every level. -/
def Wf : Forest α → Prop
  | .nil => True
  | .cons n _ ks r => n ∉ names r ∧ Wf ks ∧ Wf r

/-- Combination of two optional payloads at one path. -/
def omerge (mp : α → α → α) : Option α → Option α → Option α
  | none, b => b
  | a, none => a
  | some a, some b => some (mp a b)

/-- Same classes with the same payloads, whatever the order of siblings. -/
def Equiv (a b : Forest α) : Prop := ∀ p, get a p = get b p

/-- `Class._find_class(ref)` without imports, called on the class at path `scope`: the reference is
    looked up in the class itself (`self.classes[ref.name]…`, every further name without going up),
    then in the enclosing classes from the innermost outwards (`self.parent._find_class(ref)`).
    The result is the full path of the class found (`full_reference()`). `scope.length` steps. -/
def findClass (F : Forest α) (ref : List String) : (scopeRev : List String) → Option (List String)
  | [] => if (get F ref).isSome then some ref else none
  | n :: up =>
    let here := (n :: up).reverse ++ ref
    if (get F here).isSome then some here else findClass F ref up

/-- All class paths of a forest in pre-order with their payloads (what the driver reports). -/
def listing : Forest α → List String → List (List String × α)
  | .nil, _ => []
  | .cons n p ks r, pre => (pre ++ [n], p) :: (listing ks (pre ++ [n]) ++ listing r pre)

end PymocaVerif.Merge
