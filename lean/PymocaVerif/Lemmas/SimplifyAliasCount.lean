import PymocaVerif.Lemmas.SimplifyAliasInv
import PymocaVerif.Lemmas.SimplifyAliasElim
/-!
# Simplify: `_make_alias` keeps the invariant of the alias relation; one eliminated algebraic
variable per dropped alias equation; canonical variables are never eliminated
Helper lemmas for C15 (and for the completeness part of C14).
-/
set_option linter.unusedSectionVars false
set_option linter.unusedSimpArgs false
namespace PymocaVerif.Simplify
open PymocaVerif.AliasRel Lean.Grind

variable {K : Type} [Field K] [DecidableEq K]

/-! ## `_make_alias` only joins unrelated classes and only unseats algebraic canonical variables -/

/-- what is known when `_make_alias` calls `add(other, ±alg)` -/
structure AddFacts (cx : AliasCtx) (ar ar' : AR) (d0 d1 : String) (neg : Bool) (alg other : String) : Prop where
  pair : (alg = d0 ∧ other = d1) ∨ (alg = d1 ∧ other = d0)
  alg_mem : alg ∈ cx.algs
  other_mem : other ∈ cx.allSt
  not_both : ¬((ar.canonicalSigned (false, alg)).1 ∈ cx.doNotEliminate ∧ (ar.canonicalSigned (false, other)).1 ∈ cx.doNotEliminate)
  swap : other ∈ cx.algs → (ar.canonicalSigned (false, alg)).1 ∉ cx.doNotEliminate ∨
           (ar.canonicalSigned (false, other)).1 ∈ cx.doNotEliminate
  unrel1 : (false, other) ∉ ar.aliases (false, alg)
  unrel2 : (false, other) ∉ ar.aliases (true, alg)
  add : ar.add (false, other) (neg, alg) = some ar'

theorem makeAlias_facts {cx : AliasCtx} {ar ar' : AR} {d0 d1 : String} {neg dropped : Bool}
    (h : makeAlias cx ar d0 d1 neg = some (ar', dropped)) :
    (ar' = ar ∧ dropped = false) ∨ (dropped = true ∧ ∃ alg other, AddFacts cx ar ar' d0 d1 neg alg other) := by
  unfold makeAlias at h
  simp only at h
  split at h
  · simp at h; left; exact ⟨h.1.symm, h.2⟩
  · rename_i alg0 other0 hpick
    have hp : ((alg0 = d0 ∧ other0 = d1) ∨ (alg0 = d1 ∧ other0 = d0)) ∧ alg0 ∈ cx.algs ∧
        (other0 ∈ cx.algs → d0 ∈ cx.algs ∧ d1 ∈ cx.algs) := by
      split at hpick
      · rename_i h0; simp at hpick
        obtain ⟨rfl, rfl⟩ := hpick
        exact ⟨Or.inl ⟨rfl, rfl⟩, h0, fun ho => ⟨h0, ho⟩⟩
      · split at hpick
        · rename_i h0 h1; simp at hpick
          obtain ⟨rfl, rfl⟩ := hpick
          exact ⟨Or.inr ⟨rfl, rfl⟩, h1, fun ho => ⟨ho, h1⟩⟩
        · simp at hpick
    split at h
    · -- swapped: both are algebraic, and the canonical variable of alg0 is protected
      rename_i hsw
      have hboth : other0 ∈ cx.algs := by
        rcases hp.1 with ⟨_, rfl⟩ | ⟨_, rfl⟩
        · exact hsw.2.1
        · exact hsw.1
      split at h
      · simp at h; left; exact ⟨h.1.symm, h.2⟩
      · rename_i hall
        split at h
        · simp at h; left; exact ⟨h.1.symm, h.2⟩
        · split at h
          · simp at h; left; exact ⟨h.1.symm, h.2⟩
          · rename_i hnb
            split at h
            · simp at h; left; exact ⟨h.1.symm, h.2⟩
            · rename_i hrel
              split at h
              · rename_i ar2 hadd
                simp at h; obtain ⟨rfl, rfl⟩ := h
                right
                refine ⟨rfl, other0, alg0, ?_, hboth, by simpa using hall, hnb, fun _ => Or.inr hsw.2.2,
                  fun hx => hrel (Or.inl hx), fun hx => hrel (Or.inr hx), hadd⟩
                rcases hp.1 with ⟨rfl, rfl⟩ | ⟨rfl, rfl⟩
                · exact Or.inr ⟨rfl, rfl⟩
                · exact Or.inl ⟨rfl, rfl⟩
              · simp at h
    · rename_i hsw
      split at h
      · simp at h; left; exact ⟨h.1.symm, h.2⟩
      · rename_i hall
        split at h
        · simp at h; left; exact ⟨h.1.symm, h.2⟩
        · split at h
          · simp at h; left; exact ⟨h.1.symm, h.2⟩
          · rename_i hnb
            split at h
            · simp at h; left; exact ⟨h.1.symm, h.2⟩
            · rename_i hrel
              split at h
              · rename_i ar2 hadd
                simp at h; obtain ⟨rfl, rfl⟩ := h
                right
                refine ⟨rfl, alg0, other0, hp.1, hp.2.1, by simpa using hall, hnb, ?_,
                  fun hx => hrel (Or.inl hx), fun hx => hrel (Or.inr hx), hadd⟩
                intro ho
                have := hp.2.2 ho
                left
                intro hin
                exact hsw ⟨this.1, this.2, hin⟩
              · simp at h

/-- the members of a recorded class other than its canonical variable are never protected variables
    (states, derivatives, inputs, parameters, constants): they are algebraic, or were eliminated by an
    earlier pass -/
def JInv (cx : AliasCtx) (s : AR) : Prop :=
  ∀ x A, s.al x = some A → ∀ y ∈ A, y.2 ≠ (s.canonicalSigned x).1 → y.2 ∉ cx.doNotEliminate

theorem jinv_empty (cx : AliasCtx) : JInv cx AR.empty := by
  intro x A hx; simp [AR.empty] at hx

theorem alg_of_not_dne {cx : AliasCtx} {n : String} (h1 : n ∈ cx.allSt) (h2 : n ∉ cx.doNotEliminate) : n ∈ cx.algs := by
  simp only [AliasCtx.allSt, AliasCtx.doNotEliminate, List.mem_append] at h1 h2
  rcases h1 with ((((h | h) | h) | h) | h) | h
  · exact absurd (Or.inl (Or.inl (Or.inl (Or.inr h)))) h2
  · exact absurd (Or.inl (Or.inl (Or.inl (Or.inl h)))) h2
  · exact h
  · exact absurd (Or.inl (Or.inl (Or.inr h))) h2
  · exact absurd (Or.inl (Or.inr h)) h2
  · exact absurd (Or.inr h) h2

theorem algs_sub_allSt {cx : AliasCtx} {n : String} (h : n ∈ cx.algs) : n ∈ cx.allSt := by
  simp only [AliasCtx.allSt, List.mem_append]; exact Or.inl (Or.inl (Or.inl (Or.inr h)))

/-- members of the class of `x` (trivial or not) under `JInv` -/
theorem jinv_aliases {cx : AliasCtx} {s : AR} (h : WF s) (hj : JInv cx s) {x y : SName} (hy : y ∈ s.aliases x) :
    y.2 ≠ (s.canonicalSigned x).1 → y.2 ∉ cx.doNotEliminate := by
  unfold AR.aliases at hy
  cases hal : s.al x with
  | none =>
    simp [hal] at hy; subst hy
    intro hne
    exfalso; apply hne
    simp [AR.canonicalSigned, h.cm_none y hal]
  | some A =>
    simp [hal] at hy
    exact hj x A hal y hy

/-- `_make_alias`'s `add` keeps `WF`, `JInv` and `Ext`, and counts one more eliminated name: the canonical
    variable it unseats is not a protected one -/
theorem jinv_add {cx : AliasCtx} {old s s' : AR} {d0 d1 : String} {neg : Bool} {alg other : String}
    (h : WF s) (hj : JInv cx s) (he : Ext old s) (hf : AddFacts cx s s' d0 d1 neg alg other) :
    WF s' ∧ JInv cx s' ∧ Ext old s' ∧ elimCount s' = elimCount s + 1 := by
  have hb : ((neg, alg) : SName) ∉ s.aliases (false, other) := by
    intro hin
    have := h.aliases_symm hin
    cases neg
    · exact hf.unrel1 this
    · exact hf.unrel2 this
  have hadm : ((neg, alg) : SName) ∉ s.aliases (tog (false, other)) := by
    intro hin
    rw [h.aliases_tog] at hin
    have h1 : tog (neg, alg) ∈ s.aliases (false, other) := mem_map_tog.1 hin
    have := h.aliases_symm h1
    cases neg
    · exact hf.unrel2 (by simpa [tog] using this)
    · exact hf.unrel1 (by simpa [tog] using this)
  have hwf := h.add_wf hb hadm hf.add
  refine ⟨hwf, ?_, he.add h hb hf.add, elimCount_add h hb hadm hf.add⟩
  -- the canonical variable of alg's class is not protected
  have hcanon_alg : (s.canonicalSigned (false, alg)).1 ∉ cx.doNotEliminate := by
    by_cases ho : other ∈ cx.algs
    · rcases hf.swap ho with h1 | h1
      · exact h1
      · exact fun h2 => hf.not_both ⟨h2, h1⟩
    · -- other is protected: it is the canonical variable of its own class
      have hod : other ∈ cx.doNotEliminate := by
        by_cases hd : other ∈ cx.doNotEliminate
        · exact hd
        · exact absurd (alg_of_not_dne hf.other_mem hd) ho
      have hself : (s.canonicalSigned (false, other)).1 = other := by
        by_cases hse : (s.canonicalSigned (false, other)).1 = other
        · exact hse
        · exact absurd hod (jinv_aliases h hj (x := (false, other)) (h.aliases_self (false, other)) (fun e => hse e.symm))
      intro h2
      exact hf.not_both ⟨h2, by rw [hself]; exact hod⟩
  have hcb_base : (s.canonicalSigned (neg, alg)).1 = (s.canonicalSigned (false, alg)).1 := by
    cases neg
    · rfl
    · have := h.canon_tog (false, alg)
      simpa [tog] using congrArg Prod.fst this
  have hmemA : ∀ y ∈ s.aliases (false, other) ++ s.aliases (neg, alg),
      y.2 ≠ (s.canonicalSigned (false, other)).1 → y.2 ∉ cx.doNotEliminate := by
    intro y hy
    rcases List.mem_append.1 hy with hy | hy
    · exact jinv_aliases h hj hy
    · intro _
      by_cases hye : y.2 = (s.canonicalSigned (neg, alg)).1
      · rw [hye, hcb_base]; exact hcanon_alg
      · exact jinv_aliases h hj hy hye
  intro x B hx y hy
  have hyB : y ∈ s'.aliases x := by simp [AR.aliases, hx, hy]
  by_cases hxA : x ∈ s.aliases (false, other) ++ s.aliases (neg, alg)
  · have e1 := add_aliases_in h hb hadm hf.add hxA
    have e2 := add_canon_in h hb hadm hf.add hxA
    rw [e1] at hyB
    rw [e2]
    exact hmemA y hyB
  · by_cases hxA' : tog x ∈ s.aliases (false, other) ++ s.aliases (neg, alg)
    · have hty : tog y ∈ s'.aliases (tog x) := by
        rw [hwf.aliases_tog x]; exact List.mem_map_of_mem hyB
      rw [add_aliases_in h hb hadm hf.add hxA'] at hty
      have := hmemA (tog y) hty
      have e2 := add_canon_in h hb hadm hf.add hxA'
      have e3 := hwf.canon_tog (tog x)
      simp only [tog_tog'] at e3
      have hbase : (s'.canonicalSigned x).1 = (s.canonicalSigned (false, other)).1 := by
        rw [e3, e2]
      rw [hbase]
      simpa [tog] using this
    · have hold : s.al x = some B := by
        have := add_eq hb hf.add
        rw [this] at hx
        simpa [hxA, hxA'] using hx
      have hcan : s'.canonicalSigned x = s.canonicalSigned x := by
        rw [add_eq hb hf.add, canonicalSigned_mk]
        simp only [hxA, hxA', if_false]; rfl
      rw [hcan]
      exact hj x B hold y hy

/-- the detection loop keeps the invariants and counts one eliminated name per dropped equation -/
theorem aliasLoop_inv (E : Engine K) (cx : AliasCtx) (old : AR) : ∀ (es : List (Ex K)) (i : Nat) (ar : AR) (r : List (Ex K) × AR),
    aliasLoop E cx i es ar = .ok r → WF ar → JInv cx ar → Ext old ar →
    WF r.2 ∧ JInv cx r.2 ∧ Ext old r.2 ∧ elimCount r.2 + r.1.length = elimCount ar + es.length
  | [], i, ar, r, h, hw, hj, he => by simp [aliasLoop] at h; subst h; exact ⟨hw, hj, he, by simp⟩
  | e :: es, i, ar, r, h, hw, hj, he => by
    simp only [aliasLoop] at h
    split at h
    · rename_i d0 d1 neg hdet
      split at h
      · simp at h
      · rename_i ar2 hmk
        rcases makeAlias_facts hmk with ⟨_, hf⟩ | ⟨_, alg, other, hf⟩
        · simp at hf
        · obtain ⟨w2, j2, e2, c2⟩ := jinv_add hw hj he hf
          obtain ⟨w3, j3, e3, c3⟩ := aliasLoop_inv E cx old es (i + 1) ar2 r h w2 j2 e2
          exact ⟨w3, j3, e3, by simp only [List.length_cons]; omega⟩
      · rename_i ar2 hmk
        rcases makeAlias_facts hmk with ⟨rfl, _⟩ | ⟨hf, _⟩
        · split at h
          · simp at h
          · rename_i r' hr'
            simp at h; subst h
            obtain ⟨w3, j3, e3, c3⟩ := aliasLoop_inv E cx old es (i + 1) ar2 r' hr' hw hj he
            exact ⟨w3, j3, e3, by simp only [List.length_cons]; omega⟩
        · simp at hf
    · split at h
      · simp at h
      · rename_i r' hr'
        simp at h; subst h
        obtain ⟨w3, j3, e3, c3⟩ := aliasLoop_inv E cx old es (i + 1) ar r' hr' hw hj he
        exact ⟨w3, j3, e3, by simp only [List.length_cons]; omega⟩

/-! ## what the elimination loop walks over (first pass: nothing was handled before) -/

theorem eraseDups_of_nodup {α} [BEq α] [LawfulBEq α] : ∀ (l : List α), l.Nodup → l.eraseDups = l
  | [], _ => by simp
  | x :: xs, h => by
    simp only [List.nodup_cons] at h
    rw [List.eraseDups_cons]
    have : xs.filter (fun b => !b == x) = xs := by
      rw [List.filter_eq_self]; intro y hy
      have : y ≠ x := fun e => h.1 (e ▸ hy)
      simpa using this
    rw [this, eraseDups_of_nodup xs h.2]

theorem filter_ne_length' {α} [BEq α] [LawfulBEq α] : ∀ (xs : List α) (a : α), xs.Nodup → a ∈ xs →
    (xs.filter (· != a)).length + 1 = xs.length
  | [], a, _, h => by simp at h
  | x :: xs, a, hnd, hmem => by
    simp only [List.nodup_cons] at hnd
    by_cases hx : x = a
    · subst hx
      have : xs.filter (· != x) = xs := by
        rw [List.filter_eq_self]; intro y hy
        have : y ≠ x := fun e => hnd.1 (e ▸ hy)
        simpa using this
      simp [List.filter_cons, this]
    · have hm : a ∈ xs := by
        rcases List.mem_cons.1 hmem with h | h
        · exact absurd h.symm hx
        · exact h
      have hx' : (x != a) = true := by simpa using hx
      simp only [List.filter_cons, hx', if_true, List.length_cons]
      have := filter_ne_length' xs a hnd.2 hm
      omega

theorem newAliases_first {ar : AR} (hw : WF ar) (c : String) :
    newAliases AR.empty ar c = (ar.aliases (false, c)).filter (· != (false, c)) := by
  unfold newAliases
  rw [eraseDups_of_nodup _ (hw.aliases_nodup (false, c))]
  rw [List.filter_eq_self]
  intro a _
  have : ([a] : List SName).eraseDups = [a] := eraseDups_of_nodup [a] (by simp)
  simp [alreadyHandled, AR.aliases, AR.empty, this]

theorem newAliases_first_length {ar : AR} (hw : WF ar) (c : String) :
    (newAliases AR.empty ar c).length = (ar.aliases (false, c)).length - 1 := by
  rw [newAliases_first hw]
  have := filter_ne_length' (ar.aliases (false, c)) (false, c) (hw.aliases_nodup (false, c)) (hw.aliases_self (false, c))
  exact Nat.eq_sub_of_add_eq this

theorem elimAliases_length (old ar : AR) : ∀ (cs allSt : List String) (r : List (String × Ex K) × List String),
    elimAliases old ar cs allSt = .ok r → allSt.Nodup →
    r.1.length = (cs.map fun c => (newAliases old ar c).length).sum ∧
    ∀ p ∈ r.1, ∃ c ∈ cs, ∃ a ∈ newAliases old ar c, p.1 = a.2
  | [], allSt, r, h, _ => by simp [elimAliases] at h; subst h; simp
  | c :: cs, allSt, r, h, hnd => by
    simp only [elimAliases] at h
    split at h
    · simp at h
    · split at h
      · simp at h
      · rename_i r1 hr1
        split at h
        · simp at h
        · rename_i r2 hr2
          simp at h; subst h
          obtain ⟨a1, a2, _⟩ := elimClass_spec c _ _ r1 hr1 hnd
          obtain ⟨b1, b2⟩ := elimAliases_length old ar cs _ r2 hr2 a2
          have hlen1 : r1.1.length = (newAliases old ar c).length := by
            have := congrArg List.length a1; simpa using this
          refine ⟨by simp only [List.length_append, List.map_cons, List.sum_cons]; omega, ?_⟩
          intro p hp
          rcases List.mem_append.1 hp with hp | hp
          · have : p.1 ∈ r1.1.map (·.1) := List.mem_map_of_mem hp
            rw [a1] at this
            obtain ⟨a, ha, hae⟩ := List.mem_map.1 this
            exact ⟨c, by simp, a, ha, hae.symm⟩
          · obtain ⟨c', hc', a, ha, hae⟩ := b2 p hp
            exact ⟨c', List.mem_cons_of_mem _ hc', a, ha, hae⟩

theorem elimCount_empty : elimCount AR.empty = 0 := by simp [elimCount, AR.empty]

/-- the names a pass eliminates: never protected, never canonical -/
theorem eliminated_now {cx : AliasCtx} {old ar : AR} (ho : WF old) (hw : WF ar) (hj : JInv cx ar) {c : String} (hc : c ∈ ar.cv)
    {a : SName} (ha : a ∈ newAliases old ar c) : a.2 ∉ cx.doNotEliminate ∧ a.2 ∉ ar.cv := by
  rw [ho.newAliases_eq hw] at ha
  have har : a ∈ classRest ar c := (List.mem_filter.1 ha).1
  have hb := hw.rest_base hc har
  refine ⟨?_, hb.2⟩
  have hmem := (List.mem_filter.1 har).1
  have := jinv_aliases hw hj hmem
  rw [hw.cv_canon hc] at this
  exact this hb.1

theorem first_pass_eliminated {cx : AliasCtx} {ar : AR} (hw : WF ar) (hj : JInv cx ar) {c : String} (hc : c ∈ ar.cv)
    {a : SName} (ha : a ∈ newAliases AR.empty ar c) : a.2 ∉ cx.doNotEliminate ∧ a.2 ∉ ar.cv :=
  eliminated_now wf_empty hw hj hc ha

/-- `balance_step` for detect_aliases, any pass: the alias relation the pass starts from satisfies its
    invariant (`WF`, `JInv`: what the previous pass leaves), variable names are distinct -/
theorem alias_balanced {E : Engine K} {allowDer : Bool} {m m' : Model K} (ho : WF m.ar)
    (hjo : JInv ⟨names m.states, names m.ders, names m.algs, names m.inputs, names m.params, names m.consts, allowDer⟩ m.ar)
    (hnd : (names m.states ++ names m.ders ++ names m.algs ++ names m.inputs ++ names m.params ++ names m.consts).Nodup)
    (h : detectAliases E allowDer m = .ok m') : Balanced m m' := by
  refine alias_balanced_of_count h hnd ?_
  intro kept ar l left hloop hel
  obtain ⟨hw, hj, hext, hcnt⟩ := aliasLoop_inv E _ m.ar m.eqs 0 m.ar (kept, ar) hloop ho hjo (Ext.refl _)
  obtain ⟨hlen, hdom⟩ := elimAliases_length m.ar ar ar.cv _ (l, left) hel hnd
  obtain ⟨_, _, _, s4, _, _⟩ := elimAliases_spec m.ar ar ar.cv _ (l, left) hel hnd
  have hw' : WF ar := hw
  have hext' : Ext m.ar ar := hext
  have hcnt' : elimCount ar + kept.length = elimCount m.ar + m.eqs.length := hcnt
  have hlen' : l.length = (ar.cv.map fun c => (newAliases m.ar ar c).length).sum := hlen
  have hnow := elim_now_count ho hw' hext'
  refine ⟨by omega, ?_⟩
  intro x hx
  obtain ⟨p, hp, rfl⟩ := List.mem_map.1 hx
  obtain ⟨c, hc, a, ha, hpa⟩ := hdom p hp
  have hin := s4 p.1 (List.mem_map_of_mem hp)
  rw [hpa] at hin ⊢
  exact alg_of_not_dne hin (eliminated_now ho hw hj hc ha).1

/-- `closed_step` for detect_aliases, any pass -/
theorem alias_closed {I : Interp K} {E : Engine K} (hE : EngineOk I E) {allowDer : Bool} {m m' : Model K}
    (ho : WF m.ar)
    (hjo : JInv ⟨names m.states, names m.ders, names m.algs, names m.inputs, names m.params, names m.consts, allowDer⟩ m.ar)
    (hc : Closed m)
    (hnd : (names m.states ++ names m.ders ++ names m.algs ++ names m.inputs ++ names m.params ++ names m.consts).Nodup)
    (h : detectAliases E allowDer m = .ok m') : Closed m' := by
  refine alias_closed_of_kept hE h hc hnd ?_
  intro kept ar l left hloop hel
  obtain ⟨hw, hj, _, _⟩ := aliasLoop_inv E _ m.ar m.eqs 0 m.ar (kept, ar) hloop ho hjo (Ext.refl _)
  obtain ⟨_, hdom⟩ := elimAliases_length m.ar ar ar.cv _ (l, left) hel hnd
  intro c hcv hin
  obtain ⟨p, hp, hpc⟩ := List.mem_map.1 hin
  obtain ⟨c', hc', a, ha, hpa⟩ := hdom p hp
  have := (eliminated_now ho hw hj hc' ha).2
  rw [← hpa, hpc] at this
  exact this hcv

/-- `balance_step` for a first detect_aliases pass (empty alias relation) -/
theorem alias_balanced_first {E : Engine K} {allowDer : Bool} {m m' : Model K} (hempty : m.ar = AR.empty)
    (hnd : (names m.states ++ names m.ders ++ names m.algs ++ names m.inputs ++ names m.params ++ names m.consts).Nodup)
    (h : detectAliases E allowDer m = .ok m') : Balanced m m' :=
  alias_balanced (by rw [hempty]; exact wf_empty) (by rw [hempty]; exact jinv_empty _) hnd h

/-- `closed_step` for a first detect_aliases pass -/
theorem alias_closed_first {I : Interp K} {E : Engine K} (hE : EngineOk I E) {allowDer : Bool} {m m' : Model K}
    (hempty : m.ar = AR.empty) (hc : Closed m)
    (hnd : (names m.states ++ names m.ders ++ names m.algs ++ names m.inputs ++ names m.params ++ names m.consts).Nodup)
    (h : detectAliases E allowDer m = .ok m') : Closed m' :=
  alias_closed hE (by rw [hempty]; exact wf_empty) (by rw [hempty]; exact jinv_empty _) hc hnd h

end PymocaVerif.Simplify
