import PymocaVerif.Lemmas.XmlTree
/-!
# C25 — the ModelicaXML backend mirrors the flat model

Property theorems only (helper lemmas: `Lemmas/XmlTree.lean`; model: `Model/XmlTree.lean`).
All statements are for flat models of any size and expression trees of any depth and arity.
`kept m` is `m` with, of each variable's prefixes, only the variability, and, of each when-equation, only the
first branch: what the proofs show the XML to mirror.  On the tree as it is now (`Cfg.fixed`: commits 4e2bf7e,
8d9d442) a when-equation with further branches is refused, so nothing of the equations is ever lost
(`rejecting_elsewhen_loses_nothing`); `elsewhen_branches_lost` and `signed_start_raises_as_is` record what the
tree did before (findings C25-F1, C25-F2).
-/
namespace PymocaVerif.XmlTree

/-- Whenever generation succeeds, a strict reader recovers the flat model from the XML: every class, every
    variable (name, type, variability, start, value, fixed), every equation, operator for operator and operand
    for operand, in order. -/
theorem xml_decode_encode (cfg : Cfg) (m : Flat) (x : Xml) (h : encode cfg m = some x) :
    decode x = some (kept m) :=
  decode_encode cfg m x h

example : encode Cfg.asIs ⟨[⟨"M", [⟨"x", "Real", ["parameter"], none, some (.lit "2"), false⟩],
    [.equal (.op "der" [.ref "x"]) (.op "+" [.ref "x", .lit "1"])]⟩]⟩ ≠ none := by
  simp [encode, okCls, okVar, okAttr, okQs, okQ, okE, okEs]

/-- The XML determines that content: two flat models with the same XML agree on it. -/
theorem xml_determines_model (cfg : Cfg) (m₁ m₂ : Flat) (x : Xml) (h₁ : encode cfg m₁ = some x)
    (h₂ : encode cfg m₂ = some x) : kept m₁ = kept m₂ := by
  have a := decode_encode cfg m₁ x h₁
  have b := decode_encode cfg m₂ x h₂
  rw [a] at b
  exact Option.some.inj b

example : encode Cfg.asIs ⟨[]⟩ = some (enc ⟨[]⟩) := rfl

/-- Without `elsewhen` branches every equation is recovered exactly as it is in the flat model. -/
theorem equations_recovered_exactly (m : Flat) (h : noElse m = true) :
    (kept m).classes.map (·.eqs) = m.classes.map (·.eqs) := by
  simp only [kept, List.map_map]
  apply List.map_congr_left
  intro c hc
  have : noElseQs c.eqs = true := by
    have := List.all_eq_true.mp h c hc
    simpa using this
  simp [keptCls, keptQs_self c.eqs this]

example : noElse ⟨[⟨"M", [], [.when (.ref "b") [.call "reinit" [.ref "v", .lit "0"]] [] []]⟩]⟩ = true := rfl

/-- Every variable keeps its name, builtin type, variability, start, value and fixed flag. -/
theorem attrs_exact (v : Var) :
    (keptVar v).name = v.name ∧ (keptVar v).type = v.type ∧ (keptVar v).start = v.start ∧
    (keptVar v).value = v.value ∧ (keptVar v).fixed = v.fixed ∧
    variabilityOf (keptVar v).prefixes = variabilityOf v.prefixes :=
  ⟨rfl, rfl, rfl, rfl, rfl, variabilityOf_kept v.prefixes⟩

/-- The variability written is the first of `discrete, continuous, parameter, constant` among the prefixes;
    no attribute when there is none. -/
theorem variability_is_first_match (ps : List String) :
    (variabilityOf ps = some "discrete" ↔ "discrete" ∈ ps) ∧
    (variabilityOf ps = some "continuous" ↔ "discrete" ∉ ps ∧ "continuous" ∈ ps) ∧
    (variabilityOf ps = some "parameter" ↔ "discrete" ∉ ps ∧ "continuous" ∉ ps ∧ "parameter" ∈ ps) ∧
    (variabilityOf ps = some "constant" ↔
      "discrete" ∉ ps ∧ "continuous" ∉ ps ∧ "parameter" ∉ ps ∧ "constant" ∈ ps) ∧
    (variabilityOf ps = none ↔
      "discrete" ∉ ps ∧ "continuous" ∉ ps ∧ "parameter" ∉ ps ∧ "constant" ∉ ps) :=
  variabilityOf_spec ps

/-- One `component` element per flat variable, then one `equation` element holding one child per flat
    equation, in order. -/
theorem one_component_per_var_one_element_per_equation (c : Cls) :
    encCls c = .node "classDefinition" [("name", c.name)]
      [.node "class" [("kind", "model")] (c.vars.map encVar ++ [.node "equation" [] (c.eqs.map encQ)])] ∧
    (c.vars.map encVar).length = c.vars.length ∧ (c.eqs.map encQ).length = c.eqs.length := by
  refine ⟨by simp [encCls, encQs_eq_map], by simp, by simp⟩

/-- An operator with operands `args` becomes one element carrying the operator's name with exactly the
    operands' elements as children, in order (`operator` for one operand, `apply` otherwise). -/
theorem operator_for_operator (n : String) (args : List Expr) :
    (∀ a, args = [a] → encE (.op n args) = .node "operator" [("name", n)] [encE a]) ∧
    (args.length ≠ 1 → encE (.op n args) = .node "apply" [("builtin", n)] (args.map encE)) := by
  constructor
  · intro a h; subst h; simp [encE, encEs]
  · intro h
    match args, h with
    | [], _ => simp [encE, encEs]
    | a :: b :: r, _ => simp [encE, encEs, encEs_eq_map]

/-- Generation raises exactly when some class holds a node without handler or (on the tree as it is) a
    `start` / `value` that is not a plain literal. -/
theorem raises_iff (cfg : Cfg) (m : Flat) : encode cfg m = none ↔ m.classes.all (okCls cfg) = false := by
  unfold encode
  by_cases h : m.classes.all (okCls cfg) = true
  · simp [h]
  · simp [h]

/-- With the check on `elsewhen` (`rejectElse`, the current tree), whatever is generated mirrors *every* equation of
    the flat model exactly: nothing is lost. -/
theorem rejecting_elsewhen_loses_nothing (cfg : Cfg) (hc : cfg.rejectElse = true) (m : Flat) (x : Xml)
    (h : encode cfg m = some x) :
    ∃ m', decode x = some m' ∧ m'.classes.map (·.eqs) = m.classes.map (·.eqs) :=
  ⟨kept m, decode_encode cfg m x h, equations_recovered_exactly m (noElse_of_encode cfg hc m x h)⟩

example : Cfg.fixed.rejectElse = true := rfl

/-- Finding C25-F1 (fixed by 8d9d442): without that check the `elsewhen` branches of a when-equation leave no trace — two
    different flat models, one XML. -/
theorem elsewhen_branches_lost (cfg : Cfg) (hc : cfg.rejectElse = false) :
    let q₁ := Eqn.when (.ref "a") [.equal (.ref "d") (.lit "1")] [] []
    let q₂ := Eqn.when (.ref "a") [.equal (.ref "d") (.lit "1")] [.ref "b"] [.equal (.ref "d") (.lit "2")]
    let m₁ : Flat := ⟨[⟨"M", [], [q₁]⟩]⟩
    let m₂ : Flat := ⟨[⟨"M", [], [q₂]⟩]⟩
    encode cfg m₁ = encode cfg m₂ ∧ encode cfg m₁ ≠ none ∧ noElse m₂ = false := by
  refine ⟨?_, ?_, rfl⟩ <;>
    simp [encode, okCls, okQs, okQ, okE, okEs, enc, encCls, encQs, encQ, hc]

/-- Finding C25-F2 (fixed by 4e2bf7e): on the tree before it a signed or computed `start` makes generation raise; with attribute
    values built from the expression's element it is mirrored like any other expression. -/
theorem signed_start_raises_as_is :
    let m : Flat := ⟨[⟨"M", [⟨"x", "Real", [], some (.op "-" [.lit "1"]), none, false⟩], []⟩]⟩
    encode Cfg.asIs m = none ∧ encode Cfg.fixed m ≠ none := by
  constructor <;> simp [encode, okCls, okVar, okAttr, okQs, okE, okEs, Cfg.asIs, Cfg.fixed]

end PymocaVerif.XmlTree
