import Drivers.Proto
import PymocaVerif.Model.CacheMeta
/-! Driver for C19: `save_model`'s bookkeeping (`to_dict` None-ness, dependency matrix,
    metadata matrix) from a description of the fresh variables, `load_model`'s
    reconstruction from a description of the stored data, and the symbols the delay-duration
    loop keeps.  Values are opaque strings; environments are point indices, the last one
    being the all-NaN call. -/
open Lean Drivers PymocaVerif.CacheMeta

abbrev PV := Json × List String   -- pickled Python value, and its elements inside the metadata matrix

def nAttr : Nat := 6

def parseStrs (j : Json) : Except String (List String) := do (← j.getArr?).toList.mapM (·.getStr?)

def parseAttr (j : Json) : Except String (Attr PV Nat String) := do
  match ← getStr j "k" with
  | "py" => pure (.py ((← getObj j "v"), (← parseStrs (← getObj j "embed"))))
  | "mx" => do
    let at_ ← (← getArr j "at").toList.mapM parseStrs
    pure (.mx (← getBool j "dep") (fun e => at_.getD e []))
  | k => throw s!"bad-attr {k}"

def parseVar (j : Json) : Except String (Var PV Nat String) := do
  let attrs ← (← getArr j "attrs").toList.mapM parseAttr
  pure { name := ← getStr j "name", rows := ← getNat j "rows", cols := ← getNat j "cols", pyType := "", aliases := [],
         attrs := fun k => attrs.getD k (.py (Json.null, [])) }

def matJson (m : List (List String)) : Json := Json.arr (m.map jstrs).toArray

def parseMat (j : Json) : Except String (List (List String)) := do (← j.getArr?).toList.mapM parseStrs

def depOfCode : Nat → Dep
  | 1 => .dependent | 2 => .independent | _ => .notMx

def handle (req : Json) : Except String Json := do
  match ← getStr req "op" with
  | "meta.save" => do
    let npts ← getNat req "npts"
    let cats ← (← getArr req "cats").toList.mapM fun c => do (← getArr c "vars").toList.mapM parseVar
    let outs := cats.map fun vars =>
      let db := saveCat nAttr (fun (p : PV) => p.2) vars
      Json.mkObj [
        ("dep", Json.arr (db.dep.map fun r => Json.arr ((List.range nAttr).map fun j => ((r j).code : Json)).toArray).toArray),
        ("none", Json.arr (db.dicts.map fun d => Json.arr ((List.range nAttr).map fun j => Json.bool (d.attrs j).isNone).toArray).toArray),
        ("meta", Json.arr ((List.range (npts + 1)).map fun e => matJson (db.metaFn e)).toArray)]
    pure (Json.mkObj [("ok", true), ("cats", Json.arr outs.toArray)])
  | "meta.load" => do
    let npts ← getNat req "npts"
    let cats ← (← getArr req "cats").toList.mapM fun c => do
      let dicts ← (← getArr c "dicts").toList.mapM fun d => do
        let attrs := (← getArr d "attrs").toList
        pure ({ name := ← getStr d "name", rows := ← getNat d "rows", cols := ← getNat d "cols", pyType := "", aliases := [],
                attrs := fun k => match attrs.getD k Json.null with | .null => none | v => some (v, []) } : VarDict PV)
      let dep ← (← getArr c "dep").toList.mapM fun r => do
        let codes ← (← r.getArr?).toList.mapM (·.getNat?)
        pure (fun (j : Nat) => depOfCode (codes.getD j 0))
      let metas ← (← getArr c "meta").toList.mapM parseMat
      pure ({ dicts := dicts, dep := dep, metaFn := fun e => metas.getD e [] } : CatDb PV Nat String)
    let outs := cats.map fun c =>
      Json.arr ((loadCat npts c).map fun lv =>
        Json.mkObj [("name", lv.name), ("rows", lv.rows), ("cols", lv.cols), ("row0", lv.row0),
          ("attrs", Json.arr ((List.range nAttr).map fun j =>
            match lv.attrs j with
            | .py v => Json.mkObj [("k", "py"), ("v", match v with | some p => p.1 | none => Json.null)]
            | .mx g => Json.mkObj [("k", "mx"), ("at", Json.arr ((List.range npts).map fun e => jstrs (g e)).toArray)]).toArray)]).toArray
    pure (Json.mkObj [("ok", true), ("cats", Json.arr outs.toArray)])
  | "delay.masks" => do
    let dds ← (← getArr req "dds").toList.mapM fun d => do (← d.getArr?).toList.mapM (·.getNat?)
    let ms := maskSets (unionOf dds) (unionOf dds).length dds
    pure (Json.mkObj [("ok", true), ("masks", Json.arr (ms.map fun m =>
      match m with | none => Json.null | some t => Json.arr (t.map fun (k : Nat) => (k : Json)).toArray).toArray)])
  | o => throw s!"unknown-op {o}"

def main : IO Unit := serve handle
