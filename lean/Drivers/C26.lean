/-! Driver for C26 (stub: not built yet). -/
def main : IO Unit := pure ()
