"""C22 — delay durations are validated and delay arguments preserved.

Real code: `pymoca.backends.casadi.api.transfer_model` on a generated Modelica file (parser →
flatten → Generator (delay translation, for-loop lifting) → simplify → `Model._post_checks`), then
`Model.delay_arguments_function`, `dae_residual_function`, `initial_residual_function` evaluated at
exact points (dyadic rationals, compared as `Fraction`).

Direct oracle (this file, independent of the Lean model), from the description the generator of
the case wrote down (category of every symbol, every delay node with its expression and duration):
* the model must be rejected (ValueError of `_post_checks`) iff some duration mentions `time`, a
  state, a derivative, an algebraic variable (nested `input`s are algebraic), a non-fixed top-level
  input or another delay; otherwise it must be accepted and nothing may raise;
* for an accepted model there must be a bijection between the source delay nodes and the output
  pairs of `delay_arguments_function` such that, at two random exact points, output 2k equals the
  delayed expression (a vector over the iterations for a loop-indexed delay) and output 2k+1 the
  duration, and the residual functions equal the flat equations with every `delay(..)` replaced
  by the value given to input `_pymoca_delay_k` of its pair.

Two further streams make the verdict independent of how the model is compiled:
* "simp": the model declares algebraic variables that the simplification passes eliminate
  (`w0 = <state/input expression>`, `d0 = ±w0 | x0 | u0`, `d1 = ±d0`) and is compiled with
  detect_aliases / eliminable_variable_expression / replace_{parameter,constant}_{values,expressions} /
  resolve_parameter_values / eliminate_constant_assignments; durations regularly mention only such a
  variable.  The expected verdict is the one without options (every eliminated variable stays
  transitively dependent on a disallowed symbol); for accepted models the delay arguments are
  evaluated with the removed symbols completed from their declaration / alias class / definition.
* "cache": `transfer_model` is called twice on the same folder with cache=True (sampled:
  codegen=True): every call must give the expected verdict, and a cached model must return the
  same delay states and delay-argument values as the compiled one.

* "expand": expand_vectors=True (sometimes with expand_mx) on models with array variables of every
  category, scalar / vector-valued / matrix-valued delays (`B = delay(3*A, tau)`) and durations on
  array elements (`xs[1]`, `p + av[3]`, `der(xs[2])`, `am[1,2]`, `sum(av)`, `uv[2]`): verdict by
  category; for accepted models every scalar delay state must carry the delayed expression of its
  own element — enforced through the residuals, which tie target element and delay input.  This
  stream has no Lean tie (array-valued expressions are outside the model's fragment); the
  mechanism is stated by `postcheck_invariant_under_expansion`.

Tie: the flat class captured at the `annotate_states` stage boundary (symbol table, generic AST,
typed equations) is sent to the Lean model `PymocaVerif.Model.Delay` (driver `drv_c22`), which
classifies the symbols (model of C10), translates the delays, runs the duration check and
evaluates its delay arguments at the same points; verdict, delay symbols, shapes and values must
be equal to the implementation's.  In the "simp" stream the model additionally applies the
substitution the passes performed (read off the returned model's lists and alias relation, or the
case description for a rejected model) to expressions *and* durations and removes the substituted
names from the category table; in the "cache" stream its call-sequence state machine must give the
implementation's sequence of outcomes.
"""
import json
import os
from fractions import Fraction

from harness.common import HarnessError
from harness.gen import a07 as H

DRIVERS = ["drv_c22"]
RULE = ("one case = one generated Modelica model with constants, parameters (scalar and vector), fixed and non-fixed "
        "top-level inputs, states, algebraic variables, optionally a component instance (parameter, nested input, state, "
        "algebraic) and optionally a for-loop over vector variables; 1-4 delay() calls in equations, initial equations and "
        "loop bodies (also nested in a delayed expression or in a duration), durations drawn from every category mix, also "
        "reaching the offending symbol only below if-conditions / floor / ceil / sign; optionally a 2-D algebraic array; "
        "options default / unroll_loops=False / expand_mx; stream expand: expand_vectors=True with vector- and matrix-valued "
        "delays and durations on elements of array variables of every category; a fixed seed-independent family of 2-4-delay models with the "
        "single offending duration at every position between literal/parameter durations; stream simp: eliminated alias/eliminable variables in durations "
        "under the simplification options; stream cache: two calls on one folder with cache=True / codegen=True. non-trivial = at least one delay whose duration mentions a "
        "declared symbol, or at least two delays; distinct = distinct case description")
TRUSTED = ["`ca.depends_on` is structural dependence for the generated durations (every symbol occurs once, no zero "
           "coefficient, no cancellation)",
           "CasADi evaluates +,-,*,/ by powers of two exactly on small dyadic rationals"]
ASSUMPTIONS = ["main stream: default compiler options except unroll_loops / expand_mx",
               "simp stream: every variable a simplification option eliminates (alias, eliminable expression) is defined, "
               "transitively, by an expression that mentions a state or a non-fixed input, so that 'depends on' has the same "
               "answer before and after the elimination; no `v = <allowed symbol>` alias equations, no constant assignments; "
               "no iterative_simplification, no expand_vectors",
               "cache stream: no vector parameters (load_model cannot read a cache with a vector parameter: RuntimeError in "
               "variable_metadata, a C19 matter)",
               "for-loops run from 1 with step 1 over declared vector sizes; loop-indexed references are `v[i]`",
               "durations may reach a symbol only through a condition, a comparison or floor/ceil/sign (piecewise constant in "
               "it): that is still a dependence; a 2-D algebraic array is declared in part of the main-stream models",
               "every delayed expression mentions at least one symbol (delay of a bare literal is not generated: the generator "
               "calls .size() on a Python number)",
               "in-loop durations that mention the loop index or a loop-indexed variable, and in-loop delayed expressions "
               "mentioning a scalar that occurs nowhere else in the loop body, are exercised only in the known-finding "
               "streams (C22-F1, C22-F2)"]

DISALLOWED = ("time", "state", "der", "alg", "ufree", "delay")


# =============================================================================================
# expression specs:  ["ref", n] ["idx", n, e] ["lit", [num, den]] ["time"] ["der", e] ["neg", e]
#                    ["op", o, a, b] ["delay", a, d, id]
# =============================================================================================
def lit(q):
    q = Fraction(q)
    return ["lit", [q.numerator, q.denominator]]


LEVEL = {"+": 1, "-": 1, "*": 2, "/": 2, ">": 0, "<": 0}


def render(e, parent=0, right=False):
    """Modelica text with the parentheses the tree needs (deep parenthesisation makes ANTLR very slow)."""
    t = e[0]
    if t == "ref":
        return e[1]
    if t == "idx":
        return "%s[%s]" % (e[1], render(e[2]))
    if t == "lit":
        q = Fraction(e[1][0], e[1][1])
        txt = str(q.numerator) if q.denominator == 1 else repr(float(q))
        return "(%s)" % txt if q < 0 else txt
    if t == "time":
        return "time"
    if t == "der":
        return "der(%s)" % render(e[1])
    if t == "neg":
        return "(-%s)" % render(e[1], 3)
    if t == "fn":
        return "%s(%s)" % (e[1], render(e[2]))
    if t == "if":
        return "(if %s then %s else %s)" % (render(e[1]), render(e[2]), render(e[3]))
    if t == "idx2":
        return "%s[%d,%d]" % (e[1], e[2], e[3])
    if t == "op":
        lv = LEVEL[e[1]]
        txt = "%s %s %s" % (render(e[2], lv, False), e[1], render(e[3], lv, True))
        if lv < parent or (lv == parent and right):
            return "(%s)" % txt
        return txt
    if t == "delay":
        return "delay(%s, %s)" % (render(e[1]), render(e[2]))
    raise HarnessError("bad expr %r" % (e,))


def render_eq(q, ind="  "):
    if q[0] == "eq":
        return "%s%s = %s;" % (ind, render(q[1]), render(q[2]))
    body = "\n".join(render_eq(x, ind + "  ") for x in q[4])
    return "%sfor %s in %d:%d loop\n%s\n%send for;" % (ind, q[1], q[2], q[3], body, ind)


def walk_expr(e, f):
    f(e)
    t = e[0]
    if t in ("idx",):
        walk_expr(e[2], f)
    elif t in ("der", "neg"):
        walk_expr(e[1], f)
    elif t == "fn":
        walk_expr(e[2], f)
    elif t == "if":
        walk_expr(e[1], f)
        walk_expr(e[2], f)
        walk_expr(e[3], f)
    elif t == "op":
        walk_expr(e[2], f)
        walk_expr(e[3], f)
    elif t == "delay":
        walk_expr(e[1], f)
        walk_expr(e[2], f)


def delays_of_eq(q, loop=None, out=None):
    """[(delay node, loop (var, n) or None)] of an equation spec, outer nodes before inner ones."""
    out = [] if out is None else out
    if q[0] == "for":
        for x in q[4]:
            delays_of_eq(x, (q[1], q[3]), out)
    else:
        for side in (q[1], q[2]):
            walk_expr(side, lambda n: out.append((n, loop)) if n[0] == "delay" else None)
    return out


def atoms(e, acc, loopvar=None):
    """Symbol atoms an expression mentions: ("time",) ("var", n) ("der", n) ("delay", id) ("loopidx", n) ("loopvar",)."""
    t = e[0]
    if t == "ref":
        acc.append(("loopvar",) if e[1] == loopvar else ("var", e[1]))
    elif t == "idx":
        inner = []
        atoms(e[2], inner, loopvar)
        if ("loopvar",) in inner:
            acc.append(("loopidx", e[1]))
        else:
            acc.append(("var", e[1]))
            acc.extend(inner)
    elif t == "time":
        acc.append(("time",))
    elif t == "der":
        inner = []
        atoms(e[1], inner, loopvar)
        for a in inner:
            acc.append(("der", a[1]) if a[0] in ("var", "loopidx") else a)
    elif t == "neg":
        atoms(e[1], acc, loopvar)
    elif t == "fn":
        atoms(e[2], acc, loopvar)
    elif t == "if":
        for x in e[1:]:
            atoms(x, acc, loopvar)
    elif t == "idx2":
        acc.append(("var", e[1]))
    elif t == "op":
        atoms(e[2], acc, loopvar)
        atoms(e[3], acc, loopvar)
    elif t == "delay":
        acc.append(("delay", e[3]))
    return acc


# =============================================================================================
# generator
# =============================================================================================
VALS = [Fraction(k, 4) for k in range(-10, 11) if k != 0]


class Gen:
    def __init__(self, rng, stream="main"):
        self.rng = rng
        self.stream = stream
        self.nid = 0
        # "single": exactly one duration of the model is bad, through exactly one disallowed symbol, so that
        # every disallowed category is regularly the *only* reason for a rejection; "clean": none is bad
        self.mode = rng.choices(["free", "single", "clean"], [40, 40, 20] if stream != "simp" else [15, 65, 20])[0]
        self.elim_names = []
        self.pending = True

    def coef(self):
        return self.rng.choice([2, 3, Fraction(1, 2), Fraction(3, 2), 4, Fraction(1, 4)])

    def combine(self, leaves):
        """An expression using every leaf exactly once (no cancellation, no zero factor)."""
        r = self.rng
        terms = []
        for a in leaves:
            if r.random() < 0.5:
                a = ["op", "*", lit(self.coef()), a]
            elif r.random() < 0.15:
                a = ["op", "/", a, lit(r.choice([2, 4]))]
            elif r.random() < 0.1:
                a = ["neg", a]
            terms.append(a)
        e = terms[0]
        for a in terms[1:]:
            o = r.choices(["+", "*", "-"], [60, 25, 15])[0]
            e = ["op", o, e, a] if r.random() < 0.5 else ["op", o, a, e]
        if r.random() < 0.35:
            e = ["op", "+", e, lit(r.choice([1, 2, Fraction(1, 2)]))]
        return e

    def pick(self, pool, lo, hi):
        k = min(len(pool), self.rng.randint(lo, hi))
        out = []
        for x in (self.rng.sample(pool, k) if k else []):
            if x in out:  # pools may weight a symbol by listing it several times; never use one twice (x - x)
                continue
            # aliases of one another must not meet in one expression either (d0 - w0 vanishes after substitution)
            grp = self.elim_names + ["x0", "u0"] if self.elim_names else []
            if x[0] == "ref" and x[1] in grp and any(y[0] == "ref" and y[1] in grp for y in out):
                continue
            out.append(x)
        return out

    def make(self):
        r = self.rng
        S = {}  # name -> {"cat", "dim", "decl"}
        decls = []

        def add(name, cat, text, dim=0, value=None):
            S[name] = {"cat": cat, "dim": dim}
            if value is not None:
                S[name]["value"] = value  # [num, den] or a list of them
            if text:
                decls.append(text)

        simp = self.stream == "simp"
        skind = r.choice(["alias", "alias", "elim", "values", "alias+values", "elim+values"]) if simp else ""
        no_pv = self.stream == "cache" or "values" in skind
        add("c0", "const", "constant Real c0 = 2;", value=[2, 1])
        if r.random() < 0.5:
            add("c1", "const", "constant Real c1 = 0.5;", value=[1, 2])
        add("p0", "param", "parameter Real p0 = 3;", value=[3, 1])
        if r.random() < 0.6:
            add("p1", "param", "parameter Real p1 = 1.5;", value=[3, 2])
        if not no_pv:
            add("pv", "param", "parameter Real pv[3] = {1, 2, 4};", 3, value=[[1, 1], [2, 1], [4, 1]])
        add("uf0", "ufix", "input Real uf0(fixed = true);")
        if r.random() < 0.4:
            add("uf1", "ufix", "input Real uf1(fixed = true);")
        add("u0", "ufree", "input Real u0;" if r.random() < 0.7 else "input Real u0(fixed = false);")
        add("x0", "state", "Real x0;")
        if r.random() < 0.5:
            add("x1", "state", "output Real x1;")
        add("y0", "alg", "Real y0;")
        if r.random() < 0.5:
            add("y1", "alg", "discrete Real y1;")
        nested = r.random() < 0.45
        if nested:
            add("s.k", "param", "Sub s;", value=[2, 1])
            add("s.u", "alg", None)  # nested input: an algebraic variable of the flat model
            add("s.x", "state", None)
            add("s.y", "alg", None)
        loop = r.random() < {"main": 0.5, "simp": 0.0, "cache": 0.3}.get(self.stream, 1.0)
        n = r.choice([2, 3])
        if loop:
            add("xv", "state", "Real xv[%d];" % n, n)
            add("yv", "alg", "Real yv[%d];" % n, n)
            add("zv", "alg", "Real zv[%d];" % n, n)
        r.shuffle(decls)

        def scalar_atoms(cats, with_vec=True):
            out = []
            for nm, s in S.items():
                if s["cat"] not in cats:
                    continue
                if s["dim"]:
                    if with_vec and nm != "zv":
                        out.append(["idx", nm, lit(r.randint(1, s["dim"]))])
                else:
                    out.append(["ref", nm])
            return out

        allowed_pool = scalar_atoms(("const", "param", "ufix"))
        dis_pool = scalar_atoms(("state", "alg", "ufree")) + [["time"]]
        dis_pool += [["der", ["ref", nm]] for nm, s in S.items() if s["cat"] == "state" and not s["dim"]]
        value_pool = scalar_atoms(("const", "param", "ufix", "ufree", "state", "alg")) + [["time"]]

        def not_bare(e):
            """`v = w` / `v = -w` would make v an alias under detect_aliases (possibly of an allowed symbol)."""
            if e[0] in ("ref", "time") or (e[0] == "neg" and e[1][0] in ("ref", "time")):
                return ["op", "+", e, lit(1)]
            return e

        alias_eqs = []
        if simp:
            # algebraic variables that the simplification passes eliminate; each stays (transitively) dependent
            # on a disallowed symbol, so the expected verdict is the same with and without the options
            base = [x for x in scalar_atoms(("state", "ufree"), False)]
            wdef = not_bare(self.combine([r.choice(base)] + self.pick(allowed_pool, 0, 1)))
            S["w0"] = {"cat": "alg", "dim": 0, "def": wdef}
            alias_eqs.append(["eq", ["ref", "w0"], wdef])
            tgt = r.choice([["ref", "w0"], ["ref", "w0"], ["ref", "x0"], ["ref", "u0"]])
            sg = r.random() < 0.35
            S["d0"] = {"cat": "alg", "dim": 0, "def": ["neg", tgt] if sg else tgt}
            alias_eqs.append(["eq", ["ref", "d0"], S["d0"]["def"]])
            names = ["w0", "d0"]
            if r.random() < 0.5:
                sg = r.random() < 0.35
                S["d1"] = {"cat": "alg", "dim": 0, "def": ["neg", ["ref", "d0"]] if sg else ["ref", "d0"]}
                alias_eqs.append(["eq", ["ref", "d1"], S["d1"]["def"]])
                names.append("d1")
            decls.extend("Real %s;" % nm for nm in names)
            self.elim_names = names
            dis_pool += [["ref", nm] for nm in names] * 4
            value_pool += [["ref", nm] for nm in names]

        def piecewise(x):
            """x occurs only below a condition / rounding / sign: the value is piecewise constant in x, the
            dependence is still there (a duration must not depend on a disallowed symbol in any way)."""
            k = r.random()
            a, b = r.sample([lit(1), lit(2), lit(Fraction(1, 2))] + allowed_pool[:3], 2)
            # (if-expressions make the ANTLR parser about four times slower: the smaller share)
            if k < 0.22:
                return ["if", ["op", r.choice([">", "<"]), x, lit(r.choice([0, 1]))], a, b]
            if k < 0.32:
                return ["op", "*", a, ["if", ["op", ">", x, lit(1)], lit(1), lit(2)]]
            if k < 0.7:
                return ["op", "+", ["fn", r.choice(["floor", "ceil"]), x], lit(1)]
            return ["op", "+", ["fn", "sign", x], lit(2)]

        def duration(force=None, depth=0):
            d = duration0(force, depth)
            return d

        def duration0(force=None, depth=0):
            if force is None and self.mode != "free":
                if self.mode == "single" and self.pending and r.random() < 0.5:
                    self.pending = False
                    one = (["ref", r.choice(self.elim_names)] if self.elim_names and r.random() < 0.75 else
                           r.choice(dis_pool)) if r.random() < 0.9 else delay(self.combine(self.pick(value_pool, 1, 1)),
                                                                          duration(False, 1))
                    if one[0] != "delay" and r.random() < 0.25:
                        one = piecewise(one)
                    leaves = self.pick(allowed_pool, 0, 2) + [one]
                    r.shuffle(leaves)
                    return self.combine(leaves)
                force = False
            bad = (r.random() < 0.4) if force is None else force
            leaves = self.pick(allowed_pool, 0 if bad else 1, 2)
            if not bad and not leaves and r.random() < 0.5:
                return lit(r.choice([1, 2, Fraction(1, 2)]))
            if bad:
                if depth == 0 and r.random() < 0.12:
                    leaves.append(delay(self.combine(self.pick(value_pool, 1, 2)), duration(False, 1)))
                else:
                    extra = self.pick(dis_pool, 1, 2)
                    if r.random() < 0.12:
                        extra = [piecewise(x) for x in extra]
                    leaves += extra
            elif leaves and r.random() < 0.08:
                leaves[0] = piecewise(leaves[0])  # an allowed duration through a condition / rounding: accepted
            if not leaves:
                return lit(2)
            r.shuffle(leaves)
            return self.combine(leaves)

        def delay(a, d):
            self.nid += 1
            return ["delay", a, d, self.nid]

        eqs, ieqs = [], []
        # defining equations without delays
        for nm, s in S.items():
            if s["dim"] or nm.startswith("s.") or nm.startswith("z"):
                continue
            if s["cat"] == "state":
                rhs0 = self.combine(self.pick(value_pool, 1, 3))
                # (simp: `der(x) = d1` would let eliminable_variable_expression define d1 by this equation)
                eqs.append(["eq", ["der", ["ref", nm]], not_bare(rhs0) if simp else rhs0])
            elif s["cat"] == "alg" and "def" not in s:
                rhs0 = self.combine(self.pick(value_pool, 1, 3))
                eqs.append(["eq", ["ref", nm], not_bare(rhs0) if simp else rhs0])
        sub_eqs = []
        if nested:
            sub_eqs = [["eq", ["der", ["ref", "s.x"]], ["ref", "s.u"]],
                       ["eq", ["ref", "s.y"], ["op", "*", ["ref", "s.k"], ["ref", "s.x"]]]]
            su = self.combine(self.pick(scalar_atoms(("state", "alg", "ufree"), False), 1, 2))
            eqs.append(["eq", ["ref", "s.u"], not_bare(su) if simp else su])
        eqs.extend(alias_eqs)
        if simp:
            r.shuffle(eqs)
        # scalar delay equations
        nz = r.randint(1, 3) if self.stream == "main" else r.randint(0, 1)
        if not loop:
            nz = max(nz, 1)
        for j in range(nz):
            zn = "z%d" % j
            add(zn, "alg", None)
            a = self.combine(self.pick(value_pool, 1, 2))
            if r.random() < 0.18:  # a delayed expression that itself contains a delay
                a = ["op", "+", delay(self.combine(self.pick(value_pool, 1, 2)), duration(False, 1)), a]
            rhs = delay(a, duration())
            k = r.random()
            if k < 0.3:
                rhs = ["op", "*", lit(self.coef()), rhs]
            elif k < 0.55:
                rhs = ["op", "+", rhs, self.combine(self.pick(value_pool, 1, 2))]
            elif k < 0.65:
                rhs = ["op", "+", rhs, delay(self.combine(self.pick(value_pool, 1, 1)), duration())]
            if r.random() < 0.12:
                ieqs.append(["eq", ["ref", zn], rhs])
                eqs.append(["eq", ["ref", zn], self.combine(self.pick(value_pool, 1, 2))])
            else:
                eqs.append(["eq", ["ref", zn], rhs])
        # the loop
        if loop:
            i = ["ref", "i"]
            xi, yi, zi = ["idx", "xv", i], ["idx", "yv", i], ["idx", "zv", i]
            body = [["eq", ["der", xi], ["op", "+", yi, lit(r.choice([1, 2]))]]]
            shared = r.choice([None, ["ref", "y0"], ["ref", "p0"], ["ref", "x0"]])
            yrhs = ["op", "+", ["op", "*", lit(self.coef()), xi], lit(r.choice([1, Fraction(1, 2)]))]
            if shared is not None:
                yrhs = ["op", "+", yrhs, shared]
            body.append(["eq", yi, yrhs])
            form = r.random()
            if self.stream == "f2":
                lonely = r.choice([x for x in (["ref", "y1"] if "y1" in S else ["ref", "u0"], ["ref", "u0"], ["time"])
                                   if x != shared])
                a = ["op", "+", ["op", "*", lit(self.coef()), xi], lonely]
                d = duration(False)
            elif self.stream == "f1":
                a = self.combine([xi] + ([yi] if r.random() < 0.5 else []))
                d = self.combine([r.choice([yi, xi, ["idx", "pv", i], i])] + self.pick(allowed_pool, 0, 1))
            elif form < 0.6:
                leaves = [xi] + ([yi] if r.random() < 0.5 else []) + ([shared] if shared is not None and r.random() < 0.5 else [])
                a = self.combine(leaves)
                d = duration()
            elif form < 0.8:  # scalar delay inside the loop
                a = self.combine([shared if shared is not None else ["ref", "y0"]])
                d = duration()
            else:  # a loop-indexed delay inside a loop-indexed delay
                a = ["op", "+", delay(self.combine([xi]), duration(False, 1)), yi]
                d = duration()
            zr = delay(a, d)
            if r.random() < 0.4:
                zr = ["op", "+", zr, ["op", "*", lit(self.coef()), xi]]
            body.append(["eq", zi, zr])
            r.shuffle(body)
            eqs.insert(r.randint(0, len(eqs)), ["for", "i", 1, n, body])
        if self.stream == "main" and r.random() < 0.3:
            # a 2-D algebraic array (never expanded: no expand_vectors), defined element by element
            S["gm"] = {"cat": "alg", "dim": 4}
            decls.append("Real gm[2,2];")
            for rr in (1, 2):
                for cc in (1, 2):
                    eqs.insert(r.randint(0, len(eqs)), ["eq", ["idx2", "gm", rr, cc], self.combine(self.pick(value_pool, 1, 2))])
        zdecl = ["Real %s;" % nm for nm in S if nm.startswith("z") and not S[nm]["dim"]]
        lines = []
        if nested:
            lines += ["model Sub", "  parameter Real k = 2;", "  input Real u;", "  Real x;", "  Real y;", "equation",
                      "  der(x) = u;", "  y = (k * x);", "end Sub;"]
        lines += ["model M"] + ["  " + d for d in decls + zdecl] + ["equation"] + [render_eq(q) for q in eqs]
        if ieqs:
            lines += ["initial equation"] + [render_eq(q) for q in ieqs]
        lines += ["end M;"]
        opts = r.choices([{}, {"unroll_loops": False}, {"expand_mx": True}], [70, 15, 15])[0]
        if simp:
            opts = {}
            if "alias" in skind:
                opts["detect_aliases"] = True
            if "elim" in skind:
                opts.update(expand_mx=True, eliminable_variable_expression="(d|w)[0-9]")
            if "values" in skind:
                opts.update(replace_parameter_values=True, replace_constant_values=True)
                for k in ("replace_parameter_expressions", "replace_constant_expressions", "resolve_parameter_values",
                          "eliminate_constant_assignments"):
                    if r.random() < 0.4:
                        opts[k] = True
        elif self.stream == "cache":
            # codegen compiles four C libraries for an accepted model (seconds): sampled
            opts = {"codegen": True} if r.random() < 0.12 else {"cache": True}
        return {"kind": "text", "stream": self.stream, "name": "M", "text": "\n".join(lines) + "\n", "options": opts,
                "syms": S, "eqs": sub_eqs + eqs, "ieqs": ieqs}


# =============================================================================================
# stream "expand": array-valued delays and durations on array elements under expand_vectors=True
#   expression forms: ["lit", q] ["time"] ["s", name] (scalar) ["e", name, idx] (element, idx = [i] or [i, j])
#   ["a", name] (whole array, inside an array-valued equation) ["der", x] ["sum", name] ["op", o, a, b]
# =============================================================================================
def xname(name, idx):
    return "%s[%s]" % (name, ",".join(str(i) for i in idx))


def xrender(e):
    t = e[0]
    if t == "lit":
        return render(e)
    if t == "time":
        return "time"
    if t in ("s", "a"):
        return e[1]
    if t == "e":
        return xname(e[1], e[2])
    if t == "der":
        return "der(%s)" % xrender(e[1])
    if t == "sum":
        return "sum(%s)" % e[1]
    if t == "op":
        return "(%s %s %s)" % (xrender(e[2]), e[1], xrender(e[3]))
    raise HarnessError("bad xexpr %r" % (e,))


def xatoms(e, acc):
    t = e[0]
    if t == "time":
        acc.append(("time",))
    elif t in ("s", "a", "sum"):
        acc.append(("var", e[1]))
    elif t == "e":
        acc.append(("var", e[1]))
    elif t == "der":
        inner = xatoms(e[1], [])
        acc.extend(("der", a[1]) for a in inner)
    elif t == "op":
        xatoms(e[2], acc)
        xatoms(e[3], acc)
    return acc


def xeval(e, pt, arrays, elem=None):
    """Exact value under expansion: every array element is a scalar symbol `name[i,j]`."""
    t = e[0]
    if t == "lit":
        return Fraction(e[1][0], e[1][1])
    if t == "time":
        return pt.time
    if t == "s":
        return pt.get(e[1], 0)
    if t == "e":
        return pt.get(xname(e[1], e[2]), 0)
    if t == "a":
        return pt.get(xname(e[1], elem), 0)
    if t == "der":
        x = e[1]
        nm = x[1] if x[0] == "s" else xname(x[1], x[2] if x[0] == "e" else elem)
        return pt.get("der(%s)" % nm, 0)
    if t == "sum":
        return sum(pt.get(xname(e[1], ix), 0) for ix in indices(arrays[e[1]]["shape"]))
    if t == "op":
        a, b = xeval(e[2], pt, arrays, elem), xeval(e[3], pt, arrays, elem)
        return {"+": a + b, "-": a - b, "*": a * b}[e[1]]
    raise HarnessError("bad xexpr %r" % (e,))


def indices(shape):
    import itertools
    return [list(ix) for ix in itertools.product(*[range(1, n + 1) for n in shape])]  # row by row


class ExpandGen:
    def __init__(self, rng):
        self.rng = rng

    def make(self):
        r = self.rng
        S = {"c0": {"cat": "const", "dim": 0, "value": [2, 1]}, "p0": {"cat": "param", "dim": 0, "value": [3, 1]},
             "uf0": {"cat": "ufix", "dim": 0}, "u0": {"cat": "ufree", "dim": 0}, "x0": {"cat": "state", "dim": 0},
             "y0": {"cat": "alg", "dim": 0}}
        decl = ["constant Real c0 = 2;", "parameter Real p0 = 3;", "input Real uf0(fixed = true);", "input Real u0;",
                "Real x0;", "Real y0;"]
        A = {}  # arrays: name -> {"cat", "shape"}

        def arr(name, cat, shape, text):
            A[name] = {"cat": cat, "shape": shape}
            S[name] = {"cat": cat, "dim": 1}
            decl.append(text)

        n, m = r.choice([2, 3]), r.choice([2, 3])
        rr, cc = r.choice([2, 3]), r.choice([2, 3])
        arr("pv", "param", [2], "parameter Real pv[2] = {1, 2};")
        arr("ufv", "ufix", [2], "input Real ufv[2](each fixed = true);")
        arr("uv", "ufree", [2], "input Real uv[2];")
        arr("xs", "state", [n], "Real xs[%d];" % n)
        arr("av", "alg", [m], "Real av[%d];" % m)
        arr("am", "alg", [rr, cc], "Real am[%d,%d];" % (rr, cc))
        has_xm = r.random() < 0.5
        if has_xm:
            arr("xm", "state", [2, 2], "Real xm[2,2];")
        scal = [["s", "x0"], ["s", "y0"], ["s", "u0"], ["s", "p0"], ["lit", [1, 1]], ["lit", [2, 1]]]

        def small():
            a, b = r.sample(scal, 2)
            return ["op", r.choice(["+", "*"]), ["op", "*", lit(r.choice([2, 3, Fraction(1, 2)])), a], b]

        eqs = [["eq", ["der", ["s", "x0"]], ["op", "+", ["s", "u0"], ["s", "uf0"]]],
               ["eq", ["s", "y0"], ["op", "+", ["op", "*", lit(2), ["s", "x0"]], lit(1)]]]
        for ix in indices(A["xs"]["shape"]):
            eqs.append(["eq", ["der", ["e", "xs", ix]], small()])
        for nm in ("av", "am"):
            for ix in indices(A[nm]["shape"]):
                eqs.append(["eq", ["e", nm, ix], small()])
        if has_xm:
            for ix in indices([2, 2]):
                eqs.append(["eq", ["der", ["e", "xm", ix]], small()])
        allowed = [["s", "p0"], ["s", "c0"], ["s", "uf0"], ["e", "pv", [r.randint(1, 2)]], ["e", "ufv", [r.randint(1, 2)]],
                   lit(2), lit(Fraction(1, 2))]

        def elem(nm):
            return ["e", nm, r.choice(indices(A[nm]["shape"]))]

        offenders = [elem("xs"), elem("av"), elem("am"), elem("uv"), ["der", elem("xs")], ["sum", "av"], ["s", "x0"],
                     ["s", "y0"], ["time"], ["sum", "xs"]]
        if has_xm:
            offenders += [elem("xm"), ["der", elem("xm")]]

        def duration(bad):
            a = r.choice(allowed)
            if bad:
                o = r.choice(offenders)
                k = r.random()
                return o if k < 0.3 else ["op", "+", a, o] if k < 0.7 else ["op", "+", ["op", "*", lit(2), o], a]
            b = r.choice(allowed)
            return a if r.random() < 0.4 else ["op", r.choice(["+", "*"]), a, b]

        kinds = r.sample(["scalar", "vector", "matrix", "scalar2"], r.randint(1, 4))
        bad_at = r.randrange(len(kinds)) if r.random() < 0.5 else None
        delays = []
        for j, kd in enumerate(kinds):
            d = duration(j == bad_at)
            if kd in ("scalar", "scalar2"):
                tgt = "z%d" % j
                S[tgt] = {"cat": "alg", "dim": 0}
                decl.append("Real %s;" % tgt)
                a = r.choice([small(), ["op", "+", elem("av"), ["s", "x0"]], ["op", "*", lit(2), elem("am")]])
                delays.append({"id": j, "target": ["s", tgt], "shape": None, "expr": a, "dur": d})
            else:
                src = "av" if kd == "vector" else "am"
                tgt = "w%d" % j
                shp = A[src]["shape"]
                arr(tgt, "alg", shp, "Real %s[%s];" % (tgt, ",".join(str(x) for x in shp)))
                a = ["op", "*", lit(r.choice([2, 3])), ["a", src]]
                if r.random() < 0.5:
                    a = ["op", "+", a, r.choice([lit(1), ["s", "x0"]])]
                delays.append({"id": j, "target": ["a", tgt], "shape": shp, "expr": a, "dur": d})
        lines = ["model M"] + ["  " + x for x in decl] + ["equation"]
        lines += ["  %s = %s;" % (xrender(q[1]), xrender(q[2])) for q in eqs]
        lines += ["  %s = delay(%s, %s);" % (xrender(dl["target"]), xrender(dl["expr"]), xrender(dl["dur"])) for dl in delays]
        lines += ["end M;"]
        opts = {"expand_vectors": True}
        if r.random() < 0.25:
            opts["expand_mx"] = True
        return {"kind": "text", "stream": "expand", "name": "M", "text": "\n".join(lines) + "\n", "options": opts,
                "syms": S, "arrays": A, "xeqs": eqs, "xdelays": delays, "eqs": [], "ieqs": []}


def xexpected_reject(case):
    for dl in case["xdelays"]:
        for a in xatoms(dl["dur"], []):
            c = cat_of_atom(a, case["syms"])
            if c in DISALLOWED:
                return "duration of delay #%d (%s) depends on %s %s" % (dl["id"], xrender(dl["dur"]), c, a[1:] and a[1] or "")
    return None


def check_expand(ctx, case):
    """expand_vectors=True: verdict by category; for an accepted model every scalar delay state must carry the delayed
    expression of *its own* element (checked through the residuals: the element of the target that the equations tie to
    a delay input must be the element whose delayed expression the argument function returns for that input)."""
    import random
    H.quiet_pymoca()
    rng = random.Random(json.dumps(case["text"]))
    folder = write_model(ctx, case)
    model, verdict, msg = one_call(folder, case, None)
    why = xexpected_reject(case)
    if verdict.startswith("raise:"):
        ctx.violation("transfer_model raised %s (neither acceptance nor the delay-duration rejection)" % verdict[6:], case,
                      expected="reject" if why else "accept", observed="%s: %s" % (verdict[6:], msg[:300]), kind="input")
    elif why and verdict == "accept":
        ctx.violation("transfer_model accepted a model whose delay duration depends on a disallowed category", case,
                      expected="ValueError: " + why, observed="accepted", kind="input")
    elif not why and verdict == "reject":
        ctx.violation("transfer_model rejected a model whose delay durations depend only on constants, parameters and fixed inputs",
                      case, expected="accepted", observed="ValueError: " + msg[:200], kind="input")
    elif verdict == "accept":
        arrays = case["arrays"]
        try:
            pts = [Point(rng, model, case) for _ in range(2)]
            outs = [[flat_out(o) for o in call(model.delay_arguments_function, pt.args())] for pt in pts]
            dae = [sorted(flat_out(call(model.dae_residual_function, pt.args())[0])) for pt in pts]
        except Exception as e:
            ctx.violation("accepted model: building/evaluating the delay-argument or residual functions raised %s"
                          % type(e).__name__, case, expected="functions of an accepted model evaluate",
                          observed="%s: %s" % (type(e).__name__, str(e)[:300]), kind="input")
            return verdict
        names = list(model.delay_states)
        want_n = sum(len(indices(dl["shape"])) if dl["shape"] else 1 for dl in case["xdelays"])
        if len(names) != want_n or len(outs[0]) != 2 * want_n:
            ctx.violation("number of scalar delay states differs from the number of delayed elements", case,
                          expected=want_n, observed=names, kind="input")
            return verdict
        pi, free = {}, set(range(len(names)))
        for dl in case["xdelays"]:
            for ix in (indices(dl["shape"]) if dl["shape"] else [None]):
                want = [([xeval(dl["expr"], pt, arrays, ix)], [xeval(dl["dur"], pt, arrays, ix)]) for pt in pts]
                match = next((k for k in sorted(free)
                              if all(out[2 * k] == w[0] and out[2 * k + 1] == w[1] for out, w in zip(outs, want))), None)
                if match is None:
                    ctx.violation("no output pair of delay_arguments_function equals the delayed expression and duration "
                                  "of an element of a delay() call", case,
                                  expected="delay #%d element %s: %s | %s" % (dl["id"], ix, xrender(dl["expr"]), xrender(dl["dur"])),
                                  observed={"delay_states": names, "outputs_at_point_0": [[str(x) for x in o] for o in outs[0]]},
                                  kind="input")
                    return verdict
                pi[(dl["id"], tuple(ix) if ix else None)] = match
                free.discard(match)
        for pt, g in zip(pts, dae):
            want = [xeval(q[1], pt, arrays) - xeval(q[2], pt, arrays) for q in case["xeqs"]]
            for dl in case["xdelays"]:
                for ix in (indices(dl["shape"]) if dl["shape"] else [None]):
                    inp = pt.get(names[pi[(dl["id"], tuple(ix) if ix else None)]], 0)
                    want.append(xeval(dl["target"], pt, arrays, ix) - inp)
            if sorted(want) != g:
                ctx.violation("dae residual is not the flat equations with every delayed element replaced by its paired input",
                              case, expected=[str(x) for x in sorted(want)], observed=[str(x) for x in g], kind="input")
                break
    return verdict


def expand_family_cases():
    """Fixed, seed-independent models for expand_vectors=True: a vector and two matrix delays (2x3, 3x2) with legal
    durations, and one scalar delay per kind of duration on an array element."""
    S = {"c0": {"cat": "const", "dim": 0, "value": [2, 1]}, "p0": {"cat": "param", "dim": 0, "value": [3, 1]},
         "uf0": {"cat": "ufix", "dim": 0}, "u0": {"cat": "ufree", "dim": 0}, "x0": {"cat": "state", "dim": 0},
         "y0": {"cat": "alg", "dim": 0}}
    decl0 = ["constant Real c0 = 2;", "parameter Real p0 = 3;", "input Real uf0(fixed = true);", "input Real u0;",
             "Real x0;", "Real y0;", "parameter Real pv[2] = {1, 2};", "input Real uv[2];", "Real xs[2];", "Real av[3];"]
    A0 = {"pv": {"cat": "param", "shape": [2]}, "uv": {"cat": "ufree", "shape": [2]}, "xs": {"cat": "state", "shape": [2]},
          "av": {"cat": "alg", "shape": [3]}}
    s_, e_ = (lambda n: ["s", n]), (lambda n, *ix: ["e", n, list(ix)])

    def model(shape, delays):
        A = dict(A0, am={"cat": "alg", "shape": shape})
        Sx = dict(S)
        for nm, a in A.items():
            Sx[nm] = {"cat": a["cat"], "dim": 1}
        decl = decl0 + ["Real am[%d,%d];" % tuple(shape)]
        eqs = [["eq", ["der", s_("x0")], ["op", "+", s_("u0"), s_("uf0")]],
               ["eq", s_("y0"), ["op", "+", ["op", "*", lit(2), s_("x0")], lit(1)]]]
        k = 0
        for ix in indices([2]):
            eqs.append(["eq", ["der", e_("xs", *ix)], ["op", "+", s_("x0"), lit(ix[0])]])
        for nm in ("av", "am"):
            for ix in indices(A[nm]["shape"]):
                k += 1
                eqs.append(["eq", e_(nm, *ix), ["op", "+", ["op", "*", lit(k), s_("x0")], s_("y0")]])
        ds = []
        for j, (kind, a, d) in enumerate(delays):
            if kind == "scalar":
                tgt = "z%d" % j
                Sx[tgt] = {"cat": "alg", "dim": 0}
                decl.append("Real %s;" % tgt)
                ds.append({"id": j, "target": s_(tgt), "shape": None, "expr": a, "dur": d})
            else:
                src = "av" if kind == "vector" else "am"
                tgt = "w%d" % j
                shp = A[src]["shape"]
                A[tgt] = {"cat": "alg", "shape": shp}
                Sx[tgt] = {"cat": "alg", "dim": 1}
                decl.append("Real %s[%s];" % (tgt, ",".join(str(x) for x in shp)))
                ds.append({"id": j, "target": ["a", tgt], "shape": shp, "expr": a, "dur": d})
        lines = ["model M"] + ["  " + x for x in decl] + ["equation"]
        lines += ["  %s = %s;" % (xrender(q[1]), xrender(q[2])) for q in eqs]
        lines += ["  %s = delay(%s, %s);" % (xrender(dl["target"]), xrender(dl["expr"]), xrender(dl["dur"])) for dl in ds]
        lines += ["end M;"]
        return {"kind": "text", "stream": "expand", "name": "M", "text": "\n".join(lines) + "\n",
                "options": {"expand_vectors": True}, "syms": Sx, "arrays": A, "xeqs": eqs, "xdelays": ds, "eqs": [], "ieqs": []}

    three_a = ["op", "*", lit(3), ["a", "am"]]
    out = [model([2, 3], [("matrix", three_a, ["op", "*", s_("p0"), s_("c0")]),
                          ("vector", ["op", "+", ["op", "*", lit(2), ["a", "av"]], s_("x0")], ["op", "+", s_("uf0"), lit(1)]),
                          ("scalar", s_("x0"), e_("pv", 2))]),
           model([3, 2], [("scalar", e_("av", 2), s_("p0")), ("matrix", ["op", "+", three_a, lit(1)], lit(2))])]
    for d in (e_("xs", 1), ["op", "+", s_("p0"), e_("av", 3)], ["der", e_("xs", 2)], e_("am", 1, 2), ["sum", "av"],
              e_("uv", 2), ["op", "+", ["op", "*", lit(2), e_("am", 2, 1)], s_("c0")]):
        out.append(model([2, 2], [("scalar", s_("x0"), s_("p0")), ("scalar", s_("y0"), d)]))
    return out


def family_cases():
    """A fixed family, independent of the seed: models with 2-4 delays in separate equations, exactly one offending
    duration at every position (and none), the other durations literal / parameter / constant / fixed-input in two
    patterns — so that a check that stops at, skips after, or only looks at some delay shows on every run; plus
    variants with the harmless delay in an initial equation (walked first) and two delays in one equation."""
    S = {"c0": {"cat": "const", "dim": 0, "value": [2, 1]}, "p0": {"cat": "param", "dim": 0, "value": [3, 1]},
         "uf0": {"cat": "ufix", "dim": 0}, "u0": {"cat": "ufree", "dim": 0}, "x0": {"cat": "state", "dim": 0},
         "y0": {"cat": "alg", "dim": 0}}
    decl = ["constant Real c0 = 2;", "parameter Real p0 = 3;", "input Real uf0(fixed = true);", "input Real u0;",
            "Real x0;", "Real y0;"]
    ref = lambda n: ["ref", n]
    offenders = [["time"], ref("x0"), ["der", ref("x0")], ref("y0"), ref("u0"),
                 ["op", "+", ref("p0"), ["op", "*", lit(2), ref("y0")]]]
    harmless = {"A": [lit(2), lit(1), lit(Fraction(1, 2)), lit(3)],
                "B": [ref("p0"), lit(2), ["op", "*", ref("c0"), ref("p0")], ref("uf0")]}
    out = []
    nid = [0]

    def dl(a, d):
        nid[0] += 1
        return ["delay", a, d, nid[0]]

    def model(durs, layout="sep"):
        n = len(durs)
        Sx = dict(S)
        for j in range(n):
            Sx["z%d" % j] = {"cat": "alg", "dim": 0}
        exprs = [ref("x0"), ["op", "+", ref("y0"), lit(1)], ["op", "*", lit(2), ref("x0")], ref("u0")]
        eqs = [["eq", ["der", ref("x0")], ["op", "+", ref("u0"), ref("uf0")]],
               ["eq", ref("y0"), ["op", "+", ["op", "*", lit(2), ref("x0")], lit(1)]]]
        ieqs = []
        delays = [dl(exprs[j % 4], durs[j]) for j in range(n)]
        if layout == "sep":
            for j in range(n):
                eqs.append(["eq", ref("z%d" % j), delays[j]])
        elif layout == "ieq":  # the first delay in an initial equation: walked (and numbered) first
            ieqs.append(["eq", ref("z0"), ["op", "+", delays[0], lit(1)]])
            eqs.append(["eq", ref("z0"), ["op", "*", lit(2), ref("x0")]])
            for j in range(1, n):
                eqs.append(["eq", ref("z%d" % j), delays[j]])
        else:  # "sum": the first two delays in one equation
            eqs.append(["eq", ref("z0"), ["op", "+", delays[0], delays[1]]])
            eqs.append(["eq", ref("z1"), ["op", "+", ref("x0"), lit(1)]])
            for j in range(2, n):
                eqs.append(["eq", ref("z%d" % j), delays[j]])
        lines = ["model M"] + ["  " + d for d in decl + ["Real z%d;" % j for j in range(n)]] + ["equation"]
        lines += [render_eq(q) for q in eqs]
        if ieqs:
            lines += ["initial equation"] + [render_eq(q) for q in ieqs]
        lines += ["end M;"]
        return {"kind": "text", "stream": "family", "name": "M", "text": "\n".join(lines) + "\n", "options": {},
                "syms": Sx, "eqs": eqs, "ieqs": ieqs}

    t = 0
    for n in (2, 3, 4):
        for pat in ("A", "B"):
            h = harmless[pat]
            out.append(model([h[j % 4] for j in range(n)]))  # no offender: accepted
            for k in range(n):
                for rep in range(2):
                    off = offenders[t % len(offenders)]
                    t += 1
                    out.append(model([off if j == k else h[j % 4] for j in range(n)]))
    for n in (2, 3):
        for k in range(1, n):
            for layout in ("ieq", "sum"):
                off = offenders[t % len(offenders)]
                t += 1
                out.append(model([off if j == k else harmless["A"][j % 4] for j in range(n)], layout))
    return out


# =============================================================================================
# direct oracle
# =============================================================================================
def cat_of_atom(a, S):
    if a[0] == "time":
        return "time"
    if a[0] == "delay":
        return "delay"
    if a[0] == "der":
        return "der"
    if a[0] == "var":
        return S[a[1]]["cat"]
    return a[0]  # loopidx / loopvar


def all_delays(case):
    out = []
    for q in case["ieqs"] + case["eqs"]:
        delays_of_eq(q, None, out)
    return out


def expected_reject(case):
    """Names the first duration that depends on a disallowed category, else None."""
    for node, loop in all_delays(case):
        for a in atoms(node[2], [], loop[0] if loop else None):
            c = cat_of_atom(a, case["syms"])
            if c in DISALLOWED:
                return "duration of delay #%d (%s) depends on %s %s" % (node[3], render(node[2]), c, a[1:] and a[1] or "")
    return None


class Point:
    """One exact evaluation point: a value for every scalar element of every model symbol."""

    def __init__(self, rng, model, case=None):
        self.val = {}
        self.vectors = []
        self.decl = (case or {}).get("syms", {})
        self.alias = getattr(model, "alias_relation", None)
        self.time = rng.choice(VALS)
        for key in ("states", "der_states", "alg_states", "inputs", "constants", "parameters"):
            vec = []
            for v in getattr(model, key):
                nm, ne = v.symbol.name(), v.symbol.numel()
                for j in range(ne):
                    q = rng.choice(VALS)
                    self.val[(nm, 0 if ne == 1 else j + 1)] = q
                    vec.append(float(q))
            self.vectors.append(vec)
        self.size = {v.symbol.name(): v.symbol.numel() for v in model.inputs}

    def args(self):
        return [float(self.time)] + self.vectors

    def get(self, nm, j, depth=0):
        """Value of element j of symbol nm; a symbol a simplification pass removed from the model gets the value
        its declaration (parameter/constant value), its alias class or its defining equation gives it."""
        if (nm, j) in self.val:
            return self.val[(nm, j)]
        if depth > 20:
            raise KeyError(nm)
        d = self.decl.get(nm)
        if d is not None and "value" in d:
            v = d["value"][j - 1] if d["dim"] else d["value"]
            return Fraction(v[0], v[1])
        if self.alias is not None:
            c, sign = self.alias.canonical_signed(nm)
            if c != nm:
                return sign * self.get(c, j, depth + 1)
        if d is not None and "def" in d:
            return evaluate(d["def"], self, {}, None, depth + 1)
        raise KeyError(nm)

    def env_json(self):
        return {"time": H.frac_json(self.time),
                "vals": [[nm, j, q.numerator, q.denominator] for (nm, j), q in sorted(self.val.items())]}


class Unbound(Exception):
    pass


def evaluate(e, pt, pi, lv, depth=0):
    """Exact value of a source expression; a delay node takes the value of its paired input symbol."""
    t = e[0]
    if t == "lit":
        return Fraction(e[1][0], e[1][1])
    if t == "time":
        return pt.time
    if t == "ref":
        if e[1] == "i" and lv is not None:
            return Fraction(lv)
        return pt.get(e[1], 0, depth)
    if t == "idx":
        j = evaluate(e[2], pt, pi, lv, depth)
        return pt.get(e[1], int(j), depth)
    if t == "der":
        x = e[1]
        if x[0] == "ref":
            return pt.get("der(%s)" % x[1], 0, depth)
        return pt.get("der(%s)" % x[1], int(evaluate(x[2], pt, pi, lv, depth)), depth)
    if t == "neg":
        return -evaluate(e[1], pt, pi, lv, depth)
    if t == "fn":
        import math
        x = evaluate(e[2], pt, pi, lv, depth)
        return {"floor": lambda: Fraction(math.floor(x)), "ceil": lambda: Fraction(math.ceil(x)),
                "sign": lambda: Fraction((x > 0) - (x < 0)), "abs": lambda: abs(x)}[e[1]]()
    if t == "if":
        return evaluate(e[2] if evaluate(e[1], pt, pi, lv, depth) != 0 else e[3], pt, pi, lv, depth)
    if t == "idx2":
        return pt.get(e[1], (e[3] - 1) * 2 + e[2], depth)
    if t == "op":
        a, b = evaluate(e[2], pt, pi, lv, depth), evaluate(e[3], pt, pi, lv, depth)
        if e[1] in (">", "<"):
            return Fraction(int(a > b if e[1] == ">" else a < b))
        return {"+": a + b, "-": a - b, "*": a * b, "/": a / b if b != 0 else None}[e[1]]
    if t == "delay":
        if e[3] not in pi:
            raise Unbound(e[3])
        nm = "_pymoca_delay_%d" % pi[e[3]]
        return pt.get(nm, lv, depth) if pt.size.get(nm, 1) > 1 else pt.get(nm, 0, depth)
    raise HarnessError("bad expr %r" % (e,))


def fr(x):
    return H.frac_of_float(float(x))


def call(f, args):
    """Function.call with column vectors; always a list of outputs."""
    import casadi as ca
    ins = [ca.DM(a) if (not isinstance(a, list) or a) else ca.DM.zeros(0, 1) for a in args]
    return f.call(ins)


def flat_out(o):
    import numpy as np
    return [fr(x) for x in np.array(o.full() if hasattr(o, "full") else o).ravel(order="F")]


def oracle_accepted(ctx, case, model, rng):
    """The delay-argument function returns each delayed expression and duration, paired with the right input."""
    nodes = all_delays(case)
    try:
        f = model.delay_arguments_function
        pts = [Point(rng, model, case) for _ in range(2)]
        outs = [[flat_out(o) for o in call(f, pt.args())] for pt in pts] if nodes else [[], []]
        ctx.extra["_c22_last"] = (pts, outs)
        dae = [sorted(flat_out(call(model.dae_residual_function, pt.args())[0])) if model.equations else [] for pt in pts]
        ini = [sorted(flat_out(call(model.initial_residual_function, pt.args())[0])) if model.initial_equations else []
               for pt in pts]
    except Exception as e:
        ctx.violation("accepted model: building/evaluating the delay-argument or residual functions raised %s"
                      % type(e).__name__, case, expected="functions of an accepted model evaluate",
                      observed="%s: %s" % (type(e).__name__, str(e)[:300]), kind="input")
        return None
    K = len(model.delay_states)
    if K != len(nodes) or len(outs[0]) != 2 * K:
        ctx.violation("number of delay states/arguments differs from the number of delay() calls", case,
                      expected=len(nodes), observed=[K, len(outs[0])], kind="input")
        return None
    pi, free = {}, set(range(K))
    # innermost nodes first: an outer node's expression needs the pairing of the nodes inside it
    depth = {n[3]: sum(1 for _ in iter_delays(n)) for n, _ in nodes}
    for node, loop in sorted(nodes, key=lambda x: depth[x[0][3]]):
        match = None
        for k in sorted(free):
            ok = True
            for pt, out in zip(pts, outs):
                vec = pt.size.get("_pymoca_delay_%d" % k, 1) > 1
                try:
                    if vec and loop:
                        want_e = [evaluate(node[1], pt, pi, v) for v in range(1, loop[1] + 1)]
                    else:
                        want_e = [evaluate(node[1], pt, pi, None)]
                    want_d = [evaluate(node[2], pt, pi, None)]
                except (Unbound, KeyError, TypeError):
                    ok = False
                    break
                if out[2 * k] != want_e or out[2 * k + 1] != want_d:
                    ok = False
                    break
            if ok:
                match = k
                break
        if match is None:
            ctx.violation("no output pair of delay_arguments_function equals the delayed expression and duration of a delay() call",
                          case, expected="pair for delay #%d: %s | %s" % (node[3], render(node[1]), render(node[2])),
                          observed={"outputs_at_point_0": [[str(x) for x in o] for o in outs[0]],
                                    "point_0": {"%s[%d]" % k: str(v) for k, v in pts[0].val.items()}}, kind="input")
            return None
        pi[node[3]] = match
        free.discard(match)
    # residual coherence (not after simplification passes that drop / rewrite equations)
    if case.get("stream") == "simp":
        return pi
    for which, eqs, got in (("dae", case["eqs"], dae), ("initial", case["ieqs"], ini)):
        for pt, g in zip(pts, got):
            want = []
            try:
                for q in eqs:
                    if q[0] == "for":
                        for v in range(q[2], q[3] + 1):
                            for b in q[4]:
                                want.append(evaluate(b[1], pt, pi, v) - evaluate(b[2], pt, pi, v))
                    else:
                        want.append(evaluate(q[1], pt, pi, None) - evaluate(q[2], pt, pi, None))
            except (Unbound, KeyError, TypeError) as e:
                raise HarnessError("oracle could not evaluate its own equations: %r" % (e,))
            if which == "initial":
                # states/alg start-value equations are not generated (no start attributes); only the listed equations
                pass
            if sorted(want) != g:
                ctx.violation("%s residual is not the flat equations with every delay() replaced by its paired input" % which,
                              case, expected=[str(x) for x in sorted(want)], observed=[str(x) for x in g], kind="input")
                return pi
    return pi


def iter_delays(node):
    out = []
    walk_expr(node, lambda n: out.append(n) if n[0] == "delay" else None)
    return out


# =============================================================================================
# typed serialisation of the real flat AST for the Lean model
# =============================================================================================
class Unsupported(Exception):
    pass


def ser_expr(n):
    from pymoca import ast
    if isinstance(n, ast.Primary):
        v = n.value
        if isinstance(v, bool) or not isinstance(v, (int, float)):
            raise Unsupported("primary %r" % (v,))
        q = Fraction(v)
        return {"t": "lit", "n": q.numerator, "d": q.denominator}
    if isinstance(n, ast.ComponentRef):
        if n.child:
            raise Unsupported("ref with child")
        idx = [i for grp in n.indices for i in grp if i is not None]
        if n.name == "time" and not idx:
            return {"t": "time"}
        if not idx:
            return {"t": "ref", "name": n.name}
        if len(idx) == 1:
            return {"t": "idx", "name": n.name, "i": ser_expr(idx[0])}
        raise Unsupported("multi-index")
    if isinstance(n, ast.Expression):
        op = n.operator
        if isinstance(op, ast.ComponentRef):
            if op.name == "delay" and len(n.operands) == 2 and not op.child:
                return {"t": "delay", "a": ser_expr(n.operands[0]), "d": ser_expr(n.operands[1])}
            if op.name in ("floor", "ceil", "sign", "abs") and len(n.operands) == 1 and not op.child:
                return {"t": "un", "f": op.name, "e": ser_expr(n.operands[0])}
            raise Unsupported("call " + op.name)
        if op == "der" and len(n.operands) == 1:
            return {"t": "der", "e": ser_expr(n.operands[0])}
        if op == "-" and len(n.operands) == 1:
            return {"t": "neg", "e": ser_expr(n.operands[0])}
        if op in ("+", "-", "*", "/", ">", "<", ">=", "<=") and len(n.operands) == 2:
            return {"t": "bin", "op": op, "a": ser_expr(n.operands[0]), "b": ser_expr(n.operands[1])}
        raise Unsupported("operator %r" % (op,))
    if isinstance(n, ast.IfExpression) and len(n.conditions) == 1 and len(n.expressions) == 2:
        return {"t": "ite", "c": ser_expr(n.conditions[0]), "a": ser_expr(n.expressions[0]), "b": ser_expr(n.expressions[1])}
    raise Unsupported(type(n).__name__)


def has_delay(n):
    """Does an AST (sub)tree contain a delay() call?"""
    t = H.ser_node(n)

    def rec(x):
        if x["k"] == "Expression" and (x["n"] == "delay" or (x["c"] and x["c"][0]["k"] == "ComponentRef"
                                                              and x["c"][0]["n"] == "delay" and x["n"] == "")):
            return True
        return any(rec(c) for c in x["c"])
    return rec(t)


def ser_eq(q, in_loop=False):
    from pymoca import ast
    if isinstance(q, ast.Equation) and not in_loop and not has_delay(q):
        # an equation outside for-loops without a delay() contributes nothing to the delay translation: it may use
        # constructs outside the modelled fragment (matrices, functions, …)
        z = {"t": "lit", "n": 0, "d": 1}
        return {"t": "eq", "l": z, "r": z}
    if isinstance(q, ast.Equation):
        if isinstance(q.left, list) or isinstance(q.right, list):
            raise Unsupported("tuple equation")
        return {"t": "eq", "l": ser_expr(q.left), "r": ser_expr(q.right)}
    if isinstance(q, ast.ForEquation):
        if len(q.indices) != 1 or not isinstance(q.indices[0].expression, ast.Slice):
            raise Unsupported("for index")
        sl = q.indices[0].expression
        lo, hi, st = sl.start, sl.stop, sl.step
        if not all(isinstance(x, ast.Primary) and isinstance(x.value, int) for x in (lo, hi, st)) or st.value != 1:
            raise Unsupported("for range")
        return {"t": "for", "var": q.indices[0].name, "lo": lo.value, "hi": hi.value, "body": [ser_eq(x, True) for x in q.equations]}
    raise Unsupported(type(q).__name__)


def model_request(flat, pts):
    node = flat["node"]
    flat = dict(flat, ieqs_nodes=list(node.initial_equations), eqs_nodes=list(node.equations))
    syms = [{"name": s["name"], "prefixes": s["prefixes"], "type": s["type"], "order": s["order"],
             "dims": [d for d in s["dims"] if d != "?"], "fixed": bool(s["fixed"]) and s["fixed"] != "?"}
            for s in flat["symbols"]]
    return {"op": "delay", "symbols": syms, "tree": flat["tree"],
            "ieqs": [ser_eq(q) for q in flat["ieqs_nodes"]], "eqs": [ser_eq(q) for q in flat["eqs_nodes"]],
            "envs": [pt.env_json() for pt in pts]}


# =============================================================================================
# running one case
# =============================================================================================
def write_model(ctx, case):
    d = os.path.join(ctx.scratch, "m%d" % ctx.evaluations)
    os.makedirs(d, exist_ok=True)
    for fn in os.listdir(d):
        os.unlink(os.path.join(d, fn))
    with open(os.path.join(d, case["name"] + ".mo"), "w") as f:
        f.write(case["text"])
    return d


def spec_json(e):
    """typed JSON (driver format) of a delay-free expression spec."""
    t = e[0]
    if t == "lit":
        return {"t": "lit", "n": e[1][0], "d": e[1][1]}
    if t == "time":
        return {"t": "time"}
    if t == "ref":
        return {"t": "ref", "name": e[1]}
    if t == "idx":
        return {"t": "idx", "name": e[1], "i": spec_json(e[2])}
    if t == "der":
        return {"t": "der", "e": spec_json(e[1])}
    if t == "neg":
        return {"t": "neg", "e": spec_json(e[1])}
    if t == "op":
        return {"t": "bin", "op": e[1], "a": spec_json(e[2]), "b": spec_json(e[3])}
    if t == "fn":
        return {"t": "un", "f": e[1], "e": spec_json(e[2])}
    if t == "if":
        return {"t": "ite", "c": spec_json(e[1]), "a": spec_json(e[2]), "b": spec_json(e[3])}
    raise HarnessError("no typed form for %r" % (e,))


def substitution_of(case, model):
    """The substitution the simplification passes performed: {name: delay-free expression spec} for every declared
    scalar symbol that left the model's variable lists (from the returned model's lists and alias relation; from the
    case description when the model was rejected and is not available)."""
    S, opts = case["syms"], case.get("options") or {}
    sigma = {}
    if model is not None:
        present = set()
        for key in ("states", "alg_states", "inputs", "constants", "parameters"):
            present.update(v.symbol.name() for v in getattr(model, key))
        gone = [nm for nm, d in S.items() if nm not in present and not d["dim"]]
    else:
        gone = []
        if opts.get("replace_parameter_values"):
            gone += [nm for nm, d in S.items() if d["cat"] == "param" and not d["dim"]]
        if opts.get("replace_constant_values"):
            gone += [nm for nm, d in S.items() if d["cat"] == "const" and not d["dim"]]
        if opts.get("detect_aliases"):
            gone += [nm for nm, d in S.items() if "def" in d and d["def"][0] in ("ref", "neg")]
        if opts.get("eliminable_variable_expression"):
            gone += [nm for nm, d in S.items() if "def" in d]
    for nm in gone:
        d = S[nm]
        if "value" in d:
            sigma[nm] = ["lit", d["value"]]
        elif model is not None and model.alias_relation.canonical_signed(nm)[0] != nm:
            c, sign = model.alias_relation.canonical_signed(nm)
            sigma[nm] = ["ref", c] if sign > 0 else ["neg", ["ref", c]]
        elif "def" in d:
            sigma[nm] = d["def"]

    def resolve(e, depth=0):
        if depth > 20:
            raise HarnessError("cyclic substitution")
        t = e[0]
        if t == "ref":
            return resolve(sigma[e[1]], depth + 1) if e[1] in sigma else e
        if t in ("lit", "time", "der"):
            return e
        if t == "idx":
            return ["idx", e[1], resolve(e[2], depth)]
        if t == "neg":
            return ["neg", resolve(e[1], depth)]
        if t == "fn":
            return ["fn", e[1], resolve(e[2], depth)]
        if t == "if":
            return ["if"] + [resolve(x, depth) for x in e[1:]]
        if t == "op":
            return ["op", e[1], resolve(e[2], depth), resolve(e[3], depth)]
        raise HarnessError("bad substitution value %r" % (e,))

    return {nm: resolve(e) for nm, e in sigma.items()}, [nm for nm in gone if nm not in sigma]


def is_duration_rejection(e):
    """Is this exception the delay-duration rejection?  Decided structurally — a ValueError raised while
    `Model._post_checks` is on the stack — never by the wording of the message (which may name the offending delay
    and symbols); fallback for a restructured check: a ValueError whose message speaks of a delay / duration."""
    import re
    import traceback
    if not isinstance(e, ValueError):
        return False
    names = [fr.name for fr in traceback.extract_tb(e.__traceback__)]
    if "_post_checks" in names:
        return True
    return re.search(r"delay|duration", str(e), re.I) is not None


def one_call(folder, case, store):
    from pymoca.backends.casadi.api import transfer_model
    model, verdict, msg = None, "accept", ""
    try:
        if store is not None:
            with H.capture_flat(store):
                model = transfer_model(folder, case["name"], dict(case.get("options") or {}))
        else:
            model = transfer_model(folder, case["name"], dict(case.get("options") or {}))
    except Exception as e:
        msg = str(e)
        verdict = "reject" if is_duration_rejection(e) else "raise:" + type(e).__name__
    return model, verdict, msg


def check_case(ctx, case, drv, rng=None):
    import random
    if case.get("stream") == "expand":
        return check_expand(ctx, case)
    H.quiet_pymoca()
    rng = rng or random.Random(json.dumps(case["text"]))
    folder = write_model(ctx, case)
    store = []
    ncalls = 2 if (case.get("options") or {}).get("cache") or (case.get("options") or {}).get("codegen") else 1
    why = expected_reject(case)
    verdicts, models = [], []
    first_outs = None
    for k in range(ncalls):
        model, verdict, msg = one_call(folder, case, store if k == 0 else None)
        verdicts.append(verdict)
        models.append(model)
        tag = "" if ncalls == 1 else " (call %d of %d on the same folder)" % (k + 1, ncalls)
        if verdict.startswith("raise:"):
            ctx.violation("transfer_model raised %s (neither acceptance nor the delay-duration rejection)%s"
                          % (verdict[6:], tag), case, expected="reject" if why else "accept",
                          observed="%s: %s" % (verdict[6:], msg[:300]), kind="input")
        elif why and verdict == "accept":
            ctx.violation("transfer_model accepted a model whose delay duration depends on a disallowed category" + tag,
                          case, expected="ValueError: " + why, observed="accepted; calls so far: %s" % verdicts,
                          kind="history" if k else "input")
        elif not why and verdict == "reject":
            ctx.violation("transfer_model rejected a model whose delay durations depend only on constants, parameters "
                          "and fixed inputs" + tag, case, expected="accepted", observed="ValueError: " + msg[:200],
                          kind="input")
        elif verdict == "accept" and k == 0:
            ctx.extra.pop("_c22_last", None)
            oracle_accepted(ctx, case, model, rng)
            first_outs = ctx.extra.pop("_c22_last", None)
        elif verdict == "accept" and first_outs is not None:
            # the cached model must return the same delay arguments as the compiled one
            pts, outs = first_outs
            try:
                outs2 = [[flat_out(o) for o in call(model.delay_arguments_function, pt.args())] for pt in pts]
            except Exception as e:
                outs2 = "%s: %s" % (type(e).__name__, str(e)[:200])
            if list(model.delay_states) != list(models[0].delay_states) or (outs[0] and outs2 != outs):
                ctx.violation("the cached model's delay states / delay-argument function differ from the compiled model's" + tag,
                              case, expected=[[str(x) for x in o] for o in outs[0]],
                              observed=outs2 if isinstance(outs2, str) else [[str(x) for x in o] for o in outs2[0]],
                              kind="history")
    verdict, model = verdicts[0], models[0]
    if drv is not None:
        if not store:
            ctx.tie_broken("c22:stage-boundary", "transfer_model did not call tree.annotate_states")
            return verdict
        flat = store[0]
        pts = []
        if verdict == "accept":
            try:
                pts = [Point(rng, model, case) for _ in range(2)]
            except Exception:
                pts = []
        try:
            req = model_request(flat, pts)
            if case.get("stream") == "simp":
                sigma, removed = substitution_of(case, model)
                req["subst"] = [{"name": nm, "e": spec_json(e)} for nm, e in sorted(sigma.items())]
                req["removed"] = removed
            req["ncalls"] = ncalls
        except Unsupported as e:
            ctx.tie_broken("c22:serialise", "flat AST outside the modelled fragment: %s" % e)
            return verdict
        ans = drv.ask(req)
        if not ans.get("ok"):
            raise HarnessError("drv_c22 rejected the case: %s" % str(ans)[:500])
        compare_model(ctx, case, ans, verdict, model, pts)
        seq = ["returned" if v == "accept" else "raised" for v in verdicts]
        if ans.get("calls") != seq:
            ctx.disagreement("delay.calls", case, ans.get("calls"), seq)
    return verdict


def compare_model(ctx, case, ans, verdict, model, pts):
    mv = ans["verdict"]  # accept | reject | assertionError | freeSymbol
    iv = verdict
    if verdict == "accept":
        try:
            f = model.delay_arguments_function
        except Exception as e:
            iv, f = "freeSymbol" if "free" in str(e).lower() or "since variables" in str(e) else "raise:" + type(e).__name__, None
    elif verdict == "raise:AssertionError":
        iv = "assertionError"
    if mv != iv:
        ctx.disagreement("delay.verdict", case, mv, iv)
        return
    if iv != "accept":
        return
    if ans["delay_states"] != list(model.delay_states):
        ctx.disagreement("delay.states", case, ans["delay_states"], list(model.delay_states))
        return
    for pt, res in zip(pts, ans["values"]):
        outs = [flat_out(o) for o in call(f, pt.args())]
        got = [[[x.numerator, x.denominator] if x is not None else None for x in o] for o in outs]
        if res != got:
            ctx.disagreement("delay.values", case, res, got)
            return


def nontrivial(case):
    if case.get("stream") == "expand":
        return len(case["xdelays"]) >= 2 or any(xatoms(dl["dur"], []) for dl in case["xdelays"])
    nodes = all_delays(case)
    if len(nodes) >= 2:
        return True
    return any(a[0] in ("var", "der", "time") for n, lp in nodes for a in atoms(n[2], [], lp[0] if lp else None))


def buckets(ctx, case, verdict):
    ctx.count("stream-" + case["stream"])
    ctx.count("verdict-" + verdict)
    if case["stream"] == "expand":
        ctx.count("expand-verdict-" + verdict)
        for dl in case["xdelays"]:
            ctx.count("expand-delay-" + ("scalar" if not dl["shape"] else "vector" if len(dl["shape"]) == 1 else "matrix"))
            for a in xatoms(dl["dur"], []):
                c = cat_of_atom(a, case["syms"])
                if c in DISALLOWED:
                    ctx.count("expand-duration-on-%s-%s" % (c, "array" if a[0] != "time" and a[1] in case["arrays"] else "scalar"))
        return
    if case["stream"] in ("simp", "cache"):
        ctx.count("%s-verdict-%s" % (case["stream"], verdict))
        for n, lp in all_delays(case):
            if any(a[0] == "var" and "def" in case["syms"].get(a[1], {}) for a in atoms(n[2], [], None)):
                ctx.count("duration-mentions-eliminated-variable")
                break
    why = expected_reject(case)
    if why:
        offenders = set()
        for n, lp in all_delays(case):
            for a in atoms(n[2], [], lp[0] if lp else None):
                c = cat_of_atom(a, case["syms"])
                if c in DISALLOWED:
                    offenders.add(c)
        if len(offenders) == 1:
            ctx.count("sole-offender-" + offenders.pop())
    nodes = all_delays(case)
    ctx.count("delays-%d" % min(len(nodes), 5))
    for n, lp in nodes:
        ctx.count("delay-in-loop" if lp else "delay-outside-loop")
        cs = set(cat_of_atom(a, case["syms"]) for a in atoms(n[2], [], lp[0] if lp else None))
        for c in cs:
            ctx.count("duration-mentions-" + c)
        if not cs:
            ctx.count("duration-literal")
        if len(iter_delays(n)) > 1:
            ctx.count("nested-delay")
    if case["ieqs"]:
        ctx.count("delay-in-initial-equation")
    for k in (case.get("options") or {}):
        ctx.count("option-" + k)


def run(ctx):
    drv = ctx.driver("drv_c22")
    ctx.extra["lean_results"] = LEAN_RESULTS
    from harness import corpus
    for c in corpus.load("C22"):
        ctx.count("corpus")
        c = {k: v for k, v in c.items() if not k.startswith("_")}
        ctx.case(c, nontrivial=True)
        check_case(ctx, c, drv)
    quick = ctx.tier == "quick"
    plan = [("f1", 4 if quick else 40), ("f2", 3 if quick else 30), ("cache", 25 if quick else 300),
            ("simp", 90 if quick else 1500), ("expand", 60 if quick else 900), ("main", 200 if quick else 4000)]
    import random
    # the known-finding streams first; the others interleaved (shuffled), so that a run cut short by the time budget
    # on a loaded machine still covers every stream in proportion
    for case in family_cases() + expand_family_cases():  # deterministic: before anything seed- or budget-dependent
        verdict = check_case(ctx, case, drv, random.Random(7))
        ctx.case(case, nontrivial=True)
        buckets(ctx, case, verdict)
    schedule = [st for st, n in plan[:2] for _ in range(n)]
    rest = [st for st, n in plan[2:] for _ in range(n)]
    ctx.rng.shuffle(rest)
    schedule += rest
    for i, stream in enumerate(schedule):
        if ctx.time_left() < 0:
            ctx.notes.append("stopped by the time budget after %d of %d cases" % (i, len(schedule)))
            break
        case = ExpandGen(ctx.rng).make() if stream == "expand" else Gen(ctx.rng, stream).make()
        verdict = check_case(ctx, case, drv, random.Random(ctx.rng.getrandbits(64)))
        ctx.case(case, nontrivial=nontrivial(case))
        buckets(ctx, case, verdict)


def replay(ctx, payload):
    check_case(ctx, payload["case"], ctx.driver("drv_c22"))


LEAN_RESULTS = [
    "args_complete: one argument per delay() call, in walk order (initial equations first), inputs numbered 0..n-1",
    "disallowed_cases: the check objects exactly to time, state/algebraic variables, non-fixed inputs, derivatives of states, delay inputs",
    "rejects_iff_partial / accepts_iff_partial: rejection iff a source duration mentions a disallowed symbol — for durations that do not mention a loop variable",
    "rejects_iff_as_implemented: the same characterisation without hypothesis, with loop-variable references read as the placeholders the generator creates (isolates C22-F1)",
    "loop_indexed_duration_escapes / lonely_symbol_assertion: the defects C22-F1 and C22-F2 proved on the model of the code as it is",
    "args_preserved: outside loops every translated equation and every argument pair evaluates like its source (arbitrary nesting)",
    "loop_args_preserved: inside for-loops, per iteration, with arbitrarily nested delays: equations, vector/scalar arguments and durations evaluate like their source",
    "postcheck_invariant_under_substitution: alias elimination / eliminable variables / replaced parameter and constant values (substituted in expressions AND durations) do not change the verdict",
    "postcheck_invariant_under_expansion: expand_vectors renames subscripted references to element symbols in expressions AND durations; with elements inheriting their array's category the verdict is unchanged",
    "cached_calls_agree: with cache=True every one of any number of successive transfer_model calls gives the compile outcome (a rejected model is never served from a cache)",
]

MANIFEST = dict(
    level_text="Lean 4 theorems about an executable model of the delay translation of the CasADi generator (fresh input "
               "per delay() in post-order, initial equations first, for-loop lifting) and of Model._post_checks (duration "
               "dependency test against the C10 classification): rejection iff some source duration mentions a disallowed "
               "category (full characterisation of the code as implemented, plus the version against the true variables "
               "under the hypothesis that isolates open finding C22-F1, with the counterexamples for C22-F1/F2 proved), one "
               "argument pair per source delay in order, and preservation of every delayed expression and duration under "
               "evaluation outside loops and per iteration inside for-loops, for arbitrarily nested delays; the duration check's verdict is invariant under the substituting simplification "
               "passes, and successive cached calls give the compile outcome. Tied to the real code on every run by a differential correspondence on the real "
               "flat AST (verdict, delay symbols, exact values of the delay-argument function) plus a direct oracle on "
               "transfer_model (accept/reject per duration category mix; pairing of arguments, inputs and residuals at "
               "exact points).",
    level_note="Trusted: Lean kernel + standard axioms; the harness; ca.depends_on as structural dependence on the generated "
               "durations; exact CasADi arithmetic on small dyadics. Known open findings C22-F1/F2 (for-loop durations and "
               "delayed expressions) are reproduced by the model and excluded from the main stream.",
    technique="Lean 4 proof (induction over the translation of arbitrary expression/equation lists) + model/implementation "
              "correspondence + direct oracle with exact evaluation",
)
READY = True
