"""Predicates of the open findings of C07 (see known/C07.json).  Both recognise the structural
trigger in the reported library description *and* the failure family; any other violation on such
a library, and the same failure on a library without the trigger, is still reported."""
from harness.common import known_predicate
from harness.gen import a05


def _labels(case):
    try:
        return a05.triggers(case["lib"], case["target"])
    except Exception:  # noqa: BLE001
        return set()


@known_predicate
def c07_inherited_lookup_scope(case, what):
    """C07-F1: a type name of an inherited element resolves differently from the derived class."""
    if "F15" not in _labels(case):
        return False
    return (what.startswith("flatten raised ClassNotFoundError")
            or what.startswith("flat variables are not the elementary leaves")
            or what.startswith("declared type of")
            or what.startswith("flat equations are not the renamed equations")
            or what.startswith("flat initial equations are not the renamed initial equations")
            or what.startswith("declaration equations (and unconnected-flow equations) are not one per bound")
            or what.startswith("disagreement:flatten:"))


@known_predicate
def c07_local_class_instantiated_in_place(case, what):
    """C07-F2: a local class is used a second time after its in-place instantiation."""
    if "RE" not in _labels(case):
        return False
    return (what.startswith("flatten raised IndexError")
            or what.startswith("flatten raised ModificationTargetNotFound")
            # a lost modification includes a lost binding: its declaration equation is then missing
            or what.startswith("declaration equations (and unconnected-flow equations) are not one per bound")
            # ... and for a parameter the lost binding is the missing value of the flat variable (round-5 oracle:
            # right sides of the declarations nobody else modifies), e.g. `parameter T1 y1 = 0` in a local base class
            or what.startswith("the declaration equation of ")
            or what in ("disagreement:flatten:status", "disagreement:flatten:variables", "disagreement:flatten:equations",
                        "disagreement:flatten:initial-equations", "disagreement:flatten:declaration-equations"))
