import PymocaVerif.Lemmas.SimplifyElimComplete
/-!
# C14 — simplification preserves the DAE's solutions

Property theorems about the model `PymocaVerif.Model.Simplify` of `Model.simplify`.
`Sat I σ m`: the environment `σ` (a value for every symbol) satisfies the equations of `m`, gives
every parameter and constant its value (this includes the constant assignments simplification
records) and satisfies every alias simplification records.  The theorems hold over every field
`K`, every interpretation `I` of the operations the passes never look into, and every `Engine`
(what is observed of CasADi: rewriting on `substitute`, answers of `is_zero`) that preserves values.
-/
set_option linter.unusedSectionVars false
namespace PymocaVerif.Simplify
open PymocaVerif.AliasRel Lean.Grind

variable {K : Type} [Field K] [DecidableEq K]

/-! ### objects for the non-vacuity examples -/

def exI : Interp Rat := ⟨fun x => if x < 0 then -x else x, fun x => x, fun _ x => x, fun _ _ _ => 0⟩
def exE : Engine Rat := { norm := id, gzero := fun _ _ _ _ => false }
/-- `x - 3 = 0`, `y - 2*x = 0`, `z + y = 0`, `p*(w - z) = 0` with `parameter p = 2` -/
def exM : Model Rat :=
  { algs := [{ name := "x" }, { name := "y" }, { name := "z" }, { name := "w" }],
    params := [{ name := "p", value := some (.const 2) }],
    eqs := [.bin .sub (.sym "x") (.const 3), .bin .sub (.sym "y") (.bin .mul (.const 2) (.sym "x")),
            .bin .add (.sym "z") (.sym "y"), .bin .mul (.sym "p") (.bin .sub (.sym "w") (.sym "z"))] }
def exσ : Env Rat := fun n =>
  if n = "x" then 3 else if n = "y" then 6 else if n = "z" then -6 else if n = "w" then -6 else if n = "p" then 2 else 0
def exO : Opts := { eliminateConstantAssignments := true, replaceParameterValues := true,
                    factorAndSimplify := true, detectAliases := true }

theorem exI_ok : InterpOk exI := by
  constructor
  · intro x; simp only [exI]; split <;> grind
  · intro x; simp [exI]

theorem exE_ok : EngineOk exI exE := ⟨fun _ _ => rfl, fun _ _ h => h, fun _ _ _ => rfl⟩

theorem exM_sat : Sat exI exσ exM := by
  refine ⟨?_, ?_, ?_, ?_⟩
  · intro e he
    simp [exM] at he
    rcases he with rfl | rfl | rfl | rfl <;> simp [Ex.eval, exσ] <;> grind
  · intro v hv t ht
    simp [exM] at hv; subst hv; simp at ht; subst ht; simp [Ex.eval, exσ]
  · intro v hv; simp [exM] at hv
  · exact ⟨fun x A h => by simp [exM, AR.empty] at h, fun x c h => by simp [exM, AR.empty] at h⟩

/-! ### the key lemma -/

/-- Substitution lemma: evaluating `e[y₁ ↦ t₁, …]` in `σ` is evaluating `e` in `σ` with every `yᵢ`
    set to the value of `tᵢ` in `σ`.  It is what makes every substituting pass sound. -/
theorem subst_eval (I : Interp K) (σ : Env K) (l : List (String × Ex K)) (e : Ex K) :
    (e.subst l).eval I σ = e.eval I (upd I σ l) := eval_subst I σ l e

example : ((Ex.bin .add (.sym "x") (.sym "y") : Ex Rat).subst [("x", .const 2)]).eval exI exσ = 8 := by
  simp [Ex.subst, Ex.eval, List.lookup, exσ]; grind

/-! ### every pass is sound, and what it records is true -/

/-- `pass_sound`: whatever the options, a pass that returns (does not raise) maps a model with
    solution `σ` to a model with solution `σ`: the remaining equations hold, the remaining and the
    newly recorded constants have their values, the recorded aliases hold with their signs.  The
    preconditions are the ones the property attaches to the options (`PassPre`). -/
theorem pass_sound {I : Interp K} (hI : InterpOk I) {E : Engine K} (hE : EngineOk I E) {σ : Env K} (o : Opts)
    (p : Pass) {m m' : Model K} (hpre : PassPre I σ E p m) (h : Pass.run E o p m = .ok m')
    (hs : Sat I σ m) : Sat I σ m' :=
  pass_run_sound hI hE o p hpre h hs

example : ∃ m', Pass.run exE exO .cassign exM = .ok m' ∧ PassPre exI exσ exE .cassign exM ∧ Sat exI exσ exM ∧
    names m'.consts = ["x"] :=
  ⟨_, rfl, trivial, exM_sat, by decide⟩

/-- `pipeline_sound`: for every option set, every number of iterations of the loop and every model,
    `simplify` either raises (`.error`, the exceptions of the real code) or returns a model of which
    every solution of the original model is a solution — the projection of the original solution set
    is contained in the simplified one.  By induction over the iterations and the pass list. -/
theorem pipeline_sound {I : Interp K} (hI : InterpOk I) {E : Nat → Pass → Engine K}
    (hE : ∀ i p, EngineOk I (E i p)) {σ : Env K} (o : Opts) {m m' : Model K}
    (hpre : LoopPre I σ E o 50 0 m) (h : simplify E o m = .ok m') (hs : Sat I σ m) : Sat I σ m' :=
  simplifyLoop_sound hI hE o 50 0 0 m m' hpre h hs

/-- a run with two passes enabled: `x` becomes the constant 3, `p` is replaced by 2 -/
def exO2 : Opts := { eliminateConstantAssignments := true, replaceParameterValues := true }

example : ∃ m', simplify (fun _ _ => exE) exO2 exM = .ok m' ∧ LoopPre exI exσ (fun _ _ => exE) exO2 50 0 exM ∧
    Sat exI exσ exM ∧ names m'.consts = ["x"] ∧ names m'.params = [] ∧ m'.eqs.length = 3 :=
  ⟨_, rfl, loopPre_plain ⟨rfl, rfl, rfl, rfl⟩ _ _ _, exM_sat, by decide, by decide, by decide⟩

/-- `recorded_holds`: every constant value and every alias (sign included) recorded by `simplify`
    holds in every solution of the original model. -/
theorem recorded_holds {I : Interp K} (hI : InterpOk I) {E : Nat → Pass → Engine K}
    (hE : ∀ i p, EngineOk I (E i p)) {σ : Env K} (o : Opts) {m m' : Model K}
    (hpre : LoopPre I σ E o 50 0 m) (h : simplify E o m = .ok m') (hs : Sat I σ m) :
    (∀ v ∈ m'.consts, ∀ t, v.value = some t → σ v.name = t.eval I σ) ∧
    (∀ c a, a ∈ m'.ar.aliases (false, c) → sval σ a = σ c) := by
  have h' := pipeline_sound hI hE o hpre h hs
  refine ⟨h'.consts, ?_⟩
  intro c a ha
  simpa [sval] using aliases_sval h'.alias ha

example : ∃ m', simplify (fun _ _ => exE) exO2 exM = .ok m' ∧ (∃ v ∈ m'.consts, v.value = some (.const 3)) :=
  ⟨_, rfl, _, List.mem_cons_self, rfl⟩

/-! ### passes that neither lose nor invent solutions (no precondition beyond the property's) -/

/-- `eliminate_constant_assignments` is exact: the kept equations together with the recorded
    constant values say exactly what the equations said (patterns `x`, `x - c`, `c - x`, `x + c`, `c + x`). -/
theorem constant_assignments_exact {I : Interp K} {σ : Env K} (m : Model K) :
    Sat I σ (eliminateConstantAssignments m) ↔ Sat I σ m := cassign_sat m

example : names (eliminateConstantAssignments exM).consts = ["x"] ∧ (eliminateConstantAssignments exM).eqs.length = 3 := by
  decide

/-- `factor_and_simplify_equations` is exact under the property's precondition (the dropped constant
    factors and divisors are non-zero) and the assumption that `fabs`, `sqrt` vanish only at zero. -/
theorem factor_exact {I : Interp K} (hI : InterpOk I) {σ : Env K} {m : Model K}
    (hpre : ∀ e ∈ m.eqs, FactorPre e) : Sat I σ (factorAndSimplify m) ↔ Sat I σ m := factor_sound hI hpre

example : ∀ e ∈ exM.eqs, FactorPre e := by
  intro e he
  simp [exM] at he
  rcases he with rfl | rfl | rfl | rfl <;> simp [FactorPre]

/-- `reduce_affine_expression` is exact under the property's precondition: when every equation is in
    the affine fragment of the states, derivatives, algebraic states and inputs (`AffinePre`), each row
    `Σ_x (∂e/∂x)(0) · x + e(0)` — the unknowns at 0, constants and parameters kept symbolic — has the value
    of the equation it replaces, so the collapsed model has exactly the solutions of the model it was
    given.  (Seed C14-3 evaluated the constants at 0 as well: `affineRow` substitutes the unknowns only.) -/
theorem affine_collapse_exact {I : Interp K} {σ : Env K} {m : Model K} (h : AffinePre m) :
    Sat I σ (reduceAffine m) ↔ Sat I σ m := reduceAffine_sat h

example : AffinePre exM ∧ (reduceAffine exM).eqs.length = 4 := by
  refine ⟨⟨by decide, ?_⟩, by decide⟩
  intro e he
  simp [exM] at he
  rcases he with rfl | rfl | rfl | rfl <;> simp [AffineIn, FreeOf, Ex.syms, Model.affineVars, names, exM]

/-- `resolve_parameter_values` only rewrites values by values: exact. -/
theorem resolve_exact {I : Interp K} {E : Engine K} (hE : EngineOk I E) {σ : Env K} (m : Model K) :
    Sat I σ (resolveParameterValues E m) ↔ Sat I σ m := resolve_sat hE m

example : EngineOk exI exE ∧ Sat exI exσ exM := ⟨exE_ok, exM_sat⟩

/-! ### no solution is invented: every solution of the simplified model extends to the original

Each theorem gives, for a solution `τ` of the pass's result, an environment `σ` that solves the model
the pass received and differs from `τ` only on the names the pass removed.  Together with
`pass_sound` this is "the solution set of the result is the projection of the solution set of the
input".  Side conditions: distinct variable names (`NamesNodup`, keys of one Python dict), the
removed names are not mentioned by an already recorded alias (`ARFree`; trivially true on the first
`_simplify_once`, whose alias relation is empty), and — for the passes with a substitution fixpoint —
the resolved values are closed (the condition under which the real loop reports no failure). -/

/-- replace_parameter_values -/
theorem parameter_values_complete {I : Interp K} {E : Engine K} (hE : EngineOk I E) {τ : Env K} {m m' : Model K}
    (h : replaceParameterValues E m = .ok m') (hnd : NamesNodup m)
    (hna : ∀ v ∈ m.params, hasConstValue v = true → v.aliased = false)
    (hfree : ARFree ((constValues m.params).map (·.1)) m.ar) (hs : Sat I τ m') :
    ∃ σ, Sat I σ m ∧ ∀ n, n ∉ (constValues m.params).map (·.1) → σ n = τ n :=
  pvalues_complete hE h hnd hna hfree hs

/-- replace_constant_values -/
theorem constant_values_complete {I : Interp K} {E : Engine K} (hE : EngineOk I E) {τ : Env K} {m m' : Model K}
    (h : replaceConstantValues E m = .ok m') (hnd : NamesNodup m)
    (hna : ∀ v ∈ m.consts, v.simple = true → v.aliased = false)
    (hfree : ARFree (names (m.consts.filter Var.simple)) m.ar) (hs : Sat I τ m') :
    ∃ σ, Sat I σ m ∧ ∀ n, n ∉ names (m.consts.filter Var.simple) → σ n = τ n :=
  cvalues_complete hE h hnd hna hfree hs

example : NamesNodup exM ∧ ARFree ((constValues exM.params).map (·.1)) exM.ar ∧
    ∃ m', replaceParameterValues exE exM = .ok m' ∧ names m'.params = [] := by
  refine ⟨by unfold NamesNodup; decide, ⟨fun x A h => by simp [exM, AR.empty] at h, fun x c h => by simp [exM, AR.empty] at h⟩, _, rfl, by decide⟩

/-- replace_parameter_expressions, including its substitution fixpoint: whatever the number of
    rounds, if the resolved values are closed then giving the removed parameters their resolved values
    satisfies their *original* definitions (`fix_back`: every round of the loop commutes with the
    original bindings). -/
theorem parameter_expressions_complete {I : Interp K} {E : Engine K} (hE : EngineOk I E) {τ : Env K} {m : Model K}
    (hnd : NamesNodup m)
    (hclosed : ∀ p ∈ fixedList E m.params, ∀ n ∈ p.2.syms, n ∉ (exprValues m.params).map (·.1))
    (hfree : ARFree ((exprValues m.params).map (·.1)) m.ar)
    (hs : Sat I τ (replaceParameterExpressions E m)) :
    ∃ σ, Sat I σ m ∧ ∀ n, n ∉ (exprValues m.params).map (·.1) → σ n = τ n :=
  pexpr_complete hE hnd hclosed hfree hs

/-- replace_constant_expressions -/
theorem constant_expressions_complete {I : Interp K} {E : Engine K} (hE : EngineOk I E) {τ : Env K} {m : Model K}
    (hnd : NamesNodup m)
    (hclosed : ∀ p ∈ fixedList E m.consts, ∀ n ∈ p.2.syms, n ∉ (exprValues m.consts).map (·.1))
    (hfree : ARFree ((exprValues m.consts).map (·.1)) m.ar)
    (hs : Sat I τ (replaceConstantExpressions E m)) :
    ∃ σ, Sat I σ m ∧ ∀ n, n ∉ (exprValues m.consts).map (·.1) → σ n = τ n :=
  cexpr_complete hE hnd hclosed hfree hs

/-- chain `q1 = q0 + 1`, `q0 = 2*p`, `p = 3`: resolved in two rounds, closed -/
def exChain : Model Rat :=
  { params := [{ name := "p", value := some (.const 3) },
               { name := "q0", value := some (.bin .mul (.const 2) (.sym "p")) },
               { name := "q1", value := some (.bin .add (.sym "q0") (.const 1)) }],
    algs := [{ name := "x" }], eqs := [.bin .sub (.sym "x") (.sym "q1")] }

example : NamesNodup exChain ∧
    (∀ p ∈ fixedList exE exChain.params, ∀ n ∈ p.2.syms, n ∉ (exprValues exChain.params).map (·.1)) := by
  refine ⟨by unfold NamesNodup; decide, ?_⟩
  decide

/-- eliminable_variable_expression (algebraic variables) -/
theorem eliminable_complete {I : Interp K} {E : Engine K} (hE : EngineOk I E) {expandMx : Bool} {matched : List String}
    {m m' : Model K} {τ : Env K} (h : eliminateVariables E expandMx matched m = .ok m')
    (hpre : ∀ σ : Env K, ∀ e ∈ m.eqs, ExtractPre I σ e)
    (hclosed : ∀ r, elimLoop (names m.states) (names m.states ++ names m.algs) matched m.eqs m.algs = .ok r →
      ∀ p ∈ elimList E r.2.1, ∀ n ∈ p.2.syms, n ∉ r.2.1.map (·.1))
    (hvals : ∀ r, elimLoop (names m.states) (names m.states ++ names m.algs) matched m.eqs m.algs = .ok r →
      ∀ v ∈ m.params ++ m.consts, v.name ∉ r.2.1.map (·.1) ∧ ∀ t, v.value = some t → ∀ n ∈ t.syms, n ∉ r.2.1.map (·.1))
    (hfree : ∀ r, elimLoop (names m.states) (names m.states ++ names m.algs) matched m.eqs m.algs = .ok r →
      ARFree (r.2.1.map (·.1)) m.ar)
    (hs : Sat I τ m') :
    ∃ σ, Sat I σ m ∧ ∀ r, elimLoop (names m.states) (names m.states ++ names m.algs) matched m.eqs m.algs = .ok r →
      ∀ n, n ∉ r.2.1.map (·.1) → σ n = τ n :=
  elim_complete hE h hpre hclosed hvals hfree hs

example : ∀ σ : Env Rat, ∀ e ∈ exM.eqs, ExtractPre exI σ e := by
  intro σ e he
  simp [exM] at he
  rcases he with rfl | rfl | rfl | rfl <;> simp [ExtractPre]

/-- detect_aliases (first pass: empty alias relation): every dropped alias equation is implied by the
    recorded aliases.  `_make_alias` only joins unrelated variables, the alias relation keeps its
    invariant `WF`, so the two symbols of a dropped equation end in one class, every non-canonical
    member of a class is bound to ± its canonical variable by the elimination loop, and no canonical
    variable is eliminated.  `GzOk` is used only through "what `is_zero` calls zero is zero". -/
theorem alias_detection_complete {I : Interp K} {E : Engine K} (hE : EngineOk I E) {allowDer : Bool} {m m' : Model K} {τ : Env K}
    (hempty : m.ar = AR.empty) (hnd : NamesNodup m)
    (hg : ∀ k e, m.eqs[k]? = some e → GzOk I E k (E.view k e))
    (hvals : ∀ v ∈ m.params ++ m.consts, ∀ t, v.value = some t → ∀ n ∈ t.syms, n ∉ names m.algs)
    (htime : "time" ∉ names m.algs)
    (h : detectAliases E allowDer m = .ok m') (hs : Sat I τ m') :
    ∃ σ, Sat I σ m ∧ (∀ n, n ∈ m'.known → σ n = τ n) ∧ (∀ n, n ∉ names m.algs → σ n = τ n) :=
  alias_complete hE hempty hnd hg hvals htime h hs

example : exM.ar = AR.empty ∧ NamesNodup exM ∧ "time" ∉ names exM.algs ∧
    (∀ k e, exM.eqs[k]? = some e → GzOk exI exE k (exE.view k e)) ∧
    ∃ m', detectAliases exE true exM = .ok m' ∧ names m'.algs = ["x", "y", "w"] := by
  refine ⟨rfl, by unfold NamesNodup; decide, by decide, ?_, _, rfl, by decide⟩
  intro k e _ a b s hz
  simp [exE] at hz

/-- `pipeline_complete`: composition over the pass list.  If every enabled pass, on the model it
    receives, loses nothing outside the name list `D` (the per-pass theorems above, with `D` any list
    containing the removed names), then a solution of the result of `_simplify_once` extends to a
    solution of the original model that agrees with it outside `D`. -/
def RunBack (I : Interp K) (E : Pass → Engine K) (o : Opts) (D : List String) : List Pass → Model K → Prop
  | [], _ => True
  | p :: ps, m =>
    if p.enabled o then
      (∀ m' τ, Pass.run (E p) o p m = .ok m' → Sat I τ m' → ∃ σ, Sat I σ m ∧ ∀ n, n ∉ D → σ n = τ n) ∧
      ∀ m', Pass.run (E p) o p m = .ok m' → RunBack I E o D ps m'
    else RunBack I E o D ps m

theorem pipeline_complete {I : Interp K} {E : Pass → Engine K} (o : Opts) (D : List String) :
    ∀ (ps : List Pass) (m m' : Model K) (τ : Env K), RunBack I E o D ps m → runPasses E o ps m = .ok m' → Sat I τ m' →
      ∃ σ, Sat I σ m ∧ ∀ n, n ∉ D → σ n = τ n
  | [], m, m', τ, _, h, hs => by simp [runPasses] at h; subst h; exact ⟨τ, hs, fun _ _ => rfl⟩
  | p :: ps, m, m', τ, hpre, h, hs => by
    simp only [runPasses] at h
    simp only [RunBack] at hpre
    split at h
    · rename_i hen
      simp only [hen, if_true] at hpre
      split at h
      · simp at h
      · rename_i m1 h1
        obtain ⟨σ1, hs1, ha1⟩ := pipeline_complete o D ps m1 m' τ (hpre.2 m1 h1) h hs
        obtain ⟨σ0, hs0, ha0⟩ := hpre.1 m1 σ1 h1 hs1
        exact ⟨σ0, hs0, fun n hn => by rw [ha0 n hn, ha1 n hn]⟩
    · rename_i hen
      simp only [hen] at hpre
      exact pipeline_complete o D ps m m' τ (by simpa using hpre) h hs

example : RunBack exI (fun _ => exE) {} [] [] exM := trivial

end PymocaVerif.Simplify
