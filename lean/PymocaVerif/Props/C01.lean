/-! # C01 — property theorems (stub: not built yet) -/
