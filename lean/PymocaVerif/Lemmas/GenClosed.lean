import PymocaVerif.Lemmas.GenEq
/-!
# Lemmas for C11: loop-index closedness of generated terms, the substitution lemma, monotonicity

A term of a function body refers to loop indices only under the `map` / `mapAt` node that binds them
and never subscripts a symbol (function variables are scalars): `idxClosed B t`.  Such terms
evaluate alike in environments with the same symbol values (`evalC_closed_congr`), which is what makes
`ca.substitute` under a loop binder sound (`evalC_subst`).
-/
namespace PymocaVerif.Gen
open PymocaVerif.ExprSem

mutual
def idxClosed (B : List String) : CTerm K → Bool
  | .const _ => true
  | .ref _ subs => subs.isEmpty
  | .idx i => B.contains i
  | .op1 _ a => idxClosed B a
  | .op2 _ a b => idxClosed B a && idxClosed B b
  | .ifElse c t f => idxClosed B c && idxClosed B t && idxClosed B f
  | .vcat ts => idxCloseds B ts
  | .map _ i _ _ body => idxClosed (i :: B) body
  | .mapAt _ i _ body => idxClosed (i :: B) body
  | .call _ _ args => idxCloseds B args
def idxCloseds (B : List String) : CTerms K → Bool
  | .nil => true
  | .cons t ts => idxClosed B t && idxCloseds B ts
end

theorem idxCloseds_ofList (B : List String) : ∀ ts : List (CTerm K),
    idxCloseds B (CTerms.ofList ts) = ts.all (idxClosed B)
  | [] => by simp [CTerms.ofList, idxCloseds]
  | t :: ts => by simp [CTerms.ofList, idxCloseds, idxCloseds_ofList B ts]

mutual
theorem idxClosed_weaken : ∀ (t : CTerm K) (B B' : List String), (∀ x, B.contains x = true → B'.contains x = true) →
    idxClosed B t = true → idxClosed B' t = true
  | .const _, _, _, _, _ => by simp [idxClosed]
  | .ref _ subs, _, _, _, h => by simpa [idxClosed] using h
  | .idx i, B, B', hB, h => by simp only [idxClosed] at h ⊢; exact hB i h
  | .op1 _ a, B, B', hB, h => by simp only [idxClosed] at h ⊢; exact idxClosed_weaken a B B' hB h
  | .op2 _ a b, B, B', hB, h => by
    simp only [idxClosed, Bool.and_eq_true] at h ⊢
    exact ⟨idxClosed_weaken a B B' hB h.1, idxClosed_weaken b B B' hB h.2⟩
  | .ifElse c t f, B, B', hB, h => by
    simp only [idxClosed, Bool.and_eq_true] at h ⊢
    exact ⟨⟨idxClosed_weaken c B B' hB h.1.1, idxClosed_weaken t B B' hB h.1.2⟩, idxClosed_weaken f B B' hB h.2⟩
  | .vcat ts, B, B', hB, h => by simp only [idxClosed] at h ⊢; exact idxCloseds_weaken ts B B' hB h
  | .map _ i _ _ body, B, B', hB, h => by
    simp only [idxClosed] at h ⊢
    refine idxClosed_weaken body (i :: B) (i :: B') (fun x hx => ?_) h
    simp only [List.contains_cons, Bool.or_eq_true] at hx ⊢
    exact hx.imp id (hB x)
  | .mapAt _ i _ body, B, B', hB, h => by
    simp only [idxClosed] at h ⊢
    refine idxClosed_weaken body (i :: B) (i :: B') (fun x hx => ?_) h
    simp only [List.contains_cons, Bool.or_eq_true] at hx ⊢
    exact hx.imp id (hB x)
  | .call _ _ args, B, B', hB, h => by simp only [idxClosed] at h ⊢; exact idxCloseds_weaken args B B' hB h
theorem idxCloseds_weaken : ∀ (ts : CTerms K) (B B' : List String), (∀ x, B.contains x = true → B'.contains x = true) →
    idxCloseds B ts = true → idxCloseds B' ts = true
  | .nil, _, _, _, _ => by simp [idxCloseds]
  | .cons t ts, B, B', hB, h => by
    simp only [idxCloseds, Bool.and_eq_true] at h ⊢
    exact ⟨idxClosed_weaken t B B' hB h.1, idxCloseds_weaken ts B B' hB h.2⟩
end

theorem idxClosed_of_nil (t : CTerm K) (B : List String) (h : idxClosed [] t = true) : idxClosed B t = true :=
  idxClosed_weaken t [] B (fun x hx => by simp at hx) h

theorem rowsOver_congr (f g : Int → Option (List K)) (h : ∀ v, f v = g v) (vals : List Int) :
    rowsOver f vals = rowsOver g vals := by
  have : f = g := funext h
  rw [this]

mutual
/-- A closed term sees an environment only through the symbol values and the indices it may use. -/
theorem evalC_closed_congr (P : Prims K) : ∀ (t : CTerm K) (B : List String) (ρ1 ρ2 : Env K),
    idxClosed B t = true → ρ1.val = ρ2.val → (∀ i, B.contains i = true → ρ1.idx i = ρ2.idx i) →
    evalC P ρ1 t = evalC P ρ2 t
  | .const _, _, _, _, _, _, _ => by simp [evalC]
  | .ref n subs, _, ρ1, ρ2, h, hv, _ => by
    simp only [idxClosed, List.isEmpty_iff] at h
    subst h
    simp [evalC, Env.lookup, hv]
  | .idx i, B, ρ1, ρ2, h, _, hi => by
    simp only [idxClosed] at h
    simp [evalC, hi i h]
  | .op1 f a, B, ρ1, ρ2, h, hv, hi => by
    simp only [idxClosed] at h
    simp [evalC, evalC_closed_congr P a B ρ1 ρ2 h hv hi]
  | .op2 f a b, B, ρ1, ρ2, h, hv, hi => by
    simp only [idxClosed, Bool.and_eq_true] at h
    simp [evalC, evalC_closed_congr P a B ρ1 ρ2 h.1 hv hi, evalC_closed_congr P b B ρ1 ρ2 h.2 hv hi]
  | .ifElse c t f, B, ρ1, ρ2, h, hv, hi => by
    simp only [idxClosed, Bool.and_eq_true] at h
    simp [evalC, evalC_closed_congr P c B ρ1 ρ2 h.1.1 hv hi, evalC_closed_congr P t B ρ1 ρ2 h.1.2 hv hi,
      evalC_closed_congr P f B ρ1 ρ2 h.2 hv hi]
  | .vcat ts, B, ρ1, ρ2, h, hv, hi => by
    simp only [idxClosed] at h
    simp [evalC, evalCs_closed_congr P ts B ρ1 ρ2 h hv hi]
  | .map m i vals tr body, B, ρ1, ρ2, h, hv, hi => by
    simp only [idxClosed] at h
    simp only [evalC]
    rw [rowsOver_congr _ _ (fun v => evalC_closed_congr P body (i :: B) (ρ1.bind i v) (ρ2.bind i v) h
      (by simpa [Env.bind] using hv) (fun j hj => by
        simp only [List.contains_cons, Bool.or_eq_true, beq_iff_eq] at hj
        simp only [Env.bind]
        by_cases hji : j = i
        · simp [hji]
        · simp only [hji, if_false]
          exact hi j (hj.resolve_left hji)))]
  | .mapAt m i v body, B, ρ1, ρ2, h, hv, hi => by
    simp only [idxClosed] at h
    simp only [evalC]
    exact evalC_closed_congr P body (i :: B) (ρ1.bind i v) (ρ2.bind i v) h
      (by simpa [Env.bind] using hv) (fun j hj => by
        simp only [List.contains_cons, Bool.or_eq_true, beq_iff_eq] at hj
        simp only [Env.bind]
        by_cases hji : j = i
        · simp [hji]
        · simp only [hji, if_false]
          exact hi j (hj.resolve_left hji))
  | .call inl fn args, B, ρ1, ρ2, h, hv, hi => by
    simp only [idxClosed] at h
    simp [evalC, evalCs_closed_congr P args B ρ1 ρ2 h hv hi]
theorem evalCs_closed_congr (P : Prims K) : ∀ (ts : CTerms K) (B : List String) (ρ1 ρ2 : Env K),
    idxCloseds B ts = true → ρ1.val = ρ2.val → (∀ i, B.contains i = true → ρ1.idx i = ρ2.idx i) →
    evalCs P ρ1 ts = evalCs P ρ2 ts
  | .nil, _, _, _, _, _, _ => by simp [evalCs]
  | .cons t ts, B, ρ1, ρ2, h, hv, hi => by
    simp only [idxCloseds, Bool.and_eq_true] at h
    simp [evalCs, evalC_closed_congr P t B ρ1 ρ2 h.1 hv hi, evalCs_closed_congr P ts B ρ1 ρ2 h.2 hv hi]
end

/-! ## Closedness of what the generator produces -/

mutual
def mClosed (B : List String) : MExpr K → Bool
  | .num _ => true
  | .ref _ subs => subs.isEmpty
  | .idx i => B.contains i
  | .un _ a => mClosed B a
  | .bin _ a b => mClosed B a && mClosed B b
  | .ife bs => brClosed B bs
  | .call _ args => msClosed B args
  | .delay _ _ _ => false     -- no delay operators inside functions
def msClosed (B : List String) : MExprs K → Bool
  | .nil => true
  | .cons e es => mClosed B e && msClosed B es
def brClosed (B : List String) : MBranches K → Bool
  | .last e => mClosed B e
  | .cons c e rest => mClosed B c && mClosed B e && brClosed B rest
end

theorem foldl_ifElse_closed (B : List String) : ∀ (ps : List (CTerm K × CTerm K)) (acc : CTerm K),
    idxClosed B acc = true → (∀ p ∈ ps, idxClosed B p.1 = true ∧ idxClosed B p.2 = true) →
    idxClosed B (ps.foldl (fun acc p => CTerm.ifElse p.1 p.2 acc) acc) = true
  | [], acc, h, _ => by simpa using h
  | p :: ps, acc, h, hp => by
    simp only [List.foldl_cons]
    apply foldl_ifElse_closed B ps
    · have := hp p (by simp)
      simp [idxClosed, this.1, this.2, h]
    · intro q hq; exact hp q (by simp [hq])

theorem foldFromLast_closed (B : List String) (cs es : List (CTerm K)) (hc : cs.all (idxClosed B) = true)
    (he : es.all (idxClosed B) = true) : idxClosed B (foldFromLast cs es) = true := by
  unfold foldFromLast
  cases hr : es.reverse with
  | nil => simp [idxClosed, idxCloseds]
  | cons last restRev =>
    simp only
    have hmem : ∀ x ∈ es.reverse, idxClosed B x = true := by
      intro x hx; exact (List.all_eq_true.mp he) x (by simpa using hx)
    rw [hr] at hmem
    apply foldl_ifElse_closed
    · exact hmem last (by simp)
    · intro p hp
      have := List.of_mem_zip hp
      exact ⟨(List.all_eq_true.mp hc) p.1 (by simpa using this.1), hmem p.2 (by simp [this.2])⟩

mutual
theorem gen_closed (P : Prims K) (o : Opts) (T : FTab K) (B : List String) : ∀ (e : MExpr K) (c : CTerm K),
    mClosed B e = true → gen P o T e = .ok c → idxClosed B c = true
  | .num q, c, _, h => by simp [gen] at h; subst h; rfl
  | .ref n s, c, hm, h => by simp [gen] at h; subst h; simpa [idxClosed, mClosed] using hm
  | .idx i, c, hm, h => by simp [gen] at h; subst h; simpa [idxClosed, mClosed] using hm
  | .un op a, c, hm, h => by
    simp only [gen] at h
    simp only [mClosed] at hm
    obtain ⟨ta, hta, hc⟩ := bind_ok.mp h
    have ha := gen_closed P o T B a ta hm hta
    cases op with
    | neg => simp [genUn] at hc; subst hc; simpa [idxClosed] using ha
    | pos => simp [genUn] at hc; subst hc; exact ha
    | not => simp [genUn] at hc; subst hc; simp [idxClosed, ha]
    | abs => simp [genUn] at hc; subst hc; simpa [idxClosed] using ha
    | sum => simp [genUn] at hc; subst hc; simpa [idxClosed] using ha
    | elem e =>
      simp only [genUn] at hc
      split at hc
      · cases hc; simpa [idxClosed] using ha
      · obtain ⟨fn, _, rfl⟩ := userCall_ok hc
        simp [idxClosed, idxCloseds_ofList, ha]
  | .bin op a b, c, hm, h => by
    simp only [gen] at h
    simp only [mClosed, Bool.and_eq_true] at hm
    obtain ⟨ta, hta, h2⟩ := bind_ok.mp h
    obtain ⟨tb, htb, hc⟩ := bind_ok.mp h2
    have ha := gen_closed P o T B a ta hm.1 hta
    have hb := gen_closed P o T B b tb hm.2 htb
    unfold genBin at hc
    split at hc
    · cases hc; simp [idxClosed, ha, hb]
    · split at hc
      · split at hc
        · cases hc; simp [idxClosed, ha, hb]
        · cases hc
      · obtain ⟨fn, _, rfl⟩ := userCall_ok hc
        simp [idxClosed, idxCloseds_ofList, ha, hb]
  | .ife bs, c, hm, h => by
    simp only [gen] at h
    simp only [mClosed] at hm
    obtain ⟨ce, hce, hc⟩ := bind_ok.mp h
    cases hc
    have := genBr_closed P o T B bs ce hm hce
    exact foldFromLast_closed B ce.1 ce.2 this.1 this.2
  | .call f args, c, hm, h => by
    simp only [gen] at h
    simp only [mClosed] at hm
    obtain ⟨tas, htas, hc⟩ := bind_ok.mp h
    obtain ⟨fn, _, rfl⟩ := userCall_ok hc
    simp [idxClosed, idxCloseds_ofList, gens_closed P o T B args tas hm htas]
  | .delay _ _ _, _, hm, _ => by simp [mClosed] at hm
theorem gens_closed (P : Prims K) (o : Opts) (T : FTab K) (B : List String) : ∀ (es : MExprs K)
    (cs : List (CTerm K)), msClosed B es = true → gens P o T es = .ok cs → cs.all (idxClosed B) = true
  | .nil, cs, _, h => by simp [gens] at h; subst h; rfl
  | .cons e es, cs, hm, h => by
    simp only [gens] at h
    simp only [msClosed, Bool.and_eq_true] at hm
    obtain ⟨t, ht, h2⟩ := bind_ok.mp h
    obtain ⟨ts, hts, hc⟩ := bind_ok.mp h2
    cases hc
    simp [gen_closed P o T B e t hm.1 ht, gens_closed P o T B es ts hm.2 hts]
theorem genBr_closed (P : Prims K) (o : Opts) (T : FTab K) (B : List String) : ∀ (bs : MBranches K)
    (ce : List (CTerm K) × List (CTerm K)), brClosed B bs = true → genBr P o T bs = .ok ce →
    ce.1.all (idxClosed B) = true ∧ ce.2.all (idxClosed B) = true
  | .last e, ce, hm, h => by
    simp only [genBr] at h
    simp only [brClosed] at hm
    obtain ⟨t, ht, hc⟩ := bind_ok.mp h
    cases hc
    simp [gen_closed P o T B e t hm ht]
  | .cons c e rest, ce, hm, h => by
    simp only [genBr] at h
    simp only [brClosed, Bool.and_eq_true] at hm
    obtain ⟨tc, htc, h2⟩ := bind_ok.mp h
    obtain ⟨te, hte, h3⟩ := bind_ok.mp h2
    obtain ⟨ce', hce', hc⟩ := bind_ok.mp h3
    cases hc
    have ih := genBr_closed P o T B rest ce' hm.2 hce'
    simp [gen_closed P o T B c tc hm.1.1 htc, gen_closed P o T B e te hm.1.2 hte, ih.1, ih.2]
end

theorem genL_closed (P : Prims K) (o : Opts) (T : FTab K) (B : List String) : ∀ (es : List (MExpr K))
    (ts : List (CTerm K)), es.all (mClosed B) = true → genL P o T es = .ok ts → ts.all (idxClosed B) = true
  | [], ts, _, h => by simp [genL] at h; subst h; rfl
  | e :: es, ts, hm, h => by
    simp only [genL] at h
    simp only [List.all_cons, Bool.and_eq_true] at hm
    obtain ⟨t, ht, h2⟩ := bind_ok.mp h
    obtain ⟨ts', hts, hc⟩ := bind_ok.mp h2
    cases hc
    simp [gen_closed P o T B e t hm.1 ht, genL_closed P o T B es ts' hm.2 hts]

/-! ## Substitution -/

/-- The environment in which the symbols of `σ` stand for the values of their terms. -/
def over (P : Prims K) (ρ : Env K) (σ : SymVals K) : Env K :=
  { ρ with val := fun x => match SymVals.get σ x with
      | some s => evalC P ρ s
      | none => ρ.val x }

/-- All replacement terms are closed (no free loop index, no subscripts). -/
def ValsClosed (σ : SymVals K) : Prop := ∀ x s, SymVals.get σ x = some s → idxClosed [] s = true

theorem over_bind (P : Prims K) (ρ : Env K) (σ : SymVals K) (hσ : ValsClosed σ) (i : String) (v : Int) :
    over P (ρ.bind i v) σ = (over P ρ σ).bind i v := by
  simp only [over, Env.bind]
  congr 1
  funext x
  cases hg : SymVals.get σ x with
  | none => rfl
  | some s =>
    simp only
    exact evalC_closed_congr P s [] _ _ (hσ x s hg) rfl (fun j hj => by simp at hj)

mutual
/-- `ca.substitute` on a term is evaluation of the term with the substituted symbols bound to the
    values of their replacements — also under the binders of mapped loops. -/
theorem evalC_subst (P : Prims K) (σ : SymVals K) (hσ : ValsClosed σ) : ∀ (t : CTerm K) (ρ : Env K),
    (∀ x s, SymVals.get σ x = some s → ρ.shape x = none) →
    evalC P ρ (subst σ t) = evalC P (over P ρ σ) t
  | .const q, ρ, _ => by simp [subst, evalC]
  | .ref n [], ρ, _ => by
    simp only [subst]
    cases hg : SymVals.get σ n with
    | none => simp [evalC, Env.lookup, over, hg]
    | some s => simp [evalC, Env.lookup, over, hg]
  | .ref n (s :: ss), ρ, hsh => by
    simp only [subst, evalC, Env.lookup, over]
    cases hg : SymVals.get σ n with
    | none => rfl
    | some t => simp [hsh n t hg]
  | .idx i, ρ, _ => by simp [subst, evalC, over]
  | .op1 f a, ρ, hsh => by simp [subst, evalC, evalC_subst P σ hσ a ρ hsh]
  | .op2 f a b, ρ, hsh => by simp [subst, evalC, evalC_subst P σ hσ a ρ hsh, evalC_subst P σ hσ b ρ hsh]
  | .ifElse c t f, ρ, hsh => by
    simp [subst, evalC, evalC_subst P σ hσ c ρ hsh, evalC_subst P σ hσ t ρ hsh, evalC_subst P σ hσ f ρ hsh]
  | .vcat ts, ρ, hsh => by simp [subst, evalC, evalCs_substs P σ hσ ts ρ hsh]
  | .map m i vals tr body, ρ, hsh => by
    simp only [subst, evalC]
    rw [rowsOver_congr _ _ (fun v => by
      rw [evalC_subst P σ hσ body (ρ.bind i v) (by simpa [Env.bind] using hsh), over_bind P ρ σ hσ i v])]
  | .mapAt m i v body, ρ, hsh => by
    simp only [subst, evalC]
    rw [evalC_subst P σ hσ body (ρ.bind i v) (by simpa [Env.bind] using hsh), over_bind P ρ σ hσ i v]
  | .call inl fn args, ρ, hsh => by simp [subst, evalC, evalCs_substs P σ hσ args ρ hsh]
theorem evalCs_substs (P : Prims K) (σ : SymVals K) (hσ : ValsClosed σ) : ∀ (ts : CTerms K) (ρ : Env K),
    (∀ x s, SymVals.get σ x = some s → ρ.shape x = none) →
    evalCs P ρ (substs σ ts) = evalCs P (over P ρ σ) ts
  | .nil, ρ, _ => by simp [substs, evalCs]
  | .cons t ts, ρ, hsh => by
    simp [substs, evalCs, evalC_subst P σ hσ t ρ hsh, evalCs_substs P σ hσ ts ρ hsh]
end

mutual
theorem subst_closed (σ : SymVals K) (hσ : ValsClosed σ) : ∀ (t : CTerm K) (B : List String),
    idxClosed B t = true → idxClosed B (subst σ t) = true
  | .const q, _, _ => by simp [subst, idxClosed]
  | .ref n [], B, _ => by
    simp only [subst]
    cases hg : SymVals.get σ n with
    | none => simp [idxClosed]
    | some s => exact idxClosed_of_nil s B (hσ n s hg)
  | .ref n (s :: ss), _, h => by simp [idxClosed] at h
  | .idx i, _, h => by simpa [subst] using h
  | .op1 f a, B, h => by simp only [idxClosed] at h; simp [subst, idxClosed, subst_closed σ hσ a B h]
  | .op2 f a b, B, h => by
    simp only [idxClosed, Bool.and_eq_true] at h
    simp [subst, idxClosed, subst_closed σ hσ a B h.1, subst_closed σ hσ b B h.2]
  | .ifElse c t f, B, h => by
    simp only [idxClosed, Bool.and_eq_true] at h
    simp [subst, idxClosed, subst_closed σ hσ c B h.1.1, subst_closed σ hσ t B h.1.2, subst_closed σ hσ f B h.2]
  | .vcat ts, B, h => by simp only [idxClosed] at h; simp [subst, idxClosed, substs_closed σ hσ ts B h]
  | .map m i vals tr body, B, h => by
    simp only [idxClosed] at h; simp [subst, idxClosed, subst_closed σ hσ body (i :: B) h]
  | .mapAt m i v body, B, h => by
    simp only [idxClosed] at h; simp [subst, idxClosed, subst_closed σ hσ body (i :: B) h]
  | .call inl fn args, B, h => by simp only [idxClosed] at h; simp [subst, idxClosed, substs_closed σ hσ args B h]
theorem substs_closed (σ : SymVals K) (hσ : ValsClosed σ) : ∀ (ts : CTerms K) (B : List String),
    idxCloseds B ts = true → idxCloseds B (substs σ ts) = true
  | .nil, _, _ => by simp [substs, idxCloseds]
  | .cons t ts, B, h => by
    simp only [idxCloseds, Bool.and_eq_true] at h
    simp [substs, idxCloseds, subst_closed σ hσ t B h.1, substs_closed σ hσ ts B h.2]
end

/-! ## Monotonicity of `evalC` in the symbol values -/

/-- `ρ'` knows every symbol `ρ` knows, with the same value. -/
def Env.le (ρ ρ' : Env K) : Prop :=
  (∀ x v, ρ.val x = some v → ρ'.val x = some v) ∧ ρ.shape = ρ'.shape ∧ ρ.idx = ρ'.idx

theorem Env.le_bind {ρ ρ' : Env K} (h : Env.le ρ ρ') (i : String) (v : Int) :
    Env.le (ρ.bind i v) (ρ'.bind i v) := by
  refine ⟨h.1, h.2.1, ?_⟩
  simp [Env.bind, h.2.2]

theorem lookup_mono {ρ ρ' : Env K} (h : Env.le ρ ρ') (n : String) (subs : List Sub) :
    Refines (ρ'.lookup n subs) (ρ.lookup n subs) := by
  intro v hv
  cases subs with
  | nil => simp only [Env.lookup] at hv ⊢; exact h.1 n v hv
  | cons s ss =>
    simp only [Env.lookup] at hv ⊢
    rw [← h.2.1, ← h.2.2]
    cases hd : ρ.shape n with
    | none => simp [hd] at hv
    | some dims =>
      cases hp : positions ρ.idx dims (s :: ss) with
      | none => simp [hd, hp] at hv
      | some ps =>
        cases hval : ρ.val n with
        | none => simp [hd, hval] at hv
        | some vals =>
          simp [hd, hp, hval] at hv
          simp [hp, h.1 n vals hval, hv]

mutual
theorem evalC_mono (P : Prims K) : ∀ (t : CTerm K) (ρ ρ' : Env K), Env.le ρ ρ' →
    Refines (evalC P ρ' t) (evalC P ρ t)
  | .const q, ρ, ρ', _ => by simp [evalC]; exact Refines.refl
  | .ref n s, ρ, ρ', h => by simpa [evalC] using lookup_mono h n s
  | .idx i, ρ, ρ', h => by simp [evalC, h.2.2]; exact Refines.refl
  | .op1 f a, ρ, ρ', h => by
    simp only [evalC]
    exact Refines.bind (evalC_mono P a ρ ρ' h) (fun _ => Refines.refl)
  | .op2 f a b, ρ, ρ', h => by
    simp only [evalC]
    exact Refines.bind (evalC_mono P a ρ ρ' h)
      (fun _ => Refines.bind (evalC_mono P b ρ ρ' h) (fun _ => Refines.refl))
  | .ifElse c t f, ρ, ρ', h => by
    simp only [evalC]
    refine Refines.bind (evalC_mono P c ρ ρ' h) (fun _ => Refines.bind_same (fun b => ?_))
    cases b
    · simpa using evalC_mono P f ρ ρ' h
    · simpa using evalC_mono P t ρ ρ' h
  | .vcat ts, ρ, ρ', h => by
    simp only [evalC]
    exact Refines.bind (evalCs_mono P ts ρ ρ' h) (fun _ => Refines.refl)
  | .map m i vals tr body, ρ, ρ', h => by
    simp only [evalC]
    exact Refines.bind (rowsOver_refines _ _ (fun v => evalC_mono P body (ρ.bind i v) (ρ'.bind i v)
      (Env.le_bind h i v)) vals) (fun _ => Refines.refl)
  | .mapAt m i v body, ρ, ρ', h => by
    simp only [evalC]
    exact evalC_mono P body (ρ.bind i v) (ρ'.bind i v) (Env.le_bind h i v)
  | .call inl fn args, ρ, ρ', h => by
    simp only [evalC]
    exact Refines.bind (evalCs_mono P args ρ ρ' h) (fun _ => Refines.refl)
theorem evalCs_mono (P : Prims K) : ∀ (ts : CTerms K) (ρ ρ' : Env K), Env.le ρ ρ' →
    Refines (evalCs P ρ' ts) (evalCs P ρ ts)
  | .nil, ρ, ρ', _ => by simp [evalCs]; exact Refines.refl
  | .cons t ts, ρ, ρ', h => by
    simp only [evalCs]
    exact Refines.bind (evalC_mono P t ρ ρ' h)
      (fun _ => Refines.bind (evalCs_mono P ts ρ ρ' h) (fun _ => Refines.refl))
end

end PymocaVerif.Gen
