"""Shared helpers of C07/C08 (owner: A05): core-Modelica library descriptions (JSON), their
rendering to Modelica text, a typed random generator, the direct oracle (a path-directed
reference reading of the description, written independently of the Lean model
`PymocaVerif.Model.Flatten`, which is environment-passing), the canonical form of pymoca's flat
class, and the structural triggers of the listed findings.

Description format (everything JSON):
  lib    = [class]                                     top-level classes, in text order
  class  = {name, kind, alias: null | {base, mods}, extends: [{ref, mods}], classes: [class],
            comps: [comp], eqs: [eqn], ieqs: [eqn]}            ieqs: the `initial equation` sections
  eqn    = [expr, expr] | ["for", i, lo, hi, [[expr, expr], ...]]
  comp   = {name, type, prefixes: [str], dims: [int], mods: [smod], value: expr | null}
  smod   = {name: [str, ...], subs: [smod], value: expr | null}     as spelled: a.b(subs) = value
  expr   = ["num", k>=0] | ["real", "0.5"] | ["bool", b] | ["str", s] | ["ref", [[name, [sub, ...]], ...]]
           | ["un", op, e] | ["bin", op, e1, e2]
  sub    = k | expr of the forms ref / bin "+" / num (two levels of subscripts at most: v[i + off[k]])
Canonical flat model:
  {"ok": true, "vars": [{name, type, prefixes, dims, attrs: {attr: fexpr}, value: fexpr | null}],
   "eqs": [[fexpr, fexpr]]}   |   {"ok": false, "err": str}
  fexpr  = expr, except references: ["ref", flatname, [subs]] (renamed or one-part) and
           ["uref", [[name, [subs]], ...]] (a dotted reference left alone); the left side of a
           binding equation / unconnected-flow equation is ["sym", flatname]
"""
import copy

BUILTIN = ("Real", "Integer", "Boolean", "String")
ATTRS = ("start", "min", "max", "nominal", "fixed", "unit", "quantity", "displayUnit")
NUM_ATTRS = ("start", "min", "max", "nominal")


class Reject(Exception):
    """The description is not a legal program of the subset (the reference rejects it)."""


# ---- rendering --------------------------------------------------------------------------------
def show_expr(e):
    k = e[0]
    if k == "num":
        return str(e[1])
    if k == "real":
        return e[1]
    if k == "bool":
        return "true" if e[1] else "false"
    if k == "str":
        return '"%s"' % e[1]
    if k == "ref":
        return ".".join(n + ("[%s]" % ",".join(show_sub(i) for i in subs) if subs else "") for n, subs in e[1])
    if k == "un":
        if e[1] == "-":
            return "(-%s)" % show_expr(e[2])
        return "%s(%s)" % (e[1], show_expr(e[2]))
    if k == "bin":
        return "(%s %s %s)" % (show_expr(e[2]), e[1], show_expr(e[3]))
    raise ValueError(e)


def show_sub(i):
    return str(i) if isinstance(i, int) else show_expr(i)


def show_eqn(e, ind):
    if e[0] == "for":
        _, i, lo, hi, body = e
        return ("%s  for %s in %d:%d loop\n" % (ind, i, lo, hi)
                + "".join("%s    %s = %s;\n" % (ind, show_expr(l), show_expr(r)) for l, r in body)
                + "%s  end for;\n" % ind)
    return "%s  %s = %s;\n" % (ind, show_expr(e[0]), show_expr(e[1]))


def show_smod(m):
    s = ".".join(m["name"])
    if m["subs"]:
        s += "(" + ", ".join(show_smod(x) for x in m["subs"]) + ")"
    if m["value"] is not None:
        s += " = " + show_expr(m["value"])
    return s


def show_mods(mods):
    return "(" + ", ".join(show_smod(m) for m in mods) + ")" if mods else ""


def show_class(c, ind=""):
    if c["alias"] is not None:
        return "%s%s %s = %s%s;\n" % (ind, c["kind"], c["name"], c["alias"]["base"], show_mods(c["alias"]["mods"]))
    s = "%s%s %s\n" % (ind, c["kind"], c["name"])
    for sub in c["classes"]:
        s += show_class(sub, ind + "  ")
    for e in c["extends"]:
        s += "%s  extends %s%s;\n" % (ind, e["ref"], show_mods(e["mods"]))
    for k in c["comps"]:
        pre = "".join(p + " " for p in k["prefixes"])
        dim = "[%s]" % ",".join(str(d) for d in k["dims"]) if k["dims"] else ""
        val = " = " + show_expr(k["value"]) if k["value"] is not None else ""
        s += "%s  %s%s %s%s%s%s;\n" % (ind, pre, k["type"], k["name"], dim, show_mods(k["mods"]), val)
    if c.get("ieqs"):
        s += ind + "initial equation\n" + "".join(show_eqn(e, ind) for e in c["ieqs"])
    if c["eqs"]:
        s += ind + "equation\n" + "".join(show_eqn(e, ind) for e in c["eqs"])
    s += "%send %s;\n" % (ind, c["name"])
    return s


def render(lib):
    return "".join(show_class(c) for c in lib)


# ---- desugaring of spelled modifications ------------------------------------------------------
def desugar(smods, prefix=()):
    """[(path, expr)] in text order; a.b(c = 1) = 2 gives (a,b,c)=1 then (a,b)=2."""
    out = []
    for m in smods:
        p = tuple(prefix) + tuple(m["name"])
        if not m["subs"] and m["value"] is None:
            raise Reject("empty modification")
        out += desugar(m["subs"], p)
        if m["value"] is not None:
            out.append((p, m["value"]))
    return out


def comp_mods(k):
    """Modifications of a declaration: its class modification, then its binding."""
    out = desugar(k["mods"])
    if k["value"] is not None:
        out.append(((), k["value"]))
    return out


# ---- class index and lexical lookup -----------------------------------------------------------
class Index:
    def __init__(self, lib):
        self.lib = lib
        self.cls = {}
        self._vis = {}

        def walk(c, path):
            p = path + (c["name"],)
            if p in self.cls:
                raise Reject("duplicate class %s" % ".".join(p))
            self.cls[p] = c
            for s in c["classes"]:
                walk(s, p)
        for c in lib:
            walk(c, ())

    def own(self, p):
        """local classes of class p (p = () is the root): name -> absolute path, in text order"""
        if p and tuple(p) not in self.cls:
            return {}
        cs = self.lib if not p else self.cls[tuple(p)]["classes"]
        return {c["name"]: tuple(p) + (c["name"],) for c in cs}

    def base_names(self, p):
        """(scope to look the base class up from, name, own-only at the innermost level)"""
        c = self.cls[p]
        if c["alias"] is not None:
            return [(p[:-1], c["alias"]["base"], False)]
        return [(p, e["ref"], True) for e in c["extends"]]

    def visible(self, p, stack=()):
        """classes visible in class p: its own local classes, then those of its base classes"""
        p = tuple(p)
        if not p:
            return self.own(())
        if p in self._vis:
            return self._vis[p]
        if p in stack:
            raise Reject("cyclic class structure")
        if p not in self.cls:
            return {}
        out = dict(self.own(p))
        for (sc, name, oo) in self.base_names(p):
            b = self.resolve(sc, name, oo, stack + (p,))
            if not isinstance(b, str):
                for n, q in self.visible(b, stack + (p,)).items():
                    out.setdefault(n, q)
        self._vis[p] = out
        return out

    def resolve(self, scope, ref, own_only_inner=False, stack=()):
        """Modelica lookup: the first identifier among the classes visible in `scope` (only its own
        local classes for the base class name of one of its extends clauses), then likewise in the
        enclosing classes; the remaining identifiers among the classes visible in the class found.
        Returns a builtin name or an absolute class path."""
        parts = tuple(ref.split("."))
        if parts[0] in BUILTIN:
            if len(parts) > 1:
                raise Reject("lookup inside builtin")
            return parts[0]
        scope = tuple(scope)
        for j in range(len(scope), -1, -1):
            s = scope[:j]
            cands = self.own(s) if (own_only_inner and j == len(scope)) else self.visible(s, stack)
            if parts[0] in cands:
                base = cands[parts[0]]
                for n in parts[1:]:
                    v = self.visible(base, stack)
                    if n not in v:
                        raise Reject("class %s not found in %s" % (ref, ".".join(base)))
                    base = v[n]
                return base
        raise Reject("class %s not found from %s" % (ref, ".".join(scope)))

    def resolve_lexical(self, scope, ref):
        """What a search of the *original* (un-instantiated) classes finds: own local classes only, at
        every level; None when that fails."""
        parts = tuple(ref.split("."))
        if parts[0] in BUILTIN:
            return parts[0] if len(parts) == 1 else None
        s = tuple(scope)
        while True:
            if s + (parts[0],) in self.cls:
                return s + parts if s + parts in self.cls else None
            if not s:
                return None
            s = s[:-1]


class Oracle:
    """Path-directed reference reading of a library description (the property statement)."""

    def __init__(self, lib):
        self.ix = Index(lib)

    # -- members: own and inherited components / equations of a class -----------------------------
    def base_of_alias(self, cpath, seen=()):
        """(builtin, [mods outer alias first]) if the class is (transitively) a short definition of a builtin."""
        c = self.ix.cls[cpath]
        if cpath in seen:
            raise Reject("cyclic class definition")
        if c["alias"] is None:
            return None
        t = self.ix.resolve(cpath[:-1], c["alias"]["base"])
        mods = desugar(c["alias"]["mods"])
        if isinstance(t, str):
            return t, [mods]
        sub = self.base_of_alias(t, seen + (cpath,))
        if sub is None:
            return None
        return sub[0], [mods] + sub[1]

    def ext_list(self, cpath):
        """Extends clauses of a class as (base class path, mods); a short definition of a
        non-elementary class is an extends clause."""
        c = self.ix.cls[cpath]
        out = []
        if c["alias"] is not None:
            out.append((self.ix.resolve(cpath[:-1], c["alias"]["base"]), desugar(c["alias"]["mods"])))
        for e in c["extends"]:
            out.append((self.ix.resolve(cpath, e["ref"], True), desugar(e["mods"])))
        for b, _ in out:
            if isinstance(b, str) or self.base_of_alias(b) is not None:
                raise Reject("extends of an elementary type in a long class")
        return out

    def members(self, cpath, seen=()):
        """[(comp, declaring class path, [extends-clause mod lists, outermost first])], inherited first."""
        if cpath in seen:
            raise Reject("cyclic extends")
        out = []
        for b, mods in self.ext_list(cpath):
            for k, decl, chain in self.members(b, seen + (cpath,)):
                out.append((k, decl, [mods] + chain))
        for k in self.ix.cls[cpath]["comps"]:
            out.append((k, cpath, []))
        names = [k["name"] for k, _, _ in out]
        if len(set(names)) != len(names):
            raise Reject("duplicate element in %s" % ".".join(cpath))
        return out

    def member_eqs(self, cpath, key="eqs"):
        out = []
        for b, _ in self.ext_list(cpath):
            out += self.member_eqs(b, key)
        return out + list(self.ix.cls[cpath].get(key, []))

    def comp_type(self, k, decl):
        """('leaf', builtin, alias mod lists) or ('class', path) — resolved in the declaring class."""
        t = self.ix.resolve(decl, k["type"])
        if isinstance(t, str):
            return ("leaf", t, [])
        a = self.base_of_alias(t)
        if a is not None:
            return ("leaf", a[0], a[1])
        return ("class", t)

    # -- leaves ---------------------------------------------------------------------------------------
    def instances(self, cpath, prefix=(), dims=(), stack=()):
        """Yields ('inst', prefix, class path) and ('leaf', path, comp, builtin, dims, chain of levels).
        A level is (prefix, class path, member triple) for every component on the way down."""
        if cpath in stack:
            raise Reject("recursive component structure")
        yield ("inst", prefix, cpath)
        for (k, decl, chain) in self.members(cpath):
            ty = self.comp_type(k, decl)
            kd = tuple(dims) + tuple(k["dims"])
            if ty[0] == "leaf":
                yield ("leaf", prefix + (k["name"],), k, ty[1], kd, ty[2])
            else:
                yield from self.instances(ty[1], prefix + (k["name"],), kd, stack + (cpath,))

    def member_named(self, cpath, name):
        for m in self.members(cpath):
            if m[0]["name"] == name:
                return m
        return None

    def levels(self, target, path):
        """[(prefix, class path, member)] for k1..kn of `path`, starting in `target`."""
        out = []
        c = target
        for i, n in enumerate(path):
            m = self.member_named(c, n)
            out.append((tuple(path[:i]), c, m))
            ty = self.comp_type(m[0], m[1])
            if ty[0] == "class":
                c = ty[1]
        return out

    def candidates(self, target, path, attr, alias_mods):
        """All modifications of `attr` (None = the binding) of the leaf at `path`, outermost first:
        [(scope prefix or None, expr, kind)].  Outermost level first; inside one level the extends
        clauses from the derived class down to the declaring one, then the declaration itself; last
        of all the type definitions (outer definition first)."""
        out = []
        want_tail = () if attr is None else (attr,)
        for (prefix, cpath, (k, decl, chain)) in self.levels(target, path):
            rest = tuple(path[len(prefix):]) + want_tail     # relative to the class at this level
            for mods in chain:
                hit = [v for p, v in mods if p == rest]
                if hit:
                    out.append((prefix, hit[-1], "ext"))
            hit = [v for p, v in comp_mods(k) if p == rest[1:]]
            if hit:
                out.append((prefix, hit[-1], "decl"))
        for i, mods in enumerate(alias_mods):
            hit = [v for p, v in mods if p == want_tail]
            if hit:
                out.append((None, hit[-1], "type%d" % (len(alias_mods) - i)))
        return out

    def lookup_attr(self, target, path, attr, alias_mods):
        """Outermost applicable modification: the first candidate."""
        c = self.candidates(target, path, attr, alias_mods)
        return c[0] if c else None

    def check_targets(self, target):
        """Every modification written anywhere in the instance tree must name an attribute or the
        binding of an elementary leaf."""
        def walk_path(cpath, p, what):
            if not p:
                raise Reject("modification of a whole component (%s)" % what)
            m = self.member_named(cpath, p[0])
            if m is None:
                raise Reject("modified element %s not found (%s)" % (p[0], what))
            ty = self.comp_type(m[0], m[1])
            if ty[0] == "leaf":
                if len(p) > 2 or (len(p) == 2 and p[1] not in ATTRS):
                    raise Reject("unknown attribute %s (%s)" % (".".join(p[1:]), what))
            else:
                walk_path(ty[1], p[1:], what)
        for it in list(self.instances(target)):
            if it[0] != "inst":
                for mods in it[5]:
                    for p, v in mods:
                        if len(p) > 1 or (len(p) == 1 and p[0] not in ATTRS):
                            raise Reject("unknown attribute in type definition")
                        if expr_refs(v):
                            raise Reject("type definition modification is not a literal")
                continue
            cpath = it[2]

            def ext_mods(cp):
                for b, mods in self.ext_list(cp):
                    for p, _ in mods:
                        walk_path(b, p, "extends clause")
                    ext_mods(b)
            ext_mods(cpath)
            for (k, decl, chain) in self.members(cpath):
                for p, _ in comp_mods(k):
                    walk_path(cpath, (k["name"],) + p, "declaration of " + k["name"])

    def wellformed(self):
        """Every class of the library (used or not) has resolvable bases and component types."""
        for cp, c in self.ix.cls.items():
            if c["kind"] == "package":
                continue
            if self.base_of_alias(cp) is None:
                for k, decl, _ in self.members(cp):
                    self.comp_type(k, decl)
                list(self.instances(cp))

    # -- the flat model, as sets ------------------------------------------------------------------
    def flat(self, target_name):
        """(vars by name, instance equations, binding equations, bindings); bindings are
        (leaf path, attr or None, prefix of the instance where written or None for a type definition, expr)."""
        target = tuple(target_name.split("."))
        if target not in self.ix.cls:
            raise Reject("no such class")
        if self.base_of_alias(target) is not None:
            raise Reject("target is an elementary type")
        items = list(self.instances(target))
        self.check_targets(target)
        leaves = [it for it in items if it[0] == "leaf"]
        names = set(it[1] for it in leaves)
        if len(names) != len(leaves):
            raise Reject("duplicate leaf")
        vars_ = {}
        value_eqs = []
        bindings = []
        self.max_candidates = 0
        self.sole_decl = {}
        for (_, path, k, b, dims, alias_mods) in leaves:
            for a in ATTRS + (None,):
                self.max_candidates = max(self.max_candidates, len(self.candidates(target, path, a, alias_mods)))
            pre = [p for p in k["prefixes"] if len(path) == 1 or p not in ("input", "output")]
            attrs = {}
            for a in ATTRS:
                hit = self.lookup_attr(target, path, a, alias_mods)
                if hit is not None:
                    attrs[a] = rename(hit[1], hit[0] or (), names)
                    bindings.append((path, a, hit[0], hit[1], len(alias_mods), hit[2]))
            hit = self.lookup_attr(target, path, None, alias_mods)
            val = rename(hit[1], hit[0] or (), names) if hit is not None else None
            if hit is not None and hit[2] == "decl" and tuple(hit[0]) == tuple(path[:-1]) and \
                    len(self.candidates(target, path, None, alias_mods)) == 1:
                # the declaration's own equation / binding, nobody competes: an equation of this instance
                self.sole_decl[".".join(path)] = val
            if hit is not None:
                bindings.append((path, None, hit[0], hit[1], len(alias_mods), hit[2]))
            name = ".".join(path)
            if val is not None and not ({"parameter", "constant"} & set(pre)):
                value_eqs.append((["sym", name], val))
                val = None
            vars_[name] = dict(name=name, type=b, prefixes=pre, dims=list(dims), attrs=attrs, value=val)
        eqs = []
        ieqs = []
        self.ieqs = ieqs
        for it in items:
            if it[0] == "inst":
                for e in self.member_eqs(it[2]):
                    eqs.append(rename_eqn(e, it[1], names))
                for e in self.member_eqs(it[2], "ieqs"):
                    ieqs.append(rename_eqn(e, it[1], names))
        flow_eqs = []
        # a flow variable nobody connects is zero (pymoca's connector expansion; C09's business otherwise)
        for v in vars_.values():
            if "flow" in v["prefixes"]:
                flow_eqs.append((["sym", v["name"]], ["num", 0]))
        self.flow_eqs = flow_eqs
        self.names = names
        self.bindings = bindings
        return vars_, eqs, value_eqs


def expr_refs(e):
    if e[0] == "ref":
        return [e]
    if e[0] == "un":
        return expr_refs(e[2])
    if e[0] == "bin":
        return expr_refs(e[2]) + expr_refs(e[3])
    return []


def canon_unrenamed(x):
    """canonical form of a subscript (or part list) that is left as written"""
    if isinstance(x, int):
        return x
    if x[0] == "num":
        return x[1]
    if x[0] == "ref":
        parts = x[1]
        if len(parts) == 1:
            return ["ref", parts[0][0], [canon_unrenamed(i) for i in parts[0][1]]]
        return ["uref", [[n, [canon_unrenamed(i) for i in ss]] for n, ss in parts]]
    if x[0] == "bin":
        return ["bin", x[1], canon_unrenamed(x[2]), canon_unrenamed(x[3])]
    return list(x)


def rename_sub(x, prefix, names):
    if isinstance(x, int):
        return x
    if x[0] == "num":
        return x[1]
    return rename(x, prefix, names)


def rename(e, prefix, names):
    """A reference written in the instance `prefix` denotes the variable prefix.r when that exists;
    the same for names and references inside its subscripts.  A reference that is left alone is
    left alone entirely."""
    k = e[0]
    if k == "ref":
        parts = e[1]
        p = tuple(prefix) + tuple(n for n, _ in parts)
        if p in names:
            return ["ref", ".".join(p), [rename_sub(i, prefix, names) for _, ss in parts for i in ss]]
        return canon_unrenamed(e)
    if k == "un":
        return ["un", e[1], rename(e[2], prefix, names)]
    if k == "bin":
        return ["bin", e[1], rename(e[2], prefix, names), rename(e[3], prefix, names)]
    return list(e)


def rename_eqn(e, prefix, names):
    if e[0] == "for":
        return ["for", e[1], e[2], e[3], [[rename(l, prefix, names), rename(r, prefix, names)] for l, r in e[4]]]
    return [rename(e[0], prefix, names), rename(e[1], prefix, names)]


def is_sym_eq(e):
    return e[0] != "for" and e[0][0] == "sym"


# ---- pymoca side ------------------------------------------------------------------------------------
def py_expr(e):
    from pymoca import ast
    if isinstance(e, ast.Primary):
        v = e.value
        if isinstance(v, bool):
            return ["bool", v]
        if isinstance(v, int):
            return ["num", v]
        if isinstance(v, float):
            return ["real", repr(v)]
        if isinstance(v, str):
            return ["str", v.strip('"')]
        return ["none"]
    if isinstance(e, ast.Symbol):
        return ["sym", e.name]
    if isinstance(e, ast.ComponentRef):
        def subs(c):
            out = []
            for ia in c.indices:
                for i in ia:
                    if i is None:
                        continue
                    x = py_expr(i)
                    out.append(x[1] if x[0] == "num" else x)
            return out
        if not e.child:
            return ["ref", e.name, subs(e)]
        parts, c = [], e
        while True:
            parts.append([c.name, subs(c)])
            if not c.child:
                break
            c = c.child[0]
        return ["uref", parts]
    if isinstance(e, ast.Expression):
        op = e.operator
        if isinstance(op, ast.ComponentRef):
            op = str(op)
        if len(e.operands) == 1:
            return ["un", op, py_expr(e.operands[0])]
        if len(e.operands) == 2:
            return ["bin", op, py_expr(e.operands[0]), py_expr(e.operands[1])]
        return ["call", op] + [py_expr(o) for o in e.operands]
    return ["other", type(e).__name__]


def py_eqn(e):
    from pymoca import ast
    if isinstance(e, ast.Equation):
        return [py_expr(e.left), py_expr(e.right)]
    if isinstance(e, ast.ForEquation) and len(e.indices) == 1 and isinstance(e.indices[0].expression, ast.Slice):
        sl = e.indices[0].expression
        lo, hi, st = py_expr(sl.start), py_expr(sl.stop), py_expr(sl.step)
        if lo[0] == "num" and hi[0] == "num" and st == ["num", 1] and all(isinstance(x, ast.Equation) for x in e.equations):
            return ["for", e.indices[0].name, lo[1], hi[1], [[py_expr(x.left), py_expr(x.right)] for x in e.equations]]
    return [["other", type(e).__name__], ["none"]]


def _is_none(e):
    from pymoca import ast
    return isinstance(e, ast.Primary) and e.value is None


def py_flatten(text, target):
    """Real parse + flatten, canonicalised.  Every exception of the real code is an outcome."""
    from pymoca import ast, parser, tree
    try:
        t = parser.parse(text, bypass_cache=True)
        if t is None:
            return dict(ok=False, err="SyntaxError")
        f = tree.flatten(t, ast.ComponentRef.from_string(target))
        c = f.classes[target]
        vars_ = []
        for n, s in c.symbols.items():
            dims = []
            for dl in s.dimensions:
                for d in dl:
                    if not _is_none(d):
                        x = py_expr(d)
                        dims.append(x[1] if x[0] == "num" else x)
            attrs = {}
            for a in ATTRS:
                v = getattr(s, a)
                if _is_none(v) or (a == "fixed" and isinstance(v, ast.Primary) and v.value is False):
                    continue
                attrs[a] = py_expr(v)
            vars_.append(dict(name=n, type=str(s.type), prefixes=[p for p in s.prefixes if p != "state"],
                              dims=dims, attrs=attrs, value=None if _is_none(s.value) else py_expr(s.value)))
        return dict(ok=True, vars=vars_, eqs=[py_eqn(e) for e in c.equations],
                    ieqs=[py_eqn(e) for e in c.initial_equations])
    except Exception as e:  # noqa: BLE001 — the outcome is the exception class
        return dict(ok=False, err=type(e).__name__, msg=str(e)[:300])


# ---- the direct oracle applied to an observed flat model ---------------------------------------------
def oracle_c07(lib, target, obs):
    """C07's statement on pymoca's flat model `obs`; None or (what, expected, observed)."""
    try:
        orc = Oracle(lib)
        vars_, eqs, value_eqs = orc.flat(target)
    except Reject as r:
        if obs["ok"]:
            return ("a program outside the subset's legality rules was flattened (%s)" % r, "rejected", "flattened")
        return None
    if not obs["ok"]:
        return ("flatten raised %s on a legal hierarchy" % obs["err"], "a flat model", obs.get("msg", obs["err"]))
    onames = [v["name"] for v in obs["vars"]]
    if len(set(onames)) != len(onames):
        return ("a flat variable occurs twice", sorted(vars_), onames)
    if set(onames) != set(vars_):
        return ("flat variables are not the elementary leaves: missing %s, extra %s" % (
            sorted(set(vars_) - set(onames)), sorted(set(onames) - set(vars_))), sorted(vars_), onames)
    for v in obs["vars"]:
        w = vars_[v["name"]]
        if v["type"] != w["type"]:
            return ("declared type of %s not kept" % v["name"], w["type"], v["type"])
        if sorted(v["prefixes"]) != sorted(w["prefixes"]):
            return ("prefixes of %s wrong (parameter/constant/discrete/flow kept, input/output only at top level)"
                    % v["name"], w["prefixes"], v["prefixes"])
        if v["dims"] != w["dims"]:
            return ("dimensions of %s wrong" % v["name"], w["dims"], v["dims"])
    want = sorted(map(_key, eqs))
    got = sorted(_key(e) for e in obs["eqs"] if not is_sym_eq(e))
    if got != want:
        miss = [e for e in want if e not in got]
        extra = [e for e in got if e not in want]
        return ("flat equations are not the renamed equations of every instance: missing %s, extra %s" % (miss[:3], extra[:3]),
                want, got)
    want = sorted([l[1] for l, _ in value_eqs] + [l[1] for l, _ in orc.flow_eqs])
    got = sorted(e[0][1] for e in obs["eqs"] if is_sym_eq(e))
    if got != want:
        return ("declaration equations (and unconnected-flow equations) are not one per bound non-parameter leaf: "
                "missing %s, extra %s" % ([n for n in want if n not in got][:4], [n for n in got if n not in want][:4]),
                want, got)
    r = decl_rhs(obs, orc.sole_decl, set(v["name"] for v in vars_.values() if "flow" in v["prefixes"]))
    for n in sorted(orc.sole_decl):
        if r.get(n) != [orc.sole_decl[n]]:
            return ("the declaration equation of %s (its own declaration's, not modified from anywhere) does not have "
                    "its references renamed to the flat names of the variables of its instance" % n,
                    [orc.sole_decl[n]], r.get(n))
    want = sorted(map(_key, orc.ieqs))
    got = sorted(_key(e) for e in obs.get("ieqs", []))
    if got != want:
        miss = [e for e in want if e not in got]
        extra = [e for e in got if e not in want]
        return ("flat initial equations are not the renamed initial equations of every instance: missing %s, extra %s"
                % (miss[:3], extra[:3]), want, got)
    return None


def decl_rhs(flat, names, flow=()):
    """{leaf: [right sides of its declaration equations, and its value if it is a parameter]} for
    the leaves in `names`, of a flat model in canonical form (either side)."""
    out = {}
    for e in flat["eqs"]:
        if is_sym_eq(e) and e[0][1] in names:
            out.setdefault(e[0][1], []).append(e[1])
    for n in flow:
        if n in out and ["num", 0] in out[n]:
            out[n].remove(["num", 0])            # the unconnected-flow equation
            if not out[n]:
                del out[n]
    for v in flat["vars"]:
        if v["name"] in names and v.get("value") is not None:
            out.setdefault(v["name"], []).append(v["value"])
    return out


def compete_shape(lib, target):
    """Labels of the competing-modification input classes a library contains (distribution buckets)."""
    out = set()
    orc = Oracle(lib)
    try:
        orc.flat(target)
    except Reject:
        return out
    t = tuple(target.split("."))
    for it in orc.instances(t):
        if it[0] != "leaf":
            continue
        path, al = it[1], it[5]
        cands = {a: orc.candidates(t, path, a, al) for a in ATTRS + (None,)}
        outer = any(w is not None and len(w) < len(path) - 1 for cs in cands.values() for (w, _, _) in cs)
        own_refs = any(w is not None and len(w) == len(path) - 1 and kd == "decl" and expr_refs(e)
                       for cs in cands.values() for (w, e, kd) in cs)
        if len(path) >= 2 and outer and own_refs:
            out.add("declaration-with-references-also-modified-from-outside")
            if ".".join(path) in orc.sole_decl and expr_refs(cands[None][0][1]):
                out.add("declaration-equation-with-references-attribute-modified-from-outside")
        for a, cs in cands.items():
            for w in set(w for (w, _, _) in cs if w is not None):
                n_ext = sum(1 for (w2, _, kd) in cs if w2 == w and kd == "ext")
                if n_ext >= 2:
                    out.add("same-%s-in-two-extends-clauses-of-a-chain" % ("attribute" if a else "binding"))
                if n_ext >= 1 and any(w2 == w and kd == "decl" for (w2, _, kd) in cs):
                    out.add("extends-clause-over-declaration")
            if len(set(w for (w, _, _) in cs if w is not None)) >= 2:
                out.add("same-%s-at-two-component-levels" % ("attribute" if a else "binding"))
    return out


def _key(e):
    import json
    return json.dumps(list(e), sort_keys=True)


def _is_value_eq(e, value_eqs):
    return any(_key(e) == _key(v) for v in value_eqs) or False


def oracle_c08(lib, target, obs):
    """C08's precedence statement on pymoca's flat model; None or (what, expected, observed).
    A rejection by the real code is allowed by the property (checked against the twin elsewhere)."""
    try:
        vars_, eqs, value_eqs = Oracle(lib).flat(target)
    except Reject as r:
        if obs["ok"]:
            return ("a modification the reference rejects (%s) was accepted" % r, "rejected", "flattened")
        return None
    if not obs["ok"]:
        return None
    ovars = {v["name"]: v for v in obs["vars"]}
    if set(ovars) != set(vars_):
        return ("flat variables differ from the leaves", sorted(vars_), sorted(ovars))
    veq = {l[1]: r for l, r in value_eqs}
    flow = set(v["name"] for v in vars_.values() if "flow" in v["prefixes"])
    olist = {}
    for e in obs["eqs"]:
        if is_sym_eq(e):
            olist.setdefault(e[0][1], []).append(e[1])
    oveq = {}
    for n, rs in olist.items():
        if n in flow and ["num", 0] in rs:
            rs.remove(["num", 0])       # the unconnected-flow equation (C09's business)
        if len(rs) > 1:
            return ("two binding equations for %s" % n, veq.get(n), rs)
        if rs:
            oveq[n] = rs[0]
    for n, w in vars_.items():
        v = ovars[n]
        for a in ATTRS:
            if _nf(a, v["attrs"].get(a)) != _nf(a, w["attrs"].get(a)):
                return ("attribute %s of %s is not the outermost applicable modification (resolved where written)" % (a, n),
                        w["attrs"].get(a), v["attrs"].get(a))
        wv = w["value"] if n not in veq else veq[n]
        ov = v["value"] if v["value"] is not None else oveq.get(n)
        if n in veq and v["value"] is not None:
            return ("binding of non-parameter %s not turned into an equation" % n, None, v["value"])
        if wv != ov:
            return ("value of %s is not the outermost applicable modification (resolved where written)" % n, wv, ov)
    extra = [n for n in oveq if n not in veq and vars_[n]["value"] is None] if set(oveq) <= set(vars_) else list(oveq)
    if extra:
        return ("a binding equation for %s without any binding" % extra[0], None, oveq[extra[0]])
    return None


def _nf(a, e):
    """fixed = false is the default."""
    return None if a == "fixed" and e == ["bool", False] else e


def model_form(lib, target):
    """The oracle's flat model in the driver's output format (unordered parts sorted) — used when
    the two sides are compared as sets."""
    vars_, eqs, value_eqs = Oracle(lib).flat(target)
    return dict(ok=True, vars=sorted(vars_.values(), key=lambda v: v["name"]),
                eqs=sorted([list(e) for e in eqs + value_eqs], key=_key))  # (flow equations: see Oracle.flow_eqs)


# ---- spelling of a modification list --------------------------------------------------------------
def spell(sem, style, rng=None):
    """sem: [(component path (non-empty), attr or None, expr)] -> [smod].
    S  pymoca's supported form: dotted component path, attributes nested: a.b.x(start = 1) = 2
    D  everything dotted: a.b.x.start = 1, a.b.x = 2
    N  everything nested: a(b(x(start = 1) = 2))
    M  a random mixture (nested trie, single chains collapsed at random)"""
    if style == "S":
        out, seen = [], {}
        for path, attr, e in sem:
            key = tuple(path)
            if key not in seen:
                seen[key] = dict(name=list(path), subs=[], value=None)
                out.append(seen[key])
            if attr is None:
                seen[key]["value"] = e
            else:
                seen[key]["subs"].append(dict(name=[attr], subs=[], value=e))
        return out
    if style == "D":
        return [dict(name=list(path) + ([attr] if attr else []), subs=[], value=e) for path, attr, e in sem]
    items = [(tuple(path) + ((attr,) if attr else ()), e) for path, attr, e in sem]

    def trie(items):
        out, seen = [], {}
        for p, e in items:
            if p[0] not in seen:
                seen[p[0]] = dict(name=[p[0]], subs=[], value=None, _items=[])
                out.append(seen[p[0]])
            if len(p) == 1:
                seen[p[0]]["value"] = e
            else:
                seen[p[0]]["_items"].append((p[1:], e))
        for n in out:
            n["subs"] = trie(n.pop("_items"))
        return out

    def collapse(nodes):
        for n in nodes:
            collapse(n["subs"])
            while len(n["subs"]) == 1 and n["value"] is None and rng.random() < 0.5:
                ch = n["subs"][0]
                n["name"] = n["name"] + ch["name"]
                n["subs"], n["value"] = ch["subs"], ch["value"]
        return nodes
    t = trie(items)
    return collapse(t) if style == "M" else t


# ---- generator -------------------------------------------------------------------------------------
NAMES = ["p", "q", "x", "y", "a", "b"]


class Gen:
    """Typed random libraries: packages, nested classes, type definitions (also of type definitions),
    extends chains / multiple extends / bases from enclosing scopes, several instances of one class,
    arrays, equations over own and sub-component variables, modifications at declaration, enclosing
    component, extends clause and type definition, with expressions over names that exist in the
    inner and in the outer scope.  Every site keeps its *semantic* modification list in `sites`, so
    that the same library can be spelled in several ways."""

    def __init__(self, rng, n_classes=5, mod_rate=0.6, p_nested=0.3, p_pkg=0.5, ref_rate=0.5, p_scenario=0.2,
                 p_compete=0.0):
        """p_compete > 0 (the "competing" streams of C07/C08): a modification site prefers, with that
        probability, a leaf that already has a binding / modification further in (declaration, base
        class's extends clause, inner component) and then mostly the very attribute set there; more
        declarations get a declaration equation over sibling variables.  With p_compete = 0 the
        generator draws exactly the random numbers it drew before the parameter existed."""
        self.p_scenario = p_scenario
        self.p_compete = p_compete
        self.rng = rng
        self.lib = []
        self.done = []        # completed long classes (usable as component type / base), absolute paths
        self.aliases = []     # completed elementary type definitions
        self.sites = []       # (holder dict with "mods", semantic list) — extends clauses and declarations
        self.inh_users = set()  # local classes with a component whose type their host only inherits
        self.counter = 0
        self.n_classes = n_classes
        self.mod_rate, self.p_nested, self.p_pkg, self.ref_rate = mod_rate, p_nested, p_pkg, ref_rate

    def fresh(self, pre):
        self.counter += 1
        return "%s%d" % (pre, self.counter)

    def oracle(self):
        return Oracle(self.lib)

    def ref_to(self, scope, cpath, base_name=False):
        """A spelling of class `cpath` that resolves from `scope` (shortest suffixes preferred at random);
        base class names are spelled so that a search of the classes as written finds them too."""
        ix = Index(self.lib)
        cands = []
        for i in range(len(cpath) - 1, -1, -1):
            r = ".".join(cpath[i:])
            try:
                if ix.resolve(scope, r, base_name) == tuple(cpath) and (
                        not base_name or ix.resolve_lexical(scope, r) == tuple(cpath)):
                    cands.append(r)
            except Reject:
                pass
        if not cands:
            return None

        def through_enclosing(r):
            # spelled through a class that encloses `scope` (pymoca then copies the original of a local
            # class instead of its instance, finding C07-F2): rare on purpose
            f = r.split(".")
            if len(f) < 2:
                return False
            try:
                b = ix.resolve(scope, f[0])
            except Reject:
                return False
            return not isinstance(b, str) and tuple(scope)[:len(b)] == b and ix.cls[b]["kind"] != "package"
        plain = [r for r in cands if not through_enclosing(r)]
        if plain and self.rng.random() < 0.9:
            cands = plain
        return cands[0] if self.rng.random() < 0.6 else self.rng.choice(cands)

    def new_class(self, container, cpath_parent, kind="model", depth=0, force_local=False, force_base=None,
                  force_inh=False):
        """force_local: certainly define local classes; force_base: extend this class first;
        force_inh: (in a local class) certainly declare a component whose type the host only inherits"""
        rng = self.rng
        name = self.fresh("C")
        c = dict(name=name, kind=kind, alias=None, extends=[], classes=[], comps=[], eqs=[], ieqs=[])
        container.append(c)
        me = tuple(cpath_parent) + (name,)
        orc = self.oracle()
        # extends (before the local classes, which may then use the classes this class inherits)
        inherited = set()
        avail = [d for d in self.done if d != me and d not in self.inh_users]
        for n_ext in range(rng.choice([0, 0, 1, 1, 1, 2, 2, 3]) if force_base is None else rng.choice([1, 1, 2])):
            if not avail:
                break
            with_local = [d for d in avail if any(x["alias"] is None and x["kind"] != "package"
                                                  for x in orc.ix.cls[d]["classes"])]
            b = rng.choice(with_local) if with_local and rng.random() < 0.4 else rng.choice(avail)
            if self.p_compete and rng.random() < 0.7:
                # an extends chain with several modifying levels: a base whose own extends clause modifies
                modded = [d for d in avail if any(x.get("mods") for x in orc.ix.cls[d]["extends"])]
                if modded:
                    b = rng.choice(modded)
            if force_base is not None and n_ext == 0:
                b = force_base
            r = self.ref_to(me, b, base_name=True)
            if r is None:
                continue
            try:
                bn = set(m[0]["name"] for m in orc.members(b))
            except Reject:
                continue
            if bn & inherited or any(e["_base"] == b for e in c["extends"]):
                continue
            inherited |= bn
            c["extends"].append(dict(ref=r, mods=[], _base=b))
        # local classes
        if depth < 2 and (force_local or force_base is not None or rng.random() < self.p_nested):
            for n_loc in range(rng.choice([1, 1, 2])):
                if rng.random() < 0.25 and not (n_loc == 0 and (force_local or force_base is not None)):
                    self.new_alias(c["classes"], me)
                else:
                    self.new_class(c["classes"], me, "model", depth + 1, force_inh=force_base is not None and n_loc == 0)
        orc = self.oracle()
        # components
        taken = set(inherited)
        ncomp = rng.randint(1, 4)
        tries = 0
        while len(c["comps"]) < ncomp and tries < 30:
            tries += 1
            cn = rng.choice(NAMES) + rng.choice(["", "1", "2"])
            if cn in taken:
                continue
            taken.add(cn)
            used_as_base = set(e["_base"] for e in c["extends"])
            cls_av = [d for d in self.done if d != me and (d not in self.inh_users or me[:len(d) - 1] == d[:-1])]
            want_inh = force_inh and not any("_cls" in q for q in c["comps"])
            if cls_av and (want_inh or rng.random() < 0.42):
                own_local = [d for d in cls_av if d[:-1] == me]
                ix = Index(self.lib)
                # classes an enclosing class (or this one) only inherits
                inh_vis = [q for j in range(1, len(me) + 1) for q in ix.visible(me[:j]).values()
                           if q not in ix.own(me[:j]).values() and q in cls_av]
                if inh_vis and (want_inh or rng.random() < (0.7 if depth >= 1 else 0.3)):
                    ty = rng.choice(inh_vis)
                    if depth >= 1:
                        self.inh_users.add(me)
                else:
                    ty = rng.choice(own_local) if own_local and rng.random() < 0.5 else rng.choice(cls_av)
                r = self.ref_to(me, ty)
                if r is None:
                    continue
                dims = [rng.choice([2, 3])] if rng.random() < 0.15 else []
                c["comps"].append(dict(name=cn, type=r, prefixes=[], dims=dims, mods=[], value=None, _cls=ty,
                                       _inst_found=(ty in inh_vis or ty[:-1] == me or
                                                    any(Index(self.lib).cls[ty[:j]]["kind"] != "package"
                                                        for j in range(1, len(ty))))))
            else:
                opts = ["Real"] * 6 + ["Integer", "Boolean", "Boolean", "String"]
                al = [a for a in self.aliases if self.ref_to(me, a) is not None]
                if al:
                    opts += ["@"] * 3
                ty = rng.choice(opts)
                if ty == "@":
                    a = rng.choice(al)
                    r = self.ref_to(me, a)
                    abase = self.oracle().base_of_alias(a)[0]
                    pre = rng.choice([[], [], ["input"], ["output"], ["parameter"], ["constant"], ["discrete"]])
                    if abase == "Boolean" and pre in (["input"], ["output"]):
                        pre = []
                    adims = []
                    if rng.random() < 0.35:      # an array of scalars declared with a type definition
                        adims = [rng.choice([2, 3])] if rng.random() < 0.8 else [2, 2]
                    c["comps"].append(dict(name=cn, type=r, prefixes=pre, dims=adims, mods=[], value=None, _alias=a,
                                           _abase=abase))
                    continue
                pre = rng.choice([[], [], [], ["parameter"], ["parameter"], ["constant"], ["input"], ["output"],
                                  ["discrete"], ["flow"], ["parameter", "input"]])
                if ty in ("Boolean", "String") and pre in (["flow"], ["parameter", "input"], ["input"], ["output"]):
                    pre = []
                dims = []
                if (ty == "Real" and rng.random() < 0.3) or (ty in ("Integer", "Boolean") and rng.random() < 0.15):
                    dims = [rng.choice([2, 3])] if rng.random() < 0.8 else [2, 2]
                c["comps"].append(dict(name=cn, type=ty, prefixes=pre, dims=dims, mods=[], value=None))
        # integer parameters for computed subscripts
        if any(k["type"] == "Real" and len(k["dims"]) == 1 for k in c["comps"]) and rng.random() < 0.7:
            for nm, dims in (("n", []), ("off", [2])):
                if nm not in taken and rng.random() < 0.8:
                    taken.add(nm)
                    c["comps"].append(dict(name=nm, type="Integer", prefixes=["parameter"], dims=dims, mods=[],
                                           value=(["num", rng.randint(0, 2)] if not dims else None)))
        self.done.append(me)
        # expressions over this class's scalar Real/Integer variables
        orc = self.oracle()
        scal, arrs = self.scope_refs(orc, me)
        # modifications: extends clauses, then declarations
        for e in c["extends"]:
            sem = self.gen_sem(orc, e["_base"], scal, arrs)
            self.add_site(e, sem)
        for k in c["comps"]:
            if "_cls" in k:
                sem = self.gen_sem(orc, k["_cls"], scal, arrs, avoid_alias=k.get("_inst_found", False))
                self.add_site(k, sem)
            else:
                sem = []
                num = k["type"] in ("Real", "Integer") or k.get("_abase") in ("Real", "Integer")
                if not k["dims"]:
                    if num:
                        others = [r for r in scal if r != [[k["name"], []]]]
                        if set(k["prefixes"]) & {"parameter", "constant"}:
                            sem.append(((), None, self.num_expr(others if rng.random() < 0.3 else [], [])))
                        elif rng.random() < (0.5 if self.p_compete else 0.3):
                            # declaration equation of a variable: literals (0, 0.0, ...) as likely as expressions
                            sem.append(((), None, self.num_expr(others if rng.random() < 0.5 else [], arrs)))
                        for a in rng.sample(NUM_ATTRS, rng.choice([0, 0, 1, 1, 2])):
                            sem.append(((), a, self.num_expr(others if rng.random() < self.ref_rate else [], [])))
                        if rng.random() < 0.1:
                            sem.append(((), "fixed", ["bool", rng.random() < 0.7]))
                        if rng.random() < 0.1:
                            sem.append(((), "unit", ["str", rng.choice(["V", "m/s", "K", ""])]))
                    elif k["type"] == "String":
                        if set(k["prefixes"]) & {"parameter", "constant"} or rng.random() < 0.6:
                            sem.append(((), None, ["str", rng.choice(["", "", "on", "a b"])]))
                    elif set(k["prefixes"]) & {"parameter", "constant"} or rng.random() < 0.4:
                        sem.append(((), None, ["bool", rng.random() < 0.5]))
                elif rng.random() < 0.3:
                    sem.append(((), rng.choice(NUM_ATTRS), ["num", rng.randint(1, 9)]))
                # a declaration's own modification: attributes nested, binding after
                k["mods"] = [dict(name=[a], subs=[], value=e_) for (_, a, e_) in sem if a is not None]
                vals = [e_ for (_, a, e_) in sem if a is None]
                k["value"] = vals[0] if vals else None
        # equations
        for _ in range(rng.choice([0, 1, 1, 2, 3])):
            if not scal:
                break
            lhs = rng.choice(scal + arrs) if arrs and rng.random() < 0.3 else rng.choice(scal)
            c["eqs"].append([["ref", lhs], self.num_expr(scal, arrs, allow_fn=True)])
        # for-equations with computed subscripts over own arrays
        own_arr = [k for k in c["comps"] if k["type"] == "Real" and len(k["dims"]) == 1]
        ints = [[[k["name"], []]] for k in c["comps"] if k["type"] == "Integer" and not k["dims"]]
        try:
            ints += [[[n, []] for n in it[1]] for it in orc.instances(me)
                     if it[0] == "leaf" and it[3] == "Integer" and not it[4] and len(it[1]) == 2]
        except Reject:
            pass
        offs = [k["name"] for k in c["comps"] if k["type"] == "Integer" and len(k["dims"]) == 1]
        if own_arr and rng.random() < 0.6:
            for _ in range(rng.choice([1, 1, 2])):
                v = rng.choice(own_arr)
                i = rng.choice(["i", "j"])
                body = []
                for _ in range(rng.choice([1, 1, 2])):
                    lhs = ["ref", [[v["name"], [self.sub_expr(i, ints, offs)]]]]
                    rhs = self.num_expr(scal, arrs, allow_fn=False)
                    if rng.random() < 0.5:
                        w = rng.choice(own_arr)
                        rhs = ["bin", rng.choice(["+", "*"]), ["ref", [[w["name"], [self.sub_expr(i, ints, offs)]]]], rhs]
                    if rng.random() < 0.3:
                        rhs = ["bin", "*", rhs, ["ref", [[i, []]]]]
                    body.append([lhs, rhs])
                c["eqs"].append(["for", i, 1, v["dims"][0], body])
        if own_arr and rng.random() < 0.3 and scal:
            v = rng.choice(own_arr)
            c["eqs"].append([["ref", rng.choice(scal)], ["ref", [[v["name"], [self.sub_expr(None, ints, offs)]]]]])
        # initial equations
        for _ in range(rng.choice([0, 0, 1, 1, 2])):
            if not scal:
                break
            lhs = rng.choice(scal + arrs) if arrs and rng.random() < 0.3 else rng.choice(scal)
            c["ieqs"].append([["ref", lhs], self.num_expr(scal, arrs, allow_fn=False)])
        if own_arr and rng.random() < 0.25:
            v = rng.choice(own_arr)
            c["ieqs"].append([["ref", [[v["name"], [self.sub_expr(None, ints, offs)]]]], ["num", rng.randint(0, 9)]])
        return me

    def add_site(self, holder, sem):
        self.sites.append((holder, sem))
        if self.p_compete:
            holder["mods"] = spell(sem, "S")      # visible to later sites (respelled by `spelled`)

    def sub_expr(self, i, ints, offs):
        """a subscript of at most two levels: i, i + n, i + off[n], off[i], off[n] + i, n, a.n, literal"""
        rng = self.rng
        nm = lambda x: ["ref", [[x, []]]]
        atoms0 = [nm(i)] if i else []
        atoms0 += [["ref", copy.deepcopy(p)] for p in ints if len(p) == 1]

        def sub0():
            r = rng.random()
            if atoms0 and r < 0.6:
                a = rng.choice(atoms0)
                return a if rng.random() < 0.7 else ["bin", "+", a, ["num", rng.randint(1, 2)]]
            return rng.randint(1, 2)
        forms = []
        if i:
            forms += ["i", "i+n", "i+off", "i+off", "i+off", "off[i]", "off+i"]
        forms += ["n", "lit", "off[n]"]
        f = rng.choice(forms)
        ref_n = ["ref", copy.deepcopy(rng.choice(ints))] if ints else rng.randint(1, 2)
        names0 = [a for a in atoms0 if a != nm(i)]
        inner = rng.choice(names0) if names0 and rng.random() < 0.7 else sub0()
        off = (["ref", [[rng.choice(offs), [inner]]]] if offs else rng.randint(0, 1))
        if f == "i":
            return nm(i)
        wrap = lambda x: ["num", x] if isinstance(x, int) else x
        if f == "i+n":
            return ["bin", "+", nm(i), wrap(ref_n)]
        if f == "i+off":
            return ["bin", "+", nm(i), wrap(off)]
        if f == "off+i":
            return ["bin", "+", wrap(off), nm(i)]
        if f == "off[i]":
            return ["ref", [[rng.choice(offs), [nm(i)]]]] if offs else nm(i)
        if f == "n":
            return ref_n
        if f == "off[n]":
            return off
        return rng.randint(1, 2)

    def new_alias(self, container, cpath_parent):
        rng = self.rng
        name = self.fresh("T")
        al = [a for a in self.aliases if self.ref_to(tuple(cpath_parent) + (name,), a) is not None]
        if al and rng.random() < 0.35:
            base_p = rng.choice(al)
            container.append(dict(name=name, kind="type", alias=None, extends=[], classes=[], comps=[], eqs=[], ieqs=[]))
            base = self.ref_to(tuple(cpath_parent), base_p, base_name=True)
            container.pop()
            if base is None:
                base = "Real"
        else:
            base = rng.choice(["Real", "Real", "Real", "Integer", "Integer", "Boolean"])
        numeric = base != "Boolean" and (base in ("Real", "Integer") or
                                          self.oracle().base_of_alias(base_p)[0] != "Boolean")
        mods = [dict(name=[a], subs=[], value=(["num", rng.randint(1, 9)] if rng.random() < 0.8 else ["un", "-", ["num", rng.randint(1, 9)]]))
                for a in rng.sample(NUM_ATTRS, rng.choice([0, 1, 1, 2]))] if numeric else []
        if numeric and rng.random() < 0.2:
            mods.append(dict(name=["unit"], subs=[], value=["str", "V"]))
        c = dict(name=name, kind="type", alias=dict(base=base, mods=mods), extends=[], classes=[], comps=[], eqs=[], ieqs=[])
        container.append(c)
        self.aliases.append(tuple(cpath_parent) + (name,))

    def scope_refs(self, orc, me):
        scal, arrs = [], []
        try:
            for it in orc.instances(me):
                if it[0] == "leaf" and it[3] in ("Real", "Integer"):
                    _, path, k, b, dims, _al = it
                    if not dims:
                        scal.append([[n, []] for n in path])
                    else:
                        # subscripts where the dimensions were declared along the path
                        parts = self.subscripted(orc, me, path)
                        if parts is not None:
                            arrs.append(parts)
        except Reject:
            pass
        return scal, arrs

    def subscripted(self, orc, me, path):
        parts = []
        for (prefix, cpath, m) in orc.levels(me, path):
            k = m[0]
            parts.append([k["name"], [self.rng.randint(1, d) for d in k["dims"]]])
        return parts

    def num_expr(self, scal, arrs, depth=0, allow_fn=False):
        rng = self.rng
        if depth > 1 or rng.random() < 0.45 or not (scal or arrs):
            if (scal or arrs) and rng.random() < 0.6:
                return ["ref", copy.deepcopy(rng.choice(arrs) if arrs and rng.random() < 0.3 else rng.choice(scal or arrs))]
            r = rng.random()
            if r < 0.25:
                return ["num", rng.choice([0, 0, 1])]
            if r < 0.35:
                return ["real", rng.choice(["0.0", "0.0", "1.0", "0.5", "2.5"])]
            k = ["num", rng.randint(0, 9)]
            return ["un", "-", k] if rng.random() < 0.15 else k
        if allow_fn and rng.random() < 0.15:
            return ["un", rng.choice(["sin", "der", "-"]), self.num_expr(scal, arrs, depth + 1, allow_fn)]
        return ["bin", rng.choice(["+", "-", "*", "/"]), self.num_expr(scal, arrs, depth + 1, allow_fn),
                self.num_expr(scal, arrs, depth + 1, allow_fn)]

    def gen_sem(self, orc, cls, scal, arrs, avoid_alias=False):
        """Semantic modifications for an instance / base `cls`, written in a class whose refs are scal/arrs."""
        rng = self.rng
        if rng.random() > self.mod_rate:
            return []
        try:
            leaves = [it for it in orc.instances(cls) if it[0] == "leaf"]
        except Reject:
            return []
        sem, used = [], set()
        hot = []          # numeric leaves that already have a binding / modification further in, with the attributes set
        if self.p_compete:
            for it in leaves:
                if it[3] in ("Real", "Integer"):
                    try:
                        set_ = [a for a in NUM_ATTRS + (None,) if orc.candidates(cls, it[1], a, [])]
                    except Reject:
                        set_ = []
                    if it[4]:
                        set_ = [a for a in set_ if a is not None]
                    if set_:
                        hot.append((it, set_))
        for _ in range(rng.choice([1, 1, 2, 3])):
            if not leaves:
                break
            same = ()
            if hot and rng.random() < self.p_compete:
                (_, path, k, b, dims, _al), set_ = rng.choice(hot)
                if rng.random() < 0.6:
                    same = (rng.choice(set_),)
            else:
                _, path, k, b, dims, _al = rng.choice(leaves)
            if avoid_alias and _al and rng.random() < 0.85:
                continue          # (a local class's type-definition leaves modified from outside: C07-F2)
            if b in ("Boolean", "String"):
                if (path, None) not in used and not dims and (
                        set(k["prefixes"]) & {"parameter", "constant"} or rng.random() < 0.4):
                    used.add((path, None))
                    sem.append((path, None, ["bool", rng.random() < 0.5] if b == "Boolean"
                                else ["str", rng.choice(["", "x"])]))
                continue
            is_par = bool(set(k["prefixes"]) & {"parameter", "constant"})
            r = rng.random()
            if dims:
                attr = rng.choice(NUM_ATTRS)
            elif is_par:
                attr = None if r < 0.6 else rng.choice(NUM_ATTRS)
            else:
                attr = None if r < 0.08 else rng.choice(NUM_ATTRS + ("fixed",) if r < 0.9 else ("unit",))
            if same:
                attr = same[0]
            if (path, attr) in used:
                continue
            used.add((path, attr))
            if attr == "fixed":
                e = ["bool", rng.random() < 0.6]
            elif attr == "unit":
                e = ["str", rng.choice(["K", "K", ""])]
            elif dims:
                e = ["num", rng.randint(1, 9)]
            else:
                e = self.num_expr(scal if rng.random() < self.ref_rate else [], [])
            sem.append((path, attr, e))
        return sem

    def build(self):
        rng = self.rng
        top = self.lib
        pkg = None
        if rng.random() < self.p_pkg:
            pkg = dict(name=self.fresh("P"), kind="package", alias=None, extends=[], classes=[], comps=[], eqs=[], ieqs=[])
            top.append(pkg)
        for _ in range(rng.choice([0, 1, 1, 2])):
            if pkg is not None and rng.random() < 0.5:
                self.new_alias(pkg["classes"], (pkg["name"],))
            else:
                self.new_alias(top, ())
        last = None
        scenario = rng.random() < self.p_scenario
        for i in range(self.n_classes):
            if scenario and i == self.n_classes - 1:
                # a host that inherits a local class and uses it inside a local class of its own
                b = self.new_class(top, (), force_local=True)
                last = self.new_class(top, (), force_base=b)
                if rng.random() < 0.5:
                    break
            if pkg is not None and rng.random() < 0.45 and i < self.n_classes - 1:
                if rng.random() < 0.25:
                    sub = next((c for c in pkg["classes"] if c["kind"] == "package"), None)
                    if sub is None:
                        sub = dict(name=self.fresh("Q"), kind="package", alias=None, extends=[], classes=[], comps=[], eqs=[], ieqs=[])
                        pkg["classes"].append(sub)
                    last = self.new_class(sub["classes"], (pkg["name"], sub["name"]))
                else:
                    last = self.new_class(pkg["classes"], (pkg["name"],))
            else:
                last = self.new_class(top, ())
        self.target = ".".join(last)
        return self

    def spelled(self, style_of_site):
        """The library with every site spelled by style_of_site(i) in S/D/N/M; private keys dropped."""
        for i, (holder, sem) in enumerate(self.sites):
            holder["mods"] = spell(sem, style_of_site(i), self.rng)
        return strip_private(self.lib)


def strip_private(x):
    if isinstance(x, dict):
        return {k: strip_private(v) for k, v in x.items() if not k.startswith("_")}
    if isinstance(x, (list, tuple)):
        return [strip_private(v) for v in x]
    return x


# ---- structural triggers of the listed findings ----------------------------------------------------
def pymoca_renaming(expr, applied, names):
    """What the re-walk of every symbol at every enclosing level does to the references of an
    expression that was attached at instance level `applied` (finding C08-F3 when it differs)."""
    k = expr[0]
    if k == "un":
        return ["un", expr[1], pymoca_renaming(expr[2], applied, names)]
    if k == "bin":
        return ["bin", expr[1], pymoca_renaming(expr[2], applied, names), pymoca_renaming(expr[3], applied, names)]
    if k != "ref":
        return list(expr)
    parts = expr[1]
    subs = [i for _, ss in parts for i in ss]
    cur = None                                   # flat path once renamed
    raw = tuple(n for n, _ in parts)
    lvl = tuple(applied)
    while True:
        if cur is None:
            if lvl + raw in names:
                cur = lvl + raw
        elif lvl and lvl + cur in names:
            cur = lvl + cur
        if not lvl:
            break
        lvl = lvl[:-1]
    if cur is not None:
        return ["ref", ".".join(cur), subs]
    return rename(expr, (), set())


def triggers(lib, target):
    """Set of labels of the listed findings (and of allowed rejections) this library can touch:
      F14  dotted name running through an elementary component into an attribute (C08-F1)
      F18  attribute modification arriving through a component of class type whose expression is captured
           by a deeper scope (C08-F2)
      DBL  reference renamed again at an enclosing level (C08-F3)
      AL2  attribute modification on a component whose type is a type definition of a type definition (C08-F4)
      F15  inherited component / inherited local class whose type names are looked up from the derived
           class (C07-F1)
      RE   modification arriving through the environment at a component whose elementary type definition
           was already instantiated (local type definition, or below a component of local class type) (C07-F2)
      REJ  nested modification below a component of class type that is not the declaration's own
           parenthesis: pymoca rejects the spelling (allowed by C08)
    pymoca instantiates every local class of every class it instantiates, used or not; the labels are
    therefore collected over the target and all those classes."""
    out = set()
    sub = set()
    global LAST_SUB
    LAST_SUB = sub
    orc = Oracle(lib)
    try:
        orc.flat(target)
        orc.wellformed()
    except Reject:
        return {"ILLEGAL"}
    cls = orc.ix.cls

    def is_local(cp):
        return any(cls[cp[:i]]["kind"] != "package" for i in range(1, len(cp)))

    def all_classes(cp):
        yield cp
        for b, _ in orc.ext_list(cp):
            yield from all_classes(b)

    def own_nested(p):
        if not p:
            return {c["name"]: (c["name"],) for c in lib}
        return {c["name"]: p + (c["name"],) for c in cls[p]["classes"]}

    def visible(cp):
        d = {}
        for b in reversed(list(all_classes(cp))):
            d.update(own_nested(b))
        return d

    def chain_true(cp):
        """lookup levels of a class found as an original: (names -> class, is the level an instance?)"""
        ch = [(visible(cp), True)]
        p = cp[:-1]
        while True:
            ch.append((own_nested(p), False))
            if not p:
                break
            p = p[:-1]
        return ch

    def sim_resolve(chain, ref):
        parts = tuple(ref.split("."))
        if parts[0] in BUILTIN:
            return parts[0]
        for level, _ in chain:
            if parts[0] in level:
                full = level[parts[0]] + parts[1:]
                return full if full in cls else None
        return None

    def inst_found(chain, ref):
        """is the class named `ref` found through an instance-level scope (as an already instantiated
        local class)?"""
        first = ref.split(".")[0]
        for level, is_inst in chain:
            if first in level:
                return is_inst
        return False

    def inside(d, e):
        return len(d) > len(e) and d[:len(e)] == e

    def same_host(d, b):
        """does class `d` live inside a (non-package) class that encloses the local class `b`?  All local
        classes of such a host, at every depth, are instantiated in place when the host is."""
        return any(inside(d, b[:j]) and cls[b[:j]]["kind"] != "package" for j in range(1, len(b)))

    def inh_path(c, decl):
        """classes from c down to the direct deriver of decl along extends clauses (None: not a base)"""
        for b, _ in orc.ext_list(c):
            if b == decl:
                return [c]
            r = inh_path(b, decl)
            if r is not None:
                return [c] + r
        return None

    def marked(decl, inst_class):
        """was the local class `decl` instantiated in place before being copied as a base class here?
        (its deriver lives inside the class that declares `decl`, whose copy holds the marks)"""
        if decl == inst_class or not is_local(decl):
            return False
        return any(same_host(d, decl) for d in (inh_path(inst_class, decl) or []))

    # base class names are searched in the original classes (own local classes only, at every level)
    for cp_, c_ in cls.items():
        for (sc_, name_, oo_) in orc.ix.base_names(cp_):
            if orc.ix.resolve_lexical(cp_, name_) != orc.ix.resolve(sc_, name_, oo_):
                out.add("F15")
    all_long = [cp_ for cp_, c_ in cls.items() if c_["kind"] != "package" and orc.base_of_alias(cp_) is None]
    rebased = set()           # local classes used as a base class from inside their declaring class
    for d_ in all_long:
        for b_, _ in orc.ext_list(d_):
            if is_local(b_) and same_host(d_, b_):
                rebased.add(b_)

    def pairs(c):
        for b, _ in orc.ext_list(c):
            yield (c, b)
            yield from pairs(b)

    def walk_spelling(smods, ctx):
        # ctx: class path, or ("leaf",)
        for m in smods:
            c = ctx
            for i, n in enumerate(m["name"]):
                if c == ("leaf",):
                    if i > 0:
                        out.add("F14")
                    break
                mm = orc.member_named(c, n)
                if mm is None:
                    break
                ty = orc.comp_type(mm[0], mm[1])
                c = ("leaf",) if ty[0] == "leaf" else ty[1]
            if m["subs"]:
                if c != ("leaf",):
                    out.add("REJ")
                walk_spelling(m["subs"], c)

    troot = tuple(target.split("."))
    queue = [(troot, None)]
    seen = set()
    while queue:
        root, chain = queue.pop()
        key = (root, None if chain is None else repr(chain))
        if key in seen:
            continue
        seen.add(key)
        rchain = chain if chain is not None else chain_true(root)
        try:
            orc.flat(".".join(root))
        except Reject:
            out.add("ILLEGAL-LOCAL")
            continue
        names = orc.names
        bindings = list(orc.bindings)
        seen_cls = set()
        inst_class, pre_inst = {}, {}
        for it in list(orc.instances(root)):
            if it[0] != "inst":
                continue
            cpath = it[2]
            inst_class[it[1]] = cpath
            cchain = rchain if cpath == root else chain_true(cpath)
            # a component whose class is a local class of an instance is a copy of that (already
            # instantiated) class: its component types were looked up when the local class was
            # instantiated in place (covered by that class's own entry in the queue)
            if it[1]:
                cl = inst_class[it[1][:-1]]
                kk = orc.member_named(cl, it[1][-1])[0]
                cl_chain = rchain if cl == root else chain_true(cl)
                pre_inst[it[1]] = pre_inst.get(it[1][:-1], False) or inst_found(cl_chain, kk["type"])
            if not pre_inst.get(it[1], False):
                for (k, decl, _) in orc.members(cpath):
                    if k["type"] in BUILTIN:
                        continue
                    if sim_resolve(cchain, k["type"]) != orc.ix.resolve(decl, k["type"]):
                        out.add("F15")
            if cpath in seen_cls:
                continue
            seen_cls.add(cpath)
            for cp in all_classes(cpath):
                cdef = cls[cp]
                if cdef["alias"] is not None:
                    walk_spelling(cdef["alias"]["mods"], orc.ix.resolve(cp[:-1], cdef["alias"]["base"]))
                for e in cdef["extends"]:
                    walk_spelling(e["mods"], orc.ix.resolve(cp, e["ref"], True))
                    if any(len(m["name"]) > 1 for m in e["mods"]) and any(cp[:j] in rebased for j in range(1, len(cp) + 1)):
                        out.add("RE"); sub.add("RE2")      # the dotted name is shortened in place at the first instantiation
                for k in cdef["comps"]:
                    ty = orc.comp_type(k, cp)
                    walk_spelling(k["mods"], ("leaf",) if ty[0] == "leaf" else ty[1])
                    if k["type"] not in BUILTIN and "." in k["type"]:
                        try:
                            first = orc.ix.resolve(cp, k["type"].split(".")[0])
                        except Reject:
                            first = None
                        if first is not None and not isinstance(first, str) and cp[:len(first)] == first \
                                and cls[first]["kind"] != "package":
                            # named through a class that is being instantiated right now: the original
                            # (already rewritten in place) local class is copied, not its instance
                            out.add("RE"); sub.add("RE4")
                    if k["type"] not in BUILTIN and (k["mods"] or k["value"] is not None) and any(
                            b == cp and is_local(b) and same_host(d, b) for d, b in pairs(cpath)):
                        out.add("RE"); sub.add("RE3")      # scopes noted at the first instantiation of the local base class
                for n in cdef["classes"]:
                    if n["kind"] != "package" and n["alias"] is None:
                        nr = cp + (n["name"],)
                        queue.append((nr, [(visible(nr), True)] + cchain))
        for (path, attr, w, expr, nalias, kind) in bindings:
            if w is None:
                if int(kind[4:]) >= 3:
                    out.add("AL2")
                continue
            leaf_level = tuple(path[:-1])
            if nalias >= 2 and attr is not None:
                out.add("AL2")
            if nalias >= 1 and (kind == "ext" or tuple(w) != leaf_level):
                lv = orc.levels(root, path)
                k, decl, _ = lv[-1][2]
                hit = False
                for (_, cl, (kk, dd, _)) in lv:
                    x = orc.ix.resolve(dd, kk["type"])
                    # is the type found as an already instantiated local class, or the symbol already marked?
                    if marked(dd, cl) or (not isinstance(x, str) and (
                            inst_found(rchain if cl == root else chain_true(cl), kk["type"]) or
                            (is_local(x) and any(x[:j] in set(all_classes(cl)) for j in range(1, len(x)))))):
                        hit = True
                if hit:
                    out.add("RE"); sub.add("RE1")
            lost = attr is not None and tuple(w) != leaf_level
            applied = leaf_level if lost else tuple(w)
            if pymoca_renaming(expr, applied, names) != rename(expr, w, names):
                out.add("F18" if lost and pymoca_renaming(expr, tuple(w), names) == rename(expr, w, names) else "DBL")
    return out
