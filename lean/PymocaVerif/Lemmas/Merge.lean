import PymocaVerif.Model.Merge
/-! Helper lemmas for C27 (`Model/Merge.lean`). -/
namespace PymocaVerif.Merge

variable {α : Type}

theorem find_none_of_not_mem (n : String) (F : Forest α) (h : n ∉ names F) : find n F = none := by
  induction F with
  | nil => rfl
  | cons m p ks r _ ihr =>
    simp only [names, List.mem_cons, not_or] at h
    have : ¬ m = n := fun e => h.1 e.symm
    simp [find, this, ihr h.2]

theorem mem_names_of_find (n : String) (F : Forest α) (x : α × Forest α) (h : find n F = some x) :
    n ∈ names F := by
  induction F with
  | nil => simp [find] at h
  | cons m p ks r _ ihr =>
    by_cases e : m = n
    · simp [names, e]
    · simp only [find, e, if_false] at h
      simp [names, ihr h]

theorem find_isSome_iff (n : String) (F : Forest α) : (find n F).isSome ↔ n ∈ names F := by
  induction F with
  | nil => simp [find, names]
  | cons m p ks r _ ihr =>
    by_cases e : m = n
    · simp [find, names, e]
    · have : ¬ n = m := fun h => e h.symm
      simp [find, names, e, ihr, this]

theorem wf_kids_of_find (n : String) (F : Forest α) (p : α) (ks : Forest α) (hw : Wf F)
    (h : find n F = some (p, ks)) : Wf ks := by
  induction F with
  | nil => simp [find] at h
  | cons m q js r _ ihr =>
    by_cases e : m = n
    · simp only [find, e, if_true, Option.some.injEq, Prod.mk.injEq] at h
      rw [← h.2]; exact hw.2.1
    · simp only [find, e, if_false] at h
      exact ihr hw.2.2 h

/-- What `classes[x]` is after one iteration of the `_extend` loop. -/
theorem find_iom (mp : α → α → α) (f : Forest α → Forest α) (n : String) (p : α) (ks F : Forest α)
    (x : String) :
    find x (iom mp f n p ks F) =
      if x = n then
        (match find n F with
         | some (q, js) => some (mp q p, f js)
         | none => some (p, ks))
      else find x F := by
  induction F with
  | nil =>
    by_cases e : x = n
    · simp [iom, find, e]
    · have : ¬ n = x := fun h => e h.symm
      simp [iom, find, e, this]
  | cons m q js r _ ihr =>
    by_cases e : m = n
    · by_cases ex : x = n
      · simp [iom, find, e, ex]
      · have : ¬ n = x := fun h => ex h.symm
        simp [iom, find, e, ex, this]
    · by_cases ex : x = n
      · subst ex
        simp [iom, find, e, ihr]
      · by_cases emx : m = x
        · simp [iom, find, e, ex, emx]
        · simp [iom, find, e, ex, emx, ihr]

theorem names_iom (mp : α → α → α) (f : Forest α → Forest α) (n : String) (p : α) (ks F : Forest α) :
    names (iom mp f n p ks F) = if n ∈ names F then names F else names F ++ [n] := by
  induction F with
  | nil => simp [iom, names]
  | cons m q js r _ ihr =>
    by_cases e : m = n
    · simp [iom, names, e]
    · have : ¬ n = m := fun h => e h.symm
      by_cases hn : n ∈ names r <;> simp [iom, names, e, this, ihr, hn]

/-- Combination of two dictionary entries. -/
def fmerge (mp : α → α → α) (g : Forest α → Forest α → Forest α) :
    Option (α × Forest α) → Option (α × Forest α) → Option (α × Forest α)
  | none, b => b
  | a, none => a
  | some (q, js), some (p, ks) => some (mp q p, g ks js)

/-- `classes[x]` after `self._extend(other)`. -/
theorem find_extendBy (mp : α → α → α) (other : Forest α) (hw : Wf other) (self : Forest α) (x : String) :
    find x (extendBy mp other self) = fmerge mp (extendBy mp) (find x self) (find x other) := by
  induction other generalizing self with
  | nil => cases h : find x self <;> simp [extendBy, find, fmerge, h]
  | cons n p ks rest _ ihr =>
    simp only [extendBy]
    rw [ihr hw.2.2, find_iom]
    by_cases e : x = n
    · subst e
      have hr : find x rest = none := find_none_of_not_mem _ _ hw.1
      simp only [if_true, hr, find]
      cases h : find x self with
      | none => simp [fmerge]
      | some v => obtain ⟨q, js⟩ := v; simp [fmerge]
    · have : ¬ n = x := fun h => e h.symm
      simp [e, find, this]

theorem names_extendBy_self (mp : α → α → α) (other self : Forest α) (x : String)
    (h : x ∈ names self) : x ∈ names (extendBy mp other self) := by
  induction other generalizing self with
  | nil => simpa [extendBy] using h
  | cons n p ks rest _ ihr =>
    simp only [extendBy]
    apply ihr
    rw [names_iom]
    split <;> simp [h]

/-- `_extend` keeps the dictionary invariant. -/
theorem wf_extendBy (mp : α → α → α) (other : Forest α) (hwo : Wf other) (self : Forest α)
    (hws : Wf self) : Wf (extendBy mp other self) := by
  induction other generalizing self with
  | nil => simpa [extendBy] using hws
  | cons n p ks rest ihk ihr =>
    simp only [extendBy]
    apply ihr hwo.2.2
    -- Wf (iom …)
    clear ihr
    induction self with
    | nil => exact ⟨by simp [names], hwo.2.1, trivial⟩
    | cons m q js r _ ihs =>
      by_cases e : m = n
      · simp only [iom, e, if_true]
        exact ⟨by simpa [e] using hws.1, ihk hwo.2.1 js hws.2.1, hws.2.2⟩
      · simp only [iom, e, if_false]
        refine ⟨?_, hws.2.1, ihs hws.2.2⟩
        rw [names_iom]
        have hm := hws.1
        split
        · exact hm
        · simp [hm, e]

theorem omerge_none_right (mp : α → α → α) (a : Option α) : omerge mp a none = a := by
  cases a <;> rfl

/-- **Payload at a path after a merge** = combination of the payloads at that path. -/
theorem get_extendBy (mp : α → α → α) (path : List String) :
    ∀ (other : Forest α), Wf other → ∀ self : Forest α,
      get (extendBy mp other self) path = omerge mp (get self path) (get other path) := by
  induction path with
  | nil => intro other _ self; simp [get, omerge]
  | cons n p ih =>
    intro other hw self
    simp only [get]
    rw [find_extendBy mp other hw self n]
    cases hs : find n self with
    | none =>
      cases ho : find n other with
      | none => simp [fmerge, omerge]
      | some v => obtain ⟨q, ks⟩ := v; cases p <;> simp [fmerge, omerge]
    | some u =>
      obtain ⟨q, js⟩ := u
      cases ho : find n other with
      | none => cases p <;> simp [fmerge, omerge_none_right]
      | some v =>
        obtain ⟨q', ks⟩ := v
        cases p with
        | nil => simp [fmerge, omerge]
        | cons m p' =>
          simp only [fmerge]
          exact ih ks (wf_kids_of_find n other q' ks hw ho) js

theorem get_extend (mp : α → α → α) (self other : Forest α) (hw : Wf other) (path : List String) :
    get (extend mp self other) path = omerge mp (get self path) (get other path) :=
  get_extendBy mp path other hw self

/-- Concatenation of sibling lists. -/
def append : Forest α → Forest α → Forest α
  | .nil, t => t
  | .cons n p ks r, t => .cons n p ks (append r t)

theorem names_append (a b : Forest α) : names (append a b) = names a ++ names b := by
  induction a with
  | nil => simp [append, names]
  | cons n p ks r _ ihr => simp [append, names, ihr]

theorem append_assoc (a b c : Forest α) : append (append a b) c = append a (append b c) := by
  induction a with
  | nil => simp [append]
  | cons n p ks r _ ihr => simp [append, ihr]

theorem iom_of_not_mem (mp : α → α → α) (f : Forest α → Forest α) (n : String) (p : α)
    (ks acc : Forest α) (h : n ∉ names acc) :
    iom mp f n p ks acc = append acc (.cons n p ks .nil) := by
  induction acc with
  | nil => simp [iom, append]
  | cons m q js r _ ihr =>
    simp only [names, List.mem_cons, not_or] at h
    have : ¬ m = n := fun e => h.1 e.symm
    simp [iom, append, this, ihr h.2]

/-- Classes with new names are appended in order. -/
theorem extendBy_disjoint (mp : α → α → α) (other : Forest α) (hw : Wf other) :
    ∀ acc : Forest α, (∀ x ∈ names other, x ∉ names acc) → extendBy mp other acc = append acc other := by
  induction other with
  | nil =>
    intro acc _
    have : ∀ a : Forest α, append a .nil = a := by
      intro a; induction a with
      | nil => rfl
      | cons n p ks r _ ihr => simp [append, ihr]
    simp [extendBy, this]
  | cons n p ks rest _ ihr =>
    intro acc hd
    have hn : n ∉ names acc := hd n (by simp [names])
    simp only [extendBy]
    rw [iom_of_not_mem mp _ n p ks acc hn, ihr hw.2.2, append_assoc]
    · simp [append]
    · intro x hx
      rw [names_append]
      simp only [names, List.mem_append, List.mem_cons, List.not_mem_nil, or_false, not_or]
      refine ⟨hd x (by simp [names, hx]), ?_⟩
      intro e; subst e; exact hw.1 hx

/-- Extending the empty tree by a well-formed tree gives that tree: starting from the first
    file's tree (`_compile_model`) or from an empty `Tree` (`parse_all`) is the same. -/
theorem extend_nil (mp : α → α → α) (f : Forest α) (hw : Wf f) : extend mp .nil f = f := by
  unfold extend
  rw [extendBy_disjoint mp f hw .nil (by simp [names])]
  rfl

theorem get_cons_self (n : String) (p : α) (ks r : Forest α) (t : List String) (ht : t ≠ []) :
    get (.cons n p ks r) (n :: t) = get ks t := by
  cases t with
  | nil => exact absurd rfl ht
  | cons a t => simp [get, find]

/-! ### Merging a list of files: the payload at one path is a fold over the files -/

/-- Fold of the payload combination over the per-file payloads at one path. -/
def combine (mp : α → α → α) (l : List (Option α)) : Option α := l.foldl (omerge mp) none

theorem get_nil (path : List String) : get (.nil : Forest α) path = none := by
  cases path <;> simp [get, find]

theorem get_foldl_extend (mp : α → α → α) (path : List String) (fs : List (Forest α))
    (hw : ∀ f ∈ fs, Wf f) (acc : Forest α) :
    get (fs.foldl (extend mp) acc) path
      = (fs.map (fun f => get f path)).foldl (omerge mp) (get acc path) := by
  induction fs generalizing acc with
  | nil => rfl
  | cons f fs ih =>
    simp only [List.foldl_cons, List.map_cons]
    rw [ih (fun g hg => hw g (by simp [hg])), get_extend mp acc f (hw f (by simp))]

theorem get_mergeAll (mp : α → α → α) (path : List String) (fs : List (Forest α))
    (hw : ∀ f ∈ fs, Wf f) :
    get (mergeAll mp fs) path = combine mp (fs.map (fun f => get f path)) := by
  cases fs with
  | nil => simp [mergeAll, combine, get_nil]
  | cons f fs =>
    simp only [mergeAll, combine, List.map_cons, List.foldl_cons]
    rw [get_foldl_extend mp path fs (fun g hg => hw g (by simp [hg]))]
    rfl

theorem get_mergeAllFromEmpty (mp : α → α → α) (path : List String) (fs : List (Forest α))
    (hw : ∀ f ∈ fs, Wf f) :
    get (mergeAllFromEmpty mp fs) path = combine mp (fs.map (fun f => get f path)) := by
  unfold mergeAllFromEmpty combine
  rw [get_foldl_extend mp path fs hw, get_nil]

/-- A payload combination that always returns one of its arguments. -/
def Selective (mp : α → α → α) : Prop := ∀ a b, mp a b = a ∨ mp a b = b

theorem keepFirst_selective : Selective (keepFirst : α → α → α) := fun _ _ => Or.inl rfl

theorem fill_selective [DecidableEq α] (ph : α) : Selective (fill ph) := by
  intro a b; unfold fill; split <;> simp

theorem foldl_omerge_none (mp : α → α → α) (l : List (Option α)) (a : Option α) :
    l.foldl (omerge mp) a = none ↔ a = none ∧ ∀ x ∈ l, x = none := by
  induction l generalizing a with
  | nil => simp
  | cons x l ih =>
    simp only [List.foldl_cons, ih, List.mem_cons, forall_eq_or_imp]
    cases a <;> cases x <;> simp [omerge]

theorem foldl_omerge_mem (mp : α → α → α) (hs : Selective mp) (l : List (Option α)) (a : Option α)
    (v : α) (h : l.foldl (omerge mp) a = some v) : a = some v ∨ some v ∈ l := by
  induction l generalizing a with
  | nil => exact Or.inl (by simpa using h)
  | cons x l ih =>
    simp only [List.foldl_cons] at h
    rcases ih _ h with h1 | h1
    · cases a with
      | none =>
        cases x with
        | none => simp [omerge] at h1
        | some b => simp only [omerge] at h1; exact Or.inr (by simp [h1])
      | some a' =>
        cases x with
        | none => simp only [omerge] at h1; exact Or.inl h1
        | some b =>
          simp only [omerge, Option.some.injEq] at h1
          rcases hs a' b with e | e
          · left; rw [← h1, e]
          · right; simp [← h1, e]
    · exact Or.inr (by simp [h1])

/-- Old (`keepFirst`) combination: the result is the payload of the first file that has the path. -/
theorem combine_keepFirst (l : List (Option α)) :
    combine keepFirst l = l.findSome? id := by
  have key : ∀ (l : List (Option α)) (a : Option α),
      l.foldl (omerge keepFirst) a = (match a with | some v => some v | none => l.findSome? id) := by
    intro l
    induction l with
    | nil => intro a; cases a <;> rfl
    | cons x l ih =>
      intro a
      simp only [List.foldl_cons, ih]
      cases a <;> cases x <;> simp [omerge, keepFirst, List.findSome?_cons]
  simpa [combine] using key l none

/-- `fill`: a placeholder result means that nothing but placeholders was merged. -/
theorem foldl_fill_ph [DecidableEq α] (ph : α) (l : List (Option α)) (a : Option α)
    (h : l.foldl (omerge (fill ph)) a = some ph) :
    (a = none ∨ a = some ph) ∧ ∀ x ∈ l, x = none ∨ x = some ph := by
  induction l generalizing a with
  | nil => simp at h; simp [h]
  | cons x l ih =>
    simp only [List.foldl_cons] at h
    obtain ⟨h1, h2⟩ := ih _ h
    simp only [List.mem_cons, forall_eq_or_imp]
    cases a with
    | none =>
      cases x with
      | none => exact ⟨Or.inl rfl, Or.inl rfl, h2⟩
      | some b =>
        simp only [omerge] at h1
        exact ⟨Or.inl rfl, h1, h2⟩
    | some a' =>
      cases x with
      | none =>
        simp only [omerge] at h1
        exact ⟨h1, Or.inl rfl, h2⟩
      | some b =>
        simp only [omerge, fill] at h1
        by_cases e : a' = ph
        · simp [e] at h1
          exact ⟨Or.inr (by rw [e]), Or.inr (by rw [h1]), h2⟩
        · simp [e] at h1

/-- Payloads at one path are *defined at most once*: all non-placeholder payloads agree. -/
def DefinedOnce (ph : α) (l : List (Option α)) : Prop :=
  ∀ v w, some v ∈ l → some w ∈ l → v ≠ ph → w ≠ ph → v = w

/-- `fill`: the combined payload is determined by the *set* of per-file payloads. -/
theorem combine_fill_spec [DecidableEq α] (ph : α) (l : List (Option α)) (hd : DefinedOnce ph l) :
    (∀ v, v ≠ ph → some v ∈ l → combine (fill ph) l = some v) ∧
    ((∀ v, some v ∈ l → v = ph) → some ph ∈ l → combine (fill ph) l = some ph) ∧
    ((∀ x ∈ l, x = none) → combine (fill ph) l = none) := by
  refine ⟨?_, ?_, ?_⟩
  · intro v hv hmem
    cases hr : combine (fill ph) l with
    | none =>
      have := ((foldl_omerge_none (fill ph) l none).mp hr).2 _ hmem
      cases this
    | some w =>
      by_cases hw : w = ph
      · subst hw
        have := (foldl_fill_ph w l none hr).2 _ hmem
        rcases this with h | h
        · cases h
        · exact absurd (Option.some.inj h) hv
      · rcases foldl_omerge_mem (fill ph) (fill_selective ph) l none w hr with h | h
        · cases h
        · rw [hd w v h hmem hw hv]
  · intro hall hmem
    cases hr : combine (fill ph) l with
    | none =>
      have := ((foldl_omerge_none (fill ph) l none).mp hr).2 _ hmem
      cases this
    | some w =>
      rcases foldl_omerge_mem (fill ph) (fill_selective ph) l none w hr with h | h
      · cases h
      · rw [hall w h]
  · intro hall
    exact (foldl_omerge_none (fill ph) l none).mpr ⟨rfl, hall⟩

/-- `fill`: two lists of per-file payloads with the same members combine to the same payload. -/
theorem combine_fill_congr [DecidableEq α] (ph : α) (l l' : List (Option α))
    (hm : ∀ x, x ∈ l ↔ x ∈ l') (hd : DefinedOnce ph l) :
    combine (fill ph) l = combine (fill ph) l' := by
  have hd' : DefinedOnce ph l' := fun v w hv hw => hd v w ((hm _).mpr hv) ((hm _).mpr hw)
  obtain ⟨a1, a2, a3⟩ := combine_fill_spec ph l hd
  obtain ⟨b1, b2, b3⟩ := combine_fill_spec ph l' hd'
  by_cases h1 : ∃ v, v ≠ ph ∧ some v ∈ l
  · obtain ⟨v, hv, hmem⟩ := h1
    rw [a1 v hv hmem, b1 v hv ((hm _).mp hmem)]
  · have hall : ∀ v, some v ∈ l → v = ph := by
      intro v hmem
      by_cases e : v = ph
      · exact e
      · exact absurd ⟨v, e, hmem⟩ h1
    by_cases h2 : some ph ∈ l
    · rw [a2 hall h2, b2 (fun v hv => hall v ((hm _).mpr hv)) ((hm _).mp h2)]
    · have hn : ∀ x ∈ l, x = none := by
        intro x hx
        cases x with
        | none => rfl
        | some v => exact absurd (hall v hx ▸ hx) h2
      rw [a3 hn, b3 (fun x hx => hn x ((hm _).mpr hx))]

/-- `keepFirst`: the same holds only when *all* payloads at the path agree, placeholders included. -/
theorem combine_keepFirst_congr (l l' : List (Option α)) (hm : ∀ x, x ∈ l ↔ x ∈ l')
    (ha : ∀ v w, some v ∈ l → some w ∈ l → v = w) :
    combine keepFirst l = combine keepFirst l' := by
  have ha' : ∀ v w, some v ∈ l' → some w ∈ l' → v = w :=
    fun v w hv hw => ha v w ((hm _).mpr hv) ((hm _).mpr hw)
  cases h : combine keepFirst l with
  | none =>
    have hn := ((foldl_omerge_none keepFirst l none).mp h).2
    exact ((foldl_omerge_none keepFirst l' none).mpr ⟨rfl, fun x hx => hn x ((hm _).mpr hx)⟩).symm
  | some v =>
    have hv : some v ∈ l := by
      rcases foldl_omerge_mem keepFirst keepFirst_selective l none v h with e | e
      · cases e
      · exact e
    cases h' : combine keepFirst l' with
    | none =>
      have hn := ((foldl_omerge_none keepFirst l' none).mp h').2 _ ((hm _).mp hv)
      cases hn
    | some w =>
      have hw : some w ∈ l' := by
        rcases foldl_omerge_mem keepFirst keepFirst_selective l' none w h' with e | e
        · cases e
        · exact e
      rw [ha' v w ((hm _).mp hv) hw]

end PymocaVerif.Merge
