"""Shared helpers of the C10 / C22 checks (agent A07).

* `ser_node`     generic serialisation of a pymoca AST node as a rose tree that mirrors what
                 `pymoca.tree.TreeWalker` visits (own traversal of `__dict__`, written
                 independently of TreeWalker so that a change there shows as a disagreement).
* `capture_flat` runs a callable while recording the flat class handed to
                 `pymoca.tree.annotate_states` (the stage boundary between flattening and
                 state annotation), serialised *before* the annotation mutates it.
* `symtab`       the symbol table of a flat class (name, prefixes, type, order, dims, fixed).
* `build_ast`    builds a flat `ast.Class` from a JSON spec (hand-built flat ASTs).
* `Frac` helpers exact evaluation utilities.
"""
import contextlib
import logging
from fractions import Fraction

MAX_DEPTH = 200


def quiet_pymoca():
    logging.getLogger("pymoca").setLevel(logging.CRITICAL)


# ---- generic rose tree --------------------------------------------------------------------
def _skip(node, key):
    from pymoca import ast
    if isinstance(node, ast.Class) and key == "parent":
        return True
    if isinstance(node, ast.ClassModificationArgument) and key in ("scope", "__deepcopy__"):
        return True
    return False


def ser_node(n, depth=0):
    """{"k": class name, "n": name/operator, "f": flag, "c": [children in walk order]}.

    name: ComponentRef.name, a *string* Expression.operator, Symbol/Class/ForIndex name, else "".
    flag: ComponentRef has a non-empty `child` list."""
    from pymoca import ast
    if depth > MAX_DEPTH:
        raise RecursionError("AST deeper than %d" % MAX_DEPTH)
    kind = type(n).__name__
    name, flag = "", False
    if isinstance(n, ast.ComponentRef):
        name, flag = n.name, len(n.child) > 0
    elif isinstance(n, ast.Expression):
        name = n.operator if isinstance(n.operator, str) else ""
    elif isinstance(n, (ast.Symbol, ast.Class, ast.ForIndex)):
        name = n.name if isinstance(n.name, str) else ""
    kids = []

    def collect(v):
        if isinstance(v, ast.Node):
            kids.append(ser_node(v, depth + 1))
        elif isinstance(v, dict):
            for x in v.values():
                collect(x)
        elif isinstance(v, list):
            for x in v:
                collect(x)

    for key, val in n.__dict__.items():
        if _skip(n, key):
            continue
        collect(val)
    return {"k": kind, "n": name, "f": flag, "c": kids}


def tree_size(t):
    return 1 + sum(tree_size(c) for c in t["c"])


def _lit_int(e, symbols, seen=()):
    """Integer value of a dimension expression when it is a literal or a reference to a symbol whose
    value is (recursively) one; None for an unspecified dimension; "?" otherwise."""
    from pymoca import ast
    if isinstance(e, ast.Primary):
        if e.value is None:
            return None
        if isinstance(e.value, bool) or not isinstance(e.value, (int, float)):
            return "?"
        return int(e.value)
    if isinstance(e, ast.ComponentRef) and not e.child and e.name in symbols and e.name not in seen:
        return _lit_int(symbols[e.name].value, symbols, seen + (e.name,))
    return "?"


def symtab(cls):
    """Symbol table of a flat class in dict order."""
    from pymoca import ast
    out = []
    for key, s in cls.symbols.items():
        dims = []
        for grp in s.dimensions:
            for d in grp:
                v = _lit_int(d, cls.symbols)
                if v is not None:
                    dims.append(v)
        tname = s.type.name if isinstance(s.type, ast.ComponentRef) else getattr(s.type, "name", "?")
        fx = s.fixed.value if isinstance(s.fixed, ast.Primary) else "?"
        out.append({"key": key, "name": s.name, "prefixes": list(s.prefixes), "type": tname,
                    "order": int(s.order), "dims": dims, "fixed": fx})
    return out


@contextlib.contextmanager
def capture_flat(store):
    """While active, every call of `pymoca.tree.annotate_states(node)` first appends
    {"tree": ser_node(node), "symbols": symtab(node), "node": node} to `store`."""
    from pymoca import tree as ptree
    orig = ptree.annotate_states

    def hooked(node):
        store.append({"tree": ser_node(node), "symbols": symtab(node), "node": node})
        return orig(node)

    ptree.annotate_states = hooked
    try:
        yield
    finally:
        ptree.annotate_states = orig


# ---- hand-built flat ASTs -------------------------------------------------------------------
# expression spec: ["ref", name] | ["idx", name, e] | ["lit", v] | ["time"] | ["der", e] | ["neg", e]
#   | ["op", o, a, b] | ["call", f, a...] | ["if", c, a, b] | ["delay", a, d] | ["cref", name]  (ref with child)
def build_expr(e):
    from pymoca import ast
    t = e[0]
    if t == "ref":
        return ast.ComponentRef(name=e[1])
    if t == "cref":
        return ast.ComponentRef(name=e[1], child=[ast.ComponentRef(name=e[2])])
    if t == "idx":
        return ast.ComponentRef(name=e[1], indices=[[build_expr(e[2])]])
    if t == "lit":
        return ast.Primary(value=e[1])
    if t == "time":
        return ast.ComponentRef(name="time")
    if t == "der":
        return ast.Expression(operator="der", operands=[build_expr(e[1])])
    if t == "neg":
        return ast.Expression(operator="-", operands=[build_expr(e[1])])
    if t == "op":
        return ast.Expression(operator=e[1], operands=[build_expr(e[2]), build_expr(e[3])])
    if t == "call":  # as the parser builds a function call: the operator is a ComponentRef
        return ast.Expression(operator=ast.ComponentRef(name=e[1]), operands=[build_expr(x) for x in e[2:]])
    if t == "delay":
        return ast.Expression(operator=ast.ComponentRef(name="delay"), operands=[build_expr(e[1]), build_expr(e[2])])
    if t == "if":
        return ast.IfExpression(conditions=[build_expr(e[1])], expressions=[build_expr(e[2]), build_expr(e[3])])
    raise ValueError("bad expression spec %r" % (e,))


def build_eq(q):
    """equation spec: ["eq", lhs, rhs] | ["for", var, lo, hi, [eqs]]"""
    from pymoca import ast
    if q[0] == "eq":
        return ast.Equation(left=build_expr(q[1]), right=build_expr(q[2]))
    if q[0] == "for":
        idx = ast.ForIndex(name=q[1], expression=ast.Slice(start=ast.Primary(value=q[2]), stop=ast.Primary(value=q[3]),
                                                            step=ast.Primary(value=1)))
        return ast.ForEquation(indices=[idx], equations=[build_eq(x) for x in q[4]])
    raise ValueError("bad equation spec %r" % (q,))


def build_ast(spec):
    """spec = {"name", "symbols": [{"name","type","prefixes","order","dims","value"?,"fixed"?}],
               "equations": [...], "initial_equations": [...]}  ->  ast.Tree holding one flat class."""
    from pymoca import ast
    c = ast.Class(name=spec["name"], type="model")
    for s in spec["symbols"]:
        sym = ast.Symbol(name=s["name"], type=ast.ComponentRef(name=s["type"]), prefixes=list(s["prefixes"]),
                         order=s["order"])
        if s.get("dims"):
            sym.dimensions = [[ast.Primary(value=d) for d in s["dims"]]]
        if s.get("value") is not None:
            sym.value = ast.Primary(value=s["value"])
        if s.get("fixed"):
            sym.fixed = ast.Primary(value=True)
        c.symbols[s["name"]] = sym
    c.equations = [build_eq(q) for q in spec.get("equations", [])]
    c.initial_equations = [build_eq(q) for q in spec.get("initial_equations", [])]
    t = ast.Tree()
    t.classes[spec["name"]] = c
    c.parent = t
    return t


# ---- exact numbers --------------------------------------------------------------------------
def frac_of_float(x):
    """Exact Fraction of a float that is expected to be a small dyadic; None when not finite."""
    import math
    if isinstance(x, (int, Fraction)):
        return Fraction(x)
    if not math.isfinite(x):
        return None
    return Fraction(x)  # exact binary value


def frac_json(q):
    q = Fraction(q)
    return [q.numerator, q.denominator]
