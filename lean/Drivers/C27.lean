import Drivers.Proto
import PymocaVerif.Model.Merge
/-! Driver for C27: builds each file's tree with `fileToTree` and merges the files in the
    requested order with `mergeAll` / `mergeAllFromEmpty` (payloads are opaque strings). -/
open Lean Drivers PymocaVerif.Merge

/-- JSON `[{"n": name, "p": payload, "k": [...]}, …]` → `Forest String`. -/
partial def parseForest (j : Json) : Except String (Forest String) := do
  let a ← j.getArr?
  let rec go (i : Nat) : Except String (Forest String) := do
    if h : i < a.size then
      let o := a[i]
      let n ← getStr o "n"
      let p ← getStr o "p"
      let ks ← parseForest (← getObj o "k")
      let r ← go (i + 1)
      pure (.cons n p ks r)
    else pure .nil
  go 0

def forestJson : Forest String → List Json
  | .nil => []
  | .cons n p ks r =>
    Json.mkObj [("n", Json.str n), ("p", Json.str p), ("k", Json.arr (forestJson ks).toArray)] :: forestJson r

def parseFile (ph : String) (j : Json) : Except String (Forest String) := do
  let w ← (← getArr j "within").toList.mapM (·.getStr?)
  let cs ← parseForest (← getObj j "classes")
  pure (fileToTree ph w cs)

def handle (req : Json) : Except String Json := do
  let op ← getStr req "op"
  let ph ← getStr req "ph"
  match op with
  | "merge.file" => do
    let f ← parseFile ph (← getObj req "file")
    pure (Json.mkObj [("ok", true), ("tree", Json.arr (forestJson f).toArray)])
  | "merge.all" => do
    let files ← (← getArr req "files").toList.mapM (parseFile ph)
    let order ← (← getArr req "order").toList.mapM (·.getNat?)
    let seq ← order.mapM fun i =>
      match files[i]? with
      | some f => pure f
      | none => throw s!"bad file index {i}"
    let mp : String → String → String ← match (← getStr req "variant") with
      | "asis" => pure keepFirst
      | "fixed" => pure (fill ph)
      | o => throw s!"bad variant {o}"
    let t ← match (← getStr req "start") with
      | "first" => pure (mergeAll mp seq)
      | "empty" => pure (mergeAllFromEmpty mp seq)
      | o => throw s!"bad start {o}"
    pure (Json.mkObj [("ok", true), ("tree", Json.arr (forestJson t).toArray)])
  | "merge.find" => do
    -- name lookups on the merged tree: queries [[scope…], [ref…]]
    let files ← (← getArr req "files").toList.mapM (parseFile ph)
    let order ← (← getArr req "order").toList.mapM (·.getNat?)
    let seq ← order.mapM fun i =>
      match files[i]? with
      | some f => pure f
      | none => throw s!"bad file index {i}"
    let mp : String → String → String ← match (← getStr req "variant") with
      | "asis" => pure keepFirst
      | "fixed" => pure (fill ph)
      | o => throw s!"bad variant {o}"
    let t := mergeAll mp seq
    let qs ← (← getArr req "queries").toList.mapM fun q => do
      let a ← q.getArr?
      let sc ← (← (a[0]?.getD Json.null).getArr?).toList.mapM (·.getStr?)
      let rf ← (← (a[1]?.getD Json.null).getArr?).toList.mapM (·.getStr?)
      pure (sc, rf)
    let ans := qs.map fun (sc, rf) =>
      match findClass t rf sc.reverse with
      | some p => jstrs p
      | none => Json.null
    pure (Json.mkObj [("ok", true), ("found", Json.arr ans.toArray)])
  | o => throw s!"unknown-op {o}"

def main : IO Unit := serve handle
