import PymocaVerif.Model.CacheState
/-!
Invariant and step lemmas for the model-cache state machine (used by `Props/C20`, `Props/C21`).
-/
namespace PymocaVerif.CacheState

variable {M : Type}

/-- Hypothesis on CPython's unpickler + the `except` clauses: whatever unpickling a strict
    prefix raises is converted to `InvalidCacheError` (`unpickleErr ⊆ caught`). -/
def Lawful (cfg : Cfg M) : Prop := ∀ n, (convert (cfg.truncErr n)).isSome = true

/-- `Fresh`: a complete cache file was compiled, with its stored options and version, from a
    snapshot of the folders it names, and every such folder that has no file newer than the
    cache still equals its snapshot.  `L` is the library-folder list in force while
    `library_folders` is excluded from the option comparison. -/
def FreshInv (cfg : Cfg M) (L : List Folder) (w : World M) : Prop :=
  ∀ c, w.cache = some c → c.complete = true →
    (cfg.exclLibs = true → c.db.opts.libs = L) ∧
    ∃ snap : Folder → List SrcFile,
      c.db.model = cfg.compile c.db.version (srcs snap c.db.opts) c.db.opts ∧
      ∀ f ∈ folders c.db.opts, stale c (w.fs f) = false → w.fs f = snap f

/-- The hypotheses of the property on one step: an edit gets a modification time strictly
    later than the cache file's; transfers keep `mtime_check` on and (while the key is
    excluded from the comparison) do not change `library_folders`. -/
def OpOk (cfg : Cfg M) (L : List Folder) (w : World M) : Op → Prop
  | .write _ _ t _ => ∀ c, w.cache = some c → c.mtime < t
  | .setVersion _ => True
  | .transfer o _ _ => o.norm.mtimeCheck = true ∧ (cfg.exclLibs = true → o.libs = L)
  | .crashedTransfer o _ _ _ => o.norm.mtimeCheck = true ∧ (cfg.exclLibs = true → o.libs = L)
  | .truncate _ _ => True

def Admissible (cfg : Cfg M) (L : List Folder) : World M → List Op → Prop
  | _, [] => True
  | w, op :: rest => OpOk cfg L w op ∧ Admissible cfg L (step cfg w op).1 rest

/-- The outcome is a model, and it is the compile of the current sources with the current
    (rewritten) options under the current version. -/
def Correct (cfg : Cfg M) (w : World M) (o : Opts) (out : Outcome M) : Prop :=
  out.model? = some (compileNow cfg w o.norm)

def AllCorrect (cfg : Cfg M) : World M → List Op → Prop
  | _, [] => True
  | w, op :: rest =>
    (match op with
      | .transfer o now size => Correct cfg w o (transfer cfg w o now size).2
      | _ => True) ∧ AllCorrect cfg (step cfg w op).1 rest

@[simp] theorem norm_libs (o : Opts) : o.norm.libs = o.libs := rfl
@[simp] theorem norm_mtimeCheck (o : Opts) : o.norm.mtimeCheck = o.mtimeCheck := rfl

theorem optsMatch_eq {excl : Bool} {a b : Opts} (h : optsMatch excl a b = true)
    (hl : excl = true → a.libs = b.libs) : a = b := by
  cases a; cases b
  simp only [optsMatch, Bool.and_eq_true, Bool.or_eq_true, beq_iff_eq] at h
  obtain ⟨⟨⟨⟨⟨h1, h2⟩, h3⟩, h4⟩, h5⟩, h6⟩ := h
  simp only [Opts.mk.injEq]
  refine ⟨?_, h2, h3, h4, h5, h6⟩
  cases h1 with
  | inl h => exact hl h
  | inr h => exact h

theorem load_hit {cfg : Cfg M} {w : World M} {o : Opts} {m : M} (h : load cfg w o = .hit m) :
    ∃ c, w.cache = some c ∧
      (o.mtimeCheck = true → ∀ f ∈ folders o, stale c (w.fs f) = false) ∧
      c.complete = true ∧ c.db.version = w.version ∧
      optsMatch cfg.exclLibs c.db.opts o = true ∧ m = c.db.model := by
  unfold load at h
  split at h
  · cases h
  · rename_i c hc
    refine ⟨c, hc, ?_⟩
    split at h
    · cases h
    · rename_i h1
      split at h
      · split at h <;> cases h
      · rename_i h2
        split at h
        · cases h
        · rename_i h3
          split at h
          · cases h
          · rename_i h4
            injection h with h
            refine ⟨?_, ?_, ?_, ?_, h.symm⟩
            · intro hm f hf
              simp only [hm, Bool.true_and, List.any_eq_true, not_exists, not_and] at h1
              have := h1 f hf
              simpa using this
            · simpa using h2
            · simpa using h3
            · simpa using h4

theorem load_raised {cfg : Cfg M} {w : World M} {o : Opts} {e : Exc} (h : load cfg w o = .raised e) :
    ∃ n, convert (cfg.truncErr n) = none := by
  unfold load at h
  split at h
  · cases h
  · rename_i c hc
    split at h
    · cases h
    · split at h
      · split at h
        · cases h
        · rename_i hn
          exact ⟨_, hn⟩
      · split at h
        · cases h
        · split at h <;> cases h

theorem mem_writeFile (files : List SrcFile) (x : SrcFile) : x ∈ writeFile files x := by
  unfold writeFile
  split
  · rename_i h
    simp only [List.any_eq_true, beq_iff_eq] at h
    obtain ⟨y, hy, hp⟩ := h
    simp only [List.mem_map]
    exact ⟨y, hy, by simp [hp]⟩
  · simp

theorem stale_writeFile (c : CacheFile M) (files : List SrcFile) (x : SrcFile) (h : c.mtime < x.mtime) :
    stale c (writeFile files x) = true := by
  simp only [stale, List.any_eq_true, decide_eq_true_eq]
  exact ⟨x, mem_writeFile files x, h⟩

theorem srcs_congr (fs snap : Folder → List SrcFile) (o : Opts)
    (h : ∀ f ∈ folders o, fs f = snap f) : srcs fs o = srcs snap o := by
  unfold srcs
  apply List.map_congr_left
  intro f hf
  rw [h f hf]

/-- A cache hit returns the compile of the current sources. -/
theorem hit_correct {cfg : Cfg M} {L : List Folder} {w : World M} {o : Opts} {m : M}
    (hinv : FreshInv cfg L w) (hm : o.mtimeCheck = true) (hl : cfg.exclLibs = true → o.libs = L)
    (h : load cfg w o = .hit m) : m = compileNow cfg w o := by
  obtain ⟨c, hc, hst, hcomp, hv, hopts, rfl⟩ := load_hit h
  obtain ⟨hlibs, snap, hmodel, hsnap⟩ := hinv c hc hcomp
  have heq : c.db.opts = o := optsMatch_eq hopts (fun hx => by rw [hlibs hx, hl hx])
  rw [hmodel, heq, hv]
  unfold compileNow
  congr 1
  symm
  apply srcs_congr
  intro f hf
  exact hsnap f (heq ▸ hf) (hst hm f hf)

/-- The same when the source scan is switched off (`mtime_check = False`), provided no source
    in the folders of the call is newer than the cache (nothing was edited since). -/
theorem hit_correct_no_scan {cfg : Cfg M} {L : List Folder} {w : World M} {o : Opts} {m : M}
    (hinv : FreshInv cfg L w) (hl : cfg.exclLibs = true → o.libs = L)
    (hquiet : ∀ c, w.cache = some c → ∀ f ∈ folders o, stale c (w.fs f) = false)
    (h : load cfg w o = .hit m) : m = compileNow cfg w o := by
  obtain ⟨c, hc, _, hcomp, hv, hopts, rfl⟩ := load_hit h
  obtain ⟨hlibs, snap, hmodel, hsnap⟩ := hinv c hc hcomp
  have heq : c.db.opts = o := optsMatch_eq hopts (fun hx => by rw [hlibs hx, hl hx])
  rw [hmodel, heq, hv]
  unfold compileNow
  congr 1
  symm
  apply srcs_congr
  intro f hf
  exact hsnap f (heq ▸ hf) (hquiet c hc f hf)

theorem freshInv_newCache {cfg : Cfg M} {L : List Folder} {w : World M} {o : Opts} {now size k : Nat}
    (hl : cfg.exclLibs = true → o.libs = L) :
    FreshInv cfg L { w with cache := some { mtime := now, db := { version := w.version, opts := o, model := compileNow cfg w o }, size := size, written := k } } := by
  intro c hc _
  simp only [Option.some.injEq] at hc
  subst hc
  exact ⟨hl, w.fs, rfl, fun _ _ _ => rfl⟩

/-- One `transfer_model` call (possibly one whose `save_model` is interrupted): it does not
    raise, returns the compile of the current sources, and keeps the invariant. -/
theorem transfer_spec {cfg : Cfg M} {L : List Folder} {w : World M} (o : Opts) (now size : Nat)
    (intr : Interrupt) (hlaw : Lawful cfg) (hinv : FreshInv cfg L w)
    (hm : o.norm.mtimeCheck = true) (hl : cfg.exclLibs = true → o.libs = L) :
    Correct cfg w o (transfer cfg w o now size intr).2 ∧
      FreshInv cfg L (transfer cfg w o now size intr).1 := by
  unfold transfer Correct
  simp only
  split
  · exact ⟨rfl, hinv⟩
  · split
    · rename_i m hload
      refine ⟨?_, hinv⟩
      simp only [Outcome.model?]
      rw [hit_correct hinv hm (by simpa using hl) hload]
    · rename_i e hload
      obtain ⟨n, hn⟩ := load_raised hload
      have := hlaw n
      rw [hn] at this
      cases this
    · refine ⟨rfl, ?_⟩
      cases intr with
      | done => exact freshInv_newCache (by simpa using hl)
      | beforeOpen => exact hinv
      | after k => exact freshInv_newCache (by simpa using hl)

theorem truncate_complete {c : CacheFile M} {k t : Nat} (h : (truncateCache c k t).complete = true) :
    c.complete = true ∧ (truncateCache c k t).mtime = c.mtime ∧ (truncateCache c k t).db = c.db := by
  unfold truncateCache at *
  split
  · rename_i h1
    simp only [h1, if_true] at h
    refine ⟨h, ?_⟩
    simp
  · rename_i h1
    simp only [h1, if_false, CacheFile.complete, decide_eq_true_eq] at h
    simp only [CacheFile.complete, decide_eq_true_eq]
    refine ⟨by omega, ?_⟩
    simp [h]

theorem step_freshInv {cfg : Cfg M} {L : List Folder} {w : World M} (op : Op) (hlaw : Lawful cfg)
    (hinv : FreshInv cfg L w) (hok : OpOk cfg L w op) : FreshInv cfg L (step cfg w op).1 := by
  cases op with
  | write f p t ct =>
    intro c hc hcomp
    simp only [step] at hc
    obtain ⟨hlibs, snap, hmodel, hsnap⟩ := hinv c hc hcomp
    refine ⟨hlibs, snap, hmodel, ?_⟩
    intro g hg hst
    simp only [step] at hst ⊢
    by_cases hgf : g = f
    · simp only [hgf, if_true] at hst
      rw [stale_writeFile c (w.fs f) ⟨p, t, ct⟩ (hok c hc)] at hst
      cases hst
    · simp only [hgf, if_false] at hst ⊢
      exact hsnap g hg hst
  | setVersion v => exact hinv
  | transfer o now size => exact (transfer_spec o now size .done hlaw hinv hok.1 hok.2).2
  | crashedTransfer o now size i => exact (transfer_spec o now size i hlaw hinv hok.1 hok.2).2
  | truncate k t =>
    intro c hc hcomp
    simp only [step, Option.map_eq_some_iff] at hc
    obtain ⟨c0, hc0, rfl⟩ := hc
    obtain ⟨h0, hmt, hdb⟩ := truncate_complete hcomp
    obtain ⟨hlibs, snap, hmodel, hsnap⟩ := hinv c0 hc0 h0
    rw [hdb]
    refine ⟨hlibs, snap, hmodel, ?_⟩
    intro g hg hst
    apply hsnap g hg
    simpa [stale, hmt, step] using hst

/-- Every admissible history keeps the invariant and every transfer in it is correct. -/
theorem history_spec {cfg : Cfg M} {L : List Folder} (hlaw : Lawful cfg) :
    ∀ (hist : List Op) (w : World M), FreshInv cfg L w → Admissible cfg L w hist →
      AllCorrect cfg w hist ∧ FreshInv cfg L (run cfg w hist).1 := by
  intro hist
  induction hist with
  | nil => intro w hinv _; exact ⟨trivial, hinv⟩
  | cons op rest ih =>
    intro w hinv hadm
    obtain ⟨hok, hrest⟩ := hadm
    have hinv' := step_freshInv op hlaw hinv hok
    obtain ⟨hc, hi⟩ := ih _ hinv' hrest
    refine ⟨⟨?_, hc⟩, ?_⟩
    · cases op with
      | transfer o now size => exact (transfer_spec o now size .done hlaw hinv hok.1 hok.2).1
      | _ => trivial
    · simpa [run] using hi

end PymocaVerif.CacheState
