import numpy as np, casadi as ca, os, tempfile, shutil
from pymoca import parser
from pymoca.backends.casadi import generator as gen
from pymoca.backends.casadi.api import transfer_model
txt = """model M
 parameter Real p = 2; parameter Real q; parameter Integer n = 3; constant Real c = 4;
 Real x(min = p, max = 2*p + q, nominal = p*q, start = c); Integer k(min=1, max=n); Boolean b(start=true); 
 Real v[2](each min = q, max = {5, 3}); Real w[2,3](start = {{1,2,3},{4,5,6}}); Real y(fixed = true, start = 1.5);
 input Real u(fixed=true); parameter Real r = 2*p;
equation
 der(x) = u; k = 1; b = true; v = {1,2}*x; der(w) = zeros(2,3); y = 1;
end M;"""
d = tempfile.mkdtemp(); open(os.path.join(d,"M.mo"),"w").write(txt)
def show(m, tag):
    print("==", tag, type(m).__name__)
    for k in ["states","alg_states","inputs","parameters","constants"]:
        for v in getattr(m,k):
            print("  ", k, v.symbol.name(), v.symbol.shape, v.python_type.__name__, {a: (type(getattr(v,a)).__name__, str(getattr(v,a))[:30]) for a in ["value","start","min","max","nominal","fixed"]})
    f = m.variable_metadata_function
    pv = [float(i+2) for i in range(f.size1_in(0))]
    out = f(pv)
    if not isinstance(out,(list,tuple)): out=[out]
    for k,o in zip(["states","alg_states","inputs","parameters","constants"], out): print("  meta", k, str(np.array(o)).replace("\n",";"))
    print("  outputs", m.outputs, "delay", m.delay_states)
m1 = transfer_model(d, "M", {}); show(m1, "fresh")
m2 = transfer_model(d, "M", {"expand_vectors": True}); show(m2, "expand")
m3 = transfer_model(d, "M", {"cache": True}); m4 = transfer_model(d, "M", {"cache": True}); show(m4, "cached")
