"""Generator of small Modelica package libraries and of their splits into files with `within`
clauses (used by harness/props/c27.py).  Pure functions of a `random.Random`."""


REPEATED = [("Parts", ["Sensor", "Pipe"]), ("Interfaces", ["Port", "Flange"]), ("Types", ["Base", "Unit"])]


def gen_library(rng, max_depth=2, const_min_depth=0, repeated_names=False, import_prob=0.45):
    """Returns the list of top-level class nodes (packages at depth < const_min_depth get no
    constants, so that files can be cut out below them without meeting payload).  A node is a dict
    {"kind": "package"|"model", "name", "path": [..], "consts": [[name, value]], "imports": [..], "children": [..], "body": str}."""
    counter = {"P": 0, "M": 0, "k": 0, "W": 0}
    packages, models = [], []

    def fresh(p):
        counter[p] += 1
        return "%s%d" % (p, counter[p])

    def mk_package(path, depth):
        name = fresh("P")
        node = {"kind": "package", "name": name, "path": path + [name], "consts": [], "children": [], "body": "",
                "imports": [], "may_import": depth >= const_min_depth and rng.random() < import_prob}
        packages.append(node)
        if depth >= const_min_depth:
            for _ in range(rng.choice([0, 1, 1, 2])):
                node["consts"].append([fresh("k"), rng.randint(2, 9)])
        nkids = rng.choice([1, 2, 2, 3])
        for _ in range(nkids):
            if depth < max_depth and rng.random() < 0.4:
                node["children"].append(mk_package(node["path"], depth + 1))
            else:
                mname = fresh("M")
                m = {"kind": "model", "name": mname, "path": node["path"] + [mname], "consts": [], "children": [], "body": ""}
                models.append(m)
                node["children"].append(m)
        return node

    tops = [mk_package([], 0)]
    if rng.random() < 0.35 or repeated_names:
        tops.append(mk_package([], 0 if const_min_depth else 1))
    if repeated_names:
        # the same sub-package name with the same class names below two (or three) different packages, as libraries
        # repeat `Parts`, `Interfaces`, `Types` per domain: Hydro.Parts.Pipe and Thermo.Parts.Pipe
        pname, mnames = rng.choice(REPEATED)
        hosts = list(packages)
        rng.shuffle(hosts)
        for host in hosts[:rng.choice([2, 2, 3])]:
            sub = {"kind": "package", "name": pname, "path": host["path"] + [pname], "consts": [], "children": [], "body": "",
                   "repeated": True}
            if len(sub["path"]) - 1 >= const_min_depth and rng.random() < 0.5:
                sub["consts"].append([fresh("k"), rng.randint(2, 9)])
            packages.append(sub)
            prev = None
            for mn in mnames:
                m = {"kind": "model", "name": mn, "path": sub["path"] + [mn], "consts": [], "children": [], "body": "",
                     "repeated": True, "sibling": prev}
                prev = m
                models.append(m)
                sub["children"].append(m)
            host["children"].append(sub)
    # shadowing: sometimes an inner package re-declares a constant name of an enclosing one
    for p in packages:
        if len(p["path"]) >= 2 and rng.random() < 0.25:
            outer = [q for q in packages if q["path"] == p["path"][:len(q["path"])] and q is not p and q["consts"]]
            if outer:
                cname = rng.choice(rng.choice(outer)["consts"])[0]
                if cname not in [c[0] for c in p["consts"]]:
                    p["consts"].append([cname, rng.randint(11, 19)])

    def ref_to(target, scope):
        """A spelling of class/constant path `target` usable from inside package path `scope`."""
        common = 0
        while common < min(len(target) - 1, len(scope)) and target[common] == scope[common]:
            common += 1
        i = rng.choice(range(common + 1)) if rng.random() < 0.6 else 0
        return ".".join(target[i:])

    done = []
    for m in models:
        scope = m["path"][:-1]
        x = "x_" + m["name"]
        decls, eqs, terms = [], [], []
        if m.get("sibling") is not None:
            # a class of the same package used by its bare name: found through the parent reference only
            sib = m["sibling"]
            decls.append("%s s_%s;" % (sib["name"], m["name"]))
            terms.append("s_%s.x_%s" % (m["name"], sib["name"]))
        # visible constants: every constant of the library by some valid spelling
        consts = []
        for p in packages:
            for cname, _v in p["consts"]:
                consts.append(ref_to(p["path"] + [cname], scope))
        # package-level imports (qualified, renaming, unqualified) of an enclosing package, used by this model
        importers = [p for p in packages if p.get("may_import") and p["path"] == scope[:len(p["path"])]]
        # importable: defined outside the importing package and not in one of its enclosing packages (visible anyway)
        outside = lambda p: [d for d in done if not d.get("repeated") and d["path"][:len(p["path"])] != p["path"]
                             and d["path"][:-1] != p["path"][:len(d["path"]) - 1]]
        importers = [p for p in importers if outside(p)]
        imported_used = False
        if importers and rng.random() < 0.75:
            p = rng.choice(importers)
            t = rng.choice(outside(p))
            style = rng.choice(["qualified", "renaming", "unqualified"])
            if style == "qualified":
                clause, spelled = "import %s;" % ".".join(t["path"]), t["name"]
            elif style == "renaming":
                alias = fresh("W")
                clause, spelled = "import %s = %s;" % (alias, ".".join(t["path"][:-1])), alias + "." + t["name"]
            else:
                clause, spelled = "import %s.*;" % ".".join(t["path"][:-1]), t["name"]
            if clause not in p["imports"]:
                p["imports"].append(clause)
            if rng.random() < 0.5 and not m.get("repeated"):
                decls.append("extends %s;" % spelled)
                terms.append("x_" + t["name"])
                imported_used = True
            else:
                decls.append("%s i_%s;" % (spelled, m["name"]))
                terms.append("i_%s.x_%s" % (m["name"], t["name"]))
        if done and rng.random() < 0.45 and not m.get("repeated") and not imported_used:
            base = rng.choice(done)
            decls.append("extends %s;" % ref_to(base["path"], scope))
            terms.append("x_" + base["name"])
        if done and rng.random() < 0.45:
            comp = rng.choice(done)
            decls.append("%s c_%s;" % (ref_to(comp["path"], scope), m["name"]))
            terms.append("c_%s.x_%s" % (m["name"], comp["name"]))
        decls.append("Real %s;" % x)
        if consts and rng.random() < 0.6:
            decls.append("parameter Real p_%s = %s;" % (m["name"], rng.choice(consts)))
            terms.append("p_" + m["name"])
        rhs = [str(rng.randint(1, 5))]
        for _ in range(rng.choice([1, 2, 2, 3])):
            pool = terms + consts + consts
            if pool:
                rhs.append(rng.choice(pool))
        expr = rhs[0]
        for t in rhs[1:]:
            expr += rng.choice([" + ", " * ", " - "]) + t
        eqs.append("%s = %s;" % (x, expr))
        m["body"] = " ".join(decls) + " equation " + " ".join(eqs)
        done.append(m)
    return tops


def all_nodes(tops):
    out = []

    def walk(n):
        out.append(n)
        for c in n["children"]:
            walk(c)
    for t in tops:
        walk(t)
    return out


def render(node, cut=()):
    """Modelica text of a class, leaving out the descendants whose path is in `cut`."""
    cut = set(tuple(c) for c in cut)
    if node["kind"] == "model":
        return "model %s %s end %s;" % (node["name"], node["body"], node["name"])
    parts = ["package %s" % node["name"]]
    parts += node.get("imports", [])
    for cname, v in node["consts"]:
        parts.append("constant Real %s = %d;" % (cname, v))
    for c in node["children"]:
        if tuple(c["path"]) not in cut:
            parts.append(render(c, cut))
    parts.append("end %s;" % node["name"])
    return " ".join(parts)


def has_payload(node):
    return node["kind"] == "model" or bool(node["consts"]) or bool(node.get("imports"))


def split(rng, tops, nfiles, allow_payload_above_cut):
    """Split the library into `nfiles` files.  Returns (files, shadowing) where files is a list of
    {"within": [..], "roots": [paths], "text": str} and None when the request cannot be met.
    allow_payload_above_cut=False: no package on the `within` path of any file has constants
    (the main stream); True: at least one has (the input class of finding C27-F1)."""
    nodes = all_nodes(tops)
    cand = [n for n in nodes if len(n["path"]) >= 2]

    def above(n):
        return [q for q in nodes if q["kind"] == "package" and len(q["path"]) < len(n["path"])
                and q["path"] == n["path"][:len(q["path"])]]
    if allow_payload_above_cut:
        must = [n for n in cand if any(has_payload(q) for q in above(n))]
        if not must:
            return None
    else:
        cand = [n for n in cand if not any(has_payload(q) for q in above(n))]
        must = []
    ntop_extra = 0
    cuts = []
    want = nfiles - 1
    if len(tops) > 1 and rng.random() < 0.7:
        ntop_extra = 1           # the second top-level package gets its own file (no within clause)
        want -= 1
    if must and want > 0:
        # prefer a cut below a package that has import clauses (they are content like constants)
        imp = [n for n in must if any(q.get("imports") for q in above(n))]
        cuts.append(rng.choice(imp) if imp and rng.random() < 0.7 else rng.choice(must))
    pool = [n for n in cand if n not in cuts]
    rng.shuffle(pool)
    pool.sort(key=lambda n: 1 if n.get("repeated") and rng.random() < 0.8 else 0)   # popped from the end: prefer them
    while len(cuts) < want and pool:
        cuts.append(pool.pop())
    if len(cuts) < want or (allow_payload_above_cut and not cuts):
        return None
    cutpaths = [tuple(c["path"]) for c in cuts]
    files = []
    # group cut siblings into one file sometimes
    groups = []
    for c in cuts:
        placed = False
        if rng.random() < 0.3:
            for g in groups:
                if g[0]["path"][:-1] == c["path"][:-1]:
                    g.append(c)
                    placed = True
                    break
        if not placed:
            groups.append([c])
    for g in groups:
        within = g[0]["path"][:-1]
        text = "within %s; " % ".".join(within) + " ".join(render(c, cutpaths) for c in g)
        files.append({"within": within, "roots": [c["path"] for c in g], "text": text})
    if ntop_extra:
        files.append({"within": [], "roots": [tops[1]["path"]], "text": render(tops[1], cutpaths)})
        files.append({"within": [], "roots": [tops[0]["path"]], "text": render(tops[0], cutpaths)})
    else:
        files.append({"within": [], "roots": [t["path"] for t in tops],
                      "text": " ".join(render(t, cutpaths) for t in tops)})
    if len(files) < 2:
        return None
    rng.shuffle(files)
    return files


def unsplit_text(tops):
    return " ".join(render(t) for t in tops)
