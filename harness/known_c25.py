"""Predicates of the open C25 findings (ModelicaXML backend).  `case["facts"]` is computed by the check from the
flat AST of the case (harness/props/c25.py, check_case)."""
from harness.common import known_predicate


@known_predicate
def c25_elsewhen_dropped(case, what):
    return bool(case.get("facts", {}).get("elsewhen")) and \
        what.startswith("XML does not mirror the flat model: elsewhen branches")


@known_predicate
def c25_nonliteral_attribute_raises(case, what):
    f = case.get("facts", {})
    return bool(f.get("nonliteral_attr")) and not f.get("unsupported_node") and what.startswith(
        "generate() raises on a model whose flat AST holds only nodes the backend handles "
        "(start / value is not a plain literal)")

