import numpy as np, casadi as ca, logging
from pymoca import parser
from pymoca.backends.casadi import generator as gen
def g(txt, name="M", opts=None):
    t = parser.parse(txt, bypass_cache=True)
    m = gen.generate(t, name, opts)
    m.simplify(opts or {})
    return m
def show(m):
    for k in ["states","alg_states","inputs","parameters","constants"]:
        for v in getattr(m,k):
            print("  ", k, v.symbol.name(), v.python_type.__name__, "val",v.value,"start",repr(v.start),"min",v.min,"max",v.max,"nom",v.nominal,"fixed",v.fixed, "aliases", v.aliases)
    print("   eqs", m.equations, "alias", list(m.alias_relation))
txt = """model M
 Real x(min=-1, max=5, nominal=2); Real y(min=-3, max=4, nominal=10, start=7, fixed=true); Real z(min=0, max=2); Real w;
equation
 der(x) = 1; x = -y; y = z; w = 3;
end M;"""
m = g(txt, opts={"detect_aliases": True}); show(m)
txt = """model M
 Real a(start=1); Real b(start=2); Real c;
equation
 a = b; b = c; c = time;
end M;"""
m = g(txt, opts={"detect_aliases": True}); show(m)
txt = """model M
 Real a; Real b; Real c;
equation
 a = b; b = -a; c = a;
end M;"""
try:
    m = g(txt, opts={"detect_aliases": True}); show(m)
except Exception as e: print("EXC", type(e).__name__, e)
