import PymocaVerif.Model.FlattenSpec
/-! Lemmas relating the executable instantiation (`elemOf`, `membersF`, `memberEqsF`, `instF`)
    to the specification relations of `Model/FlattenSpec.lean`. -/
namespace PymocaVerif.Flatten

/-! ## `mapE`, `firstBad`, `dupName` -/

/-- pointwise relation of two lists of equal length -/
inductive All2 {α β : Type} (R : α → β → Prop) : List α → List β → Prop
  | nil : All2 R [] []
  | cons {a : α} {b : β} {as : List α} {bs : List β} : R a b → All2 R as bs → All2 R (a :: as) (b :: bs)

theorem mapE_forall2 {α β ε : Type} {f : α → Except ε β} {l : List α} {r : List β}
    (h : mapE f l = .ok r) : All2 (fun a b => f a = .ok b) l r := by
  induction l generalizing r with
  | nil => simp [mapE] at h; subst h; exact .nil
  | cons a as ih =>
    simp only [mapE] at h
    split at h
    · cases h
    · rename_i b hb
      split at h
      · cases h
      · rename_i bs hbs
        cases h
        exact .cons hb (ih hbs)

theorem mapE_mem_right {α β ε : Type} {f : α → Except ε β} {l : List α} {r : List β}
    (h : mapE f l = .ok r) {b : β} (hb : b ∈ r) : ∃ a ∈ l, f a = .ok b := by
  have := mapE_forall2 h
  induction this with
  | nil => cases hb
  | cons hab _ ih =>
    cases hb with
    | head => exact ⟨_, by simp, hab⟩
    | tail _ hb' =>
      obtain ⟨a, ha, hfa⟩ := ih (by assumption) hb'
      · exact ⟨a, by simp [ha], hfa⟩

theorem mapE_mem_left {α β ε : Type} {f : α → Except ε β} {l : List α} {r : List β}
    (h : mapE f l = .ok r) {a : α} (ha : a ∈ l) : ∃ b ∈ r, f a = .ok b := by
  have := mapE_forall2 h
  induction this with
  | nil => cases ha
  | cons hab _ ih =>
    cases ha with
    | head => exact ⟨_, by simp, hab⟩
    | tail _ ha' =>
      obtain ⟨b, hb, hfa⟩ := ih (by assumption) ha'
      · exact ⟨b, by simp [hb], hfa⟩

theorem firstBad_none {α : Type} {p : α → Bool} {l : List α} (h : firstBad p l = none) :
    ∀ a ∈ l, p a = false := by
  induction l with
  | nil => intro a ha; cases ha
  | cons x xs ih =>
    simp only [firstBad] at h
    split at h
    · cases h
    · intro a ha
      cases ha with
      | head => simpa using ‹¬ p x = true›
      | tail _ ha' => exact ih h a ha'

theorem dupName_none {l : List Name} (h : dupName l = none) : l.Nodup := by
  induction l with
  | nil => exact List.nodup_nil
  | cons x xs ih =>
    simp only [dupName] at h
    split at h
    · cases h
    · rename_i hx
      exact List.nodup_cons.mpr ⟨by simpa using hx, ih h⟩

end PymocaVerif.Flatten
