import PymocaVerif.Model.Simplify
/-!
# Simplify: solutions, the substitution lemma, what is assumed of the engine
Helper lemmas for C14/C15 (`Props/C14.lean`, `Props/C15.lean`).  Core Lean only; the field is
`Lean.Grind.Field`.
-/
set_option linter.unusedSectionVars false
set_option linter.unusedSimpArgs false
namespace PymocaVerif.Simplify
open PymocaVerif.AliasRel Lean.Grind

variable {K : Type} [Field K] [DecidableEq K]

abbrev Env (K : Type) := String → K

/-- environment in which the symbols bound by `l` take the value of their expressions -/
def upd (I : Interp K) (σ : Env K) (l : List (String × Ex K)) : Env K :=
  fun n => match l.lookup n with
    | some t => t.eval I σ
    | none => σ n

theorem eval_subst (I : Interp K) (σ : Env K) (l : List (String × Ex K)) (e : Ex K) :
    (e.subst l).eval I σ = e.eval I (upd I σ l) := by
  induction e with
  | sym n =>
    cases h : l.lookup n <;> simp [Ex.subst, Ex.eval, upd, h]
  | const c => simp [Ex.subst, Ex.eval]
  | un o a ih =>
    cases o <;> simp [Ex.subst, Ex.eval, ih]
  | bin o a b iha ihb =>
    cases o <;> simp [Ex.subst, Ex.eval, iha, ihb]

/-- every binding of `l` holds in `σ` -/
def HoldsL (I : Interp K) (σ : Env K) (l : List (String × Ex K)) : Prop :=
  ∀ p ∈ l, σ p.1 = p.2.eval I σ

theorem lookup_mem {α} (l : List (String × α)) (n : String) (t : α) (h : l.lookup n = some t) : (n, t) ∈ l := by
  induction l with
  | nil => simp [List.lookup] at h
  | cons p ps ih =>
    obtain ⟨k, v⟩ := p
    simp only [List.lookup] at h
    split at h
    · rename_i heq
      simp at h; subst h
      have : n = k := by simpa using heq
      subst this; simp
    · exact List.mem_cons_of_mem _ (ih h)

theorem upd_of_holds (I : Interp K) (σ : Env K) (l : List (String × Ex K)) (h : HoldsL I σ l) :
    upd I σ l = σ := by
  funext n
  unfold upd
  cases hl : l.lookup n with
  | none => rfl
  | some t => exact (h (n, t) (lookup_mem l n t hl)).symm

theorem eval_subst_of_holds (I : Interp K) (σ : Env K) (l : List (String × Ex K)) (h : HoldsL I σ l) (e : Ex K) :
    (e.subst l).eval I σ = e.eval I σ := by
  rw [eval_subst, upd_of_holds I σ l h]

/-! ## what a solution is -/

/-- all equations of a list hold in `σ` -/
def EqOk (I : Interp K) (σ : Env K) (es : List (Ex K)) : Prop := ∀ e ∈ es, e.eval I σ = 0

/-- parameters / constants are fixed at their values (`none` = no value, not constrained) -/
def ValOk (I : Interp K) (σ : Env K) (vs : List (Var K)) : Prop :=
  ∀ v ∈ vs, ∀ t, v.value = some t → σ v.name = t.eval I σ

/-- value of a signed name -/
def sval (σ : Env K) (a : SName) : K := if a.1 then - σ a.2 else σ a.2

/-- every fact stored in the alias relation holds: members of a stored set are equal (with their
    signs), and a name equals its recorded canonical variable with the recorded sign -/
def AliasOk (σ : Env K) (ar : AR) : Prop :=
  (∀ x A, ar.al x = some A → ∀ y ∈ A, sval σ y = sval σ x) ∧
  (∀ x c, ar.cmap x = some c → sval σ x = sval σ (c.2, c.1))

/-- `σ` solves the model: its equations hold, parameters and constants (including the recorded
    constant assignments) have their values, the recorded aliases hold -/
structure Sat (I : Interp K) (σ : Env K) (m : Model K) : Prop where
  eqs : EqOk I σ m.eqs
  params : ValOk I σ m.params
  consts : ValOk I σ m.consts
  alias : AliasOk σ m.ar

/-- the assumptions on what is observed of CasADi -/
structure EngineOk (I : Interp K) (E : Engine K) : Prop where
  norm_eval : ∀ σ e, (E.norm e).eval I σ = e.eval I σ
  norm_syms : ∀ e n, n ∈ (E.norm e).syms → n ∈ e.syms
  view_eval : ∀ i σ e, (E.view i e).eval I σ = e.eval I σ

theorem sub_eval {I : Interp K} {E : Engine K} (hE : EngineOk I E) {σ : Env K} {l : List (String × Ex K)}
    (h : HoldsL I σ l) (e : Ex K) : (E.sub l e).eval I σ = e.eval I σ := by
  unfold Engine.sub
  rw [hE.norm_eval, eval_subst_of_holds I σ l h]

theorem eqok_map {I : Interp K} {σ : Env K} {f : Ex K → Ex K} (hf : ∀ e, (f e).eval I σ = e.eval I σ)
    {es : List (Ex K)} : EqOk I σ (es.map f) ↔ EqOk I σ es := by
  unfold EqOk
  constructor
  · intro h e he
    rw [← hf e]; exact h _ (List.mem_map_of_mem he)
  · intro h e he
    obtain ⟨e0, he0, rfl⟩ := List.mem_map.1 he
    rw [hf e0]; exact h _ he0

theorem valok_map {I : Interp K} {σ : Env K} {f : Ex K → Ex K} (hf : ∀ e, (f e).eval I σ = e.eval I σ)
    {vs : List (Var K)} : ValOk I σ (vs.map (Var.mapValue f)) ↔ ValOk I σ vs := by
  unfold ValOk
  constructor
  · intro h v hv t ht
    have := h (Var.mapValue f v) (List.mem_map_of_mem hv) (f t) (by simp [Var.mapValue, ht])
    simpa [Var.mapValue, hf] using this
  · intro h v hv t ht
    obtain ⟨v0, hv0, rfl⟩ := List.mem_map.1 hv
    simp only [Var.mapValue, Option.map_eq_some_iff] at ht
    obtain ⟨t0, ht0, rfl⟩ := ht
    simpa [Var.mapValue, hf] using h v0 hv0 t0 ht0

theorem valok_filter {I : Interp K} {σ : Env K} {vs : List (Var K)} (p : Var K → Bool) (h : ValOk I σ vs) :
    ValOk I σ (vs.filter p) := fun v hv => h v (List.mem_filter.1 hv).1

theorem valok_append {I : Interp K} {σ : Env K} {vs ws : List (Var K)} :
    ValOk I σ (vs ++ ws) ↔ ValOk I σ vs ∧ ValOk I σ ws := by
  unfold ValOk
  constructor
  · intro h; exact ⟨fun v hv => h v (List.mem_append_left _ hv), fun v hv => h v (List.mem_append_right _ hv)⟩
  · rintro ⟨h1, h2⟩ v hv
    rcases List.mem_append.1 hv with h | h
    · exact h1 v h
    · exact h2 v h

/-- `_substitute_metadata` with bindings that hold does not change what the values say -/
theorem sat_substMeta {I : Interp K} {E : Engine K} (hE : EngineOk I E) {σ : Env K} {l : List (String × Ex K)}
    (hl : HoldsL I σ l) (m : Model K) : Sat I σ (substMeta E l m) ↔ Sat I σ m := by
  have hf := fun e => sub_eval hE hl e
  constructor
  · intro h
    exact ⟨h.eqs, (valok_map hf).1 h.params, (valok_map hf).1 h.consts, h.alias⟩
  · intro h
    exact ⟨h.eqs, (valok_map hf).2 h.params, (valok_map hf).2 h.consts, h.alias⟩

/-! ## the alias relation: stored facts stay true -/

theorem sval_tog (σ : Env K) (x : SName) : sval σ (tog x) = - sval σ x := by
  obtain ⟨s, n⟩ := x
  cases s <;> simp [sval, tog] <;> grind

theorem aliases_sval {σ : Env K} {s : AR} (h : AliasOk σ s) {x y : SName} (hy : y ∈ s.aliases x) :
    sval σ y = sval σ x := by
  unfold AR.aliases at hy
  cases hx : s.al x with
  | none => simp [hx] at hy; rw [hy]
  | some A => simp [hx] at hy; exact h.1 x A hx y hy

theorem canonical_sval {σ : Env K} {s : AR} (h : AliasOk σ s) (x : SName) :
    sval σ x = sval σ ((s.canonicalSigned x).2, (s.canonicalSigned x).1) := by
  unfold AR.canonicalSigned
  cases hx : s.cmap x with
  | none => simp
  | some c => simpa using h.2 x c hx

/-- adding a pair that is equal in `σ` keeps every stored fact true -/
theorem add_aliasOk {σ : Env K} {s s' : AR} {a b : SName} (h : AliasOk σ s) (hab : sval σ a = sval σ b)
    (hs : s.add a b = some s') : AliasOk σ s' := by
  unfold AR.add at hs
  simp only at hs
  split at hs
  · split at hs
    · simp at hs; subst hs; exact h
    · simp at hs
  · simp only [Option.some.injEq] at hs
    subst hs
    have hA : ∀ y, y ∈ s.aliases a ++ s.aliases b → sval σ y = sval σ a := by
      intro y hy
      rcases List.mem_append.1 hy with hy | hy
      · exact aliases_sval h hy
      · rw [aliases_sval h hy, hab]
    have hI : ∀ y, y ∈ s.aliases (tog a) ++ s.aliases (tog b) → sval σ y = - sval σ a := by
      intro y hy
      rcases List.mem_append.1 hy with hy | hy
      · rw [aliases_sval h hy, sval_tog]
      · rw [aliases_sval h hy, sval_tog, hab]
    constructor
    · intro x A hx y hy
      simp only at hx
      split at hx
      · rename_i hxA
        simp at hx; subst hx
        rw [hA y hy, hA x hxA]
      · split at hx
        · rename_i hxA
          simp at hx; subst hx
          have := hA _ hxA
          rw [sval_tog] at this
          rw [hI y hy]; grind
        · exact h.1 x A hx y hy
    · intro x c hx
      simp only at hx
      have hca := canonical_sval h a
      split at hx
      · rename_i hxA
        simp at hx; subst hx
        have := hA _ hxA
        rw [sval_tog] at this
        simp only [flipIf, Bool.true_xor]
        have e : sval σ (!(s.canonicalSigned a).2, (s.canonicalSigned a).1) = - sval σ ((s.canonicalSigned a).2, (s.canonicalSigned a).1) := by
          have := sval_tog σ ((s.canonicalSigned a).2, (s.canonicalSigned a).1)
          simpa [tog] using this
        rw [e, ← hca]; grind
      · split at hx
        · rename_i hxA
          simp at hx; subst hx
          rw [hA x hxA, hca]
        · exact h.2 x c hx

theorem remove_aliasOk {σ : Env K} {s s' : AR} {a : SName} (h : AliasOk σ s) (hs : s.remove a = some s') :
    AliasOk σ s' := by
  unfold AR.remove at hs
  split at hs
  · simp at hs; subst hs; exact h
  · split at hs
    · simp only at hs
      split at hs
      · simp at hs; subst hs
        constructor
        · intro x A hx y hy
          simp only at hx
          split at hx
          · simp at hx
          · exact h.1 x A hx y hy
        · intro x c hx
          simp only at hx
          split at hx
          · simp at hx
          · exact h.2 x c hx
      · simp at hs
    · simp at hs

theorem removeAliased_aliasOk {σ : Env K} : ∀ {vs : List (Var K)} {s s' : AR}, AliasOk σ s →
    removeAliased vs s = .ok s' → AliasOk σ s'
  | [], s, s', h, hs => by simp [removeAliased] at hs; subst hs; exact h
  | v :: vs, s, s', h, hs => by
    simp only [removeAliased] at hs
    split at hs
    · split at hs
      · rename_i ar' har
        exact removeAliased_aliasOk (remove_aliasOk h har) hs
      · simp at hs
    · exact removeAliased_aliasOk h hs


end PymocaVerif.Simplify
