/-! Driver for C07 (stub: not built yet). -/
def main : IO Unit := pure ()
