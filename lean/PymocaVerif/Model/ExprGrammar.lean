/-!
# Model of pymoca's expression parser (C03; reused by C24)

* `Tok`, `E` — tokens and expression trees of the single-expression fragment of `Modelica.g4`
  (rules `expression`, `expr`, `primary`, `function_call_args`), with explicit `paren` nodes for
  parentheses written in the source.
* `parseX / parseE / parsePrefix / parsePrimary / parseLoop / parseEls / parseArgs` — ANTLR 4's rewrite of the
  left-recursive rule `expr` as the generated `ModelicaParser.expr(_p)` executes it: a prefix part
  (`expr_signed`, `expr_exp`, `expr_not`, `expr_primary`) followed by a loop guarded by
  `precpred(level)` whose right operand is `expr(rhs level)`.  The levels come from a table `Tbl`
  (`Generated/ExprTable.lean` is the one extracted from the generated parser).
  The trees are the ones `parser.ASTListener` builds: operands in source order, a parenthesised
  single expression collapsed to the expression itself.
* `pr` — minimal-parenthesis printer relative to a table; `mpr` — printer following the Modelica
  specification's own grammar (B.2.7: `logical_expression` … `primary`), where a unary sign belongs to
  `arithmetic_expression`; `conv` — the tree pymoca builds for `mpr m e` (a leading sign sits on the first
  factor of the term: `-a*b` is `(-a)*b`); `strip` removes `paren` nodes.
* `eval` — value of a tree in an arbitrary interpretation of the operator symbols.
* number literals: `litValue` (exact rational of a decimal / scientific lexeme and whether Python's `int()` accepts it).

Core Lean only.
-/

namespace PymocaVerif.ExprGrammar

/-- binary operators of the loop alternatives of `expr` -/
inductive BOp where
  | mul | div | emul | ediv | add | sub | eadd | esub | lt | le | gt | ge | eq | ne | and | or
deriving DecidableEq, Repr, Inhabited

/-- prefix alternatives `expr_signed`, `expr_not` -/
inductive POp where
  | pos | neg | not
deriving DecidableEq, Repr, Inhabited

/-- `expr_exp : primary op=('^' | '.^') primary` -/
inductive WOp where
  | pow | epow
deriving DecidableEq, Repr, Inhabited

/-- operator lexemes (`+` and `-` are both binary and prefix) -/
inductive Sym where
  | plus | minus | star | slash | dplus | dminus | dstar | dslash | caret | dcaret
  | lt | le | gt | ge | eq | ne | not | and | or
deriving DecidableEq, Repr, Inhabited

def Sym.bin? : Sym → Option BOp
  | .plus => some .add | .minus => some .sub | .star => some .mul | .slash => some .div
  | .dplus => some .eadd | .dminus => some .esub | .dstar => some .emul | .dslash => some .ediv
  | .lt => some .lt | .le => some .le | .gt => some .gt | .ge => some .ge | .eq => some .eq | .ne => some .ne
  | .and => some .and | .or => some .or
  | .caret => none | .dcaret => none | .not => none

def Sym.pre? : Sym → Option POp
  | .plus => some .pos | .minus => some .neg | .not => some .not
  | _ => none

def Sym.pow? : Sym → Option WOp
  | .caret => some .pow | .dcaret => some .epow
  | _ => none

def BOp.sym : BOp → Sym
  | .add => .plus | .sub => .minus | .mul => .star | .div => .slash
  | .eadd => .dplus | .esub => .dminus | .emul => .dstar | .ediv => .dslash
  | .lt => .lt | .le => .le | .gt => .gt | .ge => .ge | .eq => .eq | .ne => .ne
  | .and => .and | .or => .or

def POp.sym : POp → Sym
  | .pos => .plus | .neg => .minus | .not => .not

def WOp.sym : WOp → Sym
  | .pow => .caret | .epow => .dcaret

/-- source lexeme of an operator symbol (what `ctx.op.text` gives the listener) -/
def Sym.lexeme : Sym → String
  | .plus => "+" | .minus => "-" | .star => "*" | .slash => "/"
  | .dplus => ".+" | .dminus => ".-" | .dstar => ".*" | .dslash => "./"
  | .caret => "^" | .dcaret => ".^"
  | .lt => "<" | .le => "<=" | .gt => ">" | .ge => ">=" | .eq => "==" | .ne => "<>"
  | .not => "not" | .and => "and" | .or => "or"

def Sym.all : List Sym :=
  [.plus, .minus, .star, .slash, .dplus, .dminus, .dstar, .dslash, .caret, .dcaret,
   .lt, .le, .gt, .ge, .eq, .ne, .not, .and, .or]

def Sym.ofLexeme? (s : String) : Option Sym := Sym.all.find? (fun y => y.lexeme == s)

/-- primaries without structure: literals (by lexeme / value) and component references (opaque text) -/
inductive Atom where
  | num (lexeme : String)
  | str (s : String)
  | bool (b : Bool)
  | ref (name : String)
deriving DecidableEq, Repr, Inhabited

inductive Tok where
  | atom (a : Atom)
  | op (s : Sym)
  | lp | rp | comma
  | kif | kthen | kelseif | kelse
deriving DecidableEq, Repr, Inhabited

mutual
/-- expression trees; `paren` records parentheses written in the source -/
inductive E where
  | atom (a : Atom)
  | bin (o : BOp) (l r : E)
  | pre (q : POp) (e : E)
  | pow (w : WOp) (a b : E)
  | paren (e : E)
  | ite (c t : E) (r : Els)
  | call (f : String) (args : Args)
/-- the `elseif … then …`* `else …` tail of an if-expression -/
inductive Els where
  | els (e : E)
  | elif (c t : E) (r : Els)
/-- positional call arguments -/
inductive Args where
  | nil
  | cons (e : E) (rest : Args)
end

instance : Inhabited E := ⟨.atom default⟩

/-- The precedence table of the generated parser: for each binary alternative the `precpred` level and the
level of the recursive call for the right operand; for each prefix alternative the level of its operand. -/
structure Tbl where
  lvl : BOp → Nat
  rl : BOp → Nat
  plvl : POp → Nat

/-! ## The parser (fuel = recursion depth budget; `none` = syntax error or fuel exhausted) -/

section parser
variable (T : Tbl)

mutual
/-- rule `primary` (alternatives used: literals, component reference, call, parenthesised single expression) -/
def parsePrimary : Nat → List Tok → Option (E × List Tok)
  | 0, _ => none
  | f+1, ts =>
    match ts with
    | Tok.atom a :: r =>
      match a, r with
      | Atom.ref n, Tok.lp :: Tok.rp :: r' => some (E.call n Args.nil, r')
      | Atom.ref n, Tok.lp :: r' =>
        match parseArgs f r' with
        | some (as, r'') => some (E.call n as, r'')
        | none => none
      | _, _ => some (E.atom a, r)
    | Tok.lp :: r =>
      match parseX f r with
      | some (e, Tok.rp :: r') => some (e, r')
      | _ => none
    | _ => none
/-- the non-left-recursive alternatives of `expr`: `expr_signed`, `expr_not`, `expr_exp`, `expr_primary` -/
def parsePrefix : Nat → List Tok → Option (E × List Tok)
  | 0, _ => none
  | f+1, ts =>
    match ts with
    | Tok.op s :: r =>
      match s.pre? with
      | some q =>
        match parseE f (T.plvl q) r with
        | some (e, r') => some (E.pre q e, r')
        | none => none
      | none => none
    | _ =>
      match parsePrimary f ts with
      | some (a, Tok.op s :: r) =>
        match s.pow? with
        | some w =>
          match parsePrimary f r with
          | some (b, r') => some (E.pow w a b, r')
          | none => none
        | none => some (a, Tok.op s :: r)
      | some (a, r) => some (a, r)
      | none => none
/-- `expr(_p)` -/
def parseE : Nat → Nat → List Tok → Option (E × List Tok)
  | 0, _, _ => none
  | f+1, p, ts =>
    match parsePrefix f ts with
    | some (l, r) => parseLoop f p l r
    | none => none
/-- the `while` loop of `expr(_p)`: `l` is the tree built so far -/
def parseLoop : Nat → Nat → E → List Tok → Option (E × List Tok)
  | 0, _, _, _ => none
  | f+1, p, l, ts =>
    match ts with
    | Tok.op s :: r =>
      match s.bin? with
      | some o =>
        if p ≤ T.lvl o then
          match parseE f (T.rl o) r with
          | some (rt, r') => parseLoop f p (E.bin o l rt) r'
          | none => none
        else some (l, ts)
      | none => some (l, ts)
    | _ => some (l, ts)
/-- rule `expression` (without `a:b:c`) -/
def parseX : Nat → List Tok → Option (E × List Tok)
  | 0, _ => none
  | f+1, ts =>
    match ts with
    | Tok.kif :: r =>
      match parseX f r with
      | some (c, Tok.kthen :: r1) =>
        match parseX f r1 with
        | some (t, r2) =>
          match parseEls f r2 with
          | some (el, r3) => some (E.ite c t el, r3)
          | none => none
        | none => none
      | _ => none
    | _ => parseE f 0 ts
def parseEls : Nat → List Tok → Option (Els × List Tok)
  | 0, _ => none
  | f+1, ts =>
    match ts with
    | Tok.kelse :: r =>
      match parseX f r with
      | some (e, r') => some (Els.els e, r')
      | none => none
    | Tok.kelseif :: r =>
      match parseX f r with
      | some (c, Tok.kthen :: r1) =>
        match parseX f r1 with
        | some (t, r2) =>
          match parseEls f r2 with
          | some (el, r3) => some (Els.elif c t el, r3)
          | none => none
        | none => none
      | _ => none
    | _ => none
/-- `expression (',' expression)* ')'` -/
def parseArgs : Nat → List Tok → Option (Args × List Tok)
  | 0, _ => none
  | f+1, ts =>
    match parseX f ts with
    | some (e, Tok.comma :: r) =>
      match parseArgs f r with
      | some (as, r') => some (Args.cons e as, r')
      | none => none
    | some (e, Tok.rp :: r) => some (Args.cons e Args.nil, r)
    | _ => none
end

/-- a whole right-hand side: all tokens must be consumed -/
def parseTop (fuel : Nat) (ts : List Tok) : Option E :=
  match parseX T fuel ts with
  | some (e, []) => some e
  | _ => none

end parser

/-! ## Trees the listener builds: no `paren` nodes -/

mutual
def strip : E → E
  | .atom a => .atom a
  | .bin o l r => .bin o (strip l) (strip r)
  | .pre q e => .pre q (strip e)
  | .pow w a b => .pow w (strip a) (strip b)
  | .paren e => strip e
  | .ite c t r => .ite (strip c) (strip t) (stripEls r)
  | .call f as => .call f (stripArgs as)
def stripEls : Els → Els
  | .els e => .els (strip e)
  | .elif c t r => .elif (strip c) (strip t) (stripEls r)
def stripArgs : Args → Args
  | .nil => .nil
  | .cons e r => .cons (strip e) (stripArgs r)
end

mutual
/-- no `paren` node anywhere -/
def noParen : E → Bool
  | .atom _ => true
  | .bin _ l r => noParen l && noParen r
  | .pre _ e => noParen e
  | .pow _ a b => noParen a && noParen b
  | .paren _ => false
  | .ite c t r => noParen c && noParen t && noParenEls r
  | .call _ as => noParenArgs as
def noParenEls : Els → Bool
  | .els e => noParen e
  | .elif c t r => noParen c && noParen t && noParenEls r
def noParenArgs : Args → Bool
  | .nil => true
  | .cons e r => noParen e && noParenArgs r
end

def E.isPrimary : E → Bool
  | .atom _ => true
  | .paren _ => true
  | .call _ _ => true
  | _ => false

/-! ## Printer relative to a table (`p = 0`: an `expression` position, where `if` needs no parentheses) -/

section printer
variable (T : Tbl)

mutual
def pr : Nat → E → List Tok
  | _, .atom a => [Tok.atom a]
  | p, .bin o l r =>
    if p ≤ T.lvl o then pr (T.lvl o) l ++ Tok.op o.sym :: pr (T.rl o) r
    else Tok.lp :: (pr (T.lvl o) l ++ Tok.op o.sym :: pr (T.rl o) r) ++ [Tok.rp]
  | p, .pre q e =>
    if p ≤ T.plvl q then Tok.op q.sym :: pr (T.plvl q) e
    else Tok.lp :: (Tok.op q.sym :: pr (T.plvl q) e) ++ [Tok.rp]
  | _, .pow w a b =>
    (if a.isPrimary then pr 0 a else Tok.lp :: pr 0 a ++ [Tok.rp]) ++
      Tok.op w.sym :: (if b.isPrimary then pr 0 b else Tok.lp :: pr 0 b ++ [Tok.rp])
  | _, .paren e => Tok.lp :: pr 0 e ++ [Tok.rp]
  | p, .ite c t r =>
    if p = 0 then Tok.kif :: (pr 0 c ++ Tok.kthen :: (pr 0 t ++ prEls r))
    else Tok.lp :: (Tok.kif :: (pr 0 c ++ Tok.kthen :: (pr 0 t ++ prEls r))) ++ [Tok.rp]
  | _, .call f as => Tok.atom (Atom.ref f) :: Tok.lp :: prArgs as
def prEls : Els → List Tok
  | .els e => Tok.kelse :: pr 0 e
  | .elif c t r => Tok.kelseif :: (pr 0 c ++ Tok.kthen :: (pr 0 t ++ prEls r))
/-- arguments *and* the closing parenthesis -/
def prArgs : Args → List Tok
  | .nil => [Tok.rp]
  | .cons e .nil => pr 0 e ++ [Tok.rp]
  | .cons e (.cons e' r) => pr 0 e ++ Tok.comma :: prArgs (.cons e' r)
end

end printer

/-! ## The Modelica printer (specification grammar)

Levels: 0 `expression`, 1 `logical_expression`, 2 `logical_term`, 3 `logical_factor`, 4 `relation`,
5 `arithmetic_expression`, 6 `term`, 7 `factor`, 8 `primary`. -/

/-- (node level, level required of the left operand, of the right operand) -/
def BOp.mlv : BOp → Nat × Nat × Nat
  | .or => (1, 1, 2)
  | .and => (2, 2, 3)
  | .lt | .le | .gt | .ge | .eq | .ne => (4, 5, 5)
  | .add | .sub | .eadd | .esub => (5, 5, 6)
  | .mul | .div | .emul | .ediv => (6, 6, 7)

/-- (node level, level required of the operand): `[not] relation`, `[add_op] term` -/
def POp.mlv : POp → Nat × Nat
  | .not => (3, 4)
  | .pos | .neg => (5, 6)

def E.mlevel : E → Nat
  | .bin o _ _ => o.mlv.1
  | .pre q _ => q.mlv.1
  | .pow _ _ _ => 7
  | .ite _ _ _ => 0
  | _ => 8

mutual
def mpr : Nat → E → List Tok
  | _, .atom a => [Tok.atom a]
  | m, .bin o l r =>
    if m ≤ o.mlv.1 then mpr o.mlv.2.1 l ++ Tok.op o.sym :: mpr o.mlv.2.2 r
    else Tok.lp :: (mpr o.mlv.2.1 l ++ Tok.op o.sym :: mpr o.mlv.2.2 r) ++ [Tok.rp]
  | m, .pre q e =>
    if m ≤ q.mlv.1 then Tok.op q.sym :: mpr q.mlv.2 e
    else Tok.lp :: (Tok.op q.sym :: mpr q.mlv.2 e) ++ [Tok.rp]
  | m, .pow w a b =>
    if m ≤ 7 then mpr 8 a ++ Tok.op w.sym :: mpr 8 b
    else Tok.lp :: (mpr 8 a ++ Tok.op w.sym :: mpr 8 b) ++ [Tok.rp]
  | _, .paren e => Tok.lp :: mpr 0 e ++ [Tok.rp]
  | m, .ite c t r =>
    if m = 0 then Tok.kif :: (mpr 0 c ++ Tok.kthen :: (mpr 0 t ++ mprEls r))
    else Tok.lp :: (Tok.kif :: (mpr 0 c ++ Tok.kthen :: (mpr 0 t ++ mprEls r))) ++ [Tok.rp]
  | _, .call f as => Tok.atom (Atom.ref f) :: Tok.lp :: mprArgs as
def mprEls : Els → List Tok
  | .els e => Tok.kelse :: mpr 0 e
  | .elif c t r => Tok.kelseif :: (mpr 0 c ++ Tok.kthen :: (mpr 0 t ++ mprEls r))
def mprArgs : Args → List Tok
  | .nil => [Tok.rp]
  | .cons e .nil => mpr 0 e ++ [Tok.rp]
  | .cons e (.cons e' r) => mpr 0 e ++ Tok.comma :: mprArgs (.cons e' r)
end

/-- Modelica text of a tree -/
def mprint (e : E) : List Tok := mpr 0 e

/-- is this a multiplication-level operator (`mul_op`)? -/
def BOp.isMul : BOp → Bool
  | .mul | .div | .emul | .ediv => true
  | _ => false

/-- `s t` as pymoca groups it when `t` is printed as a Modelica `term`: the sign goes to the first factor -/
def pushSign (s : POp) : E → E
  | .bin o l r => if o.isMul then .bin o (pushSign s l) r else .pre s (.bin o l r)
  | e => .pre s e

mutual
/-- The tree (with the parentheses the Modelica printer adds made explicit as `paren` nodes) that the
table-driven parser rebuilds from `mpr m e`. -/
def conv : Nat → E → E
  | _, .atom a => .atom a
  | m, .bin o l r =>
    if m ≤ o.mlv.1 then .bin o (conv o.mlv.2.1 l) (conv o.mlv.2.2 r)
    else .paren (.bin o (conv o.mlv.2.1 l) (conv o.mlv.2.2 r))
  | m, .pre q e =>
    match q with
    | .not => if m ≤ 3 then .pre .not (conv 4 e) else .paren (.pre .not (conv 4 e))
    | s => if m ≤ 5 then pushSign s (conv 6 e) else .paren (pushSign s (conv 6 e))
  | m, .pow w a b =>
    if m ≤ 7 then .pow w (conv 8 a) (conv 8 b) else .paren (.pow w (conv 8 a) (conv 8 b))
  | _, .paren e => .paren (conv 0 e)
  | m, .ite c t r =>
    if m = 0 then .ite (conv 0 c) (conv 0 t) (convEls r) else .paren (.ite (conv 0 c) (conv 0 t) (convEls r))
  | _, .call f as => .call f (convArgs as)
def convEls : Els → Els
  | .els e => .els (conv 0 e)
  | .elif c t r => .elif (conv 0 c) (conv 0 t) (convEls r)
def convArgs : Args → Args
  | .nil => .nil
  | .cons e r => .cons (conv 0 e) (convArgs r)
end

/-- the AST pymoca is expected to build for the Modelica text of `e` -/
def expected (e : E) : E := strip (conv 0 e)

/-! ## Values -/

/-- an interpretation of atoms and operator symbols over a carrier `V` -/
structure Interp (V : Type) where
  atom : Atom → V
  bin : BOp → V → V → V
  pre : POp → V → V
  pow : WOp → V → V → V
  ite : V → V → V → V
  call : String → List V → V

mutual
def eval {V : Type} (I : Interp V) : E → V
  | .atom a => I.atom a
  | .bin o l r => I.bin o (eval I l) (eval I r)
  | .pre q e => I.pre q (eval I e)
  | .pow w a b => I.pow w (eval I a) (eval I b)
  | .paren e => eval I e
  | .ite c t r => I.ite (eval I c) (eval I t) (evalEls I r)
  | .call f as => I.call f (evalArgs I as)
def evalEls {V : Type} (I : Interp V) : Els → V
  | .els e => eval I e
  | .elif c t r => I.ite (eval I c) (eval I t) (evalEls I r)
def evalArgs {V : Type} (I : Interp V) : Args → List V
  | .nil => []
  | .cons e r => eval I e :: evalArgs I r
end

/-- what the proof of value preservation needs of an interpretation: a sign moves out of a product / quotient -/
def Interp.SignLaw {V : Type} (I : Interp V) : Prop :=
  ∀ (s : POp) (o : BOp) (a b : V), s ≠ POp.not → o.isMul = true → I.bin o (I.pre s a) b = I.pre s (I.bin o a b)

/-! ## The table the theorems are about (levels of the generated parser on the current tree) -/

def modelicaTbl : Tbl where
  lvl
    | .mul | .div | .emul | .ediv => 7
    | .add | .sub | .eadd | .esub => 6
    | .lt | .le | .gt | .ge | .eq | .ne => 5
    | .and => 3
    | .or => 2
  rl
    | .mul | .div | .emul | .ediv => 8
    | .add | .sub | .eadd | .esub => 7
    | .lt | .le | .gt | .ge | .eq | .ne => 6
    | .and => 4
    | .or => 3
  plvl
    | .pos | .neg => 9
    | .not => 4

inductive Kind where
  | bin | pow | pre
deriving DecidableEq, Repr, Inhabited

/-- A table as data: per operator lexeme `(symbol, kind, level, operand level)`: for `bin` the `precpred` level
and the level of the recursive call for the right operand, for `pre` level 0 and the level of the operand, for
`pow` 0 and 0.  This is the shape the translator emits (`Generated/ExprTable.lean`), sorted by kind, then lexeme. -/
abbrev TblData := List (Sym × Kind × Nat × Nat)

def TblData.find (d : TblData) (s : Sym) (k : Kind) : Option (Nat × Nat) :=
  match d.find? (fun r => r.1 == s && r.2.1 == k) with
  | some r => some r.2.2
  | none => none

def Tbl.ofData (d : TblData) : Tbl where
  lvl o := ((d.find o.sym .bin).getD (0, 0)).1
  rl o := ((d.find o.sym .bin).getD (0, 0)).2
  plvl q := ((d.find q.sym .pre).getD (0, 0)).2

/-- the data form of `modelicaTbl` -/
def modelicaData : TblData :=
  [(.star, .bin, 7, 8), (.plus, .bin, 6, 7), (.minus, .bin, 6, 7),
   (.dstar, .bin, 7, 8), (.dplus, .bin, 6, 7), (.dminus, .bin, 6, 7), (.dslash, .bin, 7, 8),
   (.slash, .bin, 7, 8),
   (.lt, .bin, 5, 6), (.le, .bin, 5, 6), (.ne, .bin, 5, 6), (.eq, .bin, 5, 6), (.gt, .bin, 5, 6), (.ge, .bin, 5, 6),
   (.and, .bin, 3, 4), (.or, .bin, 2, 3),
   (.dcaret, .pow, 0, 0), (.caret, .pow, 0, 0),
   (.plus, .pre, 0, 9), (.minus, .pre, 0, 9), (.not, .pre, 0, 4)]

/-! ## Number literals

`UNSIGNED_NUMBER` lexemes of the form `digits [ '.' digits? ] [ (e|E) [+|-] digits ]`.  The listener tries
`int(text)` first (accepted exactly for pure digit strings here) and `float(text)` otherwise. -/

def digitVal? (c : Char) : Option Nat :=
  if c.isDigit then some (c.toNat - '0'.toNat) else none

/-- Horner evaluation of a digit string; `none` on a non-digit or the empty string -/
def digitsVal? (cs : List Char) : Option Nat :=
  match cs with
  | [] => none
  | _ => cs.foldl (fun acc c => match acc, digitVal? c with
      | some a, some d => some (10 * a + d)
      | _, _ => none) (some 0)

structure Lit where
  isInt : Bool
  value : Rat
deriving Repr

def pow10 (e : Int) : Rat := if e ≥ 0 then ((10 ^ e.toNat : Nat) : Rat) else 1 / ((10 ^ (-e).toNat : Nat) : Rat)

/-- split at the first character satisfying `p` (the separator is dropped) -/
def splitAt1 (p : Char → Bool) : List Char → List Char × Option (List Char)
  | [] => ([], none)
  | c :: cs => if p c then ([], some cs) else
      let (a, b) := splitAt1 p cs
      (c :: a, b)

/-- (value of the fraction digits, their number); a missing or empty fraction part counts as `0` -/
def fracOf : Option (List Char) → Option (Nat × Nat)
  | none => some (0, 0)
  | some [] => some (0, 0)
  | some ds => (digitsVal? ds).map fun v => (v, ds.length)

/-- value of the exponent part `[+|-] digits` -/
def expoOf : Option (List Char) → Option Int
  | none => some 0
  | some ('+' :: ds) => (digitsVal? ds).map Int.ofNat
  | some ('-' :: ds) => (digitsVal? ds).map fun v => - Int.ofNat v
  | some ds => (digitsVal? ds).map Int.ofNat

def litValue (lexeme : String) : Option Lit :=
  let cs := lexeme.toList
  let (mant, ex) := splitAt1 (fun c => c == 'e' || c == 'E') cs
  let (ip, fp) := splitAt1 (fun c => c == '.') mant
  match digitsVal? ip, fracOf fp, expoOf ex with
  | some iv, some (fv, fl), some e =>
    some { isInt := fp.isNone && ex.isNone,
           value := ((iv : Rat) + (fv : Rat) / ((10 ^ fl : Nat) : Rat)) * pow10 e }
  | _, _, _ => none

/-! ## String literals

`STRING : '"' ('\\"' | ~('"'))* '"'`; the listener asserts the two delimiters and keeps `text[1:-1]` — the text
between the delimiters, escape sequences verbatim (no unescaping). -/

/-- value of a `STRING` lexeme (`none`: the listener's assertion fails) -/
def strLitValue (lexeme : String) : Option String :=
  match lexeme.toList with
  | '"' :: rest =>
    match rest.getLast? with
    | some '"' => some (String.ofList rest.dropLast)
    | _ => none
  | _ => none

/-- the last `k` decimal digits of `v`, most significant first (a zero-padded fraction part) -/
def padDigits : Nat → Nat → List Char
  | 0, _ => []
  | k+1, v => padDigits k (v / 10) ++ [Nat.digitChar (v % 10)]

end PymocaVerif.ExprGrammar
