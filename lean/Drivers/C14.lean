import Drivers.Proto
import PymocaVerif.Model.SimplifyJson
/-! Driver for C14: one pass of the `Simplify` model on a serialised real model state
    (`simplify.pass`), and exact evaluation of expression trees (`simplify.eval`). -/
def main : IO Unit := Drivers.serve PymocaVerif.Simplify.J.handle
