import casadi as ca
from fractions import Fraction
from pymoca import parser
from pymoca.backends.casadi import generator as gen
OPN = {getattr(ca, k): k for k in dir(ca) if k.startswith("OP_")}
def tree(e):
    if e.is_symbolic(): return ["sym", e.name()]
    if e.is_constant():
        return ["const", str(e.to_DM())]
    return [OPN.get(e.op(), e.op())] + [tree(e.dep(i)) for i in range(e.n_dep())]
txt = """model M parameter Real p = 2; Real x, y, z, w; Real v[2];
equation x - 3 = 0; 3 = y; z = -x; w + y = p * x; v[1] = x; v[2] = 2*v[1]; end M;"""
t = parser.parse(txt, bypass_cache=True)
m = gen.generate(t, "M")
for e in m.equations: print(e, "  =>", tree(e))
f = m.dae_residual_function
print(f)
r = f(0, [], [], [1.5, 0.25, 3, -2, 8, 0.125], [], [], [2])
print(r, [Fraction(float(v)) for v in r.full().ravel()])
# expand to SX scalar tree
fs = f.expand()
print(fs)
