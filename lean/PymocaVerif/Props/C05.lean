import PymocaVerif.Lemmas.ObjGraph3
import PymocaVerif.Generated.CopyFlags
/-!
# C05 — flattening never changes what later flattening produces

Model: `PymocaVerif.Model.ObjGraph` (heap of AST objects, `copy.deepcopy` with memo and pymoca's two
hooks, `find_class(copy)`, `tree.flatten` as: obtain the requested class / the classes it looks up /
the symbols it reaches by class path — each through a lookup that copies or not — then write
*anything* to every object reachable through `own` references from what was obtained).

A request reads the views (unfoldings to any depth `k`, identities erased) of what it obtained; any
flat model, CasADi model or CLI outcome the real code computes is a function of these.

Hypotheses on the parsed tree (`Region`, `TreeShaped`, `ReqOk`) are the shape of a tree as the
parser leaves it: references stay inside the tree, no per-instance `__deepcopy__`, a class is held
by its parent only, nothing below a class holds a reference to that class's parent.  The harness
checks them on snapshots of the real trees (`wfCheck`, `treeCheck`, `rankCheck` through the driver).
-/
namespace PymocaVerif.C05
open PymocaVerif.ObjGraph

abbrev current : Cfg := PymocaVerif.Generated.CopyFlags.current

/-- Obligation over the flags extracted from the code under test: memo test by id, hooks leave no
    instance attribute, every lookup on the flatten path copies. -/
theorem flags_ok : current.Good ∧ current.AllCopy :=
  ⟨⟨rfl, rfl, rfl⟩, ⟨rfl, rfl, rfl⟩⟩

/-- **Frame.**  With copying lookups a flatten request leaves every object that existed before it
    exactly as it was — for *every* write the flattening may perform on what it obtained. -/
theorem frame (cfg : Cfg) (hg : cfg.Good) (hall : cfg.AllCopy) {H : Heap} {R : Nat → Prop}
    (hR : Region H R) (hts : TreeShaped H R) {root : Nat} (hroot : R root) {r : Req}
    (hok : ReqOk H R root r) (junk : Nat → Obj → Obj) {H' : Heap}
    (h : flattenImpl cfg junk H root r = some H') :
    ∀ o, o < H.length → H'[o]? = H[o]? := by
  have h' : flattenImpl cfg junk (H ++ []) root r = some H' := by simpa using h
  obtain ⟨ex, hex⟩ := flattenImpl_frame hg hall hR hts hroot hok [] junk h'
  intro o ho
  rw [hex]
  simp [List.getElem?_append_left ho]

/-- **`find_class(copy=True)` hands out a private copy**: it terminates, the heap only grows, the
    copy unfolds like the class that was looked up, and everything reachable from the copy through
    `own` references (what flattening writes to) is new. -/
theorem lookup_copy_is_private (cfg : Cfg) (hg : cfg.Good) {H : Heap} {R : Nat → Prop}
    (hR : Region H R) (hts : TreeShaped H R) {c : Nat} (hc : R c) (hd : Detached H c) :
    ∃ H' y, deepcopy cfg H c = some (H', y) ∧ (∀ o, o < H.length → H'[o]? = H[o]?) ∧
      (∀ k, view H' k y = view H k c) ∧ ∀ i, OwnReach H' y i → H.length ≤ i := by
  obtain ⟨⟨H', ys⟩, htot⟩ := lookupAll_copy_total hg [c] H hR (fun i hi => by
    rw [List.mem_singleton.mp hi]; exact hc)
  have lo := lookupAll_copy_spec hg [c] H H' ys hR hts (fun i hi => by
    rw [List.mem_singleton.mp hi]; exact ⟨hc, hd⟩) htot
  simp only [lookupAll, if_true] at htot
  cases hdc : deepcopy cfg H c with
  | none => simp [hdc] at htot
  | some r =>
    obtain ⟨H1, y⟩ := r
    simp only [hdc, Option.some.injEq, Prod.mk.injEq] at htot
    obtain ⟨e1, e2⟩ := htot
    subst e1; subst e2
    obtain ⟨ex, hex⟩ := lo.frame
    refine ⟨H1, y, rfl, ?_, ?_, ?_⟩
    · intro o ho; rw [hex, List.getElem?_append_left ho]
    · intro k
      have := lo.views k
      simpa using this
    · exact lo.fresh y List.mem_cons_self

/-- **History independence** (induction over the history).  Any sequence of requests on one tree —
    repeating a class, different classes, a class used by an earlier one — answers every request
    with what the same request reads on the initial tree, whatever the earlier requests wrote. -/
theorem history_independent (cfg : Cfg) (hg : cfg.Good) (hall : cfg.AllCopy) {H : Heap} {R : Nat → Prop}
    (hR : Region H R) (hts : TreeShaped H R) {root : Nat} (hroot : R root) (k : Nat) :
    ∀ (reqs : List (Req × (Nat → Obj → Obj))), (∀ q ∈ reqs, ReqOk H R root q.1) →
      runSeq cfg k root H reqs = reqs.map fun q => flattenResult cfg k H root q.1 := by
  have gen : ∀ (reqs : List (Req × (Nat → Obj → Obj))) (e : Heap), (∀ q ∈ reqs, ReqOk H R root q.1) →
      runSeq cfg k root (H ++ e) reqs = reqs.map fun q => flattenResult cfg k H root q.1 := by
    intro reqs
    induction reqs with
    | nil => intro e _; rfl
    | cons q reqs ih =>
      intro e hok
      obtain ⟨r, junk⟩ := q
      have hq : ReqOk H R root r := hok (r, junk) List.mem_cons_self
      have hrest : ∀ q' ∈ reqs, ReqOk H R root q'.1 := fun q' hq' => hok q' (List.mem_cons_of_mem _ hq')
      simp only [runSeq, List.map_cons]
      have e1 := flattenResult_ext hg hall hR hts hroot hq k e
      have e0 := flattenResult_ext hg hall hR hts hroot hq k []
      simp only [List.append_nil] at e0
      rw [e1, ← e0]
      congr 1
      cases hf : flattenImpl cfg junk (H ++ e) root r with
      | none => exact ih e hrest
      | some H' =>
        obtain ⟨ex, hex⟩ := flattenImpl_frame hg hall hR hts hroot hq e junk hf
        simp only
        rw [hex, List.append_assoc]
        exact ih (e ++ ex) hrest
  intro reqs hok
  have := gen reqs [] hok
  simpa using this

/-- **The compiler CLI is compositional.**  `tools.compiler.main` parses once and serves every `-m`
    from the same tree: each model gets the outcome it gets when it is requested alone. -/
theorem cli_compositional (cfg : Cfg) (hg : cfg.Good) (hall : cfg.AllCopy) {H : Heap} {R : Nat → Prop}
    (hR : Region H R) (hts : TreeShaped H R) {root : Nat} (hroot : R root) (k : Nat)
    (models : List (Req × (Nat → Obj → Obj))) (hok : ∀ q ∈ models, ReqOk H R root q.1) :
    runSeq cfg k root H models = (models.map fun q => runSeq cfg k root H [q]).flatten := by
  rw [history_independent cfg hg hall hR hts hroot k models hok]
  have : ∀ q ∈ models, runSeq cfg k root H [q] = [flattenResult cfg k H root q.1] := by
    intro q hq
    have := history_independent cfg hg hall hR hts hroot k [q]
      (fun q' hq' => by rw [List.mem_singleton.mp hq']; exact hok q hq)
    simpa using this
  rw [List.map_congr_left this]
  clear this hok
  induction models with
  | nil => rfl
  | cons q models ih => simp [ih]

/-- The statements above for the flags the code has now. -/
theorem history_independent_current {H : Heap} {R : Nat → Prop}
    (hR : Region H R) (hts : TreeShaped H R) {root : Nat} (hroot : R root) (k : Nat)
    (reqs : List (Req × (Nat → Obj → Obj))) (hok : ∀ q ∈ reqs, ReqOk H R root q.1) :
    runSeq current k root H reqs = reqs.map fun q => flattenResult current k H root q.1 :=
  history_independent current flags_ok.1 flags_ok.2 hR hts hroot k reqs hok

/-! ## a concrete tree: the hypotheses are satisfiable, and without copying the statement fails -/

/-- `Tree { class A { x; class B }, class C { c } }` -/
def demo : Heap :=
  [ { kind := .cls, name := "", label := "Tree", fields := [.own 1, .own 4], hook := none },
    { kind := .cls, name := "A", label := "A", fields := [.own 2, .own 3, .par 0], hook := none },
    { kind := .sym, name := "x", label := "x", fields := [], hook := none },
    { kind := .cls, name := "B", label := "B", fields := [.par 1], hook := none },
    { kind := .cls, name := "C", label := "C", fields := [.own 5, .par 0], hook := none },
    { kind := .sym, name := "c", label := "c", fields := [], hook := none } ]

def demoRank : List Nat := [0, 1, 2, 2, 1, 2]

def scribble : Nat → Obj → Obj := fun _ o => { o with label := "scribbled" }

def reqA : Req := { path := ["A"], inner := [4], consts := [5] }
def reqB : Req := { path := ["A", "B"], inner := [], consts := [] }

theorem demo_region : Region demo (fun a => a < demo.length) := region_of_wfCheck (by decide +kernel)
theorem demo_tree : TreeShaped demo (fun a => a < demo.length) := treeShaped_of_check (by decide +kernel)
theorem demo_ok (r : Req) (h : ∀ i ∈ r.inner ++ r.consts, i < demo.length) :
    ReqOk demo (fun a => a < demo.length) 0 r :=
  reqOk_of_rank (d := demoRank) (by decide +kernel) 0 r h

example : ∃ H', flattenImpl current scribble demo 0 reqA = some H' ∧
    ∀ o, o < demo.length → H'[o]? = demo[o]? := by
  have hs : (flattenImpl current scribble demo 0 reqA).isSome = true := by decide +kernel
  cases h1 : flattenImpl current scribble demo 0 reqA with
  | none => rw [h1] at hs; cases hs
  | some H' =>
    exact ⟨H', rfl, frame current flags_ok.1 flags_ok.2 demo_region demo_tree (by decide)
      (demo_ok reqA (by decide)) scribble h1⟩

example : ∃ H' y, deepcopy current demo 1 = some (H', y) ∧ ∀ i, OwnReach H' y i → demo.length ≤ i := by
  obtain ⟨H', y, h, _, _, hf⟩ := lookup_copy_is_private current flags_ok.1 demo_region demo_tree (c := 1)
    (by decide) (detached_of_rank (d := demoRank) (by decide +kernel) 1)
  exact ⟨H', y, h, hf⟩

example : runSeq current 3 0 demo [(reqA, scribble), (reqB, scribble), (reqA, scribble)] =
    [flattenResult current 3 demo 0 reqA, flattenResult current 3 demo 0 reqB, flattenResult current 3 demo 0 reqA] :=
  history_independent_current demo_region demo_tree (by decide) 3 _
    (by
      intro q hq
      simp only [List.mem_cons, List.mem_nil_iff, or_false] at hq
      rcases hq with h | h | h <;> subst h <;> exact demo_ok _ (by decide))

example : runSeq current 2 0 demo [(reqB, scribble), (reqA, scribble)] =
    runSeq current 2 0 demo [(reqB, scribble)] ++ runSeq current 2 0 demo [(reqA, scribble)] := by
  have := cli_compositional current flags_ok.1 flags_ok.2 demo_region demo_tree (root := 0) (by decide) 2
    [(reqB, scribble), (reqA, scribble)]
    (by
      intro q hq
      simp only [List.mem_cons, List.mem_nil_iff, or_false] at hq
      rcases hq with h | h <;> subst h <;> exact demo_ok _ (by decide))
  simpa using this

/-- the discipline before the fix: the class looked up by `flatten` is not copied -/
def noRootCopy : Cfg := { current with rootCopy := false }

/-- **Without the copy the statement is false**: one request for `A` rewrites the tree's own `A`
    (object 1) and its symbol, so a second request reads something else than a fresh one. -/
theorem counterexample_nocopy :
    (match flattenImpl noRootCopy scribble demo 0 reqB with
     | some H' => decide (H'[3]? ≠ demo[3]?) && decide (viewLabels H' 3 1 ≠ viewLabels demo 3 1)
     | none => false) = true := by
  decide +kernel

/-- the discipline before commit e37f466: symbols reached by a class path are not copied -/
def noConstCopy : Cfg := { current with constCopy := false }

theorem counterexample_constref :
    (match flattenImpl noConstCopy scribble demo 0 reqA with
     | some H' => decide (H'[5]? ≠ demo[5]?) && decide (H'[1]? = demo[1]?)
     | none => false) = true := by
  decide +kernel

end PymocaVerif.C05
