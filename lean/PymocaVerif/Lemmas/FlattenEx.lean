import PymocaVerif.Lemmas.FlattenMods
import PymocaVerif.Lemmas.FlattenInit
/-! The shape of a successful `flattenF`, and a small concrete library used by the `example`s of
    Props/C07 and Props/C08 to show that the theorems' hypotheses are satisfiable. -/
namespace PymocaVerif.Flatten

instance {ε α : Type} [DecidableEq ε] [DecidableEq α] : DecidableEq (Except ε α)
  | .ok a, .ok b => if h : a = b then isTrue (by rw [h]) else isFalse (fun h' => by cases h'; exact h rfl)
  | .error a, .error b => if h : a = b then isTrue (by rw [h]) else isFalse (fun h' => by cases h'; exact h rfl)
  | .ok _, .error _ => isFalse (fun h => by cases h)
  | .error _, .ok _ => isFalse (fun h => by cases h)

theorem flattenF_ok {fuel : Nat} {lib : Lib} {t : Path} {m : FlatModel} (h : flattenF fuel lib t = .ok m) :
    ∃ r ri, instF fuel lib t [] [] [] = .ok r ∧ instF fuel (initView lib) t [] [] [] = .ok ri ∧
      m = assemble r ri.2 ∧ instTop fuel lib t = .ok r ∧ instTop fuel (initView lib) t = .ok ri := by
  have top : ∀ {l : Lib} {x : List Var × List IEq}, instTop fuel l t = .ok x → instF fuel l t [] [] [] = .ok x := by
    intro l x hx
    unfold instTop at hx
    split at hx
    · cases hx
    · cases hx
    · exact hx
  unfold flattenF at h
  split at h
  · cases h
  · rename_i r hr
    split at h
    · cases h
    · rename_i ri hri
      cases h
      exact ⟨r, ri, top hr, top hri, rfl, hr, hri⟩

/-! ## a small library used to show that hypotheses are satisfiable -/

/-- `model Leaf parameter Real k = 1; parameter Integer n = 1; input Real u; Real w[2];`
    `  initial equation w[n] = 0; equation w[1] = k*u; for i in 1:2 loop w[i + n] = u; end for; end Leaf;`
    `model Base Leaf lb(k = 5); Real b(start = 1); equation b = lb.u; end Base;`
    `model M extends Base(b(start = 3)); Leaf l2[3]; output Real y; equation y = l2[1].u + b; end M;` -/
def exLeaf : ClassDef := ClassDef.mk false []
  [Comp.mk "k" (.builtin "Real") ["parameter"] [] [Mod.mk [] (.num 1)],
   Comp.mk "n" (.builtin "Integer") ["parameter"] [] [Mod.mk [] (.num 1)],
   Comp.mk "u" (.builtin "Real") ["input"] [] [],
   Comp.mk "w" (.builtin "Real") [] [2] []]
  [.eq (.ref [("w", [.lit 1])]) (.bin "*" (.ref [("k", [])]) (.ref [("u", [])])),
   .forEq "i" 1 2 [(.ref [("w", [.add (.name "i") (.name "n")])], .ref [("u", [])])]]
  [.eq (.ref [("w", [.name "n"])]) (.num 0)]
def exBase : ClassDef := ClassDef.mk false []
  [Comp.mk "lb" (.cls ["Leaf"]) [] [] [Mod.mk ["k"] (.num 5)],
   Comp.mk "b" (.builtin "Real") [] [] [Mod.mk ["start"] (.num 1)]]
  [.eq (.ref [("b", [])]) (.ref [("lb", []), ("u", [])])] []
def exM : ClassDef := ClassDef.mk false [(.cls ["Base"], [Mod.mk ["b", "start"] (.num 3)])]
  [Comp.mk "l2" (.cls ["Leaf"]) [] [3] [],
   Comp.mk "y" (.builtin "Real") ["output"] [] []]
  [.eq (.ref [("y", [])]) (.bin "+" (.ref [("l2", [.lit 1]), ("u", [])]) (.ref [("b", [])]))] []
def exLib : Lib := [(["Leaf"], exLeaf), (["Base"], exBase), (["M"], exM)]

def exFlat : FlatModel := (match flattenF 6 exLib ["M"] with | .ok m => m | .error _ => ⟨[], [], []⟩)

theorem exFlat_ok : flattenF 6 exLib ["M"] = .ok exFlat := by
  have h : (flattenF 6 exLib ["M"]).toOption.isSome = true := by decide +kernel
  unfold exFlat
  split
  · rename_i m hm; rw [hm]
  · rename_i e he; rw [he] at h; simp [Except.toOption] at h

theorem exFlat_paths : exFlat.vars.map (·.path) =
    [["lb", "k"], ["lb", "n"], ["lb", "u"], ["lb", "w"], ["b"], ["l2", "k"], ["l2", "n"], ["l2", "u"], ["l2", "w"],
     ["y"]] := by
  decide +kernel



end PymocaVerif.Flatten
