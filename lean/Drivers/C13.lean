/-! Driver for C13 (stub: not built yet). -/
def main : IO Unit := pure ()
