import PymocaVerif.Lemmas.ParseCache
import PymocaVerif.Generated.SqlProgram
/-!
# C01 — the parse cache is transparent over any cache history

Theorems about `Model/ParseCache.lean` (the state machine that follows `parser.parse` and
`_check_database_structure` statement by statement).  `pf` is the uncached parser, arbitrary.
Histories are arbitrary finite lists of operations: parses with any flags, module reload, version
change (clean or dirty), clock advance, damage to an entry / to a table layout / to the whole file,
rows written by another pymoca version.

Finding **C01-F2** (see `known/C01.json`, `proposed_fixes/C01-1.diff`; fixed in /repo by commit 821b239): when the file is deleted,
overwritten, or loses its `models` table *after* this process has put it into
`parse.initialized_dbs`, and the module is not reloaded, the next `parse` raises a `DatabaseError`.
`damaged_while_initialised_raises` is that counterexample on the model; the theorems about the code as it is
carry the hypothesis `Undamaged` / `Synced` and are named `…_partial`.  The model has the flag `Cfg.recover`
(set by the translator when `parse` has the shape of the proposed fix); with it `parse_transparent` and
`history_transparent` hold without that hypothesis — the complete statement of the property.
-/
namespace PymocaVerif.C01
open PymocaVerif.ParseCache

variable {pf : Ver → TextId → Option TreeId} {cfg : Cfg}

/-! ### The invariant holds after every operation, whatever it is -/

/-- **Every operation preserves the row invariant** (each stored row that unpickles to a tree holds the tree
    of the uncached parse of its own text under its own version) — including every corruption, from every
    state, and also when `parse` raises. -/
theorem inv_step (s : St) (op : Op) (hadm : Admissible pf op) (h : RowInv pf s) : RowInv pf (step cfg pf s op).1 :=
  rowInv_step s op hadm h

example : RowInv (fun _ x => if x = 1 then none else some (x + 10))
      ⟨.db (some ⟨.ok, [⟨0, 0, .good (some 10), 3⟩, ⟨2, 1, .bad .eof, 4⟩, ⟨1, 0, .good none, 4⟩]⟩) none, true, 9, 0, 0, false⟩ ∧
    Admissible (fun _ x => if x = 1 then none else some (x + 10)) (.corruptEntry 0 0 (.bad .eof)) := by
  refine ⟨?_, trivial⟩
  intro r hr t ht
  simp [rowsOf] at hr
  rcases hr with rfl | rfl | rfl <;> simp_all

/-! ### One parse -/

/-- **A parse returns exactly what the uncached parser returns** — a tree equal to the fresh one, `none`
    exactly for a syntax error, never an exception — from every state that satisfies the invariant, whatever
    damaged entries, layouts or file it contains; *partial*: states in which the file was damaged after this
    process initialised it (`¬ Synced`, finding C01-F2) are excluded. -/
theorem parse_transparent_partial (hc : CaughtAll cfg) (s : St) (h : RowInv pf s) (hs : Synced s)
    (x : TextId) (days : Int) (upd bypass : Bool) :
    (step cfg pf s (.parse x days upd bypass)).2 = some (.value (pf s.ver x)) := by
  simp only [step]
  split
  · rfl
  · simp only [(parseCached_spec (x := x) (days := days) (upd := upd) hc h hs).1]

example : RowInv (fun _ _ => some 7) ⟨.db (some ⟨.noPk, [⟨0, 0, .bad .eof, 3⟩]⟩) (some .alien), false, 10, 1, 0, false⟩ ∧
    Synced ⟨.db (some ⟨.noPk, [⟨0, 0, .bad .eof, 3⟩]⟩) (some .alien), false, 10, 1, 0, false⟩ :=
  ⟨by intro r hr t ht; simp [rowsOf] at hr; subst hr; simp at ht, by intro h; cases h⟩

/-- In particular the result is `none` iff the text has a syntax error. -/
theorem none_iff_syntax_error_partial (hc : CaughtAll cfg) (s : St) (h : RowInv pf s) (hs : Synced s)
    (x : TextId) (days : Int) (upd bypass : Bool) :
    (step cfg pf s (.parse x days upd bypass)).2 = some (.value none) ↔ pf s.ver x = none := by
  rw [parse_transparent_partial hc s h hs]
  constructor
  · intro he; injection he with he; injection he
  · intro he; rw [he]

example : (step { caught := ["Exception"] } (fun _ _ => (none : Option TreeId)) (St.initial 0) (.parse 3 30 false false)).2
    = some (.value none) := by decide

/-- **The complete statement for one parse**, for code that re-validates a database it can no longer query
    (`cfg.recover`, proposed fix C01-1): from *every* state satisfying the row invariant — no hypothesis on
    what happened to the file or when — the parse returns the uncached result and raises nothing. -/
theorem parse_transparent (hc : CaughtAll cfg) (hr : cfg.recover = true) (s : St) (h : RowInv pf s)
    (x : TextId) (days : Int) (upd bypass : Bool) :
    (step cfg pf s (.parse x days upd bypass)).2 = some (.value (pf s.ver x)) := by
  simp only [step]
  split
  · rfl
  · simp only [(parseCached_spec_recover (x := x) (days := days) (upd := upd) hc hr h).1]

example : CaughtAll { caught := ["Exception"], recover := true } ∧
    RowInv (fun _ _ => some 7) ⟨.garbage, true, 10, 1, 0, false⟩ ∧ ¬ Synced ⟨.garbage, true, 10, 1, 0, false⟩ :=
  ⟨caughtAll_of_all (by decide), by intro r hr; simp [rowsOf] at hr, by intro h; simpa [DbFile.queryable] using h rfl⟩

/-! ### Whole histories -/

/-- no damaging operation happens while the process holds the database initialised -/
def Undamaged (cfg : Cfg) (pf : Ver → TextId → Option TreeId) : St → List Op → Prop
  | _, [] => True
  | s, op :: ops => (damaging op = true → s.init = false) ∧ Undamaged cfg pf (step cfg pf s op).1 ops

/-- every parse of the run returns the uncached result -/
def Transparent (cfg : Cfg) (pf : Ver → TextId → Option TreeId) : St → List Op → Prop
  | _, [] => True
  | s, op :: ops =>
    (∀ x d u b, op = .parse x d u b → (step cfg pf s op).2 = some (.value (pf s.ver x))) ∧
    Transparent cfg pf (step cfg pf s op).1 ops

/-- every parse of the run *from a synced state* returns the uncached result -/
def TransparentWhenSynced (cfg : Cfg) (pf : Ver → TextId → Option TreeId) : St → List Op → Prop
  | _, [] => True
  | s, op :: ops =>
    (∀ x d u b, op = .parse x d u b → Synced s → (step cfg pf s op).2 = some (.value (pf s.ver x))) ∧
    TransparentWhenSynced cfg pf (step cfg pf s op).1 ops

/-- **Every parse of every finite history returns the uncached result**, from any state satisfying the invariant
    (in particular from a folder without a database), for every sequence of parses with any flags, reloads,
    version changes, clock advances, damaged entries, damaged metadata, `noPk` layouts and foreign rows —
    *partial*: the damaging operations (file deleted/overwritten, `models` table dropped/replaced) may only happen
    while the process does not hold the database initialised (finding C01-F2 is the complement). -/
theorem history_transparent_partial (hc : CaughtAll cfg) (ops : List Op) :
    ∀ (s : St), RowInv pf s → Synced s → (∀ op ∈ ops, Admissible pf op) → Undamaged cfg pf s ops →
      Transparent cfg pf s ops := by
  induction ops with
  | nil => intros; trivial
  | cons op ops ih =>
    intro s h hs hadm hund
    refine ⟨?_, ih _ (inv_step s op (hadm op (by simp)) h) (synced_step hc s op h hs hund.1)
      (fun o ho => hadm o (by simp [ho])) hund.2⟩
    intro x d u b hop
    subst hop
    exact parse_transparent_partial hc s h hs x d u b

/-- The same without any restriction on the history: every parse that starts from a synced state is
    transparent; the invariant itself never breaks, so a reload always restores transparency. -/
theorem history_transparent_when_synced (hc : CaughtAll cfg) (ops : List Op) :
    ∀ (s : St), RowInv pf s → (∀ op ∈ ops, Admissible pf op) → TransparentWhenSynced cfg pf s ops := by
  induction ops with
  | nil => intros; trivial
  | cons op ops ih =>
    intro s h hadm
    refine ⟨?_, ih _ (inv_step s op (hadm op (by simp)) h) (fun o ho => hadm o (by simp [ho]))⟩
    intro x d u b hop hs
    subst hop
    exact parse_transparent_partial hc s h hs x d u b

/-- **The complete statement for histories** (`cfg.recover`): every parse of every finite history — any
    interleaving of parses, reloads, version changes, clock advances and *any* damage to entries, layouts or the
    whole file at *any* time — returns the uncached result. -/
theorem history_transparent (hc : CaughtAll cfg) (hr : cfg.recover = true) (ops : List Op) :
    ∀ (s : St), RowInv pf s → (∀ op ∈ ops, Admissible pf op) → Transparent cfg pf s ops := by
  induction ops with
  | nil => intros; trivial
  | cons op ops ih =>
    intro s h hadm
    refine ⟨?_, ih _ (inv_step s op (hadm op (by simp)) h) (fun o ho => hadm o (by simp [ho]))⟩
    intro x d u b hop
    subst hop
    exact parse_transparent hc hr s h x d u b

example : (run { caught := ["Exception"], recover := true } (fun _ _ => some 5) (St.initial 0)
      [.parse 0 30 false false, .corruptFile .delete, .parse 0 30 false false, .corruptLayout .models .alien,
       .parse 0 30 true false, .corruptFile .text, .parse 0 30 false false]).filterMap (·.2) =
      [.value (some 5), .value (some 5), .value (some 5), .value (some 5)] := by decide +kernel

/-- a 12-operation history with a hit, a prune, an entry that does not unpickle, an entry that unpickles to
    `None`, a wrong layout, a corrupt file (before a reload), a foreign row and a version change -/
def demoOps : List Op :=
  [.parse 0 30 false false, .parse 0 30 true false, .corruptEntry 0 0 (.bad .eof), .parse 0 30 false false,
   .corruptEntry 0 0 (.good none), .parse 1 30 false false, .reload, .corruptFile .text, .tick 3000000000000,
   .parse 0 1 false false, .foreignWrite 0 7 0, .setVersion 1 false, .corruptLayout .metadata .alien, .reload,
   .corruptLayout .models .noPk, .parse 0 0 false false, .parse 0 30 false false]

def demoPf : Ver → TextId → Option TreeId := fun v x => if x = 1 then none else some (100 * v + x)

example : (∀ op ∈ demoOps, Admissible demoPf op) ∧ Undamaged { caught := ["Exception"] } demoPf (St.initial 1000) demoOps := by
  refine ⟨by decide, ?_⟩
  simp [demoOps, Undamaged, damaging, step]

example : (run { caught := ["Exception"] } demoPf (St.initial 1000) demoOps).filterMap (·.2) =
    [.value (some 0), .value (some 0), .value (some 0), .value none, .value (some 0), .value (some 100), .value (some 100)] := by
  decide +kernel

/-! ### A failed parse is never stored -/

/-- **A failed parse is never stored**: in every history in which the harness does not itself plant a blob that
    unpickles to `None`, no row of the database ever unpickles to `None` — whatever else happens (syntax
    errors, damaged entries, layouts, files, exceptions). -/
theorem none_never_stored (ops : List Op) :
    ∀ (s : St), NoNone s.file → (∀ op ∈ ops, plantsNone op = false) → NoNone (finalState cfg pf s ops).file := by
  induction ops with
  | nil => intro s h _; exact h
  | cons op ops ih =>
    intro s h hp
    exact ih _ (noNone_step s op (hp op (by simp)) h) (fun o ho => hp o (by simp [ho]))

example : NoNone (St.initial 0).file ∧ ∀ op ∈ [Op.parse 1 30 false false, .corruptEntry 1 0 (.bad .eof), .parse 0 30 false false],
    plantsNone op = false := ⟨by intro r hr; simp [St.initial, rowsOf] at hr, by decide⟩

/-- … and a planted one is never served: with a row that unpickles to `None` the parse still returns the
    fresh tree and replaces the row. -/
theorem planted_none_not_served :
    (run { caught := ["Exception"] } (fun _ _ => some 5) (St.initial 0)
      [.parse 0 30 false false, .corruptEntry 0 0 (.good none), .parse 0 30 false false]).map (·.2) =
      [some (.value (some 5)), none, some (.value (some 5))] ∧
    NoNone (finalState { caught := ["Exception"] } (fun _ _ => some 5) (St.initial 0)
      [.parse 0 30 false false, .corruptEntry 0 0 (.good none), .parse 0 30 false false]).file := by
  refine ⟨by decide +kernel, ?_⟩
  unfold NoNone
  decide +kernel

/-! ### Obligation over the current sources; the open finding -/

/-- what the translator read off the current `parse` -/
def currentCfg : Cfg :=
  { caught := Generated.SqlProgram.caughtUnpickle, recover := Generated.SqlProgram.recoversAfterDamage }

/-- The `except` clause around `pickle.loads` in the current `parse` (extracted by the translator) catches
    every exception class a damaged blob was seen to raise. -/
theorem caught_classes_cover : CaughtAll currentCfg :=
  caughtAll_of_all (by decide)

/-- The current `parse` has the handler that re-validates a database it can no longer query (fix 821b239). -/
theorem current_parse_recovers : currentCfg.recover = true := by decide

/-- **C01 for the code as it is now**: with the facts extracted from the current sources, every parse of every
    finite history (any damage at any time) returns the uncached result — `none` iff syntax error, no exception. -/
theorem current_code_transparent (ops : List Op) (s : St) (h : RowInv pf s) (hadm : ∀ op ∈ ops, Admissible pf op) :
    Transparent currentCfg pf s ops :=
  history_transparent caught_classes_cover current_parse_recovers ops s h hadm

example : RowInv demoPf (St.initial 1000) ∧ ∀ op ∈ demoOps, Admissible demoPf op :=
  ⟨by intro r hr; simp [St.initial, rowsOf] at hr, by decide⟩

/-- With only `pickle.UnpicklingError` caught (the code before the fix) an empty blob escapes as `EOFError`. -/
theorem narrow_except_raises :
    (run { caught := ["pickle.UnpicklingError"] } (fun _ _ => some 5) (St.initial 0)
      [.parse 0 30 false false, .corruptEntry 0 0 (.bad .eof), .parse 0 30 false false]).map (·.2) =
      [some (.value (some 5)), none, some (.raised (.unpickle .eof))] := by decide +kernel

/-- **Finding C01-F2 on the model**: parse, then the file is deleted (or overwritten, or the table dropped)
    while the process keeps it in `initialized_dbs`, then parse again: `DatabaseError`.  After a reload the
    same parse succeeds. -/
theorem damaged_while_initialised_raises :
    (run { caught := ["Exception"] } (fun _ _ => some 5) (St.initial 0)
      [.parse 0 30 false false, .corruptFile .delete, .parse 0 30 false false, .reload, .parse 0 30 false false]).map (·.2) =
      [some (.value (some 5)), none, some (.raised .db), none, some (.value (some 5))] := by decide +kernel

end PymocaVerif.C01
