"""Predicates of the open findings of C11 (see known/C11.json).  Each recognises its own failing input
class from the case (model text + recorded three-part ranges) and the oracle's message; a broken
model/implementation tie (`disagreement:…`) is never swallowed."""
import re

from harness.common import known_predicate

_RESIDUAL = "residual differs from lhs - rhs of the flat equations"


def _function_part(txt):
    i = txt.find("model M")
    return txt[:i] if i >= 0 else ""


def _unsafe_if_statement(ftxt):
    """The input class of C11-F3: an if-statement in which a condition reads a variable the if-statement
    assigns, or a branch assigns a variable twice, or the branches assign their variables in different
    orders AND some right-hand side reads one of these variables (sequential dependence).  Branches in
    different orders whose right-hand sides are independent of the assigned variables are translated
    correctly and are NOT part of the finding."""
    for m in re.finditer(r"^  if (.*?) then\n(.*?)^  end if;", ftxt, re.S | re.M):
        body = m.group(2)
        conds = [m.group(1)] + re.findall(r"^  elseif (.*?) then$", body, re.M)
        branches = re.split(r"^  (?:elseif .*? then|else)$", body, flags=re.M)
        assigns = [re.findall(r"^\s+(\w+) := (.*);$", b, re.M) for b in branches]
        seqs = [[a[0] for a in b] for b in assigns]
        targets = set(x for s in seqs for x in s)
        mentions = lambda txt: any(re.search(r"\b%s\b" % re.escape(t), txt) for t in targets)
        if any(mentions(c) for c in conds):
            return True
        if any(len(set(s)) != len(s) for s in seqs):
            return True
        if any(s != seqs[0] for s in seqs) and any(mentions(rhs) for b in assigns for _, rhs in b):
            return True
    return False


@known_predicate
def c11_if_statement_merge(case, what):
    if what.startswith("disagreement:") or not what.endswith(_RESIDUAL):
        return False
    return _unsafe_if_statement(_function_part(case.get("text", "")))
