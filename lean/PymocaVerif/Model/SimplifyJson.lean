import Lean.Data.Json
import PymocaVerif.Model.Simplify
/-!
JSON front end of the `Simplify` model, shared by the drivers of C14 and C15
(`Drivers/C14.lean`, `Drivers/C15.lean`).  Rationals travel as strings `"p/q"`, expression
trees as `["sym",name] | ["const","p/q"] | [OP_NAME, child…]`.
-/
open Lean
namespace PymocaVerif.Simplify.J
open PymocaVerif.AliasRel PymocaVerif.Simplify

def parseRat (s : String) : Except String Rat :=
  match s.splitOn "/" with
  | [p] => match p.toInt? with
    | some i => .ok (i : Rat)
    | none => .error s!"bad-rational {s}"
  | [p, q] => match p.toInt?, q.toNat? with
    | some i, some n => if n = 0 then .error s!"bad-rational {s}" else .ok (mkRat i n)
    | _, _ => .error s!"bad-rational {s}"
  | _ => .error s!"bad-rational {s}"

def showRat (r : Rat) : String :=
  if r.den = 1 then toString r.num else s!"{r.num}/{r.den}"

def uopOf : String → UOp
  | "OP_NEG" => .neg | "OP_TWICE" => .twice | "OP_SQ" => .sq | "OP_FABS" => .fabs | "OP_SQRT" => .sqrt
  | n => .other n

def bopOf : String → BOp
  | "OP_ADD" => .add | "OP_SUB" => .sub | "OP_MUL" => .mul | "OP_DIV" => .div
  | "OP_IF_ELSE_ZERO" => .ifElseZero
  | n => .other n

def uopName : UOp → String
  | .neg => "OP_NEG" | .twice => "OP_TWICE" | .sq => "OP_SQ" | .fabs => "OP_FABS" | .sqrt => "OP_SQRT"
  | .other n => n

def bopName : BOp → String
  | .add => "OP_ADD" | .sub => "OP_SUB" | .mul => "OP_MUL" | .div => "OP_DIV"
  | .ifElseZero => "OP_IF_ELSE_ZERO" | .other n => n

/-- depth-bounded (total) parser of expression trees -/
def parseExF : Nat → Json → Except String (Ex Rat)
  | 0, _ => throw "tree-too-deep"
  | fuel + 1, j => do
    let a ← j.getArr?
    let tag ← (a[0]?.getD Json.null).getStr?
    match tag, a.size with
    | "sym", 2 => pure (.sym (← (a[1]?.getD Json.null).getStr?))
    | "const", 2 => pure (.const (← parseRat (← (a[1]?.getD Json.null).getStr?)))
    | op, 2 => pure (.un (uopOf op) (← parseExF fuel (a[1]?.getD Json.null)))
    | op, 3 => pure (.bin (bopOf op) (← parseExF fuel (a[1]?.getD Json.null)) (← parseExF fuel (a[2]?.getD Json.null)))
    | op, n => throw s!"unsupported-tree {op}/{n}"

def parseEx (j : Json) : Except String (Ex Rat) := parseExF 4096 j

def showEx : Ex Rat → Json
  | .sym n => Json.arr #[Json.str "sym", Json.str n]
  | .const c => Json.arr #[Json.str "const", Json.str (showRat c)]
  | .un o a => Json.arr #[Json.str (uopName o), showEx a]
  | .bin o a b => Json.arr #[Json.str (bopName o), showEx a, showEx b]

def parseVar (j : Json) : Except String (Var Rat) := do
  let n ← j.getObjValAs? String "n"
  let v ← match j.getObjVal? "v" with
    | .ok Json.null => pure none
    | .ok t => (some <$> parseEx t)
    | .error _ => pure none
  let a := (j.getObjValAs? Bool "a").toOption.getD false
  pure { name := n, value := v, aliased := a }

def showVar (v : Var Rat) : Json :=
  Json.mkObj [("n", Json.str v.name), ("v", match v.value with | none => Json.null | some e => showEx e),
              ("a", Json.bool v.aliased)]

def parseSName (s : String) : SName :=
  if s.startsWith "-" then (true, (s.drop 1).toString) else (false, s)

def arrOf (j : Json) (k : String) : Except String (List Json) :=
  match j.getObjVal? k with
  | .ok v => (·.toList) <$> v.getArr?
  | .error _ => pure []

/-- the three fields of the real `AliasRelation` object as association lists -/
def parseAR (j : Json) : Except String AR := do
  let al ← (← arrOf j "al").mapM fun e => do
    let a ← e.getArr?
    let k ← (a[0]?.getD Json.null).getStr?
    let vs ← (← (a[1]?.getD Json.null).getArr?).toList.mapM (·.getStr?)
    pure (parseSName k, vs.map parseSName)
  let cm ← (← arrOf j "cmap").mapM fun e => do
    let a ← e.getArr?
    let k ← (a[0]?.getD Json.null).getStr?
    let c ← (a[1]?.getD Json.null).getStr?
    let s ← (a[2]?.getD Json.null).getInt?
    pure (parseSName k, (c, decide (s < 0)))
  let cv ← (← arrOf j "cv").mapM (·.getStr?)
  pure { al := fun k => al.lookup k, cmap := fun k => cm.lookup k, cv := cv }

def parseModel (j : Json) : Except String (Model Rat) := do
  let vars (k : String) : Except String (List (Var Rat)) := do (← arrOf j k).mapM parseVar
  let exs (k : String) : Except String (List (Ex Rat)) := do (← arrOf j k).mapM parseEx
  let delays ← (← arrOf j "delays").mapM fun e => do
    let a ← e.getArr?
    pure ((← parseEx (a[0]?.getD Json.null)), (← parseEx (a[1]?.getD Json.null)))
  let ar ← match j.getObjVal? "ar" with
    | .ok a => parseAR a
    | .error _ => pure AR.empty
  pure { states := ← vars "states", ders := ← vars "ders", algs := ← vars "algs", inputs := ← vars "inputs",
         params := ← vars "params", consts := ← vars "consts", eqs := ← exs "eqs", inits := ← exs "inits",
         delays := delays, ar := ar }

def sortStrs (xs : List String) : List String := (xs.toArray.qsort (· < ·)).toList
def jstrs (xs : List String) : Json := Json.arr (xs.map Json.str).toArray

/-- observables of the alias relation over the given base names -/
def showAR (s : AR) (univ : List String) : Json :=
  let it := s.iter.map fun (c, xs) => (c, sortStrs ((xs.map showSName).eraseDups))
  let itS := (it.toArray.qsort (fun a b => a.1 < b.1)).toList
  let canon := univ.map fun n =>
    let c := s.canonicalSigned (false, n)
    (n, Json.arr #[Json.str c.1, Json.num (if c.2 then (-1 : Int) else 1)])
  let al := univ.map fun n => (n, jstrs (sortStrs (((s.aliases (false, n)).map showSName).eraseDups)))
  Json.mkObj [("cv", jstrs (sortStrs s.cv.eraseDups)),
              ("iter", Json.arr (itS.map fun (c, xs) => Json.arr #[Json.str c, jstrs xs]).toArray),
              ("canon", Json.mkObj canon), ("aliases", Json.mkObj al)]

def showModel (m : Model Rat) : Json :=
  let univ := sortStrs ((m.known ++ m.ar.cv).eraseDups)
  Json.mkObj [
    ("states", Json.arr (m.states.map showVar).toArray), ("ders", Json.arr (m.ders.map showVar).toArray),
    ("algs", Json.arr (m.algs.map showVar).toArray), ("inputs", Json.arr (m.inputs.map showVar).toArray),
    ("params", Json.arr (m.params.map showVar).toArray), ("consts", Json.arr (m.consts.map showVar).toArray),
    ("eqs", Json.arr (m.eqs.map showEx).toArray), ("inits", Json.arr (m.inits.map showEx).toArray),
    ("delays", Json.arr (m.delays.map fun d => Json.arr #[showEx d.1, showEx d.2]).toArray),
    ("ar", showAR m.ar univ), ("warned", Json.bool m.warned),
    ("n_unknowns", Json.num (nUnknowns m : Nat)), ("n_eqs", Json.num (m.eqs.length : Nat)),
    ("dangling", jstrs (sortStrs m.dangling))]

def showErr : Err → Json
  | .requiresExpandMx => Json.mkObj [("kind", "requires-expand-mx")]
  | .keyError n => Json.mkObj [("kind", "KeyError"), ("arg", Json.str n)]
  | .assertion => Json.mkObj [("kind", "AssertionError")]
  | .duplicateSymbol n => Json.mkObj [("kind", "duplicate-symbol"), ("arg", Json.str n)]
  | .nanConstant n => Json.mkObj [("kind", "nan-constant"), ("arg", Json.str n)]
  | .unsupported w => Json.mkObj [("kind", "unsupported"), ("arg", Json.str w)]

/-- constant folding: the rewriting the driver's engine applies after a substitution -/
def cfold : Ex Rat → Ex Rat
  | .un o a =>
    match cfold a with
    | .const c =>
      match o with
      | .neg => .const (-c)
      | .twice => .const (c + c)
      | .sq => .const (c * c)
      | .fabs => .const (if c < 0 then -c else c)
      | o => .un o (.const c)
    | a' => .un o a'
  | .bin o a b =>
    match cfold a, cfold b with
    | .const x, .const y =>
      match o with
      | .add => .const (x + y)
      | .sub => .const (x - y)
      | .mul => .const (x * y)
      | .div => if y = 0 then .bin .div (.const x) (.const y) else .const (x / y)
      | .ifElseZero => .const (if x = 0 then 0 else y)
      | o => .bin o (.const x) (.const y)
    | a', b' => .bin o a' b'
  | e => e

def b2r (b : Bool) : Rat := if b then 1 else 0

/-- the interpretation used by the driver's `eval` (comparison operators give 0/1) -/
def ratInterp : Interp Rat where
  fabs := fun x => if x < 0 then -x else x
  sqrt := fun x => x          -- never evaluated by the harness (no OP_SQRT in generated models)
  un := fun n x => match n with
    | "OP_NOT" => b2r (x = 0)
    | "OP_INV" => 1 / x
    | _ => x
  bin := fun n x y => match n with
    | "OP_LT" => b2r (x < y) | "OP_LE" => b2r (x ≤ y) | "OP_EQ" => b2r (x = y) | "OP_NE" => b2r (x ≠ y)
    | "OP_AND" => b2r (x ≠ 0 ∧ y ≠ 0) | "OP_OR" => b2r (x ≠ 0 ∨ y ≠ 0)
    | _ => 0

def passOf : String → Except String Pass
  | "resolve_parameter_values" => pure .resolve
  | "replace_parameter_expressions" => pure .pexpr
  | "replace_constant_expressions" => pure .cexpr
  | "eliminate_constant_assignments" => pure .cassign
  | "replace_parameter_values" => pure .pvalues
  | "replace_constant_values" => pure .cvalues
  | "eliminable_variable_expression" => pure .elim
  | "factor_and_simplify_equations" => pure .factor
  | "detect_aliases" => pure .alias
  | p => throw s!"unknown-pass {p}"

def optBool (j : Json) (k : String) (d : Bool) : Bool := (j.getObjValAs? Bool k).toOption.getD d

def parseOpts (j : Json) : Except String Opts := do
  let matched ← match j.getObjVal? "matched" with
    | .ok Json.null => pure none
    | .ok a => do pure (some (← (← a.getArr?).toList.mapM (·.getStr?)))
    | .error _ => pure none
  pure { expandVectors := optBool j "expand_vectors" false, expandMx := optBool j "expand_mx" false,
         resolveParameterValues := optBool j "resolve_parameter_values" false,
         replaceParameterExpressions := optBool j "replace_parameter_expressions" false,
         replaceConstantExpressions := optBool j "replace_constant_expressions" false,
         eliminateConstantAssignments := optBool j "eliminate_constant_assignments" false,
         replaceParameterValues := optBool j "replace_parameter_values" false,
         replaceConstantValues := optBool j "replace_constant_values" false,
         eliminable := matched, factorAndSimplify := optBool j "factor_and_simplify_equations" false,
         detectAliases := optBool j "detect_aliases" false,
         allowDerivativeAliases := optBool j "allow_derivative_aliases" true,
         reduceAffine := optBool j "reduce_affine_expression" false,
         iterative := optBool j "iterative_simplification" false }

/-- observed `is_zero` answers: `[[i, a, b, negative, answer], …]`, and observed views `[[i, tree], …]` -/
def parseEngine (j : Json) : Except String (Engine Rat) := do
  let gz ← (← arrOf j "gzero").mapM fun e => do
    let a ← e.getArr?
    pure (((← (a[0]?.getD Json.null).getNat?), (← (a[1]?.getD Json.null).getStr?), (← (a[2]?.getD Json.null).getStr?),
           (← (a[3]?.getD Json.null).getBool?)), (← (a[4]?.getD Json.null).getBool?))
  let vw ← (← arrOf j "views").mapM fun e => do
    let a ← e.getArr?
    pure ((← (a[0]?.getD Json.null).getNat?), (← parseEx (a[1]?.getD Json.null)))
  pure { norm := cfold,
         gzero := fun i a b n => (gz.lookup (i, a, b, n)).getD false,
         view := fun i e => (vw.lookup i).getD e }

def handle (req : Json) : Except String Json := do
  let op ← req.getObjValAs? String "op"
  match op with
  | "simplify.pass" => do
    let pname ← req.getObjValAs? String "pass"
    if pname == "reduce_affine_expression" then
      let m ← parseModel (← req.getObjVal? "state")
      return Json.mkObj [("ok", true), ("raised", Json.null), ("state", showModel (reduceAffine m))]
    let p ← passOf pname
    let m ← parseModel (← req.getObjVal? "state")
    let o ← parseOpts (← req.getObjVal? "opts")
    let E ← parseEngine req
    match Pass.run E o p m with
    | .ok m' => pure (Json.mkObj [("ok", true), ("raised", Json.null), ("state", showModel m')])
    | .error err => pure (Json.mkObj [("ok", true), ("raised", showErr err)])
  | "simplify.eval" => do
    let trees ← (← arrOf req "trees").mapM parseEx
    let env ← (← arrOf req "env").mapM fun e => do
      let a ← e.getArr?
      pure ((← (a[0]?.getD Json.null).getStr?), (← parseRat (← (a[1]?.getD Json.null).getStr?)))
    let σ : String → Rat := fun n => (env.lookup n).getD 0
    let free := (trees.flatMap Ex.syms).eraseDups.filter fun n => (env.lookup n).isNone
    pure (Json.mkObj [("ok", true), ("values", jstrs (trees.map fun t => showRat (t.eval ratInterp σ))),
                      ("free", jstrs (sortStrs free))])
  | "simplify.describe" => do
    let m ← parseModel (← req.getObjVal? "state")
    pure (Json.mkObj [("ok", true), ("state", showModel m)])
  | o => throw s!"unknown-op {o}"

end PymocaVerif.Simplify.J
