"""C16 — alias elimination merges variable metadata soundly.

Real code: `Model.simplify({"detect_aliases": True})` of `pymoca.backends.casadi.model` on generated
Modelica models whose equations contain alias chains (`a = b`, `a = -b`, `a + b = 0`, ... in random
order and orientation) over one state / input / algebraic canonical per class, with random dyadic
bounds, nominals, fixed flags and start values (literals, or affine expressions of a parameter,
evaluated at exact parameter vectors).

Direct oracle (this file, independent of the Lean model): a signed union-find over the generated
equations gives the classes and the sign of every member relative to the surviving variable; the
survivor's min/max must be the intersection of the sign-adjusted intervals, nominal the largest,
fixed the disjunction, start its own if it had one, otherwise one of the sign-adjusted explicit
starts of its aliases (default marker if there is none); the same numbers must appear in the
survivor's row of `variable_metadata_function`.

Correspondence: the Lean model `PymocaVerif.Model.AliasMerge` (driver `drv_c16`) folds the merge
step over the aliases and must reproduce min/max/nominal/fixed exactly; these do not depend on the
(undefined) iteration order of the Python set (theorem merge_perm_invariant).  The adopted start and the
resulting `python_type` do: they must be one of the model's order-independent choices (`startChoices`,
theorem start_admissible_any_order).  Further streams link already merged classes in a later pass (the
"already handled in a previous pass" branch; each pass is checked from the attributes the previous one
really left) and run the same structures on arrays with expand_vectors.
"""
import json
from fractions import Fraction

from harness.common import HarnessError, impl_frames
from harness.gen import a09
from harness.gen.a09 import xj, xneg, xmax, xmin, show

DRIVERS = ["drv_c16"]
RULE = ("one case = one generated model (1-3 alias classes, 1-6 members each, canonical state/input/algebraic, "
        "random signs, equation forms and order, dyadic attributes, optional parameter-dependent bounds) simplified with "
        "detect_aliases and observed at 1-3 exact parameter vectors; non-trivial = at least one class with >= 2 members "
        "in which an alias contributes a bound, nominal, fixed flag or start that differs from the canonical's own; "
        "distinct = distinct model text + parameter vectors")
TRUSTED = ["CasADi's fmax/fmin/negation on floats and MX, and evaluation of MX functions at exactly representable points",
           "AliasRelation (property C17) supplies the classes and signs; here only their use by the merge loop is modelled"]
ASSUMPTIONS = ["attribute values are finite dyadic rationals, +-inf defaults, or k*p+c of one Real parameter (no NaN bounds)",
               "every class has at most one state/input member (two of them are never aliased by the code)",
               "no assumption on the iteration order of the Python set of aliases: order-dependent outcomes (adopted start, "
               "python_type) are compared against the set of outcomes the model allows",
               "fixed attributes are Booleans (the code folds them with fmax over 0/1)"]

FORMS_POS = ["{a} = {b}", "{b} = {a}", "{a} - {b} = {z}", "{z} = {a} - {b}", "-{a} = -{b}", "2*{a} = 2*{b}"]
FORMS_NEG = ["{a} = -{b}", "{a} + {b} = {z}", "-{a} = {b}", "{b} = -{a}", "{z} = {a} + {b}", "-{a} - {b} = {z}"]
MERGED = ("min", "max", "nominal", "fixed", "start")


# ---- case generation ------------------------------------------------------------------------
def dy(rng, lo=-8, hi=8, den=(1, 1, 2, 4)):
    d = rng.choice(den)
    return Fraction(rng.randint(lo * d, hi * d), d)


def gen_attr(rng, nparams, lo, hi, allow_par=True):
    """an attribute value: literal or k*p_i + c"""
    if allow_par and nparams and rng.random() < 0.2:
        return {"par": rng.randrange(nparams), "k": xj(rng.choice([1, 1, 2, -1, Fraction(1, 2), -2])), "c": xj(dy(rng, -3, 3))}
    return {"lit": xj(dy(rng, lo, hi))}


def gen_var(rng, name, kind, nparams, typ="Real", par_start=False):
    v = {"name": name, "kind": kind, "type": typ, "min": None, "max": None, "nominal": None, "start": None, "fixed": None}
    integer = typ == "Integer"
    den = (1,) if integer else (1, 1, 2, 4)
    if rng.random() < 0.6:
        v["min"] = {"lit": xj(dy(rng, -8, 2, den))} if integer or rng.random() < 0.8 else gen_attr(rng, nparams, -8, 2)
    if rng.random() < 0.6:
        v["max"] = {"lit": xj(dy(rng, -2, 8, den))} if integer or rng.random() < 0.8 else gen_attr(rng, nparams, -2, 8)
    if rng.random() < 0.5:
        v["nominal"] = {"lit": xj(dy(rng, 1, 9, den) if rng.random() < 0.9 else dy(rng, -4, 0, den))}
        if not integer and rng.random() < 0.15:
            v["nominal"] = gen_attr(rng, nparams, 1, 9)
    if rng.random() < 0.4:
        v["fixed"] = rng.random() < 0.6
    if par_start:
        v["start"] = {"par": rng.randrange(nparams), "k": xj(rng.choice([2, -1, Fraction(1, 2), 3])), "c": xj(dy(rng, -3, 3))}
    elif rng.random() < 0.4:
        v["start"] = {"lit": xj(dy(rng, -6, 6, den))}
    return v


def gen_case(rng, stream="main"):
    if stream == "vector":
        # the same alias structure on arrays of one length, simplified with expand_vectors + detect_aliases:
        # every element is an alias system of its own; attributes are `each` scalars or array literals
        case = gen_case(rng, "main")
        n = rng.choice([2, 3])
        case.update(stream="vector", dim=n)
        for v in case["vars"]:
            v["type"] = "Real"
            for a in ("min", "max", "nominal", "start"):
                if v[a] is not None and "lit" in v[a] and rng.random() < 0.5:
                    lo, hi = {"min": (-8, 2), "max": (-2, 8), "nominal": (1, 9), "start": (-6, 6)}[a]
                    v[a] = {"arr": [xj(dy(rng, lo, hi)) for _ in range(n)]}
        return case
    nparams = rng.choice([0, 0, 1, 2]) if stream != "param-start" else rng.choice([1, 2])
    params = [{"name": "p%d" % (i + 1), "value": xj(dy(rng, -3, 3))} for i in range(nparams)]
    nclass = rng.choice([1, 1, 2, 2, 3]) if not stream.startswith("twopass") else rng.choice([2, 3])
    vars_, eqs, classes = [], [], []
    n = 0
    for ci in range(nclass):
        kind = rng.choice(["state", "input", "alg", "alg"])
        size = rng.choice([0, 1, 1, 2, 2, 3, 4, 5]) if stream == "main" else rng.choice([1, 2, 3])
        members = []
        for k in range(size + 1):
            n += 1
            name = "v%d" % n
            typ = "Integer" if (k > 0 or kind == "alg") and rng.random() < 0.06 else "Real"
            vars_.append(gen_var(rng, name, kind if k == 0 else "alg", nparams, typ))
            if members:
                other = rng.choice(members) if rng.random() < 0.6 else members[-1]
                neg = rng.random() < 0.5
                a, b = (name, other) if rng.random() < 0.5 else (other, name)
                eqs.append({"a": a, "b": b, "neg": neg, "form": rng.randrange(6)})
            members.append(name)
        if len(members) > 2 and rng.random() < 0.15:
            # a redundant, consistent equation between two members of the class
            a, b = rng.sample(members, 2)
            eqs.append({"a": a, "b": b, "neg": _rel_sign(eqs, a, b), "form": rng.randrange(6), "redundant": True})
        classes.append(members)
    if stream == "param-start":
        # two members of one class with parameter-dependent explicit starts (known finding C16-F1)
        big = max(classes, key=len)
        if len(big) < 2:
            return gen_case(rng, stream)
        for nm in rng.sample(big, 2):
            v = next(x for x in vars_ if x["name"] == nm)
            v["start"] = {"par": rng.randrange(nparams), "k": xj(rng.choice([2, -1, 3])), "c": xj(dy(rng, -3, 3))}
            v["type"] = "Real"
    elif nparams:
        # at most one parameter-dependent start per class (two of them make the conflict check raise)
        for members in (classes if not stream.startswith("twopass") else classes[:1]):
            if rng.random() < 0.25:
                pick = rng.choice(members)
                v = next(x for x in vars_ if x["name"] == pick)
                if v["type"] == "Real":
                    v["start"] = {"par": rng.randrange(nparams), "k": xj(rng.choice([2, -1, Fraction(1, 2)])), "c": xj(dy(rng, -3, 3))}
    rng.shuffle(eqs)
    late, route, kc = [], None, None
    if stream in ("twopass", "twopass-neg"):
        # link the classes after the first pass; at most one state/input overall
        dne = [c for c in classes if next(x for x in vars_ if x["name"] == c[0])["kind"] != "alg"]
        for c in dne[1:]:
            next(x for x in vars_ if x["name"] == c[0])["kind"] = "alg"
        for i in range(1, len(classes)):
            late.append({"ca": i - 1, "cb": i, "neg": stream == "twopass-neg" and rng.random() < 0.7})
        if stream == "twopass-neg" and not any(l["neg"] for l in late):
            late[0]["neg"] = True
        route = rng.choice(["append", "kc"])
        if route == "kc":
            # a helper class ka = kb and `ka - kb + kc = 0`: kc is known to be 0 only after the first pass, so
            # the late equations `a -+ b + kc = 0` become alias equations in the second pass of one model
            names = ["v%d" % (n + 1), "v%d" % (n + 2), "v%d" % (n + 3)]
            n += 3
            for nm in names:
                vars_.append(gen_var(rng, nm, "alg", nparams))
            vars_[-1].update(min=None, max=None, nominal=None, start=None, fixed=None)
            eqs.append({"a": names[0], "b": names[1], "neg": False, "form": 0})
            classes.append(names[:2])
            kc = {"a": names[0], "b": names[1], "c": names[2]}
    nextra = rng.choice([0, 1, 2])
    extra = []
    for k in range(nextra):
        n += 1
        vars_.append(gen_var(rng, "v%d" % n, "alg", nparams))
        extra.append("v%d" % n)
    order = list(range(len(vars_)))
    rng.shuffle(order)
    npv = 1 if not nparams else rng.choice([2, 3])
    pvecs = [[xj(dy(rng, -4, 4)) for _ in range(nparams)] for _ in range(npv)]
    if nparams:
        pvecs[0] = [xj(0)] * nparams if rng.random() < 0.3 else pvecs[0]
    return {"stream": stream, "params": params, "vars": [vars_[i] for i in order], "eqs": eqs, "extra": extra,
            "late": late, "route": route, "kc": kc, "classes": classes, "pvecs": pvecs}


def _rel_sign(eqs, a, b):
    par = parity_map(eqs)
    return par[a][1] != par[b][1]


def parity_map(eqs, names=()):
    """signed union-find: name -> (root, parity)"""
    parent = {}

    def find(x):
        parent.setdefault(x, (x, False))
        p, s = parent[x]
        if p == x:
            return x, False
        r, rs = find(p)
        parent[x] = (r, s != rs)
        return parent[x]

    for e in eqs:
        ra, sa = find(e["a"])
        rb, sb = find(e["b"])
        if ra != rb:
            parent[ra] = (rb, (sa != sb) != e["neg"])
        elif (sa != sb) != e["neg"]:
            raise HarnessError("generator produced an inconsistent alias equation")
    for nme in names:
        find(nme)
    return {x: find(x) for x in list(parent)}


# ---- Modelica text --------------------------------------------------------------------------
def attr_text(a, params):
    if "arr" in a:
        return "{" + ", ".join(a09.mo_num(a09.jx(x)) for x in a["arr"]) + "}"
    if "lit" in a:
        return a09.mo_num(a09.jx(a["lit"]))
    k, c, p = a09.jx(a["k"]), a09.jx(a["c"]), params[a["par"]]["name"]
    t = p if k == 1 else "%s*%s" % (a09.mo_num(k) if k > 0 else "(%s)" % a09.mo_num(k), p)
    if c != 0:
        t += (" + " + a09.mo_num(c)) if c > 0 else (" - " + a09.mo_num(-c))
    return t


def attr_at(a, pvec, default):
    if a is None:
        return default
    if "lit" in a:
        return a09.jx(a["lit"])
    return a09.jx(a["k"]) * pvec[a["par"]] + a09.jx(a["c"])


def build_text(case, with_late=True):
    lines = ["model M"]
    for p in case["params"]:
        lines.append("  parameter Real %s = %s;" % (p["name"], a09.mo_num(a09.jx(p["value"]))))
    dim = case.get("dim") or 0
    vec = (lambda c: "fill(%d, %d)" % (c, dim)) if dim else (lambda c: "%d" % c)
    for v in case["vars"]:
        mods = []
        for a in ("min", "max", "nominal", "start"):
            if v[a] is not None:
                each = "each " if dim and "arr" not in v[a] else ""
                mods.append("%s%s = %s" % (each, a, attr_text(v[a], case["params"])))
        if v["fixed"] is not None:
            mods.append("%sfixed = %s" % ("each " if dim else "", "true" if v["fixed"] else "false"))
        lines.append("  %s%s %s%s%s;" % ("input " if v["kind"] == "input" else "", v["type"], v["name"],
                                         "[%d]" % dim if dim else "", "(" + ", ".join(mods) + ")" if mods else ""))
    lines.append("equation")
    k = 0
    for v in case["vars"]:
        if v["kind"] == "state":
            k += 1
            lines.append("  der(%s) = %s;" % (v["name"], vec(k)))
    for e in case["eqs"]:
        f = (FORMS_NEG if e["neg"] else FORMS_POS)[e["form"]]
        lines.append("  " + f.format(a=e["a"], b=e["b"], z="zeros(%d)" % dim if dim else "0") + ";")
    for i, nme in enumerate(case["extra"]):
        lines.append("  %s = %s*time + %s;" % (nme, vec(i + 2), vec(i + 1)))
    if case.get("kc"):
        kc = case["kc"]
        lines.append("  %s - %s + %s = 0;" % (kc["a"], kc["b"], kc["c"]))
        for l in (late_text_eqs(case) if with_late else []):
            lines.append("  %s %s %s + %s = 0;" % (l["a"], "+" if l["neg"] else "-", l["b"], kc["c"]))
    # classes of algebraic variables only get a defining equation (keeps the system square)
    kinds = {v["name"]: v["kind"] for v in case["vars"]}
    for i, members in enumerate(case["classes"]):
        linked = case["late"] and not (case.get("kc") and i == len(case["classes"]) - 1)
        if kinds[members[0]] == "alg" and not (linked and i > 0):
            lines.append("  3*%s = %s*time + %s;" % (members[-1], vec(i + 2), vec(7)))
    lines.append("end M;")
    return "\n".join(lines) + "\n"


def expand_case(case):
    """the element-wise reading of a `vector` case: variable v of length n -> v[1] .. v[n]"""
    n = case.get("dim")
    if not n:
        return case
    el = lambda name, k: "%s[%d]" % (name, k + 1)
    vars_ = []
    for v in case["vars"]:
        for k in range(n):
            w = dict(v, name=el(v["name"], k))
            for a in ("min", "max", "nominal", "start"):
                if v[a] is not None and "arr" in v[a]:
                    w[a] = {"lit": v[a]["arr"][k]}
            vars_.append(w)
    return dict(case, dim=0, _orig=case,
                vars=vars_,
                eqs=[dict(e, a=el(e["a"], k), b=el(e["b"], k)) for e in case["eqs"] for k in range(n)],
                extra=[el(x, k) for x in case["extra"] for k in range(n)],
                classes=[[el(m, k) for m in members] for members in case["classes"] for k in range(n)])


def late_text_eqs(case):
    """the late alias equations of the `kc` route, between the first members of consecutive classes, with the
    member-level signs `prepare` computed"""
    if "late_text" not in case:
        raise HarnessError("kc-route case was not prepared")
    return case["late_text"]


def prepare(case):
    """`late[i].neg` is the sign wanted between the variables that survive the first pass.  The `kc` route writes
    the late equations between the first members of the classes, so their member-level signs depend on which
    member the real code keeps: found by a dry run of the first pass (without the late equations)."""
    if not case.get("kc") or "late_text" in case:
        return case
    from pymoca import parser
    from pymoca.backends.casadi import generator as gen
    try:
        model = gen.generate(parser.parse(build_text(case, with_late=False), bypass_cache=True), "M", {})
        model.simplify({"detect_aliases": True, "eliminate_constant_assignments": True, "replace_constant_values": True})
        alive = {v.symbol.name() for lst in ("states", "alg_states", "inputs") for v in getattr(model, lst)}
    except Exception as e:
        if not impl_frames(e.__traceback__):
            raise
        alive = set()
    par = parity_map(case["eqs"], [v["name"] for v in case["vars"]])
    out = []
    for l in case["late"]:
        a, b = case["classes"][l["ca"]][0], case["classes"][l["cb"]][0]
        rel = l["neg"]
        for x in (a, b):
            s = [m for m in par if par[m][0] == par[x][0] and m in alive]
            if len(s) == 1:
                rel = rel != (par[x][1] != par[s[0]][1])
        out.append({"a": a, "b": b, "neg": rel, "form": 0})
    case["late_text"] = out
    return case


# ---- real code ------------------------------------------------------------------------------
def observe(model, pvecs):
    from pymoca.backends.casadi.model import _DefaultValue
    out = {"vars": {}, "meta": []}
    for lst in ("states", "alg_states", "inputs"):
        for v in getattr(model, lst):
            o = {"list": lst, "aliases": list(v.aliases), "ptype": v.python_type.__name__, "attrs": {}}
            for a in MERGED:
                val = getattr(v, a)
                if a == "start" and isinstance(val, _DefaultValue):
                    o["attrs"][a] = {"t": "_DefaultValue", "v": ["dflt"] * len(pvecs)}
                    continue
                vals = []
                for pv in pvecs:
                    ev = a09.eval_attr(model, val, pv)
                    if len(ev) != 1:
                        raise HarnessError("scalar attribute %s of %s has %d elements" % (a, v.symbol.name(), len(ev)))
                    vals.append(ev[0])
                o["attrs"][a] = {"t": a09.tname(val), "v": vals}
            out["vars"][v.symbol.name()] = o
    for pv in pvecs:
        out["meta"].append(a09.eval_metadata(model, pv))
    out["rows"] = {}
    for li, lst in enumerate(("states", "alg_states", "inputs")):
        for i, v in enumerate(getattr(model, lst)):
            out["rows"][v.symbol.name()] = (li, i)
    return out


def run_impl(case):
    """-> {"raised": name} | {"pass1": obs, "final": obs}"""
    import casadi as ca
    from pymoca import parser
    from pymoca.backends.casadi import generator as gen
    pvecs = [[a09.jx(x) for x in pv] for pv in case["pvecs"]]
    try:
        tree = parser.parse(build_text(case), bypass_cache=True)
        if tree is None:
            raise HarnessError("generated model does not parse:\n" + build_text(case))
        model = gen.generate(tree, "M", {"expand_vectors": True} if case.get("dim") else {})
    except HarnessError:
        raise
    except Exception as e:
        return {"raised": "generate:" + type(e).__name__, "msg": str(e)[:300]}
    opts = {"detect_aliases": True}
    if case.get("dim"):
        opts["expand_vectors"] = True
    if case.get("kc"):
        opts.update(eliminate_constant_assignments=True, replace_constant_values=True)
    try:
        model.simplify(dict(opts))
    except Exception as e:
        if not impl_frames(e.__traceback__):
            raise
        return {"raised": type(e).__name__, "msg": str(e)[:300]}
    res = {"raised": None, "pass1": observe(model, pvecs)}
    if case["late"]:
        if case.get("kc"):
            res["late_eqs"] = late_text_eqs(case)
        else:
            par = parity_map(case["eqs"], [v["name"] for v in case["vars"]])
            surv = {}
            for name in res["pass1"]["vars"]:
                surv.setdefault(par[name][0], name)
            syms = {v.symbol.name(): v.symbol for lst in ("states", "alg_states", "inputs") for v in getattr(model, lst)}
            res["late_eqs"] = []
            for l in case["late"]:
                a = surv[par[case["classes"][l["ca"]][0]][0]]
                b = surv[par[case["classes"][l["cb"]][0]][0]]
                model.equations.append(syms[a] + syms[b] if l["neg"] else syms[a] - syms[b])
                res["late_eqs"].append({"a": a, "b": b, "neg": l["neg"], "form": 0})
        try:
            model.simplify(dict(opts))
            model.simplify(dict(opts))      # a further pass finds nothing new and must change nothing
        except Exception as e:
            if not impl_frames(e.__traceback__):
                raise
            return {"raised": "later-pass:" + type(e).__name__, "msg": str(e)[:300]}
    res["final"] = observe(model, pvecs)
    return res


# ---- direct oracle --------------------------------------------------------------------------
def declared(v, pv):
    """declared attribute values of one generated variable at a parameter vector"""
    return {"min": attr_at(v["min"], pv, "-inf"), "max": attr_at(v["max"], pv, "inf"),
            "nominal": attr_at(v["nominal"], pv, Fraction(0)), "fixed": bool(v["fixed"]),
            "start": attr_at(v["start"], pv, None)}


def oracle(case, res):
    """Returns (message, expected, observed) for the first violated clause of the property, or None."""
    allv = {v["name"]: v for v in case["vars"]}
    eqs = case["eqs"] + res.get("late_eqs", [])
    par = parity_map(eqs, list(allv))
    classes = {}
    for nme, (r, s) in par.items():
        classes.setdefault(r, []).append(nme)
    obs = res["final"]
    pvecs = [[a09.jx(x) for x in pv] for pv in case["pvecs"]]
    for members in classes.values():
        if case.get("kc") and members == [case["kc"]["c"]]:
            continue        # the helper that eliminate_constant_assignments turns into a constant
        alive = [m for m in members if m in obs["vars"]]
        if len(alive) != 1:
            return ("class %s has %d surviving variables" % (sorted(members), len(alive)), 1, alive)
        s = alive[0]
        dne = [m for m in members if allv[m]["kind"] != "alg"]
        if dne and dne[0] != s:
            return ("the %s %s was eliminated in favour of %s" % (allv[dne[0]]["kind"], dne[0], s), dne[0], s)
        want_al = sorted(("-" if par[m][1] != par[s][1] else "") + m for m in members if m != s)
        if sorted(obs["vars"][s]["aliases"]) != want_al:
            return ("aliases of %s" % s, want_al, sorted(obs["vars"][s]["aliases"]))
        o = obs["vars"][s]["attrs"]
        for k, pv in enumerate(pvecs):
            own = declared(allv[s], pv)
            m, M, nom, fx = own["min"], own["max"], own["nominal"], own["fixed"]
            starts = []
            for a in members:
                if a == s:
                    continue
                d = declared(allv[a], pv)
                negd = par[a][1] != par[s][1]
                m = xmax(m, xneg(d["max"]) if negd else d["min"])
                M = xmin(M, xneg(d["min"]) if negd else d["max"])
                nom = xmax(nom, d["nominal"])
                fx = fx or d["fixed"]
                if d["start"] is not None:
                    starts.append(-d["start"] if negd else d["start"])
            for name, want in (("min", m), ("max", M), ("nominal", nom), ("fixed", Fraction(int(fx)))):
                if o[name]["v"][k] != want:
                    return ("%s of canonical %s (class %s) at p=%s" % (name, s, want_al, [show(x) for x in pv]),
                            show(want), show(o[name]["v"][k]))
            got = o["start"]["v"][k]
            if own["start"] is not None:
                if got != own["start"]:
                    return ("start of canonical %s was explicit and is not kept" % s, show(own["start"]), show(got))
            elif not starts:
                if got != "dflt":
                    return ("start of canonical %s: no member has an explicit start" % s, "default marker", show(got))
            elif got not in starts:
                return ("start of canonical %s is not one of its aliases' explicit (sign-adjusted) starts" % s,
                        [show(x) for x in starts], show(got))
            # the metadata function reports the same numbers (columns value,min,max,start,fixed,nominal)
            li, ri = obs["rows"][s]
            row = obs["meta"][k][li][ri]
            want_row = ["nan", o["min"]["v"][k], o["max"]["v"][k], Fraction(0) if got == "dflt" else got,
                        o["fixed"]["v"][k], o["nominal"]["v"][k]]
            if row != want_row:
                return ("variable_metadata_function row of %s at p=%s" % (s, [show(x) for x in pv]),
                        [show(x) for x in want_row], [show(x) for x in row])
    return None


def nontrivial(case):
    allv = {v["name"]: v for v in case["vars"]}
    for members in case["classes"]:
        if len(members) < 2:
            continue
        for a in members[1:]:
            if any(allv[a][k] is not None for k in ("min", "max", "nominal", "start")) or allv[a]["fixed"]:
                return True
    return False


# ---- Lean model -----------------------------------------------------------------------------
def jattrs(d, ptype):
    return {"min": xj(d["min"]), "max": xj(d["max"]), "nominal": xj(d["nominal"]), "fixed": bool(d["fixed"]),
            "start": None if d["start"] is None else xj(d["start"]), "ptype": ptype}


_SIGNED_LOOKUP = None


def signed_lookup():
    """How does the current code perform `alias in old_alias_relation.canonical_variables`?  Read off its
    behaviour on the smallest two-pass model (the canonical of an earlier class becomes a negative alias of a
    state): True = the signed string is looked up (never found; finding C16-F2), False = the sign is ignored."""
    global _SIGNED_LOOKUP
    if _SIGNED_LOOKUP is None:
        from pymoca import parser
        from pymoca.backends.casadi import generator as gen
        txt = ("model M\n Real x; Real a(max = 1); Real b;\nequation\n der(x) = 1; a = b;\nend M;\n")
        try:
            m = gen.generate(parser.parse(txt, bypass_cache=True), "M", {})
            m.simplify({"detect_aliases": True})
            syms = {v.symbol.name(): v.symbol for v in m.states + m.alg_states}
            keep = [n for n in ("a", "b") if n in syms][0]
            m.equations.append(syms["x"] + syms[keep])
            m.simplify({"detect_aliases": True})
            _SIGNED_LOOKUP = keep in [v.symbol.name() for v in m.alg_states]
        except Exception as e:
            if not impl_frames(e.__traceback__):
                raise
            _SIGNED_LOOKUP = True
    return _SIGNED_LOOKUP


def obs_attrs(o, k):
    """attributes of an observed variable at parameter vector number k, in the driver's JSON form"""
    got = {a: o["attrs"][a]["v"][k] for a in MERGED}
    return {"min": xj(got["min"]), "max": xj(got["max"]), "nominal": xj(got["nominal"]),
            "fixed": got["fixed"] != 0, "start": None if got["start"] == "dflt" else xj(got["start"]),
            "ptype": o["ptype"]}


def model_pass(ctx, rep, drv, state, obs, old, k):
    """One `detect_aliases` pass, checked against the model: `state` is the attribute table (name -> attrs) before
    the pass, `obs` the observation after it, `old` the observation before it (None in the first pass: gives
    what the loop reads from `old_alias_relation`).  The set of aliases has no defined iteration order, so
    min/max/nominal/fixed (order-independent: theorem merge_perm_invariant) must equal the model's fold exactly,
    and start / python_type must be one of the model's order-independent choices (startChoices: theorem
    start_admissible_any_order).  Returns the set of names left after the pass, or None after a disagreement."""
    old_canon, old_multi = set(), set()
    if old is not None:
        for s, o in old["vars"].items():
            if o["aliases"]:
                old_canon.add(s)
                old_multi.add(s)
                old_multi.update(a.lstrip("-") for a in o["aliases"])
    left = set(state)
    gone = {"min": "-inf", "max": "inf", "nominal": [0, 1], "fixed": False, "start": None, "ptype": "float"}
    for s, o in obs["vars"].items():
        if not o["aliases"]:
            continue
        if s not in state:
            ctx.disagreement("merge.survivors", rep, "no record of canonical " + s, "impl kept it")
            return None
        al = []
        for a in sorted(o["aliases"]):
            nm = a.lstrip("-")
            negd = a.startswith("-")
            al.append({"neg": negd, "oldMulti": nm in old_multi,
                       "inCanon": nm in old_canon and not (negd and signed_lookup()),
                       "attrs": state.get(nm, gone)})
        ans = drv.ask({"op": "merge", "canon": state[s], "aliases": al})
        if not ans.get("ok"):
            raise HarnessError("drv_c16 rejected a merge request: %s" % ans)
        for a, skipped in zip(sorted(o["aliases"]), ans["skipped"]):
            nm = a.lstrip("-")
            if not skipped:
                if nm not in left:
                    raise HarnessError("alias %s is merged by the model but has no attribute record" % nm)
                left.discard(nm)         # `del all_states[alias]`
        m, impl = ans["merged"], obs_attrs(o, k)
        for f in ("min", "max", "nominal", "fixed"):
            if m[f] != impl[f]:
                ctx.disagreement("merge", dict(rep, at=k, var=s, field=f), m, impl)
                return None
        if impl["start"] not in ans["starts"]:
            ctx.disagreement("merge.start", dict(rep, at=k, var=s), ans["starts"], impl["start"])
            return None
        if impl["ptype"] not in ans["ptypes"]:
            ctx.disagreement("merge.ptype", dict(rep, at=k, var=s), ans["ptypes"], impl["ptype"])
            return None
    # variables that are not canonical of anything keep their attributes
    for s, o in obs["vars"].items():
        if not o["aliases"] and s in state and obs_attrs(o, k) != state[s]:
            ctx.disagreement("merge.untouched", dict(rep, at=k, var=s), state[s], obs_attrs(o, k))
            return None
    return left


def compare_model(ctx, case, res, drv):
    rep = case.get("_orig", case)        # what a replay needs (a `vector` case is reported unexpanded)
    allv = {v["name"]: v for v in case["vars"]}
    pt = {"Real": "float", "Integer": "int"}
    pvecs = [[a09.jx(x) for x in pv] for pv in case["pvecs"]]
    for k, pv in enumerate(pvecs):
        state = {n: jattrs(declared(v, pv), pt[v["type"]]) for n, v in allv.items()}
        left = model_pass(ctx, rep, drv, state, res["pass1"], None, k)
        if left is None:
            return
        if sorted(left) != sorted(res["pass1"]["vars"]):
            ctx.disagreement("merge.survivors", rep, sorted(left), sorted(res["pass1"]["vars"]))
            return
        if case["late"]:
            # the later pass starts from what the first pass really left (which start was adopted is the code's choice)
            state = {s: obs_attrs(o, k) for s, o in res["pass1"]["vars"].items()}
            left = model_pass(ctx, rep, drv, state, res["final"], res["pass1"], k)
            if left is None:
                return
            if case.get("kc"):
                left.discard(case["kc"]["c"])
            if sorted(left) != sorted(res["final"]["vars"]):
                ctx.disagreement("merge.survivors", rep, sorted(left), sorted(res["final"]["vars"]))
                return


# ---- one case -------------------------------------------------------------------------------
def check_case(ctx, case, drv):
    res = run_impl(case)
    if res["raised"]:
        ctx.count("raised:" + res["raised"])
        ctx.violation("simplify raised %s on a generated alias model" % res["raised"], case,
                      expected="merged attributes", observed=res, kind="input")
        return
    ecase = expand_case(case)
    bad = oracle(ecase, res)
    if bad:
        ctx.violation(bad[0], dict(case, text=build_text(case)), expected=bad[1], observed=bad[2], kind="input")
        return
    if drv is not None:
        compare_model(ctx, ecase, res, drv)


def stats(ctx, case):
    ctx.count("stream-" + case["stream"])
    ctx.count("params-%d" % len(case["params"]))
    kinds = {v["name"]: v["kind"] for v in case["vars"]}
    for members in case["classes"]:
        ctx.count("class-size-%d" % len(members))
        ctx.count("canonical-" + kinds[members[0]])
    for e in case["eqs"]:
        ctx.count("eq-neg" if e["neg"] else "eq-pos")
    for v in case["vars"]:
        for a in ("min", "max", "nominal", "start"):
            if v[a] is not None and "par" in v[a]:
                ctx.count("attr-parametric-" + a)


def run(ctx):
    from harness import corpus
    import logging
    logging.getLogger("pymoca").setLevel(logging.ERROR)
    drv = ctx.driver("drv_c16")
    quick = ctx.tier == "quick"
    ctx.extra["lookup_of_former_canonicals"] = "signed name (C16-F2 present)" if signed_lookup() else "unsigned name"
    for c in corpus.load("C16"):
        ctx.count("corpus")
        c.pop("_file", None)
        check_case(ctx, c["case"] if "case" in c else c, drv)
    plan = [("main", 400 if quick else 5000), ("twopass", 120 if quick else 1200), ("param-start", 10 if quick else 60),
            ("twopass-neg", 20 if quick else 200), ("vector", 60 if quick else 600)]
    for stream, n in plan:
        for i in range(n):
            if ctx.time_left() < 0:
                ctx.notes.append("stream %s stopped by the time budget after %d cases" % (stream, i))
                break
            case = prepare(gen_case(ctx.rng, stream))
            ctx.case(case, nontrivial=nontrivial(case), key=[build_text(case), case["pvecs"], case["late"]])
            stats(ctx, case)
            check_case(ctx, case, drv)


def search(ctx):
    """Deeper direct-oracle search when a tie broke without a violation: larger classes, more cases."""
    import logging
    logging.getLogger("pymoca").setLevel(logging.ERROR)
    while ctx.time_left() > 0 and not ctx.violations:
        case = prepare(gen_case(ctx.rng, ctx.rng.choice(["main", "main", "twopass", "vector"])))
        ctx.case(case, nontrivial=nontrivial(case), key=[build_text(case), case["pvecs"], case["late"]])
        ctx.count("search")
        res = run_impl(case)
        if res["raised"]:
            ctx.violation("simplify raised %s on a generated alias model" % res["raised"], case, observed=res)
            continue
        bad = oracle(expand_case(case), res)
        if bad:
            ctx.violation(bad[0], dict(case, text=build_text(case)), expected=bad[1], observed=bad[2])


def replay(ctx, payload):
    import logging
    logging.getLogger("pymoca").setLevel(logging.ERROR)
    cases = [payload["case"]] if "case" in payload else [d["case"] for d in payload.get("details", []) if d.get("case")]
    for case in cases:
        _replay_one(ctx, dict(case))


def _replay_one(ctx, case):
    for k in ("text", "at", "var"):
        case.pop(k, None)
    check_case(ctx, case, ctx.driver("drv_c16"))


MANIFEST = dict(
    level_text="Lean 4 theorems about an executable model of the attribute-merge loop of alias elimination (fold over the "
               "aliases: bounds = intersection of the sign-adjusted intervals for every chain length and iteration order, "
               "negative aliases swap and negate, nominal = maximum, fixed = any, start kept or adopted, hierarchical "
               "(two-pass) merging equals flat merging), over any linear order with an order-reversing involutive negation "
               "(every ordered field, and the extended rationals the driver computes with); tied to Model.simplify by a "
               "per-run differential correspondence on generated alias chains and a direct interval/union-find oracle.",
    level_note="Trusted: Lean kernel + standard axioms; the harness; CasADi fmax/fmin and function evaluation at exactly "
               "representable points; AliasRelation's classes and signs (C17). The theorems are about the model.",
    technique="Lean 4 proof (fold invariants, permutation invariance, order-theoretic characterisation) + model/implementation correspondence",
)
READY = True
