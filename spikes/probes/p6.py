import copy, json
from pymoca import parser, tree, ast
def flat_sig(t, name):
    try:
        f = tree.flatten(copy.deepcopy(t) if False else t, ast.ComponentRef.from_string(name))
        c = f.classes[name]
        return (sorted(c.symbols), len(c.equations))
    except Exception as e:
        return "EXC %s: %s" % (type(e).__name__, str(e)[:100])
txt = """
model Sub Real s; equation s = 1; end Sub;
model Base Real b; equation b = 2; end Base;
model Main extends Base; Sub c; Real x; equation x = c.s + b; end Main;
"""
def fresh(): return parser.parse(txt, bypass_cache=True)
# use sympy-like approach: deep copy before flatten so flatten mutation doesn't matter
def F(t, name): return flat_sig(copy.deepcopy(t), name)
t1 = fresh(); t2 = copy.deepcopy(t1)
print("t1 Main", F(t1,"Main")); print("t2 Main", F(t2,"Main"))
# edit t2: add symbol to Sub
t2.classes["Sub"].add_symbol(ast.Symbol(name="extra", type=ast.ComponentRef(name="Real")))
print("after edit t2.Sub: t1 Main", F(t1,"Main")); print("                  t2 Main", F(t2,"Main"))
# edit t1: add symbol to Base
t1.classes["Base"].add_symbol(ast.Symbol(name="extraB", type=ast.ComponentRef(name="Real")))
print("after edit t1.Base: t1 Main", F(t1,"Main")); print("                   t2 Main", F(t2,"Main"))
# copy of copy
t3 = copy.deepcopy(t2)
t3.classes["Sub"].add_equation(ast.Equation(left=ast.ComponentRef(name="extra"), right=ast.Primary(value=5)))
print("t3 Main", F(t3,"Main"), "t2 Main", F(t2,"Main"))
# parents
print("parent ids:", t2.classes["Sub"].parent is t2, t2.classes["Sub"].parent is t1, t3.classes["Sub"].parent is t3, t3.classes["Sub"].parent is t2)
# remove class in t2
t4 = copy.deepcopy(t1)
t4.remove_class(t4.classes["Sub"])
print("t4 (Sub removed) Main", F(t4,"Main"), "| t1 Main", F(t1,"Main"))
