import PymocaVerif.Lemmas.CacheState
import PymocaVerif.Lemmas.CacheFile
/-!
# C21 — an interrupted or in-progress cache write never breaks later loads

Two models.  `CacheState` (shared with C20): the cache file is the first `written` bytes of a
pickle of `size` bytes; `save_model` can die before `open`, or with any number of bytes on
disk; the file can be cut at any offset.  `CacheFile`: two `transfer_model` calls on one
folder at byte level (truncating `open`, private file offsets, writes in arbitrary pieces).

Hypothesis `Lawful cfg` is `unpickleErr ⊆ caught`: whatever CPython's unpickler raises on a
strict prefix of a pickle is among the classes `load_model` converts to `InvalidCacheError`
(the harness observes the classes on every run; the `except` clauses are in the model as
`convert`).  Outside the model (stated in the evidence): torn writes that are not prefixes
when more than two calls race or the two calls write different bytes, and shared libraries
torn by the linker.
-/
namespace PymocaVerif.CacheState

variable {M : Type}

/-- Crash safety at every crash point: let a `transfer_model` die anywhere in `save_model`
    (before `open`, or with any `k` bytes written — `k = 0` is the empty file, `k ≥ size`
    the complete one); the next `transfer_model`, with any options, does not raise and returns
    the compile of the current sources. -/
theorem crash_safe (cfg : Cfg M) (L : List Folder) (hlaw : Lawful cfg) (w : World M)
    (h0 : FreshInv cfg L w) (o o' : Opts) (now size now' size' : Nat) (i : Interrupt)
    (hm : o.norm.mtimeCheck = true) (hl : cfg.exclLibs = true → o.libs = L)
    (hm' : o'.norm.mtimeCheck = true) (hl' : cfg.exclLibs = true → o'.libs = L) :
    let w1 := (transfer cfg w o now size i).1
    (transfer cfg w1 o' now' size').2.model? = some (compileNow cfg w1 o'.norm) :=
  (transfer_spec o' now' size' .done hlaw (transfer_spec o now size i hlaw h0 hm hl).2 hm' hl').1

/-- The cache file cut at *every* byte offset `k` (whatever mtime the cut leaves): the next
    `transfer_model` does not raise and returns the compile of the current sources. -/
theorem truncation_safe (cfg : Cfg M) (L : List Folder) (hlaw : Lawful cfg) (w : World M)
    (h0 : FreshInv cfg L w) (k t : Nat) (o : Opts) (now size : Nat)
    (hm : o.norm.mtimeCheck = true) (hl : cfg.exclLibs = true → o.libs = L) :
    let w1 := (step cfg w (.truncate k t)).1
    (transfer cfg w1 o now size).2.model? = some (compileNow cfg w1 o.norm) :=
  (transfer_spec o now size .done hlaw (step_freshInv (.truncate k t) hlaw h0 trivial) hm hl).1

/-- The same for unbounded histories mixing edits, version changes, interrupted transfers,
    truncations and transfers: no transfer raises, each returns the current compile, and
    the state stays `Fresh` (so the repaired cache is served afterwards). -/
theorem crash_safe_history (cfg : Cfg M) (L : List Folder) (hlaw : Lawful cfg) (hist : List Op)
    (w : World M) (h0 : FreshInv cfg L w) (hadm : Admissible cfg L w hist) :
    AllCorrect cfg w hist ∧ FreshInv cfg L (run cfg w hist).1 :=
  history_spec hlaw hist w h0 hadm

/-- After the repair the cache is used again: a transfer that follows an uninterrupted
    transfer with the same options, nothing newer than the cache, is a hit. -/
theorem repaired_cache_is_served (cfg : Cfg M) (w : World M) (o : Opts) (now size : Nat)
    (hc : (o.norm.cache || o.norm.codegen) = true)
    (hmiss : ∀ m, load cfg w o.norm ≠ .hit m) (hr : ∀ e, load cfg w o.norm ≠ .raised e)
    (hnow : ∀ f ∈ folders o.norm, ∀ x ∈ w.fs f, x.mtime ≤ now) (now' size' : Nat) :
    let w1 := (transfer cfg w o now size).1
    (transfer cfg w1 o now' size').2 = .hit (compileNow cfg w o.norm) := by
  intro w1
  cases hload : load cfg w o.norm with
  | hit m => exact absurd hload (hmiss m)
  | raised e => exact absurd hload (hr e)
  | miss r =>
    have hw1 : w1 = { w with cache := some ⟨now, ⟨w.version, o.norm, compileNow cfg w o.norm⟩, size, size⟩ } := by
      show (transfer cfg w o now size).1 = _
      simp [transfer, hc, hload]
    have hst : (folders o.norm).any (fun f => stale (M := M)
        ⟨now, ⟨w.version, o.norm, compileNow cfg w o.norm⟩, size, size⟩ (w.fs f)) = false := by
      rw [List.any_eq_false]
      intro f hf
      simp only [stale, List.any_eq_true, decide_eq_true_eq, not_exists, not_and, Nat.not_lt]
      exact fun x hx => hnow f hf x hx
    have hl : load cfg w1 o.norm = .hit (compileNow cfg w o.norm) := by
      rw [hw1]
      unfold load
      simp [hst, CacheFile.complete, optsMatch]
    unfold transfer
    simp only [hc, Bool.not_true]
    simp [hl]

/-- The hypothesis `unpickleErr ⊆ caught` is necessary: when unpickling the prefix raises a
    class outside the `except` clauses the exception escapes `transfer_model` (this is what the
    code did for every truncation before `cd26bc9`, and for spliced files before `9d600b8`). -/
theorem uncaught_class_escapes (cfg : Cfg M) (w : World M) (c : CacheFile M) (o : Opts)
    (now size : Nat) (hc : w.cache = some c) (hcut : c.written < c.size)
    (hfresh : ∀ f ∈ folders o.norm, stale c (w.fs f) = false)
    (hcg : (o.norm.cache || o.norm.codegen) = true)
    (hbad : convert (cfg.truncErr c.written) = none) :
    (transfer cfg w o now size).2 = .raised (cfg.truncErr c.written) := by
  have hst : (folders o.norm).any (fun f => stale c (w.fs f)) = false := by
    rw [List.any_eq_false]; intro f hf; simp [hfresh f hf]
  have hcomp : c.complete = false := by simp [CacheFile.complete, hcut]
  unfold transfer
  simp only [hcg, Bool.not_true]
  have : load cfg w o.norm = .raised (cfg.truncErr c.written) := by
    unfold load
    simp [hc, hst, hcomp, hbad]
  simp [this]

/-- Every `Exception` the unpickler raises (by MRO: the documented `UnpicklingError`,
    `AttributeError`, `EOFError`, `ImportError`, `IndexError`, but also `ValueError`,
    `UnicodeDecodeError`, … seen on spliced files) is converted, unless it is a `RuntimeError`. -/
theorem documented_classes_converted (mro : List String) (d : Bool) (c : String)
    (hc : c ∈ caughtClasses) (hm : c ∈ mro) (hr : "RuntimeError" ∉ mro) :
    convert ⟨mro, d⟩ = some .damaged := by
  have h1 : mro.contains "RuntimeError" = false := by simpa using hr
  have h2 : mro.any (fun c => caughtClasses.contains c) = true := by
    rw [List.any_eq_true]; exact ⟨c, hm, by simpa using hc⟩
  unfold convert
  rw [if_neg (by simpa using hr), if_pos h2]

/-- Whatever the bytes of a file that does not unpickle to a cache are — a prefix, a splice of
    two writers with different options, a hole, leftovers of a third writer — the state
    machine only sees "not complete, unpickling raises `truncErr`", and `Lawful` says that
    exception is converted: the call recompiles, returns the compile of the current sources,
    and leaves a `Fresh` state.  (Not covered: a torn file that unpickles *successfully* to a
    wrong dictionary; seed C21-3 shows the in-place variant that makes this reachable.) -/
theorem damaged_cache_is_repaired (cfg : Cfg M) (L : List Folder) (hlaw : Lawful cfg) (w : World M)
    (c : CacheFile M) (hc : w.cache = some c) (hd : c.complete = false) (o : Opts) (now size : Nat)
    (hm : o.norm.mtimeCheck = true) (hl : cfg.exclLibs = true → o.libs = L) :
    (transfer cfg w o now size).2.model? = some (compileNow cfg w o.norm) ∧
      FreshInv cfg L (transfer cfg w o now size).1 := by
  have h0 : FreshInv cfg L w := by
    intro c' hc' hcomp
    rw [hc] at hc'
    cases hc'
    rw [hd] at hcomp
    cases hcomp
  exact transfer_spec o now size .done hlaw h0 hm hl

section examples
def exCfg21 : Cfg Nat :=
  { compile := fun v s _ => v + s.length, truncErr := fun n => ⟨[if n < 2 then "EOFError" else "UnpicklingError", "Exception"], false⟩,
    exclLibs := true }
def exO : Opts := { libs := [], mtimeCheck := true, cache := true, codegen := false, expandMx := false, rest := [] }
def exW21 : World Nat := ⟨fun f => if f = 0 then [⟨"M.mo", 3, 7⟩] else [], none, 1⟩
example : Lawful exCfg21 := by
  intro n; by_cases h : n < 2 <;> simp [exCfg21, convert, caughtClasses, h]
-- the hypotheses are satisfiable; and the crash really leaves a damaged file that is repaired
example : FreshInv exCfg21 [] exW21 ∧ exO.norm.mtimeCheck = true := ⟨(by intro c hc; cases hc), rfl⟩
example : ((transfer exCfg21 (transfer exCfg21 exW21 exO 10 100 (.after 37)).1 exO 20 100).2).kind
    = "compiled:damaged" := by decide
example : ((transfer exCfg21 (transfer exCfg21 (transfer exCfg21 exW21 exO 10 100 (.after 37)).1 exO 20 100).1
    exO 30 100).2).kind = "hit" := by decide
-- classes outside the except clauses: the hypothesis of `uncaught_class_escapes` is satisfiable
example : convert ⟨["KeyboardInterrupt", "BaseException"], false⟩ = none := by decide
example : convert ⟨["RecursionError", "RuntimeError", "Exception", "BaseException"], false⟩ = none := by decide
example : convert ⟨["ValueError", "Exception", "BaseException"], false⟩ = some .damaged := by decide
example : convert ⟨["ModuleNotFoundError", "ImportError", "Exception"], false⟩ = some .damaged := by decide
end examples

end PymocaVerif.CacheState

namespace PymocaVerif.CacheFile

/-- Reader/writer, for calls that write *different* byte strings `B false`, `B true` (different
    options, or sources edited in between) and any mix of in-place and atomic (temporary
    file + rename) writers: in every interleaving of two `transfer_model` calls, a call that
    is about to load sees the initial file, or exactly a prefix of what the *other* call is
    writing (empty, partial, or all of it) — never a splice.  With `damaged_cache_is_repaired`
    (a strict prefix is repaired) and C20 (a complete file is served only if fresh and for
    equal options) every reader therefore returns a correct model.
    Modelling assumptions: two calls (the property's quantifier), and a reader's
    `pickle.load` sees one snapshot of the file. -/
theorem reader_sees_initial_or_prefix (B : Bool → Nat → Nat) (N : Bool → Nat) (valid : File → Bool)
    (f0 : Option File) (acts : List Act) (s : Sys) (i : Bool)
    (hrun : runActsG B N valid (init f0) acts = some s) (hi : s.ph i = .start) :
    s.file = f0 ∨ ∃ f p, s.file = some f ∧ p ≤ N (!i) ∧ IsPre f (B (!i)) p := by
  have hg := goodG_run B N valid f0 acts _ s (goodG_init B N f0) hrun
  have hio : (s.ph i).opened = false := by rw [hi]; rfl
  by_cases hother : (s.ph (!i)).opened = true
  · right
    obtain ⟨f, hfile, hpre⟩ := hg.single (!i) hother (by simpa using hio)
    refine ⟨f, posOf (N (!i)) (s.ph (!i)), hfile, ?_, hpre⟩
    cases hph : s.ph (!i) with
    | start => simp [posOf]
    | missed => simp [posOf]
    | writing p => simp only [posOf]; exact hg.bound _ _ hph
    | done b => cases b <;> simp [posOf]
  · left
    have hother : (s.ph (!i)).opened = false := by simpa using hother
    cases i with
    | false => exact hg.fresh hio hother
    | true => exact hg.fresh hother hio

/-- Atomic writers (temporary file + `os.replace`, any bytes): at every point of every
    schedule the cache file is the initial one or a complete cache of one of the calls — no
    reader and no later call ever sees a partial or spliced file. -/
theorem atomic_writers_file_always_complete (B : Bool → Nat → Nat) (N : Bool → Nat) (valid : File → Bool)
    (f0 : Option File) (acts : List Act) (s : Sys) (hat : atomicOnly acts = true)
    (hrun : runActsG B N valid (init f0) acts = some s) :
    s.file = f0 ∨ ∃ i, s.file = some (File.full (B i) (N i)) :=
  atomic_file B N valid f0 acts (init f0) s hat (Or.inl rfl) hrun

/-- When both calls have returned and at least one of them wrote, the file holds exactly `B`:
    an in-progress or overlapping write leaves nothing behind that could break later loads.
    PARTIAL: in-place writers with one byte string `B` for both.  With different bytes an
    in-place final file can be a splice; then `damaged_cache_is_repaired` applies as long as the
    splice does not unpickle (sampled on the real code), and `atomic_writers_file_always_complete`
    covers the atomic variant for any bytes. -/
theorem final_file_complete_partial (B : Nat → Nat) (N : Nat) (valid : File → Bool)
    (f0 : Option File) (acts : List Act) (s : Sys) (i : Bool)
    (hrun : runActs B N valid (init f0) acts = some s)
    (hdone : ∀ j, ∃ b, s.ph j = .done b) (hi : s.ph i = .done false) :
    ∃ f, s.file = some f ∧ IsPre f B N := by
  have hg := good_run B N valid f0 acts _ s (good_init B N f0) hrun
  have hio : (s.ph i).opened = true := by rw [hi]; rfl
  obtain ⟨l, f, _, hlo, hfile, h1, h2, h3, _⟩ := hg.owner i hio
  obtain ⟨b, hb⟩ := hdone l
  have : b = false := by
    cases b with
    | false => rfl
    | true => rw [hb] at hlo; cases hlo
  subst this
  simp only [hb, posOf] at h2 h3
  exact ⟨f, hfile, by omega, h3⟩

/-- If nobody wrote (both calls were served from the cache) the file is untouched. -/
theorem untouched_when_both_hit (B : Nat → Nat) (N : Nat) (valid : File → Bool)
    (f0 : Option File) (acts : List Act) (s : Sys)
    (hrun : runActs B N valid (init f0) acts = some s)
    (h0 : s.ph false = .done true) (h1 : s.ph true = .done true) : s.file = f0 := by
  have hg := good_run B N valid f0 acts _ s (good_init B N f0) hrun
  exact (hg.fresh (by rw [h0]; rfl) (by rw [h1]; rfl)).1

section examples
def exB : Nat → Nat := fun j => 10 + j
/-- both calls miss; the second opens (truncates) while the first is half way -/
def exActs : List Act :=
  [.load false, .load true, .openW false, .write false 2, .openW true, .write false 2, .write true 1,
   .close false, .write true 3, .close true]
example : (runActs exB 4 (fun f => f.isAll exB 4) (init none) exActs).map (fun s => s.file.map File.bytes)
    = some (some [10, 11, 12, 13]) := by decide
-- in the middle of that schedule the file is *not* a prefix (a hole of zeros): two writers
example : (runActs exB 4 (fun f => f.isAll exB 4) (init none) (exActs.take 6)).map (fun s => s.file.map File.bytes)
    = some (some [0, 0, 12, 13]) := by decide
-- different bytes, in place: the final file can be a splice (here 20,21 from call 1 then 12,13 from call 0)
example : (runActsG (fun i j => if i then 20 + j else 10 + j) (fun _ => 4) (fun _ => false) (init none)
    [.load false, .load true, .openW false, .write false 2, .openW true, .write true 4, .close true, .write false 2, .close false]).map
      (fun s => s.file.map File.bytes) = some (some [20, 21, 12, 13]) := by decide
-- the atomic variant: one call renames a complete temporary file into place while the other writes in place
example : (runActs exB 4 (fun f => f.isAll exB 4) (init none)
    [.load false, .load true, .openW false, .write false 2, .replace true, .write false 2, .close false]).map
      (fun s => s.file.map File.bytes) = some (some [10, 11, 12, 13]) := by decide
end examples

end PymocaVerif.CacheFile
