import PymocaVerif.Lemmas.SimplifyPipeline
/-!
# C14 — simplification preserves the DAE's solutions

Property theorems about the model `PymocaVerif.Model.Simplify` of `Model.simplify`.
`Sat I σ m`: the environment `σ` (a value for every symbol) satisfies the equations of `m`, gives
every parameter and constant its value (this includes the constant assignments simplification
records) and satisfies every alias simplification records.  The theorems hold over every field
`K`, every interpretation `I` of the operations the passes never look into, and every `Engine`
(what is observed of CasADi: rewriting on `substitute`, answers of `is_zero`) that preserves values.
-/
set_option linter.unusedSectionVars false
namespace PymocaVerif.Simplify
open PymocaVerif.AliasRel Lean.Grind

variable {K : Type} [Field K] [DecidableEq K]

/-! ### objects for the non-vacuity examples -/

def exI : Interp Rat := ⟨fun x => if x < 0 then -x else x, fun x => x, fun _ x => x, fun _ _ _ => 0⟩
def exE : Engine Rat := { norm := id, gzero := fun _ _ _ _ => false }
/-- `x - 3 = 0`, `y - 2*x = 0`, `z + y = 0`, `p*(w - z) = 0` with `parameter p = 2` -/
def exM : Model Rat :=
  { algs := [{ name := "x" }, { name := "y" }, { name := "z" }, { name := "w" }],
    params := [{ name := "p", value := some (.const 2) }],
    eqs := [.bin .sub (.sym "x") (.const 3), .bin .sub (.sym "y") (.bin .mul (.const 2) (.sym "x")),
            .bin .add (.sym "z") (.sym "y"), .bin .mul (.sym "p") (.bin .sub (.sym "w") (.sym "z"))] }
def exσ : Env Rat := fun n =>
  if n = "x" then 3 else if n = "y" then 6 else if n = "z" then -6 else if n = "w" then -6 else if n = "p" then 2 else 0
def exO : Opts := { eliminateConstantAssignments := true, replaceParameterValues := true,
                    factorAndSimplify := true, detectAliases := true }

theorem exI_ok : InterpOk exI := by
  constructor
  · intro x; simp only [exI]; split <;> grind
  · intro x; simp [exI]

theorem exE_ok : EngineOk exI exE := ⟨fun _ _ => rfl, fun _ _ h => h, fun _ _ _ => rfl⟩

theorem exM_sat : Sat exI exσ exM := by
  refine ⟨?_, ?_, ?_, ?_⟩
  · intro e he
    simp [exM] at he
    rcases he with rfl | rfl | rfl | rfl <;> simp [Ex.eval, exσ] <;> grind
  · intro v hv t ht
    simp [exM] at hv; subst hv; simp at ht; subst ht; simp [Ex.eval, exσ]
  · intro v hv; simp [exM] at hv
  · exact ⟨fun x A h => by simp [exM, AR.empty] at h, fun x c h => by simp [exM, AR.empty] at h⟩

/-! ### the key lemma -/

/-- Substitution lemma: evaluating `e[y₁ ↦ t₁, …]` in `σ` is evaluating `e` in `σ` with every `yᵢ`
    set to the value of `tᵢ` in `σ`.  It is what makes every substituting pass sound. -/
theorem subst_eval (I : Interp K) (σ : Env K) (l : List (String × Ex K)) (e : Ex K) :
    (e.subst l).eval I σ = e.eval I (upd I σ l) := eval_subst I σ l e

example : ((Ex.bin .add (.sym "x") (.sym "y") : Ex Rat).subst [("x", .const 2)]).eval exI exσ = 8 := by
  simp [Ex.subst, Ex.eval, List.lookup, exσ]; grind

/-! ### every pass is sound, and what it records is true -/

/-- `pass_sound`: whatever the options, a pass that returns (does not raise) maps a model with
    solution `σ` to a model with solution `σ`: the remaining equations hold, the remaining and the
    newly recorded constants have their values, the recorded aliases hold with their signs.  The
    preconditions are the ones the property attaches to the options (`PassPre`). -/
theorem pass_sound {I : Interp K} (hI : InterpOk I) {E : Engine K} (hE : EngineOk I E) {σ : Env K} (o : Opts)
    (p : Pass) {m m' : Model K} (hpre : PassPre I σ E p m) (h : Pass.run E o p m = .ok m')
    (hs : Sat I σ m) : Sat I σ m' :=
  pass_run_sound hI hE o p hpre h hs

example : ∃ m', Pass.run exE exO .cassign exM = .ok m' ∧ PassPre exI exσ exE .cassign exM ∧ Sat exI exσ exM ∧
    names m'.consts = ["x"] :=
  ⟨_, rfl, trivial, exM_sat, by decide⟩

/-- `pipeline_sound`: for every option set, every number of iterations of the loop and every model,
    `simplify` either raises (`.error`, the exceptions of the real code) or returns a model of which
    every solution of the original model is a solution — the projection of the original solution set
    is contained in the simplified one.  By induction over the iterations and the pass list. -/
theorem pipeline_sound {I : Interp K} (hI : InterpOk I) {E : Nat → Pass → Engine K}
    (hE : ∀ i p, EngineOk I (E i p)) {σ : Env K} (o : Opts) {m m' : Model K}
    (hpre : LoopPre I σ E o 50 0 m) (h : simplify E o m = .ok m') (hs : Sat I σ m) : Sat I σ m' :=
  simplifyLoop_sound hI hE o 50 0 0 m m' hpre h hs

/-- `recorded_holds`: every constant value and every alias (sign included) recorded by `simplify`
    holds in every solution of the original model. -/
theorem recorded_holds {I : Interp K} (hI : InterpOk I) {E : Nat → Pass → Engine K}
    (hE : ∀ i p, EngineOk I (E i p)) {σ : Env K} (o : Opts) {m m' : Model K}
    (hpre : LoopPre I σ E o 50 0 m) (h : simplify E o m = .ok m') (hs : Sat I σ m) :
    (∀ v ∈ m'.consts, ∀ t, v.value = some t → σ v.name = t.eval I σ) ∧
    (∀ c a, a ∈ m'.ar.aliases (false, c) → sval σ a = σ c) := by
  have h' := pipeline_sound hI hE o hpre h hs
  refine ⟨h'.consts, ?_⟩
  intro c a ha
  simpa [sval] using aliases_sval h'.alias ha

/-! ### passes that neither lose nor invent solutions (no precondition beyond the property's) -/

/-- `eliminate_constant_assignments` is exact: the kept equations together with the recorded
    constant values say exactly what the equations said (patterns `x`, `x - c`, `c - x`, `x + c`, `c + x`). -/
theorem constant_assignments_exact {I : Interp K} {σ : Env K} (m : Model K) :
    Sat I σ (eliminateConstantAssignments m) ↔ Sat I σ m := cassign_sat m

example : names (eliminateConstantAssignments exM).consts = ["x"] ∧ (eliminateConstantAssignments exM).eqs.length = 3 := by
  decide

/-- `factor_and_simplify_equations` is exact under the property's precondition (the dropped constant
    factors and divisors are non-zero) and the assumption that `fabs`, `sqrt` vanish only at zero. -/
theorem factor_exact {I : Interp K} (hI : InterpOk I) {σ : Env K} {m : Model K}
    (hpre : ∀ e ∈ m.eqs, FactorPre e) : Sat I σ (factorAndSimplify m) ↔ Sat I σ m := factor_sound hI hpre

example : ∀ e ∈ exM.eqs, FactorPre e := by
  intro e he
  simp [exM] at he
  rcases he with rfl | rfl | rfl | rfl <;> simp [FactorPre]

/-- `resolve_parameter_values` only rewrites values by values: exact. -/
theorem resolve_exact {I : Interp K} {E : Engine K} (hE : EngineOk I E) {σ : Env K} (m : Model K) :
    Sat I σ (resolveParameterValues E m) ↔ Sat I σ m := resolve_sat hE m

example : EngineOk exI exE ∧ Sat exI exσ exM := ⟨exE_ok, exM_sat⟩

end PymocaVerif.Simplify
