"""Predicates of the findings of C06 (all fixed; a fixed entry suppresses nothing)."""
from harness.common import known_predicate


@known_predicate
def c06_remove_symbol_after_flatten(case, what):
    """C06-F1: remove_symbol of a symbol that an earlier flatten reached by a class-path reference."""
    return "remove_symbol" in what and "KeyError" in what
