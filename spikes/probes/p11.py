import numpy as np, casadi as ca
from pymoca import parser
from pymoca.backends.casadi import generator as gen
def try_model(txt, name, opts=None):
    t = parser.parse(txt, bypass_cache=True)
    try:
        m = gen.generate(t, name, opts)
        f = m.dae_residual_function
        return m, f
    except Exception as e:
        return None, "EXC %s: %s" % (type(e).__name__, str(e)[:100])
# for loop with step
txt = """model M
 Real x[5];
equation
 for i in 1:2:4 loop
   x[i] = i;
 end for;
 x[2]=0; x[4]=0; x[5] = 7;
end M;"""
m, f = try_model(txt, "M")
print(f)
if m: 
    print(m.equations)
    print(f(0, [0]*5, [], [], [], [], []) if False else f)
for e in ["x / y", "x ^ y", "x <> y", "x == y", "not (x > y)", "x > y and y > 0", "x > y or y > 0", "min(x,y)", "abs(x)", "if x > y then 1 else 2", "noEvent(x)", "sqrt(x)", "x .* y", "x ./ y", "x .^ y", "mod(x,y)", "sign(x)", "floor(x)", "integer(x)", "exp(x)", "log(x)", "atan2(x,y)", "max(x,y)"]:
    txt = "model M Real x,y,z; equation z = %s; end M;" % e
    m, f = try_model(txt, "M")
    if m is None: print(e, "->", f)
    else:
        r = f(0, [], [], [3.0, 2.0, 0.0], [], [], [])
        print(e, "->", m.equations[0], "  val z-rhs at x=3,y=2,z=0:", r)
