/-! # C20 — property theorems (stub: not built yet) -/
