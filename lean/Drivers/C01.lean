/-! Driver for C01 (stub: not built yet). -/
def main : IO Unit := pure ()
