import PymocaVerif.Lemmas.SimplifyPipeline
/-!
# Simplify: the simplified model is self-contained (C15, `closed_residual`)
-/
set_option linter.unusedSectionVars false
set_option linter.unusedSimpArgs false
namespace PymocaVerif.Simplify
open PymocaVerif.AliasRel Lean.Grind

variable {K : Type} [Field K] [DecidableEq K]

/-! ## C15: the simplified model is self-contained -/

/-- no equation, initial equation or delay argument mentions a symbol that is in no variable list -/
def Closed (m : Model K) : Prop := ∀ e ∈ m.exprs, ∀ n ∈ e.syms, n ∈ m.known

theorem dangling_nil_iff (m : Model K) : m.dangling = [] ↔ Closed m := by
  unfold Model.dangling Closed
  rw [List.filter_eq_nil_iff]
  constructor
  · intro h e he n hn
    have := h n (List.mem_eraseDups.2 (List.mem_flatMap.2 ⟨e, he, hn⟩))
    simpa using this
  · intro h n hn
    obtain ⟨e, he, hne⟩ := List.mem_flatMap.1 (List.mem_eraseDups.1 hn)
    simpa using h e he n hne

theorem syms_subst (l : List (String × Ex K)) (e : Ex K) (n : String) (h : n ∈ (e.subst l).syms) :
    (n ∈ e.syms ∧ l.lookup n = none) ∨ ∃ k t, k ∈ e.syms ∧ l.lookup k = some t ∧ n ∈ t.syms := by
  induction e with
  | sym k =>
    simp only [Ex.subst] at h
    cases hk : l.lookup k with
    | none => simp [hk, Ex.syms] at h; subst h; left; simp [Ex.syms, hk]
    | some t => simp [hk] at h; right; exact ⟨k, t, by simp [Ex.syms], hk, h⟩
  | const c => simp [Ex.subst, Ex.syms] at h
  | un o a ih =>
    simp only [Ex.subst, Ex.syms] at h ⊢
    exact ih h
  | bin o a b iha ihb =>
    simp only [Ex.subst, Ex.syms, List.mem_append] at h ⊢
    rcases h with h | h
    · rcases iha h with ⟨h1, h2⟩ | ⟨k, t, h1, h2, h3⟩
      · exact Or.inl ⟨Or.inl h1, h2⟩
      · exact Or.inr ⟨k, t, Or.inl h1, h2, h3⟩
    · rcases ihb h with ⟨h1, h2⟩ | ⟨k, t, h1, h2, h3⟩
      · exact Or.inl ⟨Or.inr h1, h2⟩
      · exact Or.inr ⟨k, t, Or.inr h1, h2, h3⟩

/-- the exprs of a model after substituting everywhere -/
def mapExprs (f : Ex K → Ex K) (m : Model K) : Model K :=
  { m with eqs := m.eqs.map f, inits := m.inits.map f, delays := m.delays.map fun d => (f d.1, f d.2) }

theorem mapExprs_exprs (f : Ex K → Ex K) (m : Model K) : (mapExprs f m).exprs = m.exprs.map f := by
  simp [mapExprs, Model.exprs, List.map_append, Function.comp_def]

/-- substitution keeps a model self-contained when the symbols that stay known stay listed and the
    substituted values only mention listed symbols -/
theorem closed_sub {I : Interp K} {E : Engine K} (hE : EngineOk I E) {m : Model K} {l : List (String × Ex K)}
    {known' : List String} (hc : Closed m)
    (hkeep : ∀ n ∈ m.known, l.lookup n = none → n ∈ known')
    (hvals : ∀ k t, l.lookup k = some t → ∀ n ∈ t.syms, n ∈ known') :
    ∀ e ∈ m.exprs.map (E.sub l), ∀ n ∈ e.syms, n ∈ known' := by
  intro e he n hn
  obtain ⟨e0, he0, rfl⟩ := List.mem_map.1 he
  have hn' := hE.norm_syms _ _ hn
  rcases syms_subst l e0 n hn' with ⟨h1, h2⟩ | ⟨k, t, _, h2, h3⟩
  · exact hkeep n (hc e0 he0 n h1) h2
  · exact hvals k t h2 n h3

theorem names_mapValue (f : Ex K → Ex K) (vs : List (Var K)) : names (vs.map (Var.mapValue f)) = names vs := by
  simp [names, Var.mapValue, Function.comp_def]

theorem substMeta_known (E : Engine K) (l : List (String × Ex K)) (m : Model K) :
    (substMeta E l m).known = m.known ∧ (substMeta E l m).exprs = m.exprs := by
  simp [substMeta, Model.known, Model.exprs, names_mapValue]

theorem resolveLoop_closed (E : Engine K) : ∀ (fuel : Nat) (cur : List String) (m : Model K),
    Closed m → Closed (resolveLoop E fuel cur m)
  | 0, _, m, h => by simpa [resolveLoop] using h
  | f + 1, cur, m, h => by
    rw [resolveLoop_succ]
    split
    · exact h
    · apply resolveLoop_closed E f
      have := substMeta_known E (readyOf m cur) m
      unfold Closed; rw [this.1, this.2]; exact h

theorem factor_syms : ∀ (e : Ex K) (n : String), n ∈ (factor e).syms → n ∈ e.syms := by
  intro e
  induction e with
  | sym k => intro n h; simpa [factor] using h
  | const c => intro n h; simpa [factor] using h
  | un o a ih =>
    intro n h
    cases o <;> simp only [factor, Ex.syms] at h ⊢ <;> first | exact ih n h | exact h
  | bin o a b iha ihb =>
    intro n h
    cases o <;> simp only [factor, Ex.syms, List.mem_append] at h ⊢
    case mul =>
      split at h
      · exact Or.inl (iha n h)
      · split at h
        · exact Or.inr (ihb n h)
        · simpa [Ex.syms] using h
    case div =>
      split at h
      · exact Or.inl (iha n h)
      · simpa [Ex.syms] using h
    all_goals exact h

theorem factor_closed (m : Model K) (h : Closed m) : Closed (factorAndSimplify m) := by
  intro e he n hn
  simp only [factorAndSimplify, Model.exprs, List.mem_append, List.mem_map] at he
  simp only [factorAndSimplify, Model.known]
  rcases he with ((he | he) | he) | he
  · obtain ⟨e0, he0, rfl⟩ := he
    exact h e0 (by simp [Model.exprs, he0]) n (factor_syms e0 n hn)
  · exact h e (by simp [Model.exprs, he]) n hn
  · obtain ⟨d, hd, rfl⟩ := he
    exact h d.1 (by simp only [Model.exprs, List.mem_append, List.mem_map]; exact Or.inl (Or.inr ⟨d, hd, rfl⟩)) n hn
  · obtain ⟨d, hd, rfl⟩ := he
    exact h d.2 (by simp only [Model.exprs, List.mem_append, List.mem_map]; exact Or.inr ⟨d, hd, rfl⟩) n hn

/-! the passes that move or remove variables -/

theorem lookup_ne_none_of_mem {α} : ∀ (l : List (String × α)) (n : String) (t : α), (n, t) ∈ l → l.lookup n ≠ none
  | [], _, _, h => by simp at h
  | (k, v) :: ps, n, t, h => by
    simp only [List.lookup]
    by_cases hk : n = k
    · subst hk; simp
    · have : (n == k) = false := by simpa using hk
      simp only [this]
      rcases List.mem_cons.1 h with h | h
      · simp at h; exact absurd h.1 hk
      · exact lookup_ne_none_of_mem ps n t h

theorem constLoop_sub : ∀ (es : List (Ex K)) (algs : List (Var K)),
    (∀ e ∈ (constLoop es algs).1, e ∈ es) ∧
    (∀ v ∈ algs, v.name ∈ names (constLoop es algs).2.2 ∨ v.name ∈ names (constLoop es algs).2.1)
  | [], algs => by
    simp [constLoop]
    intro v hv; exact Or.inl (List.mem_map.2 ⟨v, hv, rfl⟩)
  | e :: es, algs => by
    cases h : constAssign? (names algs) e with
    | none =>
      rw [constLoop_cons_none h]
      have ih := constLoop_sub es algs
      refine ⟨?_, ih.2⟩
      intro x hx
      rcases List.mem_cons.1 hx with rfl | hx
      · simp
      · exact List.mem_cons_of_mem _ (ih.1 x hx)
    | some p =>
      obtain ⟨n, c⟩ := p
      rw [constLoop_cons_some h]
      have ih := constLoop_sub es (algs.filter (·.name != n))
      refine ⟨fun x hx => List.mem_cons_of_mem _ (ih.1 x hx), ?_⟩
      intro v hv
      by_cases hvn : v.name = n
      · right
        simp only [names, List.map_append, List.mem_append, List.map_map]
        left
        exact List.mem_map.2 ⟨v, List.mem_filter.2 ⟨hv, by simpa using hvn⟩, by simp⟩
      · rcases ih.2 v (List.mem_filter.2 ⟨hv, by simpa using hvn⟩) with h1 | h1
        · exact Or.inl h1
        · right
          simp only [names, List.map_append, List.mem_append]
          exact Or.inr h1

theorem cassign_closed (m : Model K) (h : Closed m) : Closed (eliminateConstantAssignments m) := by
  have hs := constLoop_sub m.eqs m.algs
  intro e he n hn
  have he' : e ∈ m.exprs := by
    simp only [eliminateConstantAssignments, Model.exprs, List.mem_append] at he ⊢
    rcases he with ((he | he) | he) | he
    · exact Or.inl (Or.inl (Or.inl (hs.1 e he)))
    · exact Or.inl (Or.inl (Or.inr he))
    · exact Or.inl (Or.inr he)
    · exact Or.inr he
  have := h e he' n hn
  simp only [eliminateConstantAssignments, Model.known, List.mem_cons, List.mem_append, names, List.map_append] at this ⊢
  rcases this with h0 | ((((h1 | h1) | h1) | h1) | h1) | h1
  · exact Or.inl h0
  · exact Or.inr (Or.inl (Or.inl (Or.inl (Or.inl (Or.inl h1)))))
  · exact Or.inr (Or.inl (Or.inl (Or.inl (Or.inl (Or.inr h1)))))
  · obtain ⟨v, hv, rfl⟩ := List.mem_map.1 h1
    rcases hs.2 v hv with h2 | h2
    · exact Or.inr (Or.inl (Or.inl (Or.inl (Or.inr h2))))
    · exact Or.inr (Or.inr (Or.inr h2))
  · exact Or.inr (Or.inl (Or.inl (Or.inr h1)))
  · exact Or.inr (Or.inl (Or.inr h1))
  · exact Or.inr (Or.inr (Or.inl h1))

theorem substDelays_eq (E : Engine K) (l : List (String × Ex K)) (ds : List (Ex K × Ex K)) :
    substDelays E l ds = ds.map fun d => (E.sub l d.1, E.sub l d.2) := rfl

theorem constValues_const {vs : List (Var K)} {n : String} {t : Ex K} (h : (n, t) ∈ constValues vs) :
    t.syms = [] ∧ ∃ v ∈ vs, v.name = n ∧ hasConstValue v = true := by
  obtain ⟨v, hv, hn⟩ := List.mem_filterMap.1 h
  split at hn
  · rename_i c he
    simp at hn; obtain ⟨rfl, rfl⟩ := hn
    exact ⟨rfl, v, hv, rfl, by simp [hasConstValue, he]⟩
  · simp at hn

theorem constValues_mem {vs : List (Var K)} {v : Var K} (hv : v ∈ vs) (hc : hasConstValue v = true) :
    ∃ t, (v.name, t) ∈ constValues vs := by
  unfold hasConstValue at hc
  split at hc
  · rename_i c he
    exact ⟨Ex.const c, List.mem_filterMap.2 ⟨v, hv, by simp [he]⟩⟩
  · simp at hc

theorem pvalues_closed {I : Interp K} {E : Engine K} (hE : EngineOk I E) {m m' : Model K}
    (h : replaceParameterValues E m = .ok m') (hc : Closed m) : Closed m' := by
  unfold replaceParameterValues at h
  cases hr : removeAliased (m.params.filter hasConstValue) m.ar with
  | error err => simp [hr, bind, Except.bind] at h
  | ok ar =>
    simp [hr, bind, Except.bind, pure, Except.pure] at h
    subst h
    unfold Closed
    rw [(substMeta_known E _ _).1, (substMeta_known E _ _).2]
    have hex : ({ m with eqs := m.eqs.map (E.sub (constValues m.params)), inits := m.inits.map (E.sub (constValues m.params)),
                         delays := substDelays E (constValues m.params) m.delays, ar := ar,
                         params := m.params.filter (fun v => !hasConstValue v) } : Model K).exprs
        = m.exprs.map (E.sub (constValues m.params)) := by
      simp [Model.exprs, substDelays_eq, List.map_append, Function.comp_def]
    rw [hex]
    refine closed_sub hE hc ?_ ?_
    · intro n hn hl
      simp only [Model.known, List.mem_cons, List.mem_append, names] at hn ⊢
      rcases hn with h0 | ((((h1 | h1) | h1) | h1) | h1) | h1
      · exact Or.inl h0
      · exact Or.inr (Or.inl (Or.inl (Or.inl (Or.inl (Or.inl h1)))))
      · exact Or.inr (Or.inl (Or.inl (Or.inl (Or.inl (Or.inr h1)))))
      · exact Or.inr (Or.inl (Or.inl (Or.inl (Or.inr h1))))
      · exact Or.inr (Or.inl (Or.inl (Or.inr h1)))
      · obtain ⟨v, hv, rfl⟩ := List.mem_map.1 h1
        by_cases hcv : hasConstValue v = true
        · obtain ⟨t, ht⟩ := constValues_mem hv hcv
          exact absurd hl (lookup_ne_none_of_mem _ _ _ ht)
        · exact Or.inr (Or.inl (Or.inr (List.mem_map.2 ⟨v, List.mem_filter.2 ⟨hv, by simpa using hcv⟩, rfl⟩)))
      · exact Or.inr (Or.inr h1)
    · intro k t hk n hn
      have := (constValues_const (lookup_mem _ _ _ hk)).1
      simp [this] at hn

theorem allValues_mem : ∀ {vs : List (Var K)} {l : List (String × Ex K)}, allValues vs = .ok l →
    ∀ n t, (n, t) ∈ l ↔ ∃ v ∈ vs, v.name = n ∧ v.value = some t
  | [], l, h => by simp [allValues] at h; subst h; simp
  | v :: vs, l, h => by
    simp only [allValues] at h
    split at h
    · simp at h
    · rename_i e he
      cases hr : allValues vs with
      | error err => simp [hr, Except.map] at h
      | ok l' =>
        simp [hr, Except.map] at h; subst h
        intro n t
        have ih := allValues_mem hr n t
        simp only [List.mem_cons, Prod.mk.injEq, ih]
        constructor
        · rintro (⟨rfl, rfl⟩ | ⟨w, hw, h1, h2⟩)
          · exact ⟨v, Or.inl rfl, rfl, he⟩
          · exact ⟨w, Or.inr hw, h1, h2⟩
        · rintro ⟨w, (rfl | hw), h1, h2⟩
          · left; rw [he] at h2; simp at h2; exact ⟨h1.symm, h2.symm⟩
          · exact Or.inr ⟨w, hw, h1, h2⟩

theorem cvalues_closed {I : Interp K} {E : Engine K} (hE : EngineOk I E) {m m' : Model K}
    (h : replaceConstantValues E m = .ok m') (hc : Closed m) : Closed m' := by
  unfold replaceConstantValues at h
  cases hv : allValues (m.consts.filter Var.simple) with
  | error err => simp [hv, bind, Except.bind] at h
  | ok l =>
    cases hr : removeAliased (m.consts.filter Var.simple) m.ar with
    | error err => simp [hv, hr, bind, Except.bind] at h
    | ok ar =>
      simp [hv, hr, bind, Except.bind, pure, Except.pure] at h
      subst h
      unfold Closed
      rw [(substMeta_known E _ _).1, (substMeta_known E _ _).2]
      have hex : ({ m with eqs := m.eqs.map (E.sub l), inits := m.inits.map (E.sub l),
                           delays := substDelays E l m.delays, ar := ar,
                           consts := m.consts.filter (fun v => !v.simple) } : Model K).exprs
          = m.exprs.map (E.sub l) := by
        simp [Model.exprs, substDelays_eq, List.map_append, Function.comp_def]
      rw [hex]
      refine closed_sub hE hc ?_ ?_
      · intro n hn hl
        simp only [Model.known, List.mem_cons, List.mem_append, names] at hn ⊢
        rcases hn with h0 | ((((h1 | h1) | h1) | h1) | h1) | h1
        · exact Or.inl h0
        · exact Or.inr (Or.inl (Or.inl (Or.inl (Or.inl (Or.inl h1)))))
        · exact Or.inr (Or.inl (Or.inl (Or.inl (Or.inl (Or.inr h1)))))
        · exact Or.inr (Or.inl (Or.inl (Or.inl (Or.inr h1))))
        · exact Or.inr (Or.inl (Or.inl (Or.inr h1)))
        · exact Or.inr (Or.inl (Or.inr h1))
        · obtain ⟨v, hv', rfl⟩ := List.mem_map.1 h1
          by_cases hs : v.simple = true
          · -- a simple constant has a value here (otherwise `allValues` fails), hence it is bound
            cases hval : v.value with
            | none =>
              have : ∃ w ∈ m.consts.filter Var.simple, w.value = none := ⟨v, List.mem_filter.2 ⟨hv', hs⟩, hval⟩
              exfalso
              clear hl hex
              obtain ⟨w, hw, hwn⟩ := this
              have key : ∀ (vs : List (Var K)) (l : List (String × Ex K)), allValues vs = .ok l → ∀ w ∈ vs, w.value ≠ none := by
                intro vs
                induction vs with
                | nil => intro l _ w hw; simp at hw
                | cons a as ih =>
                  intro l hl w hw
                  simp only [allValues] at hl
                  split at hl
                  · simp at hl
                  · rename_i e he
                    cases hr' : allValues as with
                    | error err => simp [hr', Except.map] at hl
                    | ok l' =>
                      rcases List.mem_cons.1 hw with rfl | hw
                      · simp [he]
                      · exact ih l' hr' w hw
              exact key _ _ hv w hw hwn
            | some t =>
              have := (allValues_mem hv v.name t).2 ⟨v, List.mem_filter.2 ⟨hv', hs⟩, rfl, hval⟩
              exact absurd hl (lookup_ne_none_of_mem _ _ _ this)
          · exact Or.inr (Or.inr (List.mem_map.2 ⟨v, List.mem_filter.2 ⟨hv', by simpa using hs⟩, rfl⟩))
      · intro k t hk n hn
        obtain ⟨v, hv', _, hval⟩ := (allValues_mem hv k t).1 (lookup_mem _ _ _ hk)
        have hs := (List.mem_filter.1 hv').2
        simp only [Var.simple, hval] at hs
        cases t <;> simp [Ex.isConst] at hs
        simp [Ex.syms] at hn

/-! the passes with a substitution fixpoint: closed when the resolved values are -/

theorem fixValues_length (E : Engine K) (syms : List String) : ∀ (fuel : Nat) (vs : List (Ex K)),
    (fixValues E syms fuel vs).1.length = vs.length
  | 0, vs => by simp [fixValues]
  | f + 1, vs => by
    simp only [fixValues]
    split
    · simp
    · rw [fixValues_length E syms f]; simp

theorem zip_lookup_ne_none {α} : ∀ (syms : List String) (vs : List α) (n : String), n ∈ syms →
    syms.length ≤ vs.length → (syms.zip vs).lookup n ≠ none
  | [], _, _, h, _ => by simp at h
  | s :: ss, [], _, _, hl => by simp at hl
  | s :: ss, v :: vs, n, h, hl => by
    simp only [List.zip_cons_cons, List.lookup]
    by_cases hk : n = s
    · subst hk; simp
    · have : (n == s) = false := by simpa using hk
      simp only [this]
      rcases List.mem_cons.1 h with h | h
      · exact absurd h hk
      · exact zip_lookup_ne_none ss vs n h (by simpa using hl)

/-- the bindings `replace_*_expressions` substitutes for the variables `vs` -/
def fixedList (E : Engine K) (vs : List (Var K)) : List (String × Ex K) :=
  ((exprValues vs).map (·.1)).zip (fixValues E ((exprValues vs).map (·.1)) 100 ((exprValues vs).map (·.2))).1

theorem not_simple_mem_exprValues {vs : List (Var K)} {v : Var K} (hv : v ∈ vs) (hs : v.simple = false) :
    v.name ∈ (exprValues vs).map (·.1) := by
  unfold Var.simple at hs
  split at hs
  · simp at hs
  · rename_i e he
    exact List.mem_map.2 ⟨(v.name, e), List.mem_filterMap.2 ⟨v, hv, by simp [he, hs]⟩, rfl⟩

theorem pexpr_closed {I : Interp K} {E : Engine K} (hE : EngineOk I E) {m : Model K} (hc : Closed m)
    (hv : ∀ p ∈ fixedList E m.params, ∀ n ∈ p.2.syms,
      n ∈ ({ m with params := m.params.filter Var.simple } : Model K).known) :
    Closed (replaceParameterExpressions E m) := by
  have hkeep : ∀ n ∈ m.known, (fixedList E m.params).lookup n = none →
      n ∈ ({ m with params := m.params.filter Var.simple } : Model K).known := by
    intro n hn hl
    simp only [Model.known, List.mem_cons, List.mem_append, names] at hn ⊢
    rcases hn with h0 | ((((h1 | h1) | h1) | h1) | h1) | h1
    · exact Or.inl h0
    · exact Or.inr (Or.inl (Or.inl (Or.inl (Or.inl (Or.inl h1)))))
    · exact Or.inr (Or.inl (Or.inl (Or.inl (Or.inl (Or.inr h1)))))
    · exact Or.inr (Or.inl (Or.inl (Or.inl (Or.inr h1))))
    · exact Or.inr (Or.inl (Or.inl (Or.inr h1)))
    · obtain ⟨v, hv', rfl⟩ := List.mem_map.1 h1
      by_cases hs : v.simple = true
      · exact Or.inr (Or.inl (Or.inr (List.mem_map.2 ⟨v, List.mem_filter.2 ⟨hv', hs⟩, rfl⟩)))
      · have := not_simple_mem_exprValues hv' (by simpa using hs)
        exact absurd hl (zip_lookup_ne_none _ _ _ this (by rw [fixValues_length]; simp))
    · exact Or.inr (Or.inr h1)
  unfold replaceParameterExpressions
  simp only
  split
  · rename_i hemp
    -- nothing to substitute: every parameter is simple
    intro e he n hn
    have := hc e he n hn
    have hl : (fixedList E m.params).lookup n = none := by
      have : exprValues m.params = [] := by simpa using hemp
      simp [fixedList, this]
    exact hkeep n this hl
  · intro e he n hn
    have hex : e ∈ m.exprs.map (E.sub (fixedList E m.params)) := by
      simpa [substEverywhere, substMeta, Model.exprs, substDelays_eq, List.map_append, Function.comp_def, fixedList] using he
    have := closed_sub hE hc hkeep (fun k t hk n hn => hv (k, t) (lookup_mem _ _ _ hk) n hn) e hex n hn
    simpa [substEverywhere, substMeta, Model.known, names_mapValue] using this

theorem cexpr_closed {I : Interp K} {E : Engine K} (hE : EngineOk I E) {m : Model K} (hc : Closed m)
    (hv : ∀ p ∈ fixedList E m.consts, ∀ n ∈ p.2.syms,
      n ∈ ({ m with consts := m.consts.filter Var.simple } : Model K).known) :
    Closed (replaceConstantExpressions E m) := by
  have hkeep : ∀ n ∈ m.known, (fixedList E m.consts).lookup n = none →
      n ∈ ({ m with consts := m.consts.filter Var.simple } : Model K).known := by
    intro n hn hl
    simp only [Model.known, List.mem_cons, List.mem_append, names] at hn ⊢
    rcases hn with h0 | ((((h1 | h1) | h1) | h1) | h1) | h1
    · exact Or.inl h0
    · exact Or.inr (Or.inl (Or.inl (Or.inl (Or.inl (Or.inl h1)))))
    · exact Or.inr (Or.inl (Or.inl (Or.inl (Or.inl (Or.inr h1)))))
    · exact Or.inr (Or.inl (Or.inl (Or.inl (Or.inr h1))))
    · exact Or.inr (Or.inl (Or.inl (Or.inr h1)))
    · exact Or.inr (Or.inl (Or.inr h1))
    · obtain ⟨v, hv', rfl⟩ := List.mem_map.1 h1
      by_cases hs : v.simple = true
      · exact Or.inr (Or.inr (List.mem_map.2 ⟨v, List.mem_filter.2 ⟨hv', hs⟩, rfl⟩))
      · have := not_simple_mem_exprValues hv' (by simpa using hs)
        exact absurd hl (zip_lookup_ne_none _ _ _ this (by rw [fixValues_length]; simp))
  unfold replaceConstantExpressions
  simp only
  split
  · rename_i hemp
    intro e he n hn
    have := hc e he n hn
    have hl : (fixedList E m.consts).lookup n = none := by
      have : exprValues m.consts = [] := by simpa using hemp
      simp [fixedList, this]
    exact hkeep n this hl
  · intro e he n hn
    have hex : e ∈ m.exprs.map (E.sub (fixedList E m.consts)) := by
      simpa [substEverywhere, substMeta, Model.exprs, substDelays_eq, List.map_append, Function.comp_def, fixedList] using he
    have := closed_sub hE hc hkeep (fun k t hk n hn => hv (k, t) (lookup_mem _ _ _ hk) n hn) e hex n hn
    simpa [substEverywhere, substMeta, Model.known, names_mapValue] using this

end PymocaVerif.Simplify
