import glob, os, itertools, traceback, copy
import pymoca
from pymoca import parser, tree, ast
def classes(t, prefix=()):
    out=[]
    for n,c in t.classes.items():
        out.append(prefix+(n,))
        out += classes(c, prefix+(n,))
    return out
def flat_str(t, name):
    try:
        f = tree.flatten(t, ast.ComponentRef.from_tuple(name))
        return str(f)
    except Exception as e:
        return "EXC %s: %s" % (type(e).__name__, str(e)[:80])
bad=0; tot=0
for f in sorted(glob.glob('/repo/test/models/*.mo')):
    txt=open(f).read()
    t0 = parser.parse(txt, bypass_cache=True)
    if t0 is None: continue
    cl = classes(t0)
    fresh = {}
    for c in cl:
        fresh[c] = flat_str(parser.parse(txt, bypass_cache=True), c)
    # history: flatten each class twice in order on ONE tree
    t = parser.parse(txt, bypass_cache=True)
    for c in cl + cl:
        tot+=1
        r = flat_str(t, c)
        if r != fresh[c]:
            bad+=1
            print(os.path.basename(f), ".".join(c), "DIFF", "fresh:", fresh[c][:60].replace("\n"," "), "| hist:", r[:60].replace("\n"," "))
print(bad, "/", tot)
