import PymocaVerif.Model.Classify
/-!
# Lemmas for C10: the annotator refines a structural specification; category split facts
-/
namespace PymocaVerif.Classify

/-! ## Structural specification of "referenced under a `der`" -/

/-- `UnderDer b t x`: a plain `ComponentRef` named `x` occurs in `t` below an `Expression`
    with operator `"der"` (or anywhere in `t` if `b`, i.e. if `t` itself is below one). -/
inductive UnderDer : Bool → Node → String → Prop
  | here {b : Bool} {k n : String} {f : Bool} {kids : List Node} :
      k = "ComponentRef" → f = false → (b || isDer k n) = true → UnderDer b (.mk k n f kids) n
  | child {b : Bool} {k n : String} {f : Bool} {kids : List Node} {c : Node} {x : String} :
      c ∈ kids → UnderDer (b || isDer k n) c x → UnderDer b (.mk k n f kids) x

/-- A `ComponentRef` *with a child* occurs below a `der` (the annotator's `assert` fails). -/
inductive ChildRefUnderDer : Bool → Node → Prop
  | here {b : Bool} {k n : String} {f : Bool} {kids : List Node} :
      k = "ComponentRef" → f = true → (b || isDer k n) = true → ChildRefUnderDer b (.mk k n f kids)
  | child {b : Bool} {k n : String} {f : Bool} {kids : List Node} {c : Node} :
      c ∈ kids → ChildRefUnderDer (b || isDer k n) c → ChildRefUnderDer b (.mk k n f kids)

mutual
/-- Symbols marked by a walk of `t` that starts with `in_der > 0` iff `b` (structural form). -/
def refs (names : List String) (b : Bool) : Node → List String
  | .mk k n f kids =>
    refsList names (b || isDer k n) kids ++
      (if k == "ComponentRef" && (b || isDer k n) && !f && decide (n ∈ names) then [n] else [])
def refsList (names : List String) (b : Bool) : List Node → List String
  | [] => []
  | t :: ts => refs names b t ++ refsList names b ts
end

mutual
def bad (b : Bool) : Node → Bool
  | .mk k n f kids => badList (b || isDer k n) kids || (k == "ComponentRef" && (b || isDer k n) && f)
def badList (b : Bool) : List Node → Bool
  | [] => false
  | t :: ts => bad b t || badList b ts
end

theorem isDer_not_ref {k n : String} (h : isDer k n = true) : (k == "ComponentRef") = false := by
  simp only [isDer, Bool.and_eq_true, beq_iff_eq] at h
  rw [h.1]; decide

theorem run_append (names : List String) (a b : List Ev) (s : AState) :
    run names (a ++ b) s = run names b (run names a s) := by
  simp [run, List.foldl_append]

mutual
/-- The counter-driven listener computes exactly the structural functions. -/
theorem run_walk (names : List String) : ∀ (t : Node) (s : AState),
    run names (walk t) s =
      ⟨s.inDer, s.marked ++ refs names (decide (s.inDer > 0)) t, s.failed || bad (decide (s.inDer > 0)) t⟩
  | .mk k n f kids, s => by
    have ih := run_walkList names kids
    by_cases hd : isDer k n = true
    · have hk := isDer_not_ref hd
      have h1 : run names (walk (.mk k n f kids)) s =
          run names [Ev.exit k n f] (run names (walkList kids) ⟨s.inDer + 1, s.marked, s.failed⟩) := by
        simp [walk, run, step, hd, List.foldl_append]
      rw [h1, ih]
      simp [run, step, hd, hk, refs, bad]
    · have hd' : isDer k n = false := by simpa using hd
      have h1 : run names (walk (.mk k n f kids)) s =
          run names [Ev.exit k n f] (run names (walkList kids) s) := by
        simp [walk, run, step, hd', List.foldl_append]
      rw [h1, ih]
      by_cases hk : (k == "ComponentRef") = true
      · by_cases hp : s.inDer > 0
        · by_cases hf : f = true
          · simp [run, step, hd', hk, hp, hf, refs, bad]
          · have hf' : f = false := by simpa using hf
            by_cases hn : n ∈ names
            · simp [run, step, hd', hk, hp, hf', hn, refs, bad]
            · simp [run, step, hd', hk, hp, hf', hn, refs, bad]
        · simp [run, step, hd', hk, hp, refs, bad]
      · have hk' : (k == "ComponentRef") = false := by simpa using hk
        simp [run, step, hd', hk', refs, bad]
theorem run_walkList (names : List String) : ∀ (ts : List Node) (s : AState),
    run names (walkList ts) s =
      ⟨s.inDer, s.marked ++ refsList names (decide (s.inDer > 0)) ts,
        s.failed || badList (decide (s.inDer > 0)) ts⟩
  | [], s => by simp [walkList, run, refsList, badList]
  | t :: ts, s => by
    rw [walkList, run_append, run_walk names t s, run_walkList names ts]
    simp [refsList, badList, Bool.or_assoc]
end

theorem mem_refsList_of_mem {names : List String} {b : Bool} {c : Node} {x : String} :
    ∀ {ts : List Node}, c ∈ ts → x ∈ refs names b c → x ∈ refsList names b ts
  | t :: ts, hc, hx => by
    rw [refsList, List.mem_append]
    rcases List.mem_cons.mp hc with h | h
    · subst h; exact Or.inl hx
    · exact Or.inr (mem_refsList_of_mem h hx)

theorem bad_of_mem {b : Bool} {c : Node} :
    ∀ {ts : List Node}, c ∈ ts → bad b c = true → badList b ts = true
  | t :: ts, hc, hx => by
    rw [badList, Bool.or_eq_true]
    rcases List.mem_cons.mp hc with h | h
    · subst h; exact Or.inl hx
    · exact Or.inr (bad_of_mem h hx)

theorem mem_refs_of_underDer (names : List String) {b : Bool} {t : Node} {x : String}
    (h : UnderDer b t x) (hx : x ∈ names) : x ∈ refs names b t := by
  induction h with
  | here hk hf hb =>
    rw [refs, List.mem_append]; right
    subst hk; subst hf
    simp only [hx, Bool.not_false, Bool.and_true, decide_true, beq_self_eq_true, Bool.true_and]
    rw [if_pos hb]; simp
  | child hc _ ih =>
    rw [refs, List.mem_append]; left
    exact mem_refsList_of_mem hc (ih hx)

theorem bad_of_childRef {b : Bool} {t : Node} (h : ChildRefUnderDer b t) : bad b t = true := by
  induction h with
  | here hk hf hb =>
    rw [bad]; subst hk; subst hf
    simp only [Bool.and_true, beq_self_eq_true, Bool.true_and, Bool.or_eq_true]
    right; simpa using hb
  | child hc _ ih => rw [bad, Bool.or_eq_true]; left; exact bad_of_mem hc ih

mutual
theorem underDer_of_mem_refs (names : List String) :
    ∀ (t : Node) (b : Bool) (x : String), x ∈ refs names b t → x ∈ names ∧ UnderDer b t x
  | .mk k n f kids, b, x, h => by
    rw [refs, List.mem_append] at h
    rcases h with h | h
    · obtain ⟨c, hc, hn, hu⟩ := underDer_of_mem_refsList names kids (b || isDer k n) x h
      exact ⟨hn, UnderDer.child hc hu⟩
    · by_cases hcond : (k == "ComponentRef" && (b || isDer k n) && !f && decide (n ∈ names)) = true
      · rw [if_pos hcond] at h
        have hx : x = n := by simpa using h
        subst hx
        simp only [Bool.and_eq_true, beq_iff_eq, Bool.not_eq_true', decide_eq_true_eq] at hcond
        obtain ⟨⟨⟨hk, hb⟩, hf⟩, hn⟩ := hcond
        exact ⟨hn, UnderDer.here hk hf hb⟩
      · rw [if_neg hcond] at h
        exact absurd h (by simp)
theorem underDer_of_mem_refsList (names : List String) :
    ∀ (ts : List Node) (b : Bool) (x : String), x ∈ refsList names b ts →
      ∃ c, c ∈ ts ∧ x ∈ names ∧ UnderDer b c x
  | [], b, x, h => by simp [refsList] at h
  | t :: ts, b, x, h => by
    rw [refsList, List.mem_append] at h
    rcases h with h | h
    · obtain ⟨hn, hu⟩ := underDer_of_mem_refs names t b x h
      exact ⟨t, List.mem_cons_self, hn, hu⟩
    · obtain ⟨c, hc, hn, hu⟩ := underDer_of_mem_refsList names ts b x h
      exact ⟨c, List.mem_cons_of_mem _ hc, hn, hu⟩
end

mutual
theorem childRef_of_bad : ∀ (t : Node) (b : Bool), bad b t = true → ChildRefUnderDer b t
  | .mk k n f kids, b, h => by
    rw [bad, Bool.or_eq_true] at h
    rcases h with h | h
    · obtain ⟨c, hc, hu⟩ := childRef_of_badList kids (b || isDer k n) h
      exact ChildRefUnderDer.child hc hu
    · simp only [Bool.and_eq_true, beq_iff_eq] at h
      exact ChildRefUnderDer.here h.1.1 h.2 h.1.2
theorem childRef_of_badList : ∀ (ts : List Node) (b : Bool), badList b ts = true →
      ∃ c, c ∈ ts ∧ ChildRefUnderDer b c
  | [], b, h => by simp [badList] at h
  | t :: ts, b, h => by
    rw [badList, Bool.or_eq_true] at h
    rcases h with h | h
    · exact ⟨t, List.mem_cons_self, childRef_of_bad t b h⟩
    · obtain ⟨c, hc, hu⟩ := childRef_of_badList ts b h
      exact ⟨c, List.mem_cons_of_mem _ hc, hu⟩
end

theorem mem_refs_iff (names : List String) (b : Bool) (t : Node) (x : String) :
    x ∈ refs names b t ↔ x ∈ names ∧ UnderDer b t x :=
  ⟨underDer_of_mem_refs names t b x, fun h => mem_refs_of_underDer names h.2 h.1⟩

theorem bad_iff (b : Bool) (t : Node) : bad b t = true ↔ ChildRefUnderDer b t :=
  ⟨childRef_of_bad t b, bad_of_childRef⟩

/-- What `annotate` computes, in structural terms. -/
theorem annotate_eq (syms : List Sym) (t : Node) :
    annotate syms t =
      if bad false t then none
      else some (syms.map (annotateSym (refs (syms.map (·.name)) false t))) := by
  simp [annotate, run_walk]

/-! ## Category split -/

theorem catOf_cases (p : List String) :
    (catOf p = .const ↔ "constant" ∈ p) ∧
    (catOf p = .param ↔ "constant" ∉ p ∧ "parameter" ∈ p) ∧
    (catOf p = .input ↔ "constant" ∉ p ∧ "parameter" ∉ p ∧ "input" ∈ p) ∧
    (catOf p = .state ↔ "constant" ∉ p ∧ "parameter" ∉ p ∧ "input" ∉ p ∧ "state" ∈ p) ∧
    (catOf p = .alg ↔ "constant" ∉ p ∧ "parameter" ∉ p ∧ "input" ∉ p ∧ "state" ∉ p) := by
  unfold catOf
  by_cases h1 : "constant" ∈ p <;> by_cases h2 : "parameter" ∈ p <;> by_cases h3 : "input" ∈ p <;>
    by_cases h4 : "state" ∈ p <;> simp [h1, h2, h3, h4]

theorem le_trans' : ∀ (a b c : Sym), decide (a.order ≤ b.order) = true → decide (b.order ≤ c.order) = true →
    decide (a.order ≤ c.order) = true := by
  intro a b c h1 h2
  simp only [decide_eq_true_eq] at *
  omega

theorem le_total' : ∀ (a b : Sym), (decide (a.order ≤ b.order) || decide (b.order ≤ a.order)) = true := by
  intro a b
  simp only [Bool.or_eq_true, decide_eq_true_eq]
  omega

theorem sortSyms_perm (syms : List Sym) : (sortSyms syms).Perm syms := List.mergeSort_perm _ _

theorem sortSyms_sorted (syms : List Sym) :
    (sortSyms syms).Pairwise (fun a b => a.order ≤ b.order) := by
  have := List.pairwise_mergeSort le_trans' le_total' syms
  exact this.imp (by intro a b h; simpa using h)

/-- A list splits into its five category parts. -/
theorem split_perm (l : List Sym) :
    (l.filter (fun s => s.cat == .const) ++ l.filter (fun s => s.cat == .param) ++
      l.filter (fun s => s.cat == .input) ++ l.filter (fun s => s.cat == .state) ++
      l.filter (fun s => s.cat == .alg)).Perm l := by
  rw [List.perm_iff_count]
  intro a
  simp only [List.count_append]
  have key : ∀ c : Cat, List.count a (l.filter (fun s => s.cat == c)) = if a.cat = c then List.count a l else 0 := by
    intro c
    by_cases h : a.cat = c
    · rw [if_pos h, List.count_filter]; simp [h]
    · rw [if_neg h]
      apply List.count_eq_zero.mpr
      intro hm
      have := (List.mem_filter.mp hm).2
      simp at this
      exact h this
  simp only [key]
  cases h : a.cat <;> simp

theorem split2_perm (p : Sym → Bool) (l : List Sym) :
    (l.filter (fun s => !p s) ++ l.filter p).Perm l := by
  have := List.filter_append_perm p l
  exact (List.perm_append_comm).trans this

theorem mem_pick_iff (l : List Sym) (c : Cat) (s : Sym) :
    s ∈ pick l c ↔ s ∈ l ∧ s.cat = c ∧ s.isEmpty = false := by
  simp only [pick, List.mem_filter, Bool.not_eq_true', beq_iff_eq]
  constructor
  · rintro ⟨⟨h1, h2⟩, h3⟩; exact ⟨h1, h2, h3⟩
  · rintro ⟨h1, h2, h3⟩; exact ⟨⟨h1, h2⟩, h3⟩

theorem pick_sublist (l : List Sym) (c : Cat) : (pick l c).Sublist l :=
  List.filter_sublist.trans List.filter_sublist

/-- The record `exitClass` returns when it does not raise. -/
def listsOf (ndelay : Nat) (sorted : List Sym) : Lists :=
  { states := names (pick sorted .state)
    derStates := (names (pick sorted .state)).map derName
    algStates := names (pick sorted .alg)
    inputs := (List.range ndelay).map delayName ++ names (pick sorted .input)
    parameters := names ((pick sorted .param).filter (fun s => !s.isString))
    constants := names ((pick sorted .const).filter (fun s => !s.isString))
    stringParameters := names ((pick sorted .param).filter (·.isString))
    stringConstants := names ((pick sorted .const).filter (·.isString))
    outputs := names (outputSyms sorted) }

theorem exitClass_some {nd : Nat} {syms : List Sym} {l : Lists} (h : exitClass nd syms = some l) :
    (outputSyms (sortSyms syms)).any (·.isString) = false ∧ l = listsOf nd (sortSyms syms) := by
  unfold exitClass at h
  by_cases hc : (outputSyms (sortSyms syms)).any (·.isString) = true
  · simp [hc] at h
  · have hc' : (outputSyms (sortSyms syms)).any (·.isString) = false := by simpa using hc
    simp only [hc', Bool.false_eq_true, if_false, Option.some.injEq] at h
    exact ⟨hc', h.symm⟩

/-- The seven category lists of symbols together are a permutation of the non-empty symbols. -/
theorem cats_perm (l : List Sym) :
    ((pick l .const).filter (fun s => !s.isString) ++ (pick l .const).filter (·.isString) ++
      ((pick l .param).filter (fun s => !s.isString) ++ (pick l .param).filter (·.isString)) ++
      pick l .input ++ pick l .state ++ pick l .alg).Perm (l.filter (fun s => !s.isEmpty)) := by
  have h1 := split2_perm (·.isString) (pick l .const)
  have h2 := split2_perm (·.isString) (pick l .param)
  have h3 : (pick l .const ++ pick l .param ++ pick l .input ++ pick l .state ++ pick l .alg).Perm
      (l.filter (fun s => !s.isEmpty)) := by
    have := (split_perm l).filter (fun s => !s.isEmpty)
    simpa [pick, List.filter_append] using this
  exact ((((h1.append h2).append (List.Perm.refl _)).append (List.Perm.refl _)).append (List.Perm.refl _)).trans h3

theorem drop_delays (nd : Nat) (l : List String) : ((List.range nd).map delayName ++ l).drop nd = l := by
  rw [List.drop_append_of_le_length (by simp)]; simp

theorem take_delays (nd : Nat) (l : List String) :
    ((List.range nd).map delayName ++ l).take nd = (List.range nd).map delayName := by
  simp

theorem exitClass_none_iff (nd : Nat) (syms : List Sym) :
    exitClass nd syms = none ↔ ∃ s ∈ syms, s.isString = true ∧ s.isEmpty = false ∧ "output" ∈ s.prefixes ∧
        (s.cat = .state ∨ s.cat = .alg) := by
  have hm : ∀ s, s ∈ sortSyms syms ↔ s ∈ syms := fun s => (sortSyms_perm syms).mem_iff
  unfold exitClass
  by_cases hc : (outputSyms (sortSyms syms)).any (·.isString) = true
  · simp only [hc, if_true, true_iff]
    rw [List.any_eq_true] at hc
    obtain ⟨s, hs, hstr⟩ := hc
    simp only [outputSyms, List.mem_filter, List.mem_append, mem_pick_iff, hm, decide_eq_true_eq] at hs
    rcases hs with ⟨h1 | h1, h2⟩
    · exact ⟨s, h1.1, hstr, h1.2.2, h2, Or.inl h1.2.1⟩
    · exact ⟨s, h1.1, hstr, h1.2.2, h2, Or.inr h1.2.1⟩
  · simp only [hc, Bool.false_eq_true, if_false, reduceCtorEq, false_iff]
    rintro ⟨s, h1, hstr, h3, h2, h4⟩
    apply hc
    rw [List.any_eq_true]
    refine ⟨s, ?_, hstr⟩
    simp only [outputSyms, List.mem_filter, List.mem_append, mem_pick_iff, hm, decide_eq_true_eq]
    rcases h4 with h4 | h4
    · exact ⟨Or.inl ⟨h1, h4, h3⟩, h2⟩
    · exact ⟨Or.inr ⟨h1, h4, h3⟩, h2⟩

/-- Without String-typed symbols the class exit cannot raise (used by the non-vacuity examples;
    `List.mergeSort` does not reduce under `decide`). -/
theorem exitClass_isSome (nd : Nat) (syms : List Sym) (h : ∀ s ∈ syms, s.isString = false) :
    ∃ l, exitClass nd syms = some l := by
  cases he : exitClass nd syms with
  | some l => exact ⟨l, rfl⟩
  | none =>
    obtain ⟨s, hs, hstr, _⟩ := (exitClass_none_iff nd syms).mp he
    rw [h s hs] at hstr; exact absurd hstr (by decide)

theorem classify_isOk (syms syms' : List Sym) (t : Node) (ha : annotate syms t = some syms')
    (h : ∀ s ∈ syms', s.isString = false) : ∃ l, classify syms t = .ok l := by
  obtain ⟨l, hl⟩ := exitClass_isSome (countDelays t) syms' h
  exact ⟨l, by simp [classify, ha, hl]⟩

theorem input_not_mem_stripNested (p : List String) (h : p.count "input" ≤ 1) : "input" ∉ stripNested p := by
  unfold stripNested
  rw [List.mem_erase_of_ne (by decide), ← List.count_eq_zero, List.count_erase_self]
  omega

theorem output_not_mem_stripNested (p : List String) (h : p.count "output" ≤ 1) : "output" ∉ stripNested p := by
  unfold stripNested
  rw [← List.count_eq_zero, List.count_erase_self, List.count_erase_of_ne (by decide)]
  omega

theorem mem_stripNested_of_ne (p : List String) (x : String) (h1 : x ≠ "input") (h2 : x ≠ "output") :
    x ∈ stripNested p ↔ x ∈ p := by
  unfold stripNested
  rw [List.mem_erase_of_ne h2, List.mem_erase_of_ne h1]

theorem derName_injective : Function.Injective derName := by
  intro a b h
  unfold derName at h
  have h1 := (String.append_left_inj ")").mp h
  exact (String.append_right_inj "der(").mp h1

end PymocaVerif.Classify
