"""C10 — the generated CasADi model classifies every variable exactly once.

Real code: `pymoca.parser.parse` + `pymoca.backends.casadi.generator.generate` (which runs
`tree.flatten` → `annotate_states` → `Generator.exitClass`), in-process; and, in a third stream,
`pymoca.tree.annotate_states` alone on hand-built classes.

Direct oracle (this file, independent of the Lean model): the category of every flat variable is
recomputed from the *description the generator of the case wrote down* (declared prefixes, type,
dimension, textual position, nesting, and the list of names it placed under a `der(...)`), by the
precedence of the property text (constant, parameter, top-level input, differentiated, algebraic;
String constants/parameters in the string lists; one `der(x)` per state; declaration order inside
each list; outputs = output-prefixed states then algebraics) and compared name by name with
`Model.states/der_states/alg_states/inputs/parameters/constants/string_*/outputs`; and every symbol of the
generated (initial) equations must be `time` or a listed variable / derivative (no variable outside the categories).

Tie: the flat class handed to `annotate_states` (captured at that stage boundary, before it is
annotated) is serialised — symbol table + the whole AST as a rose tree in TreeWalker order — and
sent to the Lean model `PymocaVerif.Model.Classify` (driver `drv_c10`), whose nine lists must be
equal to the implementation's; in the annotate-only stream the prefix lists after annotation (or
the AssertionError) must be equal; for generated files the prefixes `flatten_symbols` left on every
declared variable (elementary or derived type, nested or not) must equal the model's `flatPrefixes`.
"""
import json

from harness.common import HarnessError
from harness.gen import a07 as H

DRIVERS = ["drv_c10"]
RULE = ("one case = one model: (text) a generated Modelica file with 0-3 component classes (one level may nest another) "
        "and a main model, optionally user-defined types derived from Real/Integer/Boolean/String (also of one another) used "
        "at the top level and in the component classes (scalars and arrays), mixing variability (none/discrete/parameter/constant) x causality (none/input/output) x type "
        "(Real/Integer/Boolean/String) x scalar/vector/empty-array declarations, with der() applied directly, inside "
        "expressions, on whole expressions, in bindings, in initial equations, in component-class equations, on component "
        "variables from outside, on vector elements and in (several) for-loops over one array in equations and initial "
        "equations, a model variable named like the loop index; (ast) a hand-built flat class with arbitrary prefix "
        "lists (duplicates, 'state', orders with ties) the parser cannot produce; (annot) a hand-built class with deep "
        "random equation/expression trees run through annotate_states only. non-trivial = at least one variable placed "
        "under der() and at least three different categories non-empty; distinct = distinct case description")
TRUSTED = ["`MX.is_empty()` is true exactly for a symbol with a zero dimension (sampled: empty arrays are generated)",
           "Python's `sorted` is stable (modelled by Lean's stable `List.mergeSort`)"]
ASSUMPTIONS = ["dimensions are integer literals (or references to Integer parameters with literal values)",
               "der() is not applied to `time` nor to if-expressions (the generator cannot translate those); String variables do not occur in equations",
               "'declaration order' of a flat variable = textual position of its declaration in the file, ties (several instances of one class) by instantiation order",
               "non-parameter String variables with the `output` prefix are exercised only in the known-finding stream (C10-F1)"]

LISTS = ["states", "der_states", "alg_states", "inputs", "parameters", "constants", "string_parameters",
         "string_constants", "outputs"]


# =============================================================================================
# direct oracle
# =============================================================================================
def expected_lists(desc):
    """The property statement, computed from the case description alone."""
    dset = set(desc["der"])
    vs = [dict(v, _i=i) for i, v in enumerate(desc["vars"])]
    vs.sort(key=lambda v: (v["pos"], v["_i"]))
    out = {k: [] for k in LISTS}
    out["inputs"] = ["_pymoca_delay_%d" % i for i in range(desc.get("ndelay", 0))]
    outs_state, outs_alg = [], []
    for v in vs:
        if any(d == 0 for d in v["dims"]):
            continue  # an empty array is no elementary variable
        p = [x for x in v["prefixes"] if not (v.get("nested") and x in ("input", "output"))]
        if "constant" in p:
            cat = "constants"
        elif "parameter" in p:
            cat = "parameters"
        elif "input" in p:
            cat = "inputs"
        elif v["name"] in dset or "state" in p:
            cat = "states"
        else:
            cat = "alg_states"
        if v["type"] == "String" and cat in ("constants", "parameters"):
            cat = "string_" + cat
        out[cat].append(v["name"])
        if cat == "states":
            out["der_states"].append("der(%s)" % v["name"])
            if "output" in p:
                outs_state.append(v["name"])
        elif cat == "alg_states" and "output" in p:
            outs_alg.append(v["name"])
    out["outputs"] = outs_state + outs_alg
    return out


def spec_refs_under_der(e, inder, acc, bad, loopvars=(), idxhits=None):
    """Names of all *variable* references below a der(...) in an expression/equation spec (own walk).  Inside a
    for-loop a reference to the loop index is not a reference to a model variable of that name (`idxhits` collects
    the index names referenced under der)."""
    def rec(x, d=inder):
        spec_refs_under_der(x, d, acc, bad, loopvars, idxhits)
    t = e[0]
    if t == "ref":
        if inder:
            if e[1] in loopvars:
                if idxhits is not None:
                    idxhits.append(e[1])
            else:
                acc.append(e[1])
    elif t == "cref":
        if inder:
            acc.append(e[1])
            bad.append(e[1])
    elif t == "idx":
        rec(e[2])
        if inder:
            acc.append(e[1])
    elif t in ("lit", "time"):
        if t == "time" and inder:
            acc.append("time")
    elif t == "der":
        rec(e[1], True)
    elif t == "neg":
        rec(e[1])
    elif t == "op":
        rec(e[2])
        rec(e[3])
    elif t == "call":
        for x in e[2:]:
            rec(x, inder or e[1] == "der")
    elif t == "fcall":
        if inder:
            acc.append(e[1])
        for x in e[2:]:
            rec(x)
    elif t in ("delay", "array", "slice", "if"):
        for x in e[1:]:
            rec(x)
    elif t == "eq":
        rec(e[1])
        rec(e[2])
    elif t == "for":
        for q in e[4]:
            spec_refs_under_der(q, inder, acc, bad, loopvars + (e[1],), idxhits)
    elif t in ("ifeq", "when"):
        for c in e[1]:
            if c is not True:
                rec(c)
        for blk in e[2]:
            for q in blk:
                rec(q)
    else:
        raise HarnessError("bad spec node %r" % (e,))


def spec_count_delays(e):
    if not isinstance(e, list):
        return 0
    return (1 if e and e[0] == "delay" and len(e) == 3 else 0) + sum(spec_count_delays(x) for x in e)


def desc_of_ast_spec(spec):
    acc, bad, idxhits = [], [], []
    for q in spec.get("initial_equations", []) + spec.get("equations", []):
        spec_refs_under_der(q, False, acc, bad, (), idxhits)
    for s in spec["symbols"]:
        for a in ("value_expr", "start_expr"):
            if s.get(a) is not None:
                spec_refs_under_der(s[a], False, acc, bad, (), idxhits)
    names = set(s["name"] for s in spec["symbols"])
    nd = sum(spec_count_delays(q) for q in spec.get("initial_equations", []) + spec.get("equations", []))
    return {"vars": [{"name": s["name"], "type": s["type"], "prefixes": s["prefixes"], "pos": s["order"],
                      "dims": s.get("dims") or [], "nested": False} for s in spec["symbols"]],
            "der": sorted(set(acc) & names), "ndelay": nd, "bad": sorted(set(bad) & names) if bad else [],
            "shadow_der_in_loop": bool(set(idxhits) & names)}


# =============================================================================================
# generators
# =============================================================================================
LITS = ["1", "2", "3", "0.5", "0.25", "4"]


class TextGen:
    """Builds one Modelica file + its description."""

    def __init__(self, rng, finding_stream=False):
        self.rng = rng
        self.finding = finding_stream
        self.uid = 0
        # name of the for-loop index of this file; sometimes a model variable has the same name (the index hides
        # it inside the loops only).  shadow = "clean": no der() through the index inside a loop;
        # "derloop": der(v[<index>]) inside a loop as well (open finding C10-F2, own stream)
        self.idx = rng.choice(["i", "i", "j", "n"])
        self.shadow = None
        if finding_stream == "shadow":
            self.shadow = "derloop"
        elif not finding_stream and rng.random() < 0.15:
            self.shadow = "clean"
        # user-defined types derived from the elementary ones (`type Volt = Real(unit="V")`, also of one another):
        # flatten_symbols treats symbols of such types in a separate branch
        self.types = []  # (name, base, text)
        if rng.random() < 0.65:
            for nm, base, txt in (("Volt", "Real", 'type Volt = Real(unit = "V");'), ("Len", "Real", "type Len = Real;"),
                                  ("Count", "Integer", "type Count = Integer;"), ("Flag", "Boolean", "type Flag = Boolean;"),
                                  ("Name", "String", "type Name = String;"), ("Volt2", "Real", "type Volt2 = Volt;")):
                if rng.random() < 0.6 and (nm != "Volt2" or any(t[0] == "Volt" for t in self.types)):
                    self.types.append((nm, base, txt))

    def fresh(self, stem):
        self.uid += 1
        return "%s%d" % (stem, self.uid)

    # ---- declarations ---------------------------------------------------------------------
    def decl(self, top, allow_vec):
        r = self.rng
        typ = r.choices(["Real", "Integer", "Boolean", "String"], [70, 8, 8, 14])[0]
        var = r.choices(["", "discrete", "parameter", "constant"], [50, 8, 26, 16])[0]
        caus = r.choices(["", "input", "output"], [56, 24, 20])[0]
        if typ == "String":
            # non-parameter String outputs crash generate (C10-F1, own stream); other non-parameter Strings are
            # legal for `generate` and stay in the stream
            if var not in ("parameter", "constant") and caus == "output" and top:
                caus = r.choice(["", "input"])
            if var == "discrete":
                var = ""
        dims = []
        noatom = False
        if typ == "Real" and allow_vec and r.random() < 0.22:
            dims = [r.choice([2, 3])]
        elif typ != "String" and not allow_vec and r.random() < 0.12:
            dims, noatom = [r.choice([2, 3])], True  # an array in a component class: declared, not used in equations
        elif r.random() < 0.05:
            dims = [0]
        name = self.fresh({"Real": "r", "Integer": "k", "Boolean": "b", "String": "s"}[typ])
        d = {"kind": "var", "name": name, "type": typ, "var": var, "caus": caus, "dims": dims, "binding": None,
             "noatom": noatom}
        derived = [t[0] for t in self.types if t[1] == typ]
        if derived and r.random() < 0.45:
            d["tname"] = r.choice(derived)
        if var in ("parameter", "constant") and not dims:
            if r.random() < 0.85 or var == "constant":
                d["binding"] = {"Real": r.choice(LITS), "Integer": str(r.randint(1, 4)),
                                "Boolean": r.choice(["true", "false"]), "String": '"%s"' % name}[typ]
        return d

    @staticmethod
    def prefixes(d):
        return [x for x in (d["var"], d["caus"]) if x]

    @staticmethod
    def decl_text(d):
        dim = "[%s]" % ",".join(str(x) for x in d["dims"]) if d["dims"] else ""
        b = " = %s" % d["binding"] if d["binding"] is not None else ""
        return "  %s %s %s%s%s;" % (d["var"], d["caus"], d.get("tname", d["type"]), " " + d["name"] + dim, b)

    # ---- atoms: usable Real scalar references of a class (local names) -----------------------
    def atoms_of(self, cls, classes):
        """[(text, base local name, is_variable(not parameter/constant))]"""
        out = []
        for it in cls["items"]:
            if it["kind"] == "var":
                if it["type"] != "Real" or 0 in it["dims"] or it.get("noatom"):
                    continue
                isvar = it["var"] not in ("parameter", "constant")
                if it["dims"]:
                    for k in range(1, it["dims"][0] + 1):
                        out.append(("%s[%d]" % (it["name"], k), it["name"], isvar))
                else:
                    out.append((it["name"], it["name"], isvar))
            else:
                sub = classes[it["cls"]]
                for (t, b, v) in self.atoms_of(sub, classes):
                    out.append((it["name"] + "." + t, it["name"] + "." + b, v))
        return out

    def expr(self, atoms, depth, allow_time=True):
        r = self.rng
        if depth <= 0 or r.random() < 0.3:
            c = r.random()
            if atoms and c < 0.7:
                a = r.choice(atoms)
                return a[0], [a[1]]
            if allow_time and c < 0.78:
                return "time", []
            return r.choice(LITS), []
        k = r.random()
        a, na = self.expr(atoms, depth - 1, allow_time)
        if k < 0.12:
            return "(-%s)" % a, na
        if k < 0.2:
            return "%s(%s)" % (r.choice(["sin", "cos"]), a), na
        b, nb = self.expr(atoms, depth - 1, allow_time)
        if k < 0.3:
            return "(%s / %s)" % (a, r.choice(["2", "4"])), na
        if k < 0.38 and allow_time:
            c, nc = self.expr(atoms, depth - 1, allow_time)
            return "(if %s > %s then %s else %s)" % (a, b, c, r.choice(LITS)), na + nb + nc
        return "(%s %s %s)" % (a, r.choice(["+", "-", "*"]), b), na + nb

    # ---- equations of one class ---------------------------------------------------------------
    def equations(self, cls, classes, is_main):
        r = self.rng
        atoms = self.atoms_of(cls, classes)
        eqs, ieqs, der_local, ndelay = [], [], [], 0
        if not atoms:
            return eqs, ieqs, der_local, ndelay
        own = [it for it in cls["items"] if it["kind"] == "var" and it["type"] == "Real" and 0 not in it["dims"]
               and not it.get("noatom")]
        lhs_pool = [a for a in atoms if a[2]]

        def some_lhs():
            return r.choice(lhs_pool)[0] if lhs_pool else r.choice(atoms)[0]

        for it in own:
            isvar = it["var"] not in ("parameter", "constant")
            n = it["name"]
            if it["dims"]:
                if not isvar:
                    continue
                dim = it["dims"][0]
                ix = self.idx
                # any subset of the usages: several loops over one array (in equations and in initial equations)
                # share the index name
                if r.random() < 0.25:
                    e, _ = self.expr(atoms, 1)
                    eqs.append("  der(%s[%d]) = %s;" % (n, r.randint(1, dim), e))
                    der_local.append(n)
                if self.shadow != "clean":
                    if r.random() < (0.35 if self.shadow is None else 1.0):
                        body = ["    der(%s[%s]) = %s[%s] + %s;" % (n, ix, n, ix, r.choice(LITS))]
                        eqs.append("  for %s in 1:%d loop\n%s\n  end for;" % (ix, dim, "\n".join(body)))
                        der_local.append(n)
                        self.der_in_loop = True
                    if r.random() < 0.15:
                        eqs.append("  for %s in 1:%d loop\n    %s[%s] = 2 * der(%s[%s]) + 1;\n  end for;"
                                   % (ix, dim, n, ix, n, ix))
                        der_local.append(n)
                        self.der_in_loop = True
                    if r.random() < 0.2:
                        ieqs.append("  for %s in 1:%d loop\n    der(%s[%s]) = 0;\n  end for;" % (ix, dim, n, ix))
                        der_local.append(n)
                        self.der_in_loop = True
                if r.random() < 0.1:
                    ieqs.append("  der(%s[1]) = 0;" % n)
                    der_local.append(n)
                if r.random() < (0.3 if self.shadow != "clean" else 1.0):
                    # a loop without der(): the index is an ordinary value in the body
                    eqs.append("  for %s in 1:%d loop\n    %s[%s] = 2 * %s + %s;\n  end for;"
                               % (ix, dim, n, ix, ix, self.expr([a for a in atoms if a[1] != n], 1)[0]))
                elif r.random() < 0.15:
                    eqs.append("  %s[1] = %s;" % (n, self.expr(atoms, 1)[0]))
                continue
            u = r.random()
            p_der = 0.55 if isvar else 0.12
            if u > p_der:
                if isvar and r.random() < 0.5:
                    eqs.append("  %s = %s;" % (n, self.expr(atoms, 2)[0]))
                continue
            mode = r.choices(["direct", "inexpr", "initial", "derexpr", "ifcond", "fn"], [40, 18, 12, 14, 8, 8])[0]
            if mode == "direct":
                eqs.append("  der(%s) = %s;" % (n, self.expr(atoms, 2)[0]))
                der_local.append(n)
            elif mode == "inexpr":
                eqs.append("  %s = %s * der(%s) + %s;" % (some_lhs(), r.choice(LITS), n, self.expr(atoms, 1)[0]))
                der_local.append(n)
            elif mode == "initial":
                ieqs.append("  der(%s) = %s;" % (n, r.choice(["0", "1"])))
                der_local.append(n)
            elif mode == "derexpr":
                e, names = self.expr(atoms, 2, allow_time=False)
                eqs.append("  der(%s * %s + %s) = %s;" % (r.choice(["2", "3"]), n, e, r.choice(LITS)))
                der_local.append(n)
                der_local.extend(names)
            elif mode == "ifcond":
                eqs.append("  %s = if der(%s) > 0 then %s else %s;" % (some_lhs(), n, r.choice(LITS), self.expr(atoms, 1)[0]))
                der_local.append(n)
            else:
                eqs.append("  %s = sin(2 * der(%s)) + 1;" % (some_lhs(), n))
                der_local.append(n)
        # der on component variables from outside
        comp_atoms = [a for a in atoms if "." in a[1]]
        for a in comp_atoms:
            if r.random() < (0.12 if a[2] else 0.03):
                if r.random() < 0.7:
                    eqs.append("  der(%s) = %s;" % (a[0], self.expr(atoms, 1)[0]))
                else:
                    ieqs.append("  der(%s) = 0;" % a[0])
                der_local.append(a[1])
        if is_main and r.random() < 0.2 and lhs_pool:
            for _ in range(r.randint(1, 2)):
                src = r.choice(atoms)[0]
                eqs.append("  %s = delay(%s, %s) + 1;" % (some_lhs(), src, r.choice(["1", "2", "0.5"])))
                ndelay += 1
        r.shuffle(eqs)
        return eqs, ieqs, der_local, ndelay

    # ---- whole file -----------------------------------------------------------------------------
    def make(self):
        r = self.rng
        classes = {}
        order = []
        nleaf = r.choice([0, 1, 1, 2])
        nmid = r.choice([0, 0, 1]) if nleaf else 0
        for i in range(nleaf):
            name = "L%d" % i
            items = [self.decl(False, False) for _ in range(r.randint(1, 4))]
            classes[name] = {"name": name, "items": items}
            order.append(name)
        for i in range(nmid):
            name = "N%d" % i
            items = [self.decl(False, False) for _ in range(r.randint(0, 3))]
            for _ in range(r.randint(1, 2)):
                items.insert(r.randint(0, len(items)), {"kind": "comp", "name": self.fresh("c"),
                                                        "cls": "L%d" % r.randrange(nleaf)})
            classes[name] = {"name": name, "items": items}
            order.append(name)
        items = [self.decl(True, True) for _ in range(r.randint(3, 9))]
        self.der_in_loop = False
        if self.shadow:
            # a Real variable named like the loop index, and an array to loop over
            items.append({"kind": "var", "name": self.idx, "type": "Real", "var": "", "caus": r.choice(["", "output"]),
                          "dims": [], "binding": None, "noatom": False})
            if not any(it["kind"] == "var" and it["type"] == "Real" and it["dims"] and 0 not in it["dims"]
                       and it["var"] not in ("parameter", "constant") for it in items):
                items.append({"kind": "var", "name": self.fresh("r"), "type": "Real", "var": "", "caus": "",
                              "dims": [2], "binding": None, "noatom": False})
            r.shuffle(items)
        if self.finding is True:
            items.insert(r.randint(0, len(items)), {"kind": "var", "name": self.fresh("s"), "type": "String",
                                                    "var": r.choice(["", "discrete"]), "caus": "output", "dims": [],
                                                    "binding": None})
        for _ in range(r.randint(0, 3) if order else 0):
            items.insert(r.randint(0, len(items)), {"kind": "comp", "name": self.fresh("c"), "cls": r.choice(order)})
        classes["M"] = {"name": "M", "items": items}
        order.append("M")
        ndelay = 0
        for cname in order:
            c = classes[cname]
            c["eqs"], c["ieqs"], c["der_local"], nd = self.equations(c, classes, cname == "M")
            ndelay += nd
        # a binding with der() of an earlier variable
        m = classes["M"]
        reals = [it for it in m["items"] if it["kind"] == "var" and it["type"] == "Real" and not it["dims"]
                 and it["var"] not in ("parameter", "constant")]
        if len(reals) >= 2 and r.random() < 0.15:
            a, b = reals[0], reals[-1]
            if b["binding"] is None and b["caus"] != "input":
                b["binding"] = "der(%s) + 1" % a["name"]
                m["der_local"].append(a["name"])
        # text: classes in random textual order, positions numbered as the parser does (one counter per file)
        text_order = list(order)
        r.shuffle(text_order)
        pos = {}
        counter = 0
        chunks = []
        for cname in text_order:
            c = classes[cname]
            lines = ["model %s" % cname]
            for it in c["items"]:
                pos[(cname, it["name"])] = counter
                counter += 1
                lines.append(self.decl_text(it) if it["kind"] == "var" else "  %s %s;" % (it["cls"], it["name"]))
            if c["eqs"]:
                lines.append("equation")
                lines.extend(c["eqs"])
            if c["ieqs"]:
                lines.append("initial equation")
                lines.extend(c["ieqs"])
            lines.append("end %s;" % cname)
            chunks.append("\n".join(lines))
        # type definitions anywhere between the classes (a derived-of-derived type after its base is not required)
        for t in self.types:
            chunks.insert(r.randint(0, len(chunks)), t[2])
        text = "\n".join(chunks) + "\n"
        # description: flat variables in instantiation order + names under der
        vars_, der = [], []

        def inst(cname, prefix):
            c = classes[cname]
            for it in c["items"]:
                if it["kind"] == "var":
                    vars_.append({"name": prefix + it["name"], "type": it["type"], "prefixes": self.prefixes(it),
                                  "pos": pos[(cname, it["name"])], "dims": it["dims"], "nested": prefix != "",
                                  "derived": "tname" in it})
                else:
                    inst(it["cls"], prefix + it["name"] + ".")
            for n in c["der_local"]:
                der.append(prefix + n)

        inst("M", "")
        return {"kind": "text", "text": text, "name": "M",
                "desc": {"vars": vars_, "der": sorted(set(der)), "ndelay": ndelay,
                         "shadow": self.idx if self.shadow else None,
                         "shadow_der_in_loop": bool(self.shadow and self.der_in_loop)}}


PREFIX_POOL = ["constant", "parameter", "input", "output", "discrete", "state", "flow"]


def gen_ast_case(rng, annot_only):
    """A hand-built flat class: arbitrary prefix lists, orders with ties, der() anywhere."""
    n = rng.randint(2, 9)
    syms = []
    for i in range(n):
        typ = rng.choices(["Real", "Integer", "Boolean", "String"], [78, 6, 6, 10])[0]
        k = rng.choices([0, 1, 2, 3, 4], [22, 38, 25, 10, 5])[0]
        pf = [rng.choice(PREFIX_POOL) for _ in range(k)]
        if typ == "String" and "output" in pf and not ({"constant", "parameter", "input"} & set(pf)) and not annot_only:
            pf = [p for p in pf if p != "output"]
        dims = []
        if typ == "Real" and rng.random() < 0.2:
            dims = [rng.choice([2, 3])]
        elif rng.random() < 0.06:
            dims = [0]
        name = "v%d" % i if rng.random() < 0.8 else "a%d.w%d" % (rng.randint(0, 2), i)
        if annot_only and i == 0 and rng.random() < 0.12:
            name, typ, dims = "i", "Real", []  # a model variable named like the for-index of this stream
        syms.append({"name": name, "type": typ, "prefixes": pf, "order": rng.randint(0, 6) if rng.random() < 0.5 else i,
                     "dims": dims})
    reals = [s for s in syms if s["type"] == "Real" and 0 not in s["dims"]]
    ints = [s for s in syms if s["type"] == "Integer" and not s["dims"] and ({"parameter", "constant"} & set(s["prefixes"]))]
    for s in ints:
        s["value"] = 1

    def leaf(loopvar=None, allow_time=True, loopvec=None):
        c = rng.random()
        if reals and c < 0.7:
            s = rng.choice(reals)
            if loopvar and loopvec is not None and rng.random() < 0.5:
                return ["idx", loopvec["name"], ["ref", loopvar]]
            if s["dims"]:
                if ints and rng.random() < 0.3:
                    return ["idx", s["name"], ["ref", rng.choice(ints)["name"]]]
                return ["idx", s["name"], ["lit", rng.randint(1, s["dims"][0])]]
            return ["ref", s["name"]]
        if c < 0.78 and allow_time:
            return ["time"]
        return ["lit", rng.choice([1, 2, 3, 0.5])]

    def expr(d, under, loopvar=None, loopvec=None):
        """`under`: inside der(...) — restrict to what Generator.get_derivative can translate."""
        if d <= 0 or rng.random() < 0.3:
            return leaf(None if under else loopvar, allow_time=not under, loopvec=loopvec)
        c = rng.random()
        if c < 0.22 and not under:
            inner = expr(d - 1, True, loopvar, loopvec)
            if loopvar:  # inside loops only der(x[i]) / der(x) of plain references
                inner = leaf(loopvar, allow_time=False, loopvec=loopvec)
                if inner[0] == "lit":
                    inner = ["lit", 1]
            return ["der", inner]
        if c < 0.32:
            return ["neg", expr(d - 1, under, loopvar, loopvec)]
        if c < 0.4 and (not under or annot_only):
            return ["call", rng.choice(["sin", "cos"]), expr(d - 1, under, loopvar, loopvec)]
        if c < 0.48 and (not under or annot_only):
            return ["if", ["op", ">", expr(d - 1, under, loopvar, loopvec), ["lit", 0]], expr(d - 1, under, loopvar, loopvec),
                    expr(d - 1, under, loopvar, loopvec)]
        return ["op", rng.choice(["+", "-", "*"]), expr(d - 1, under, loopvar, loopvec), expr(d - 1, under, loopvar, loopvec)]

    def rich(d, under):
        """annotate-only stream: node kinds the CasADi generator need not support."""
        c = rng.random()
        if d <= 0 or c < 0.25:
            if rng.random() < 0.12 and syms:
                return ["cref", rng.choice(syms)["name"], "sub"] if rng.random() < 0.25 else ["ref", rng.choice(syms)["name"]]
            return leaf()
        if c < 0.4:
            return ["der", rich(d - 1, True)]
        if c < 0.5:
            return ["fcall", "f%d" % rng.randint(0, 2), rich(d - 1, under), rich(d - 1, under)]
        if c < 0.58:
            return ["array", rich(d - 1, under), rich(d - 1, under)]
        if c < 0.66 and reals:
            return ["idx", rng.choice(syms)["name"], ["slice", rich(d - 1, under), rich(d - 1, under), ["lit", 1]]]
        if c < 0.74:
            return ["if", rich(d - 1, under), rich(d - 1, under), rich(d - 1, under)]
        if c < 0.8:
            return ["call", rng.choice(["sin", "abs", "delay", "der"]), rich(d - 1, under)]
        return ["op", rng.choice(["+", "-", "*", "<"]), rich(d - 1, under), rich(d - 1, under)]

    def equation(d):
        if annot_only:
            c = rng.random()
            if d > 0 and c < 0.15:
                return ["for", "i", 1, 2, [equation(d - 1) for _ in range(rng.randint(1, 2))]]
            if d > 0 and c < 0.3:
                nb = rng.randint(1, 2)
                return ["ifeq", [rich(1, False) for _ in range(nb)] + [True],
                        [[equation(d - 1)] for _ in range(nb + 1)]]
            if d > 0 and c < 0.4:
                return ["when", [rich(1, False)], [[equation(d - 1)]]]
            return ["eq", rich(3, False), rich(3, False)]
        vecs = [s for s in reals if s["dims"]]
        if vecs and rng.random() < 0.2:
            v = rng.choice(vecs)
            body = [["eq", ["der", ["idx", v["name"], ["ref", "i"]]] if rng.random() < 0.6 else ["idx", v["name"], ["ref", "i"]],
                     expr(1, False, "i", v)]]
            return ["for", "i", 1, v["dims"][0], body]
        return ["eq", expr(3, False), expr(2, False)]

    eqs = [equation(2) for _ in range(rng.randint(0, 4))] if reals else []
    ieqs = [equation(1) for _ in range(rng.randint(0, 2))] if reals and rng.random() < 0.5 else []
    spec = {"name": "M", "symbols": syms, "equations": eqs, "initial_equations": ieqs}
    if annot_only and syms and rng.random() < 0.3:
        rng.choice(syms)["start_expr"] = rich(2, False)
    return {"kind": "annot" if annot_only else "ast", "spec": spec, "name": "M"}


# =============================================================================================
# running one case
# =============================================================================================
def impl_lists(model):
    def nm(v):
        return v.symbol.name() if hasattr(v, "symbol") else v.name
    d = {k: [nm(v) for v in getattr(model, k)] for k in LISTS[:-1]}
    d["outputs"] = [str(x) for x in model.outputs]
    return d


def stray_symbols(model, got, desc):
    """Names of symbols of the generated (initial) equations that are neither `time` nor in one of the lists.
    der(<x>) of a constant / parameter / input x that the source differentiates is tolerated (the generator creates a
    derivative symbol for any symbol under der(); only states get a der_states entry — a C11 matter)."""
    import casadi as ca
    listed = {"time"}
    for k in ("states", "der_states", "alg_states", "inputs", "parameters", "constants", "string_parameters",
              "string_constants"):
        listed.update(got[k])
    listed.update("der(%s)" % n for n in desc["der"])
    out = set()
    for e in list(model.equations) + list(model.initial_equations):
        for sy in ca.symvar(ca.MX(e)):
            if sy.name() not in listed:
                out.add(sy.name())
    return sorted(out)


def build_tree(case):
    if case["kind"] == "text":
        from pymoca import parser
        return parser.parse(case["text"], bypass_cache=True)
    return build_ast_ext(case["spec"])


def build_expr_ext(e):
    """a07.build_expr + the node kinds of the annotate-only stream."""
    from pymoca import ast
    t = e[0]
    if t == "fcall":
        return ast.Expression(operator=ast.ComponentRef(name=e[1]), operands=[build_expr_ext(x) for x in e[2:]])
    if t == "array":
        return ast.Array(values=[build_expr_ext(x) for x in e[1:]])
    if t == "slice":
        return ast.Slice(start=build_expr_ext(e[1]), stop=build_expr_ext(e[2]), step=build_expr_ext(e[3]))
    if t == "idx":
        return ast.ComponentRef(name=e[1], indices=[[build_expr_ext(e[2])]])
    if t == "der":
        return ast.Expression(operator="der", operands=[build_expr_ext(e[1])])
    if t == "neg":
        return ast.Expression(operator="-", operands=[build_expr_ext(e[1])])
    if t == "op":
        return ast.Expression(operator=e[1], operands=[build_expr_ext(e[2]), build_expr_ext(e[3])])
    if t in ("call", "delay"):
        op, args = (e[1], e[2:]) if t == "call" else ("delay", e[1:])
        # `der(...)` has its own grammar rule and a *string* operator; every other call is a ComponentRef operator
        return ast.Expression(operator=op if op == "der" else ast.ComponentRef(name=op),
                              operands=[build_expr_ext(x) for x in args])
    if t == "if":
        return ast.IfExpression(conditions=[build_expr_ext(e[1])], expressions=[build_expr_ext(e[2]), build_expr_ext(e[3])])
    return H.build_expr(e)


def build_eq_ext(q):
    from pymoca import ast
    if q[0] == "eq":
        return ast.Equation(left=build_expr_ext(q[1]), right=build_expr_ext(q[2]))
    if q[0] == "for":
        idx = ast.ForIndex(name=q[1], expression=ast.Slice(start=ast.Primary(value=q[2]), stop=ast.Primary(value=q[3]),
                                                            step=ast.Primary(value=1)))
        return ast.ForEquation(indices=[idx], equations=[build_eq_ext(x) for x in q[4]])
    if q[0] in ("ifeq", "when"):
        cls = ast.IfEquation if q[0] == "ifeq" else ast.WhenEquation
        return cls(conditions=[c if c is True else build_expr_ext(c) for c in q[1]],
                   blocks=[[build_eq_ext(x) for x in blk] for blk in q[2]])
    raise HarnessError("bad equation spec %r" % (q,))


def build_ast_ext(spec):
    t = H.build_ast(dict(spec, equations=[], initial_equations=[]))
    c = t.classes[spec["name"]]
    c.equations = [build_eq_ext(q) for q in spec.get("equations", [])]
    c.initial_equations = [build_eq_ext(q) for q in spec.get("initial_equations", [])]
    for s in spec["symbols"]:
        if s.get("start_expr") is not None:
            c.symbols[s["name"]].start = build_expr_ext(s["start_expr"])
    return t


def model_request(flat):
    return {"symbols": [{"name": s["name"], "prefixes": s["prefixes"], "type": s["type"], "order": s["order"],
                         "dims": [d for d in s["dims"] if d != "?"]} for s in flat["symbols"]],
            "tree": flat["tree"]}


def check_case(ctx, case, drv):
    """Runs one case on the real code, applies the direct oracle, compares with the Lean model."""
    H.quiet_pymoca()
    kind = case["kind"]
    if kind == "annot":
        return check_annot(ctx, case, drv)
    desc = case["desc"] if kind == "text" else desc_of_ast_spec(case["spec"])
    want = expected_lists(desc)
    store = []
    got, raised = None, None
    try:
        tree = build_tree(case)
        from pymoca.backends.casadi import generator
        with H.capture_flat(store):
            model = generator.generate(tree, case["name"], case.get("options"))
        got = impl_lists(model)
    except Exception as e:  # the property: every such model is classified, nothing raises
        raised = type(e).__name__
        ctx.violation("generate raised %s on a model of the property's domain" % raised, case,
                      expected=want, observed="%s: %s" % (raised, str(e)[:200]), kind="input")
    if got is not None:
        stray = stray_symbols(model, got, desc)
        if stray:
            ctx.violation("the generated equations use a symbol that is in no category", case,
                          expected="every symbol of the equations is time or a listed variable / derivative",
                          observed=stray, kind="input")
        for k in LISTS:
            if got[k] != want[k]:
                ctx.violation("Model.%s differs from the classification by the property's precedence" % k, case,
                              expected={k: want[k]}, observed={k: got[k]}, kind="input")
                break
    if drv is not None:
        if not store:
            if raised is None:
                ctx.tie_broken("c10:stage-boundary", "generate() did not call tree.annotate_states")
            return got
        if kind == "text":
            # the prefixes flatten_symbols left on every declared variable vs the model's `flatPrefixes`
            real = {x["name"]: x["prefixes"] for x in store[0]["symbols"]}
            vs = [v for v in desc["vars"] if v["name"] in real]
            fa = drv.ask({"op": "flatprefixes", "items": [
                {"inst": v["name"][:v["name"].rfind(".") + 1], "derived": bool(v.get("derived")),
                 "prefixes": v["prefixes"]} for v in vs]})
            if not fa.get("ok"):
                raise HarnessError("drv_c10 rejected flatprefixes: %s" % fa)
            for v, mp in zip(vs, fa["prefixes"]):
                if mp != real[v["name"]]:
                    ctx.disagreement("flatten.prefixes", case, {v["name"]: mp}, {v["name"]: real[v["name"]]})
                    break
        ans = drv.ask(dict(model_request(store[0]), op="classify"))
        if not ans.get("ok"):
            raise HarnessError("drv_c10 rejected the case: %s" % ans)
        if ans.get("raised"):
            if raised != ans["raised"]:
                ctx.disagreement("classify.raised", case, ans["raised"], raised or got)
        elif raised is not None:
            ctx.disagreement("classify.raised", case, ans["lists"], raised)
        else:
            for k in LISTS:
                if ans["lists"][k] != got[k]:
                    ctx.disagreement("classify." + k, case, ans["lists"][k], got[k])
                    break
    return got


def check_annot(ctx, case, drv):
    """annotate_states alone: prefixes after annotation (or AssertionError) vs own walk vs model."""
    from pymoca import tree as ptree
    spec = case["spec"]
    desc = desc_of_ast_spec(spec)
    t = build_ast_ext(spec)
    cls = t.classes[spec["name"]]
    pre = {"tree": H.ser_node(cls), "symbols": H.symtab(cls)}
    want_raise = bool(desc["bad"])
    want = {}
    dset = set(desc["der"])
    for s in spec["symbols"]:
        p = list(s["prefixes"])
        if s["name"] in dset and "state" not in p:
            p.append("state")
        want[s["name"]] = p
    raised = None
    try:
        ptree.annotate_states(cls)
    except AssertionError:
        raised = "AssertionError"
    except Exception as e:
        raised = type(e).__name__
    got = {k: list(s.prefixes) for k, s in cls.symbols.items()}
    if raised and not want_raise:
        ctx.violation("annotate_states raised %s" % raised, case, expected=want, observed=raised, kind="input")
    elif not raised and not want_raise and got != want:
        ctx.violation("annotate_states: 'state' prefixes differ from the set of symbols referenced under der()", case,
                      expected=want, observed=got, kind="input")
    if drv is not None:
        ans = drv.ask(dict(model_request(pre), op="annotate"))
        if not ans.get("ok"):
            raise HarnessError("drv_c10 rejected the case: %s" % ans)
        if bool(ans.get("raised")) != bool(raised):
            ctx.disagreement("annotate.raised", case, ans.get("raised"), raised)
        elif not raised and ans["prefixes"] != got:
            ctx.disagreement("annotate.prefixes", case, ans["prefixes"], got)
    return got


def nontrivial(case, got):
    if case["kind"] == "annot":
        return bool(desc_of_ast_spec(case["spec"])["der"])
    desc = case["desc"] if case["kind"] == "text" else desc_of_ast_spec(case["spec"])
    if not desc["der"] or got is None:
        return False
    return sum(1 for k in ("states", "alg_states", "inputs", "parameters", "constants", "string_parameters",
                           "string_constants") if got[k]) >= 3


def buckets(ctx, case, got):
    ctx.count("stream-" + case["kind"])
    if got is None or case["kind"] == "annot":
        return
    for k in LISTS:
        if got[k]:
            ctx.count("nonempty-" + k)
    desc = case["desc"] if case["kind"] == "text" else desc_of_ast_spec(case["spec"])
    ctx.count("vars-%02d" % (10 * (len(desc["vars"]) // 10)))
    for v in desc["vars"]:
        p = v["prefixes"]
        if v["name"] in desc["der"]:
            for q in ("constant", "parameter", "input"):
                if q in p:
                    ctx.count("der-on-" + q)
            if v.get("nested"):
                ctx.count("der-on-nested")
        if len(set(p) & {"constant", "parameter", "input"}) >= 2:
            ctx.count("two-category-prefixes")
        if v.get("nested") and "input" in p:
            ctx.count("nested-input")
        if v.get("nested") and v.get("derived") and ("input" in p or "output" in p):
            ctx.count("nested-derived-type-input-or-output")
        if v.get("nested") and v["dims"] and 0 not in v["dims"]:
            ctx.count("nested-array")
        if v.get("derived"):
            ctx.count("derived-type")
        if 0 in v["dims"]:
            ctx.count("empty-array")
    if desc.get("ndelay"):
        ctx.count("with-delay")


# =============================================================================================
# translator: the category table of the code under test (Generated/ClassifyTable.lean)
# =============================================================================================
KEYS = ["constant", "parameter", "input", "state"]
CAT_LEAN = {"constants": ".const", "parameters": ".param", "inputs": ".input", "states": ".state", "alg_states": ".alg"}


def probe_prefix_lists():
    """All 16 subsets of the category-deciding prefixes, each in declaration order and reversed (32 lists;
    index = bitmask over KEYS, then 16 + bitmask for the reversed spelling)."""
    fw = [[k for j, k in enumerate(KEYS) if m >> j & 1] for m in range(16)]
    return fw + [list(reversed(x)) for x in fw]


def observe_category_table():
    """Runs the real generator on one hand-built flat class with one Real variable per probe prefix list and reads off
    the list each variable landed in (None: in no list / in several / generate raised)."""
    H.quiet_pymoca()
    from pymoca.backends.casadi import generator
    pls = probe_prefix_lists()
    spec = {"name": "Probe", "symbols": [{"name": "v%d" % i, "type": "Real", "prefixes": pl, "order": i, "dims": []}
                                         for i, pl in enumerate(pls)], "equations": [], "initial_equations": []}
    try:
        model = generator.generate(build_ast_ext(spec), "Probe", None)
        got = impl_lists(model)
    except Exception:
        return [(pl, None) for pl in pls]
    out = []
    for i, pl in enumerate(pls):
        where = [k for k in CAT_LEAN if "v%d" % i in got[k]]
        out.append((pl, where[0] if len(where) == 1 else None))
    return out


def translate(ctx):
    """Regenerates Generated/ClassifyTable.lean from the behaviour of the sources under test; Props/C10.lean proves that the
    table equals `catOf` on all 32 probes (`source_table_agrees`) and that `catOf` of ANY prefix list is the table entry of
    its key set (`current_code_category`)."""
    import os
    from harness import common
    tab = observe_category_table()

    def ls(pl):
        return "[" + ", ".join(json.dumps(x) for x in pl) + "]"
    body = ",\n".join("  (%s, %s)" % (ls(pl), "some " + CAT_LEAN[c] if c else "none") for pl, c in tab)
    text = ("import PymocaVerif.Model.Classify\n"
            "/-! GENERATED by harness/props/c10.py (`translate`) from the behaviour of `Generator.exitClass` of the pymoca sources\n"
            "    under test on one probe class (one Real variable per subset of the category-deciding prefixes, in both\n"
            "    spellings); do not edit.  Regenerated (only when different) at the start of every C10 run. -/\n"
            "namespace PymocaVerif.Generated.ClassifyTable\nopen PymocaVerif.Classify\n\n"
            "/-- (prefix list of the probe variable, the list of `Model` it was placed in) -/\n"
            "def observed : List (List String × Option Cat) := [\n" + body + "]\n\n"
            "end PymocaVerif.Generated.ClassifyTable\n")
    path = os.path.join(common.LEAN_DIR, "PymocaVerif", "Generated", "ClassifyTable.lean")
    old = open(path).read() if os.path.exists(path) else None
    if old != text:
        with open(path, "w") as f:
            f.write(text)
    ctx.extra["translator"] = {"file": "Generated/ClassifyTable.lean", "probes": len(tab),
                               "unplaced": sum(1 for _, c in tab if c is None)}


def run(ctx):
    drv = ctx.driver("drv_c10")
    ctx.extra["lean_results"] = LEAN_RESULTS
    from harness import corpus
    for c in corpus.load("C10"):
        ctx.count("corpus")
        c = {k: v for k, v in c.items() if not k.startswith("_")}
        ctx.case(c, nontrivial=True)
        check_case(ctx, c, drv)
    quick = ctx.tier == "quick"
    n_text, n_ast, n_annot = (450, 350, 550) if quick else (12000, 9000, 14000)
    plan = [("finding", 3 if quick else 20), ("shadow", 3 if quick else 20), ("text", n_text), ("ast", n_ast),
            ("annot", n_annot)]
    for stream, n in plan:
        for i in range(n):
            if ctx.time_left() < 0:
                ctx.notes.append("stream %s stopped by the time budget after %d cases" % (stream, i))
                break
            if stream == "text":
                case = TextGen(ctx.rng).make()
            elif stream == "finding":
                case = TextGen(ctx.rng, finding_stream=True).make()
            elif stream == "shadow":
                case = TextGen(ctx.rng, finding_stream="shadow").make()
            else:
                case = gen_ast_case(ctx.rng, stream == "annot")
            got = check_case(ctx, case, drv)
            ctx.case(case, nontrivial=nontrivial(case, got))
            buckets(ctx, case, got)


def replay(ctx, payload):
    check_case(ctx, payload["case"], ctx.driver("drv_c10"))


LEAN_RESULTS = [
    "der_found_anywhere / annotate_state_iff / annotate_fails_iff: the counter-driven StateAnnotator marks exactly the symbols referenced below a der() at any depth",
    "partition / exactly_one: the category lists are a permutation of the non-empty symbols; with distinct names nothing is listed twice",
    "precedence: constant, parameter, input, state, algebraic — first match; String constants/parameters in the string lists",
    "order_preserved: every list is a subsequence of the symbols stably sorted by declaration order",
    "one_derivative_per_state, outputs_exact, attribute_error_iff (C10-F1), states_iff_differentiated (end to end)",
    "nested_io_stripped / input_output_only_at_top_level: flatten_symbols removes input/output from symbols of nested instances whatever the kind of their type (elementary or derived), so they are never classified as top-level inputs nor listed as outputs",
]

MANIFEST = dict(
    level_text="Lean 4 theorems about an executable model of StateAnnotator (a counter-driven listener over the walk "
               "events, proved equal to the structural 'referenced under der at any depth' specification) and of "
               "Generator.exitClass (stable sort by declaration order, first-match category split, String lists, "
               "derivative names, outputs) and of the input/output stripping of flatten_symbols for nested instances (elementary "
               "and derived types): partition (the category lists are a permutation of the non-empty symbols), "
               "precedence, order preservation, one derivative per state, exact outputs; all for arbitrary symbol "
               "tables and trees. Tied to the real code on every run by a differential correspondence on the real flat "
               "AST captured at the annotate_states stage boundary (generated Modelica files, hand-built flat classes "
               "with prefix combinations the parser cannot produce, and annotate_states alone on deep random trees) "
               "plus a direct oracle that recomputes every list from the case description; and by a translator: the category the "
               "real Generator.exitClass gives to each of the 16 subsets of the deciding prefixes (both spellings) is read off "
               "the sources under test into Generated/ClassifyTable.lean on every run, `source_table_agrees` is the proof "
               "obligation over it and `catOf_keys` lifts the finite table to every prefix list (`current_code_category`).",
    level_note="Trusted: Lean kernel + standard axioms; the harness (generators, AST serialiser, direct oracle); "
               "MX.is_empty and Python's stable sort as documented. The model, not the Python, is what the theorems "
               "are about.",
    technique="Lean 4 proof (refinement of a listener state machine to a structural specification; permutation/sublist "
              "reasoning over a stable sort; finite category table regenerated from the sources and lifted by a lemma) + "
              "source translator + model/implementation correspondence + direct oracle",
)
READY = True
