"""Predicates of the open findings of C05."""
from harness.common import known_predicate


def _xref_targets(case):
    out = set()
    for e in case.get("xrefs") or []:
        rhs = e.split("=")[-1].strip().rstrip(";").strip()
        if "." in rhs:
            out.add(rhs.split(".")[0])
    return out


@known_predicate
def c05_classpath_symbol_written(case, what):
    """C05-F1: a class refers to an input/output symbol of another class by class path (`x = M0.u`);
    flattening a class that instantiates the referring class strips the prefix from M0's own symbol
    in the parsed tree; the failing request is then a request for that class M0."""
    if not case.get("xrefs") or "requests" not in case or "upto" not in case:
        return False
    op, path = case["requests"][case["upto"] - 1]
    return path[0] in _xref_targets(case) and "after earlier requests on the same tree" in what
