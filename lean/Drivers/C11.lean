/-! Driver for C11 (stub: not built yet). -/
def main : IO Unit := pure ()
