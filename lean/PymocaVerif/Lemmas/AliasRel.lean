import PymocaVerif.Model.AliasRel
/-!
Helper lemmas for C17: the class structure (`_aliases`) invariant of `AliasRelation.add`.
Ported from the design-phase spike; extended in `Props/C17.lean`.
-/
namespace PymocaVerif.AliasRel

@[simp] theorem tog_tog (v : SName) : tog (tog v) = v := by
  cases v with | mk n s => cases n <;> rfl

theorem tog_ne (v : SName) : tog v ≠ v := by
  cases v with | mk n s => cases n <;> simp [tog]

theorem tog_inj {u v : SName} (h : tog u = tog v) : u = v := by
  have := congrArg tog h; simpa using this

/-- the `_aliases` part of `add` when the early return is not taken -/
def AR.addAl (s : AR) (a b : SName) : SName → Option (List SName) :=
  let A' := s.aliases a ++ s.aliases b
  let I' := s.aliases (tog a) ++ s.aliases (tog b)
  fun k => if k ∈ A' then some A' else if tog k ∈ A' then some I' else s.al k

structure ARInv (s : AR) : Prop where
  self_mem : ∀ x A, s.al x = some A → x ∈ A
  shared : ∀ x A y, s.al x = some A → y ∈ A → ∃ B, s.al y = some B ∧ ∀ z, z ∈ B ↔ z ∈ A
  neg : ∀ x A, s.al x = some A → ∃ B, s.al (tog x) = some B ∧ ∀ z, z ∈ B ↔ tog z ∈ A
  noself : ∀ x A, s.al x = some A → tog x ∉ A

theorem mem_aliases_self (s : AR) (h : ARInv s) (x : SName) : x ∈ s.aliases x := by
  unfold AR.aliases
  cases hx : s.al x with
  | none => simp
  | some A => simpa using h.self_mem x A hx

/-- membership in a class is symmetric -/
theorem aliases_symm (s : AR) (h : ARInv s) {x y : SName} (hy : y ∈ s.aliases x) : x ∈ s.aliases y := by
  unfold AR.aliases at hy ⊢
  cases hx : s.al x with
  | none =>
    simp [hx] at hy; subst hy; simp [hx]
  | some A =>
    simp [hx] at hy
    obtain ⟨B, hB, hBA⟩ := h.shared x A y hx hy
    simp [hB]; exact (hBA x).2 (h.self_mem x A hx)

/-- classes are equal as sets for related elements -/
theorem aliases_eq_of_mem (s : AR) (h : ARInv s) {x y : SName} (hy : y ∈ s.aliases x) :
    ∀ z, z ∈ s.aliases y ↔ z ∈ s.aliases x := by
  intro z
  unfold AR.aliases at hy ⊢
  cases hx : s.al x with
  | none =>
    simp [hx] at hy; subst hy; simp [hx]
  | some A =>
    simp [hx] at hy
    obtain ⟨B, hB, hBA⟩ := h.shared x A y hx hy
    simp [hB]; exact hBA z

/-- negation acts on classes -/
theorem aliases_tog (s : AR) (h : ARInv s) (x z : SName) : z ∈ s.aliases (tog x) ↔ tog z ∈ s.aliases x := by
  unfold AR.aliases
  cases hx : s.al x with
  | none =>
    cases hnx : s.al (tog x) with
    | none =>
      simp
      constructor
      · intro e; subst e; simp
      · intro e; exact (tog_inj (by simpa using e))
    | some B =>
      obtain ⟨C, hC, _⟩ := h.neg (tog x) B hnx
      simp [hx] at hC
  | some A =>
    obtain ⟨B, hB, hBA⟩ := h.neg x A hx
    simp [hB]; exact hBA z

/-- Characterisation of classes after `add` (aliases part of C17's `add_refines`). -/
theorem mem_aliases_add (s s' : AR) (a b x y : SName) (hs' : s'.al = s.addAl a b) :
    y ∈ s'.aliases x ↔
      (if x ∈ s.aliases a ++ s.aliases b then y ∈ s.aliases a ++ s.aliases b
       else if tog x ∈ s.aliases a ++ s.aliases b then y ∈ s.aliases (tog a) ++ s.aliases (tog b)
       else y ∈ s.aliases x) := by
  unfold AR.aliases
  rw [hs']
  unfold AR.addAl AR.aliases
  split
  · simp
  · split
    · simp
    · rfl


theorem tog_not_mem_aliases (s : AR) (h : ARInv s) (x : SName) : tog x ∉ s.aliases x := by
  unfold AR.aliases
  cases hx : s.al x with
  | none => simp; exact tog_ne x
  | some A => simpa using h.noself x A hx

/-- transitivity in the form used below -/
theorem aliases_trans (s : AR) (h : ARInv s) {x y z : SName} (hy : y ∈ s.aliases x) (hz : z ∈ s.aliases y) :
    z ∈ s.aliases x := (aliases_eq_of_mem s h hy z).1 hz

/-- `A' = class a ∪ class b` does not meet its own negation, provided `b` is not in the class of `-a`. -/
theorem disjoint_neg (s : AR) (h : ARInv s) (a b : SName) (hpre : b ∉ s.aliases (tog a)) :
    ∀ k, k ∈ s.aliases a ++ s.aliases b → tog k ∉ s.aliases a ++ s.aliases b := by
  intro k hk hnk
  simp only [List.mem_append] at hk hnk
  have sym := @aliases_symm s h
  have tr := @aliases_trans s h
  -- helper: u ∈ class v, tog u ∈ class v is impossible
  have noboth : ∀ u v, u ∈ s.aliases v → tog u ∈ s.aliases v → False := by
    intro u v hu hnu
    have : tog u ∈ s.aliases u := tr (sym hu) hnu
    exact tog_not_mem_aliases s h u this
  -- helper: k ∈ class a, tog k ∈ class b  ⇒ b ∈ class (tog a)
  have cross : ∀ k a b, k ∈ s.aliases a → tog k ∈ s.aliases b → b ∈ s.aliases (tog a) := by
    intro k a b hka hnkb
    -- tog k ∈ class (tog a)
    have h1 : tog k ∈ s.aliases (tog a) := (aliases_tog s h a (tog k)).2 (by simpa using hka)
    -- b ∈ class (tog k)
    have h2 : b ∈ s.aliases (tog k) := sym hnkb
    exact tr h1 h2
  rcases hk with hk | hk <;> rcases hnk with hnk | hnk
  · exact noboth k a hk hnk
  · exact hpre (cross k a b hk hnk)
  · -- k ∈ class b, tog k ∈ class a : then a ∈ class (tog b), hence b ∈ class (tog a)
    have h1 : a ∈ s.aliases (tog b) := cross k b a hk hnk
    have h2 : tog a ∈ s.aliases b := by
      have := (aliases_tog s h b a).1 h1
      exact this
    exact hpre (sym h2)
  · exact noboth k b hk hnk

theorem addAl_inv (s s' : AR) (h : ARInv s) (a b : SName) (hpre : b ∉ s.aliases (tog a))
    (hs' : s'.al = s.addAl a b) : ARInv s' := by
  have disj := disjoint_neg s h a b hpre
  have sym := @aliases_symm s h
  have tr := @aliases_trans s h
  have memI : ∀ z, z ∈ s.aliases (tog a) ++ s.aliases (tog b) ↔ tog z ∈ s.aliases a ++ s.aliases b := by
    intro z; simp only [List.mem_append, aliases_tog s h]
  -- elements related to something in A' are in A'
  have closed : ∀ x y, x ∈ s.aliases a ++ s.aliases b → y ∈ s.aliases x → y ∈ s.aliases a ++ s.aliases b := by
    intro x y hx hy
    simp only [List.mem_append] at hx ⊢
    rcases hx with hx | hx
    · exact Or.inl (tr hx hy)
    · exact Or.inr (tr hx hy)
  have al' : ∀ k, s'.al k =
      if k ∈ s.aliases a ++ s.aliases b then some (s.aliases a ++ s.aliases b)
      else if tog k ∈ s.aliases a ++ s.aliases b then some (s.aliases (tog a) ++ s.aliases (tog b))
      else s.al k := by
    intro k; rw [hs']; rfl
  -- old class of an element outside A' ∪ -A'
  have old_class : ∀ x A, s.al x = some A → ∀ y, y ∈ A ↔ y ∈ s.aliases x := by
    intro x A hx y; simp [AR.aliases, hx]
  refine ⟨?_, ?_, ?_, ?_⟩
  · intro x S hS
    rw [al'] at hS
    split at hS
    · next hx => cases hS; exact hx
    · split at hS
      · next _ hnx => cases hS; exact (memI x).2 hnx
      · exact h.self_mem x S hS
  · intro x S y hS hy
    rw [al'] at hS
    split at hS
    · next hx =>
      cases hS
      exact ⟨_, by rw [al']; simp [hy], fun _ => Iff.rfl⟩
    · split at hS
      · next hx hnx =>
        cases hS
        have hny : tog y ∈ s.aliases a ++ s.aliases b := (memI y).1 hy
        have hy' : y ∉ s.aliases a ++ s.aliases b := fun hyA => disj y hyA hny
        exact ⟨_, by rw [al']; simp [hy', hny], fun _ => Iff.rfl⟩
      · next hx hnx =>
        have hyx : y ∈ s.aliases x := (old_class x S hS y).1 hy
        have hy1 : y ∉ s.aliases a ++ s.aliases b := fun hyA => hx (closed y x hyA (sym hyx))
        have hy2 : tog y ∉ s.aliases a ++ s.aliases b := by
          intro hnyA
          have : tog x ∈ s.aliases (tog y) := (aliases_tog s h y (tog x)).2 (by simpa using sym hyx)
          exact hnx (closed (tog y) (tog x) hnyA this)
        obtain ⟨B, hB, hBS⟩ := h.shared x S y hS hy
        exact ⟨B, by rw [al']; simp [hy1, hy2, hB], hBS⟩
  · intro x S hS
    rw [al'] at hS
    split at hS
    · next hx =>
      cases hS
      have h1 : tog x ∉ s.aliases a ++ s.aliases b := disj x hx
      refine ⟨s.aliases (tog a) ++ s.aliases (tog b), by rw [al']; simp [h1, hx], ?_⟩
      intro z; exact memI z
    · split at hS
      · next hx hnx =>
        cases hS
        refine ⟨s.aliases a ++ s.aliases b, by rw [al']; simp [hnx], ?_⟩
        intro z; rw [memI]; simp
      · next hx hnx =>
        obtain ⟨B, hB, hBS⟩ := h.neg x S hS
        refine ⟨B, by rw [al']; simp [hnx, hx, hB], hBS⟩
  · intro x S hS
    rw [al'] at hS
    split at hS
    · next hx => cases hS; exact disj x hx
    · split at hS
      · next hx hnx => cases hS; intro hc; exact hx (by simpa using (memI (tog x)).1 hc)
      · exact h.noself x S hS

theorem empty_inv : ARInv AR.empty where
  self_mem := by intro x A h; cases h
  shared := by intro x A y h; cases h
  neg := by intro x A h; cases h
  noself := by intro x A h; cases h


end PymocaVerif.AliasRel
