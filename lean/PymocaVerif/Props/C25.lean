/-! # C25 — property theorems (stub: not built yet) -/
