import itertools, random, sys
from pymoca.backends.casadi.alias_relation import AliasRelation
# spec: signed partition with representative
def tog(v): return v[1:] if v[0]=="-" else "-"+v
class Spec:
    def __init__(s): s.cls = {}; s.canon = {}   # name -> frozenset ; name -> (c, sign)
    def klass(s, a): return s.cls.get(a, frozenset([a]))
    def csign(s, a):
        if a in s.canon: return s.canon[a]
        return (a[1:], -1) if a[0]=="-" else (a, 1)
    def add(s, a, b):
        if b in s.klass(a): return
        ca, sa = s.csign(a)
        new = s.klass(a) | s.klass(b); inv = frozenset(tog(v) for v in new)
        for v in new: s.cls[v] = new; s.canon[v] = (ca, sa)
        for v in inv: s.cls[v] = inv; s.canon[v] = (ca, -sa)
    def canon_vars(s): return {c for (c, _) in s.canon.values()}
    def remove(s, a):
        if a not in s.canon_vars(): return
        for v in list(s.klass(a) | s.klass(tog(a))): del s.cls[v]; del s.canon[v]
    def copy(s):
        n = Spec(); n.cls = dict(s.cls); n.canon = dict(s.canon); return n
names = ["a","b","c"]; sn = names + ["-"+n for n in names]
def obs(r):
    o = {}
    for v in sn:
        o[v] = (frozenset(r.aliases(v)), r.canonical_signed(v))
    return o
def obs_spec(s):
    return {v: (s.klass(v), s.csign(v)) for v in sn}
def run(hist):
    R = {0: AliasRelation()}; S = {0: Spec()}
    for step, op in enumerate(hist):
        k = op[0]
        try:
            if k == "add":
                _, h, a, b = op
                if h not in R: continue
                if b in S[h].klass(tog(a)) or a == tog(b): continue   # would relate var to own negation: precondition
                R[h].add(a, b); S[h].add(a, b)
            elif k == "rm":
                _, h, a = op
                if h not in R: continue
                R[h].remove(a); S[h].remove(a)
            elif k == "cp":
                _, h, h2 = op
                if h not in R: continue
                R[h2] = R[h].copy(); S[h2] = S[h].copy()
        except Exception as e:
            return step, "EXC %s %s" % (type(e).__name__, e)
        for h in R:
            if obs(R[h]) != obs_spec(S[h]): return step, ("obs differ", h, {v:(obs(R[h])[v], obs_spec(S[h])[v]) for v in sn if obs(R[h])[v]!=obs_spec(S[h])[v]})
            if set(R[h].canonical_variables) != S[h].canon_vars(): return step, ("canon vars differ", h, R[h].canonical_variables, S[h].canon_vars())
            it = {c: frozenset(al) for c, al in R[h]}
            exp = {c: frozenset(S[h].klass(c)) - {c} for c in S[h].canon_vars()}
            if it != exp: return step, ("iter differ", it, exp)
    return None
rng = random.Random(1)
bad = 0
for n in range(30000):
    hist = []
    for _ in range(rng.randint(1, 10)):
        r = rng.random()
        if r < 0.6: hist.append(("add", rng.randint(0,1), rng.choice(sn), rng.choice(sn)))
        elif r < 0.85: hist.append(("rm", rng.randint(0,1), rng.choice(sn)))
        else: hist.append(("cp", 0, 1))
    res = run(hist)
    if res:
        bad += 1
        if bad <= 5: print(hist[:res[0]+1], "->", res[1])
print("bad", bad)
