import PymocaVerif.Model.XmlTree
/-! Helper lemmas for C25: `decode` after `encode`, by mutual structural induction. -/
namespace PymocaVerif.XmlTree

theorem encEs_length : ∀ es, (encEs es).length = es.length
  | [] => rfl
  | e :: es => by simp [encEs, encEs_length es]

theorem encEs_eq_map : ∀ es, encEs es = es.map encE
  | [] => rfl
  | e :: es => by simp [encEs, encEs_eq_map es]

theorem encQs_eq_map : ∀ qs, encQs qs = qs.map encQ
  | [] => rfl
  | q :: qs => by simp [encQs, encQs_eq_map qs]

mutual
theorem decE_encE : ∀ e, okE e = true → decE (encE e) = some e
  | .lit t, _ => by simp [encE, decE]
  | .ref n, _ => by simp [encE, decE]
  | .other k, h => by simp [okE] at h
  | .op n args, h => by
    have hok : okEs args = true := by simpa [okE] using h
    have ih := decEs_encEs args hok
    have hl := encEs_length args
    unfold encE
    split
    · rename_i k hk
      rw [hk] at ih hl
      match args, hl, ih with
      | [a], _, ih =>
        simp only [decEs] at ih
        cases hd : decE k with
        | none => simp [hd] at ih
        | some e =>
          simp [hd] at ih
          subst ih
          simp [decE, hd]
    · rename_i hne
      cases hks : encEs args with
      | nil => rw [hks] at ih; simp [decE, ih]
      | cons k ks =>
        cases ks with
        | nil => exact absurd hks (hne k)
        | cons k2 ks2 => rw [hks] at ih; simp [decE, ih]
theorem decEs_encEs : ∀ es, okEs es = true → decEs (encEs es) = some es
  | [], _ => rfl
  | e :: es, h => by
    have h' : okE e = true ∧ okEs es = true := by simpa [okEs] using h
    simp [encEs, decEs, decE_encE e h'.1, decEs_encEs es h'.2]
end

mutual
theorem decQ_encQ (cfg : Cfg) : ∀ q, okQ cfg q = true → decQ (encQ q) = some (keptQ q)
  | .equal l r, h => by
    have h' : okE l = true ∧ okE r = true := by simpa [okQ] using h
    simp [encQ, decQ, keptQ, decE_encE l h'.1, decE_encE r h'.2]
  | .call n args, h => by
    have h' : okEs args = true := by simpa [okQ] using h
    simp [encQ, decQ, keptQ, decEs_encEs args h']
  | .other k, h => by simp [okQ] at h
  | .when c b ec eb, h => by
    have h' : okE c = true ∧ okQs cfg b = true := by
      simp only [okQ, Bool.and_eq_true] at h
      exact ⟨h.1.1.1.1, h.1.1.1.2⟩
    have ih := decQs_encQs cfg b h'.2
    simp [encQ, decQ, keptQ, decE_encE c h'.1, ih]
theorem decQs_encQs (cfg : Cfg) : ∀ qs, okQs cfg qs = true → decQs (encQs qs) = some (keptQs qs)
  | [], _ => rfl
  | q :: qs, h => by
    have h' : okQ cfg q = true ∧ okQs cfg qs = true := by simpa [okQs] using h
    simp [encQs, decQs, keptQs, decQ_encQ cfg q h'.1, decQs_encQs cfg qs h'.2]
end

theorem okAttr_okE (cfg : Cfg) (e : Expr) (h : okAttr cfg (some e) = true) : okE e = true := by
  cases e with
  | lit t => rfl
  | ref n => rfl
  | op n args => simpa [okAttr] using (by simpa [okAttr] using h : cfg.exprAttrs = true ∧ okE (.op n args) = true).2
  | other k => simp [okAttr, okE] at h

theorem decVar_encVar (cfg : Cfg) (v : Var) (h : okVar cfg v = true) : decVar (encVar v) = some (keptVar v) := by
  obtain ⟨name, type, prefixes, start, value, fixed⟩ := v
  have h' : okAttr cfg start = true ∧ okAttr cfg value = true := by simpa [okVar] using h
  cases start with
  | none =>
    cases value with
    | none =>
      cases fixed <;> cases hv : variabilityOf prefixes <;>
        simp [encVar, decVar, decItems, encItem, keptVar, hv]
    | some b =>
      have hb := decE_encE b (okAttr_okE cfg b h'.2)
      cases fixed <;> cases hv : variabilityOf prefixes <;>
        simp [encVar, decVar, decItems, encItem, keptVar, hv, hb]
  | some a =>
    have ha := decE_encE a (okAttr_okE cfg a h'.1)
    cases value with
    | none =>
      cases fixed <;> cases hv : variabilityOf prefixes <;>
        simp [encVar, decVar, decItems, encItem, keptVar, hv, ha]
    | some b =>
      have hb := decE_encE b (okAttr_okE cfg b h'.2)
      cases fixed <;> cases hv : variabilityOf prefixes <;>
        simp [encVar, decVar, decItems, encItem, keptVar, hv, ha, hb]

theorem encVar_tag (v : Var) : ∃ a k, encVar v = .node "component" a k := ⟨_, _, rfl⟩

theorem decBody_enc (cfg : Cfg) (qs : List Eqn) (hq : okQs cfg qs = true) :
    ∀ vs : List Var, vs.all (okVar cfg) = true →
      decBody (vs.map encVar ++ [.node "equation" [] (encQs qs)]) = some (vs.map keptVar, keptQs qs)
  | [], _ => by simp [decBody, decQs_encQs cfg qs hq]
  | v :: vs, h => by
    have h' : okVar cfg v = true ∧ vs.all (okVar cfg) = true := by simpa using h
    have ih := decBody_enc cfg qs hq vs h'.2
    have hv := decVar_encVar cfg v h'.1
    obtain ⟨a, k, hk⟩ := encVar_tag v
    -- the tail is not empty, so the "single <equation>" alternative does not apply
    cases htl : vs.map encVar ++ [Xml.node "equation" [] (encQs qs)] with
    | nil => simp at htl
    | cons t ts =>
      rw [htl] at ih
      simp only [List.map_cons, List.cons_append, htl]
      rw [hk] at hv ⊢
      simp [decBody, hv, ih]

theorem decCls_encCls (cfg : Cfg) (c : Cls) (h : okCls cfg c = true) : decCls (encCls c) = some (keptCls c) := by
  have h' : c.vars.all (okVar cfg) = true ∧ okQs cfg c.eqs = true := by simpa [okCls] using h
  simp [encCls, decCls, keptCls, decBody_enc cfg c.eqs h'.2 c.vars h'.1]

theorem decClss_enc (cfg : Cfg) : ∀ cs : List Cls, cs.all (okCls cfg) = true →
    decClss (cs.map encCls) = some (cs.map keptCls)
  | [], _ => rfl
  | c :: cs, h => by
    have h' : okCls cfg c = true ∧ cs.all (okCls cfg) = true := by simpa using h
    simp [decClss, decCls_encCls cfg c h'.1, decClss_enc cfg cs h'.2]

theorem decode_encode (cfg : Cfg) (m : Flat) (x : Xml) (h : encode cfg m = some x) : decode x = some (kept m) := by
  unfold encode at h
  by_cases hok : m.classes.all (okCls cfg) = true
  · rw [if_pos hok] at h
    have := Option.some.inj h
    subst this
    simp [enc, decode, kept, decClss_enc cfg m.classes hok]
  · rw [if_neg hok] at h; cases h


mutual
theorem keptQ_self : ∀ q, noElseQ q = true → keptQ q = q
  | .equal l r, _ => rfl
  | .call n a, _ => rfl
  | .other k, _ => rfl
  | .when c b ec eb, h => by
    have h' : (noElseQs b = true ∧ ec = []) ∧ eb = [] := by
      simpa [noElseQ, List.isEmpty_iff] using h
    obtain ⟨⟨hb, rfl⟩, rfl⟩ := h'
    simp [keptQ, keptQs_self b hb]
theorem keptQs_self : ∀ qs, noElseQs qs = true → keptQs qs = qs
  | [], _ => rfl
  | q :: qs, h => by
    have h' : noElseQ q = true ∧ noElseQs qs = true := by simpa [noElseQs] using h
    simp [keptQs, keptQ_self q h'.1, keptQs_self qs h'.2]
end

theorem variabilityOf_mem (ps : List String) (w : String) (h : variabilityOf ps = some w) :
    w ∈ ["discrete", "continuous", "parameter", "constant"] ∧ w ∈ ps := by
  unfold variabilityOf at h
  have h1 := List.mem_of_find?_eq_some h
  have h2 := List.find?_some h
  exact ⟨h1, by simpa using h2⟩

theorem variabilityOf_single (w : String) (h : w ∈ ["discrete", "continuous", "parameter", "constant"]) :
    variabilityOf [w] = some w := by
  simp only [List.mem_cons, List.mem_nil_iff, or_false] at h
  rcases h with rfl | rfl | rfl | rfl <;> decide

theorem variabilityOf_kept (ps : List String) :
    variabilityOf (variabilityOf ps).toList = variabilityOf ps := by
  cases h : variabilityOf ps with
  | none => decide
  | some w => exact variabilityOf_single w (variabilityOf_mem ps w h).1

/-- which prefix wins -/
theorem variabilityOf_spec (ps : List String) :
    (variabilityOf ps = some "discrete" ↔ "discrete" ∈ ps) ∧
    (variabilityOf ps = some "continuous" ↔ "discrete" ∉ ps ∧ "continuous" ∈ ps) ∧
    (variabilityOf ps = some "parameter" ↔ "discrete" ∉ ps ∧ "continuous" ∉ ps ∧ "parameter" ∈ ps) ∧
    (variabilityOf ps = some "constant" ↔
      "discrete" ∉ ps ∧ "continuous" ∉ ps ∧ "parameter" ∉ ps ∧ "constant" ∈ ps) ∧
    (variabilityOf ps = none ↔
      "discrete" ∉ ps ∧ "continuous" ∉ ps ∧ "parameter" ∉ ps ∧ "constant" ∉ ps) := by
  unfold variabilityOf
  by_cases h1 : "discrete" ∈ ps <;> by_cases h2 : "continuous" ∈ ps <;> by_cases h3 : "parameter" ∈ ps <;>
    by_cases h4 : "constant" ∈ ps <;> simp [List.find?, h1, h2, h3, h4]


mutual
theorem noElseQ_of_ok (cfg : Cfg) (hc : cfg.rejectElse = true) : ∀ q, okQ cfg q = true → noElseQ q = true
  | .equal l r, _ => rfl
  | .call n a, _ => rfl
  | .other k, h => by simp [okQ] at h
  | .when c b ec eb, h => by
    simp only [okQ, Bool.and_eq_true, hc, Bool.not_true, Bool.false_or] at h
    have hb := noElseQs_of_ok cfg hc b h.1.1.1.2
    simp [noElseQ, hb, h.2.1, h.2.2]
theorem noElseQs_of_ok (cfg : Cfg) (hc : cfg.rejectElse = true) : ∀ qs, okQs cfg qs = true → noElseQs qs = true
  | [], _ => rfl
  | q :: qs, h => by
    have h' : okQ cfg q = true ∧ okQs cfg qs = true := by simpa [okQs] using h
    simp [noElseQs, noElseQ_of_ok cfg hc q h'.1, noElseQs_of_ok cfg hc qs h'.2]
end

theorem noElse_of_encode (cfg : Cfg) (hc : cfg.rejectElse = true) (m : Flat) (x : Xml)
    (h : encode cfg m = some x) : noElse m = true := by
  unfold encode at h
  by_cases hok : m.classes.all (okCls cfg) = true
  · unfold noElse
    rw [List.all_eq_true] at hok ⊢
    intro c hcm
    have := hok c hcm
    have h' : c.vars.all (okVar cfg) = true ∧ okQs cfg c.eqs = true := by simpa [okCls] using this
    exact noElseQs_of_ok cfg hc c.eqs h'.2
  · rw [if_neg hok] at h; cases h

end PymocaVerif.XmlTree
